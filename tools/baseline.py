#!/usr/bin/env python3
"""Run the repository's pinned test suite (guard OFF) and compare with /root/.vp/BASELINE.json.
Exit 0 iff every stable_pass test passes."""
import json, os, subprocess, sys, tempfile, xml.etree.ElementTree as ET
base = json.load(open('/root/.vp/BASELINE.json'))
out = tempfile.mktemp(suffix='.xml')
env = dict(os.environ)
env.pop('MITX_GRADING_LIBRARY_VERIF', None)
cmd = base['cmd'].replace('<file>', out)
subprocess.run(cmd, shell=True, env=env, stdout=subprocess.DEVNULL, stderr=subprocess.DEVNULL)
passed = set()
for tc in ET.parse(out).getroot().iter('testcase'):
    bad = any(c.tag in ('failure', 'error', 'skipped') for c in tc)
    if not bad:
        passed.add('%s::%s' % (tc.get('classname'), tc.get('name')))
os.unlink(out)
missing = [t for t in base['stable_pass'] if t not in passed]
print('passed=%d stable=%d missing=%d' % (len(passed), len(base['stable_pass']), len(missing)))
for m in missing:
    print('  MISSING', m)
sys.exit(1 if missing else 0)

#!/usr/bin/env python3-vt
"""validate MANIFEST.json and every evidence file against the schemas in /root/.vp"""
import json, glob, sys, jsonschema
ok = True
def v(path, schema):
    global ok
    try:
        jsonschema.validate(json.load(open(path)), json.load(open(schema)))
        print('valid  ', path)
    except Exception as e:
        ok = False
        print('INVALID', path, str(e)[:300])
v('/verif/MANIFEST.json', '/root/.vp/MANIFEST.schema.json')
for p in sorted(glob.glob('/verif/evidence/*.json')):
    v(p, '/root/.vp/EVIDENCE.schema.json')
sys.exit(0 if ok else 1)

#!/usr/bin/env python3
"""Regenerates /verif/MANIFEST.json from the table below (single source of truth for the check list)."""
import json, os
V = '/verif'
ALL = ['C%02d' % i for i in range(1, 21)]
PROOF_NOTE = ('Theorems are about the hand-written executable Lean model; the tie to the Python source is the correspondence run '
              '(model and implementation on the same generated inputs, exact comparison) redone on every invocation against /repo\'s working tree. '
              'Trusted: Lean 4.33 kernel, axioms propext/Classical.choice/Quot.sound only (audited per theorem, no native_decide/sorry), Mathlib as imported, '
              'the harness/generators/driver, CPython/numpy/pyparsing/re (not modelled).')
CHECKS = {
 'C06': dict(
   text='Total correctness of a literal model of munkres.py proved in Lean for every r x c shape and every rational matrix (termination with explicit fuel; '
        'the returned list is a matching inside the original matrix with exactly min(r,c) pairs whose cost no matching of that size beats - solver_rect, via zero padding of the squared copy; '
        'for square matrices additionally one pair per row in row order - solver_square; reuse of a solver object is state-independent); model tied to the code by exact comparison of the returned '
        'pair lists (incl. tie choices) on exhaustive small scopes and seeded random exact matrices, plus a subset-DP oracle on the implementation.',
   note=PROOF_NOTE + ' The caller-matrix-unmodified clause is proved on a row-heap (object identity) model: pad_matrix allocates new row objects and every write goes through the rows of self.C, so no sequence of solves changes a row that existed before (caller_unmodified, caller_unmodified_history; the reuse-unpadded-rows variant is refuted); the tie compares the final self.C, the freshness of its row objects and the caller matrix read back with the real solver object. '
        'IEEE rounding of non-dyadic float costs is outside the theorem (monitored within 1e-9).',
   technique='Lean 4 proof (invariants + termination measure) of a literal Munkres model; differential correspondence with exact Fractions', design='§6 C06'),
 'C17': dict(
   text='The three built-in schedules and apply_attempt_based_credit are modelled over exact rationals (round(.,4) = round-half-even); proved for every attempt number and every '
        'admissible parameter: value 1 at attempt 1, range [0,1], antitone for attempts >= 1, LinearCredit >= minimum (for 4-decimal minima; witness that the hypothesis is needed = known finding K2), '
        'attempt clamped to >= 1, missing attempt = ConfigError, product law with ok recomputed, zero grades untouched, note added iff flag and credit != 1 and some positive grade. '
        'Tie: exhaustive parameter grid x attempts and real String/List/SingleList graders vs the model, compared exactly.',
   note=PROOF_NOTE + ' Floats enter only through round() and grade*credit: cases within 1e-9 of a rounding tie are counted (float_tie) and skipped; grades compared within 1e-12.',
   technique='Lean 4 proof (monotone rounding, case analysis) + exhaustive-grid correspondence', design='§6 C17'),
 'C03': dict(
   text='Token-level PEG model of the expression grammar with the library\'s node evaluators over an arbitrary operator algebra; proved: (1) for every expression tree, the executable parser (concrete fuel) parses its '
        'minimally parenthesised rendering to a tree that evaluates to the textbook value (precedence/associativity/signed exponents/parentheses for all operator sequences of all lengths), spaces irrelevant, redundant parentheses transparent, node-evaluator laws; '
        '(2) soundness w.r.t. the token string: a successful parse consumed exactly the tokens of its tree in order (parse_yield), hence every string with a doubled operator, juxtaposed operands, empty brackets / argument list, '
        'leading or trailing operator is rejected in every context, and a foreign character anywhere makes the lexer fail; (3) fuel adequacy: beyond 8n+6 the fuel never changes a result, so a rejection is genuine. '
        'Tie: exact parse-tree equality with pyparsing on generated/mutated strings, evaluator value vs exact rational model value, independent precedence-climbing oracle, rejection families.',
   note=PROOF_NOTE + ' Partial: numeric leaves (float literal rounding, non-integer/complex powers, arrays, numpy functions) are outside the model; the lexer round trip with arbitrary tab/newline placement '
        'is established by the correspondence run, not by theorem; the rejection theorems give necessary conditions for acceptance (adjacency table), completeness of the grammar is the round-trip theorem.',
   technique='Lean 4 proof (parser round trip by strong induction, soundness/adjacency invariant and fuel stability by induction over all 12 mutually recursive parsers) + differential tree/value correspondence', design='§6 C03'),
 'C10': dict(
   text='Side-effecting model of the parser (scratch never rolled back on abandoned alternatives) proved to report exactly the names of the resulting tree; parser object (cache + scratch + finally-reset) '
        'modelled as a state machine (value level and object-identity level) with theorem: after ANY history of parse calls the outcome for a string equals a fresh parser\'s, and cached expressions are never altered by later parses. '
        'Tie: usage sets and trees vs pyparsing on generated derivations; call histories (exhaustive short, random long, shared module PARSER with interleaved evaluations) vs model and vs fresh parser.',
   note=PROOF_NOTE + ' Aliasing of the cached sets is modelled explicitly (object-identity machine PH: set objects bound to the parser, expressions holding the same objects, reset_storage rebinding), proved to refine the value-level machine (parse_refines, cache_alias_safe; the clear() rewrite is refuted by a kernel-checked example) and tied to the code by comparing canonicalised id()s call by call. Callers of parse() are assumed not to mutate the returned sets; that is monitored by a battery of real grader calls followed by a sweep of every cached expression.',
   technique='Lean 4 proof (invariant over histories; doomed-alternative lemma for usage) + history correspondence', design='§6 C10'),
 'C08': dict(
   text='ItemGrader.check modelled generically over an arbitrary check_response; proved for every answers tuple, listing order and input: the grade is the maximum over all (alternative, expect value) pairs, '
        'is invariant under permuting the alternatives, the reported message is a longest one among those tied at the maximum, wrong_msg replaces it exactly when the best grade is 0 and that message is empty, '
        'check raises iff some alternative raises, no alternatives = ConfigError. Tie: real table-driven ItemGrader (exact Fraction credits, scripted exceptions) and SingleListGraders in every/random listing order vs the model, exact; '
        'plus a contract monitor of the same law on real String/Formula/Numerical/Matrix graders used one after another.',
   note=PROOF_NOTE + ' Formula/Numerical/Matrix check_response functions are parameters of the theorem; that they go through the same ItemGrader.check is monitored, not proved.',
   technique='Lean 4 proof (max/first-max lemmas, permutation invariance) + exact correspondence over listing orders', design='§6 C08'),
 'C07': dict(
   text='SingleListGrader.check_response / process_grade_list / consolidate_grades / find_optimal_order modelled over an arbitrary subgrader; proved: the grade is answer credit x credit(max 0 ((best - surplus)/n_expected)) '
        'with best = total of an assignment no other one-to-one assignment beats (corollary of the Munkres theorem on the padded square credit matrix) resp. the positional total when ordered; partial_credit=False gives the answer credit or 0; '
        'message rule; length_error checked first, missing_error lists exactly the blank positions; the unordered grade is invariant under every permutation of the submitted items. Tie: real SingleListGraders (flat and one nesting level, single/multi-character delimiters, all options) over a table-driven subgrader with exact Fraction credits, '
        'compared exactly incl. the tie choices of the matching; brute-force oracle over all injective assignments; permutation invariance checked on the implementation.',
   note=PROOF_NOTE + ' Permutation invariance of the unordered grade is a Lean theorem (single_list_perm_invariant, for every permutation of the item positions) and is also checked per case on the implementation.',
   technique='Lean 4 proof (credit formula via Munkres optimality theorem) + exact correspondence + brute-force oracle', design='§6 C07'),
 'C05': dict(
   text='ListGrader.check / perform_check / find_optimal_order / get_best_result / groupify / ungroupify modelled over arbitrary subgrader check functions; proved: ordered = pointwise subgrader results; '
        'unordered (no grouping) = results R i (tau i) of a permutation tau whose total credit no permutation beats, reported one per input in input order (corollary of the Munkres total-correctness theorem); '
        'the reported answer list is a candidate with maximal total; accepted groupings are partitions of the input positions and every result is stored at the position of the input it grades (grouped_entry_position); partial_credit=False zeroes everything unless all entries are fully correct; a wrong number of inputs is a ConfigError. '
        'Tie: real ListGraders (ordered/unordered, 1-3 answer lists, subgrader lists incl. SingleListGraders, grouping with nested ListGraders) over a table-driven ItemGrader with exact Fraction credits, whole input_list compared exactly; '
        'oracle: exhaustive n! assignment search and per-position recomputation.',
   note=PROOF_NOTE + ' Position reporting under grouping is a Lean theorem (create_grouping_map yields a partition; ungroupify stores the j-th result of group g at the position of the j-th input of group g) under the shape contract of the subgraders (C01), and is also checked by the per-group position oracle; numpy float sums in get_best_result are exact only for the dyadic credits used there.',
   technique='Lean 4 proof (optimal assignment via Munkres theorem, max-total selection) + exact correspondence + n! oracle', design='§6 C05'),
 'C01': dict(
   text='AbstractGrader.__call__ (error mapping, key stripping, attempt credit, debug append, message formatting) modelled on top of the item/list combinators; proved: shape (single form for one input; list form with exactly one entry per checked entry), '
        'debug non-interference (with debug off the result does not depend on the log), range [0,1] and ok = f(grade) for ItemGrader.check / process_grade_list / consolidate_grades given a leaf contract, attempt scaling keeps ranges and recomputes ok (C17 theorems); '
        'grader TREES are a structurally recursive model (ITree/LTree: table leaves, SingleListGraders, ordered/unordered/grouped/nested ListGraders) and the range + ok-consistency claim is proved by induction over every tree and carried through the whole call (item_tree_good, list_tree_good, call_good, with the built-in schedules discharged by C17), the shape claim (one entry per input, none missing, at every nesting level: list_tree_one_entry_per_input - its former hypothesis "one answer per group" is now enforced by the code, fix F11, and proved from the success of the check); IntervalGrader.check_response / grade_bracket are modelled on top of the SingleListGrader machinery (interval_result_good, interval_bracket_rules, interval_refusals) and tied by correspondence with the real IntervalGrader over a table-driven subgrader; '
        'only library errors escape with debug off. Tie: whole calls of generated grader trees (table leaves with scripted exceptions, SingleList, List ordered/unordered/grouped, attempt credit, debug, garbage inputs) vs the model; '
        'the C01 predicate is evaluated on every returned value; contract monitor on real String/Formula/Numerical/Matrix/Interval/Sum/List graders.',
   note=PROOF_NOTE + ' Partial: Formula/Numerical/Matrix/Interval/Sum leaves are parameters with the contract LeafWF (grade in [0,1], ok consistent), which is monitored on the real graders, not proved; float rounding inside those leaves is outside the model. '
        'Known finding K4 (summation graders return the single form for list input) is announced.',
   technique='Lean 4 proof (shape/range/consistency invariants through the call wrapper) + whole-call correspondence + predicate monitor', design='§6 C01'),
 'C18': dict(
   text='clean_input and check_response modelled literally (regex verdicts and case folding as parameters); proved for all 16 flag combinations at once: cleaning never drops, adds, reorders or alters a non-whitespace character (only case, when asked), no tab/CR/LF survives cleaning, strip_all leaves no space, clean_spaces leaves no two adjacent spaces, '
        'matching mode accepts exactly when the cleaned strings are identical, accept_any/accept_nonempty accept exactly when min_length (>=1 under accept_nonempty) and min_words hold on the cleaned submission, refusals follow explain_minimums / explain_validation, '
        'a pattern that does not match the whole cleaned submission refuses in every mode, an author answer violating the pattern is a ConfigError. Tie: real clean_input on all flag combinations x whitespace/case/character edits vs the model and vs an independent documented-normalisation reference; '
        'real check_response over option grids with re.fullmatch verdicts supplied to the model.',
   note=PROOF_NOTE + ' The regex engine and full Unicode lower-casing are outside the model (parameters; ASCII+Latin-1 executable instance). The characterisation "non-whitespace characters are preserved in order (case-folded when case_sensitive is off)" is proved for all flag combinations (clean_preserves_nonspace, match_implies_same_visible); strip\'s end condition is checked structurally on every correspondence case.',
   technique='Lean 4 proof (list recursion on the cleaning pipeline, decision table of check_response) + exhaustive flag-grid correspondence', design='§6 C18'),
 'C13': dict(
   text='gen_symbols_samples (pruned constants, independent draws, the fixed-point loop over dependents with its progress check, the undefined-then-circular diagnosis), numbered_vars_regexp / generate_variable_list and construct_constants modelled literally over '
        'insertion-ordered dictionaries, for arbitrary values and arbitrary dependent evaluators that read only the variables their formula uses; proved for every dependency structure and every declaration order: on success the sample defines exactly the '
        'unshadowed constants, the independent symbols and the dependents, never overwrites a draw, and every dependent equals its formula evaluated on the final sample; the values and success/failure do not depend on the declaration order; '
        'the loop never needs more passes than dependents and fails only after a pass without progress, with exactly the undefined names or the mutually waiting dependents reported; variables shadow constants; the numbered-variable matcher accepts exactly head_{n} with n a canonical integer and the instance shares its head\'s sampler. '
        'Tie: gen_symbols_samples with scripted draws on random DAGs/chains/diamonds/cyclic/dangling/shadowing configurations in all or random declaration orders, compared exactly (values and insertion order) with the model driven through the model\'s own parser/evaluator; '
        'generate_variable_list and recorded samples of real FormulaGrader/ListGrader calls; independent topological-evaluation oracle; every call under a wall-clock alarm.',
   note=PROOF_NOTE + ' compute_sample (the evaluator) is a parameter with the contract Local (reads only its declared dependencies), justified by C10 usage_exact; float evaluation of dependent formulas is exact only on the dyadic polynomial formulas the generators use.',
   technique='Lean 4 proof (invariants of the sweep/resolve loop, least-solution argument for order independence) + exact correspondence + topological oracle', design='§6 C13'),
 'C04': dict(
   text='within_tolerance (infinities first, percentage relative to the first = author\'s argument, norm of the difference <= tolerance on exact squares), the boolean-verdict-to-result step with the answer-credit scaling of raw_check, and consolidate_results '
        '(failure counter with early return, single-sample rule) modelled over exact Gaussian rationals; proved for all values, tolerances, sample counts and failable_evals: the matched answer\'s result is returned exactly when the number of samples outside the tolerance '
        'is at most failable_evals (none for a single sample), otherwise grade 0 / ok False; absolute tolerance is |expected-student| <= t with the boundary included, percentage tolerance is relative to |expected|, Frobenius norm for arrays, an infinity matches only itself; '
        'identical values always earn the answer\'s credit (any tolerance >= 0) and missing at every sample earns nothing when failable_evals < samples (the necessity of that hypothesis is a theorem too). '
        'Tie: within_tolerance on dyadic grids (real, complex, infinite, vector, matrix; exact boundary cases) and Formula/Numerical/Matrix grader calls with scripted samples whose recorded per-sample evaluations are handed to the model; verdict, credit and message compared exactly; '
        'the author\'s recorded value is checked against an exact evaluation of the formula on the same scripted sample (same-sample pairing). The whole pipeline (both strings parsed and evaluated on every scripted sample by the Lean evaluator, compared, consolidated) is a model of its own (FormulaPipe) with theorems pipeline_same_sample / pipeline_equal_values_full_credit and an exact whole-call correspondence for scalar rational formulas.',
   note=PROOF_NOTE + ' Partial: evaluating the two formulas in floating point is outside the model (their per-sample values are inputs); a guard band of relative width 1e-9 around the tolerance boundary is excluded where the float computation of the norm/product is not exact (counted in the evidence).',
   technique='Lean 4 proof (loop invariant of the failure counter, squared-norm characterisation of the tolerance test) + correspondence on recorded samples', design='§6 C04'),
 'C19': dict(
   text='perform_summation (limit sorting, infinity replacement by the cutoff, parity start adjustment, inclusive range, left-to-right sum), evaluate_sum (dummy-variable clash, complex and non-integer limits, factorial-dependent cutoff), '
        'input_positions validation, input structuring with author defaults, blank-field and dummy-variable validation and the author/student error split of gen_evaluations modelled literally, for an arbitrary summand f : Z -> V into any commutative monoid; '
        'proved for all limits, parities and summands: the result is the sum of f over exactly the integers between the two limits inclusive (odd / even ones only when configured) whatever the order of the limits; exchanging the limits changes nothing (infinities included); '
        'an infinite limit is the cutoff; index shift, reversal and single-term perturbation laws; complex, non-integer and doubly infinite limits, a clashing or invalid dummy variable and blank fields are errors of the stated classes; author failures are configuration errors; the verdict is the C04 rule on the two sums. '
        'Tie: SumGrader.perform_summation run on exact Fraction summands for all limit pairs in a window in both orders x parities and for infinite limits, compared exactly with the model; SumGrader calls with scripted samples over sum-preserving and sum-changing rewrites '
        '(swap, rename, shift, reversal, perturbation, off-by-one, scaling around a percentage band) x subsets of input_positions against an exact reference sum; error inputs and input_positions grids against the model.',
   note=PROOF_NOTE + ' The summand and limit expressions are evaluated by the real evaluator (outside the model); renaming invariance of the summation variable is proved (sum_rename: substitution lemma over the parse tree, for every operator algebra) and also checked on the implementation. IntegralGrader (scipy) is not exercised.',
   technique='Lean 4 proof (Finset-sum characterisation of the Python range loop, re-indexing lemmas) + exact correspondence + reference-sum oracle', design='§6 C19'),
 'C02': dict(
   text='On top of the call-wrapper theorems of C01 (with debug off only library errors leave __call__; a library error keeps its class with <br/> line breaks; anything else becomes the generic student-facing error naming exactly what was submitted): '
        'BracketValidator.validate modelled as its stack machine and proved to accept exactly the balanced strings over the three bracket pairs (every length and depth), every refusal being an UnbalancedBrackets diagnosis; ensure_text_inputs modelled over Python object shapes and proved to accept exactly text (single graders) / lists of text (list graders), '
        'everything else being a ConfigError; the recasting tables of eval_function / MathExpression.eval / MatrixGrader.check_response proved total into the library family with the documented policy; the exception class tree and the raise sites of the code that runs outside the guarded region are regenerated from the live source on every run '
        'and checked against the model by kernel-checked obligations (all classes descend from MITxError; only library classes are raised outside the try, the one unreachable ValueError excepted). '
        'Tie: exhaustive bracket strings up to length 5-7 plus random deep ones (outcome kind and highlighted indices), generated non-text objects through ensure_text_inputs and whole calls, the MatrixGrader policy grid, a table of anticipated problems that must keep their class, '
        'and a hostile-input monitor (curated + grammar-derived mutated formulas over 17 grader configurations incl. sibling/dependent-sampler lists) under a wall-clock alarm.',
   note=PROOF_NOTE + ' Partial: which internal exception numpy/pyparsing/CPython raises for a given string, and termination of the real evaluation, are not modelled; they are monitored (exploration, not proof) by the hostile-input fuzz, whose case counts are in the evidence. expect values are assumed to be text.',
   technique='Lean 4 proof (stack machine <-> balanced grammar, decision tables, generated class-tree obligations) + correspondence + hostile-input monitor', design='§6 C02'),
 'C09': dict(
   text='check_math_response / post_eval_validation (forbidden strings compared without spaces, required functions, permitted functions), get_permitted_functions, the student scope of gen_evaluations (sample names minus instructor-only and sibling variables) and MathExpression.check_scope modelled on top of the C10 usage sets; '
        'proved for every configuration, formula and numeric verdict: whenever a result with credit (correct, partial or positive grade) is returned the formula contains no forbidden string, uses every required function and only permitted functions; conversely a formula that would earn credit is refused if it violates any of them; '
        'a function or variable occurring ANYWHERE in the parse tree (argument positions, array entries, exponents, cancelling terms) is seen by the validators and the scope check (via usage_exact), so a name outside the student\'s scope is an UndefinedVariable error independently of its value; closed form of the permitted set; instructor and sibling variables are never in scope. '
        'Tie: Formula/Matrix graders over an option grid (blacklist / whitelist / whitelist=[None] / user functions / instructor variables / numbered variables / constants / forbidden strings / required functions / metric suffixes) x cheating formulas = correct answer combined with a value-neutral term using the restricted construct in several tree positions, case/prime/numbered near-miss names, suffixes; '
        'the recorded raw verdict is handed to the model and the final outcome (result or error class with the reported names) compared; Numerical/Sum graders and sibling lists against the property oracle "never credit for a cheating formula"; get_permitted_functions against its closed form.',
   note=PROOF_NOTE + ' Partial: the numeric verdict is a parameter (C04); evaluation errors that pre-empt a restriction are avoided by the generators. The author\'s answers using restricted constructs are exercised on the implementation only, including every subset of Sum/Integral input boxes with an author entry that uses an instructor variable (this part found and now guards defect F13, repaired in /repo; the IntegralGrader half is skipped where scipy is missing, as in the repository test environment).',
   technique='Lean 4 proof (decision logic of the validators composed with the usage-exactness theorem of the parser) + correspondence + cheating-formula oracle', design='§6 C09'),
 'C16': dict(
   text='Decision logic of between / congruence / eigenvector / vector_span / vector_phase comparers, MatrixEntryComparer and LinearComparer modelled over exact Gaussian rationals with norms compared through their squares; proved: between accepts iff real and within the closed bounds (complex refused); '
        'congruence with a positive modulus and absolute tolerance t accepts iff |student - expected - k*modulus| <= t for some integer k (circular, both sides of a multiple alike); the exact eigenvector test accepts iff v != 0 and M v = lambda v, and any rescaling of an eigenvector satisfies it (linearity of the product); '
        'the square-only magnitude test decides | |a|-|b| | <= tau; span = nonzero and residual within tolerance (exactly: residual 0), phase = span and same magnitude; MatrixEntryComparer gives full credit iff all entries match at every sample, zero iff none, otherwise the flat credit or the fraction of matching entries; '
        'LinearComparer needs three samples, awards the largest configured credit among the relations that hold within tolerance, considers only equals/offset when either side is zero, and its equals relation at tolerance 0 is pointwise equality; each of its four closed-form fit errors is proved to be the least squared residual over the lines of its shape (least squares over the rationals, attained), so a relation is credited iff some admissible line fits the samples within the tolerance relative to the expected samples (holds_iff_fit, linear_credit_spec; defect F12 repaired). '
        'Tie: the real comparer functions called with the grader\'s own utils on exact dyadic targets x members built by the defining transformation x non-members at controlled distance x tolerance kinds x partial-credit settings (the same LinearComparer object serving several calls), compared with the model and an exact Fraction oracle; '
        'Formula/Matrix graders with each comparer on member/non-member formulas; the answer_shape_mismatch policy grid.',
   note=PROOF_NOTE + ' Partial: np.linalg.lstsq and the floating-point norms are not modelled (the exact squared least-squares residual is computed by the harness; a relative guard band of 1e-6 around the tolerance boundary is skipped and counted); LinearComparer is modelled for real scalar samples. Findings F9 (between_comparer raised on real values of complex type) and F12 (LinearComparer took its percentage tolerance relative to the student samples, so huge unrelated submissions earned proportional credit) were repaired in /repo.',
   technique='Lean 4 proof (floor/mod arithmetic for circular congruence, linearity of matrix-vector products, squared-norm decision lemmas, max-selection spec) + correspondence + exact Fraction oracle', design='§6 C16'),
 'C14': dict(
   text='MathArray.__add__/__radd__/__sub__/__rsub__/__mul__/__rmul__/__truediv__/__rtruediv__/__pow__/__rpow__ (with the number-zero, one-element-array and same-shape rules, np.dot shape rule with the 1x1 collapse, tensor refusal, square + integer-like exponent test, negative-power switch, inverse for negative powers, singular refusal) '
        'and the triple-vector rule of eval_product modelled over exact Gaussian rationals for arbitrary shapes; proved for all shapes and entries: equal shapes add elementwise; arrays of different shapes are never added (no broadcasting) and a successful sum has an operand\'s shape; a nonzero scalar plus an array is an error on either side, 0 is neutral; '
        'products of arrays with at most two axes exist exactly when the inner dimensions agree and then have the dot / matrix-vector / vector-matrix / matrix-matrix shape (one-element results become numbers), tensors are refused; division by an array is an error; '
        'vectors, tensors and non-square matrices cannot be raised to powers, matrix powers need an integer-like exponent (complex-typed and array exponents refused), negative powers are refused while disabled and otherwise are powers of the inverse with singular matrices refused, non-negative powers are repeated products from the identity; a chain u*v*w of vectors is refused. '
        'Tie: all ordered operand pairs of a shape lattice (numbers, vectors 1-4, m x n matrices, a 3-axis tensor; real and complex integer entries; singular and non-singular) x five operators in direct, reflected and in-place form x exponent kinds (incl. floats within 1e-5 of an integer), compared with the model for outcome class, shape and exact values; '
        'formula strings with array literals / array variables / chained products through evaluator(); MatrixGrader with negative_powers=False; independent numpy reference for products and powers.',
   note=PROOF_NOTE + ' Partial: np.linalg.matrix_power / inverse numerics are compared within 1e-9 (the model\'s exact Gauss-Jordan inverse is tied by comparison, its correctness is not a theorem); scalar powers with non-integer exponents are outside the model.',
   technique='Lean 4 proof (shape decision theorems for every operator, for all shapes) + exhaustive shape-lattice correspondence + numpy reference oracle', design='§6 C14'),
 'C12': dict(
   text='Sampling sets modelled as deterministic functions of the random draws: RealInterval (bound swap, start + (stop-start)u), IntegerRange (the request [start, stop+1) to the RNG), ComplexRectangle, ComplexSector (polar pair), DiscreteSet / SpecificFunctions (index draw), RandomFunction (center + amplitude/(num_terms*input_dim) * sum A*sin), '
        'SquareMatrices.apply_symmetry on entry lists and the constructor acceptance table with the make_det_one branch choice; proved for every draw in the RNG\'s documented range and every parameter: interval samples lie between the bounds whatever their order, both integer endpoints are attainable and nothing outside is, rectangle and sector components lie in their ranges, only listed members are returned, '
        '|f(x) - center| <= amplitude for every input dimension and number of terms (the statement that exposed F5), arity enforced; over Mathlib matrices: A+A^T symmetric, A-A^T antisymmetric and traceless, A+A^H hermitian, A-A^H antihermitian, the traceless projection has trace 0 and keeps symmetry, rescaling keeps symmetry, dividing by an n-th root of the determinant gives determinant 1 (odd-dimension negative branch too), '
        'zeroing a diagonal entry gives determinant 0, real antisymmetric matrices of odd dimension have determinant 0; every accepted constructor combination asking for determinant 1 reaches a defined branch, the rejected ones are the documented impossibilities. '
        'Tie: scripted RNG through the scalar samplers (exact), apply_symmetry on exact dyadic arrays for all symmetry x traceless, the whole constructor grid (dimension 2-5 x symmetry x traceless x determinant x complex) against the model with monitored draws of all 214 accepted combinations (shape, realness, symmetry, trace, determinant, norm), '
        'vector/matrix/tensor/triangular/identity-multiple samplers, random functions (amplitudes read from the closure; value compared with the model formula, bound, fixedness, arity, output dimension).',
   note=PROOF_NOTE + ' Partial: the RNG, np.linalg.det/eigvals numerics and the retry loop are not modelled (monitored within 1e-7); the matrix-algebra theorems are Mathlib statements about the operations apply_symmetry / make_det_one perform; for apply_symmetry the same facts (symmetric / antisymmetric / hermitian / antihermitian / diagonal entries, trace exactly zero after the traceless step, off-diagonal entries untouched) are additionally proved directly on the executable entry-list model that the correspondence drives (applySymmetry_entries, applySymmetry_traceless); make_det_one / make_det_zero remain Mathlib-level only; Orthogonal/Unitary samplers need scipy and are excluded.',
   technique='Lean 4 proof (interval arithmetic, triangle-inequality bound, Mathlib matrix algebra, decide over the constructor table) + scripted-RNG correspondence + contract monitor on real draws', design='§6 C12'),
 'C15': dict(
   text='The library\'s own function definitions (sec csc cot arcsec arccsc arccot sech csch coth arcsech arccsch arccoth, the bodies of arctan2 and kronecker) are TRANSLATED from the AST of mathfuncs.py into Lean definitions over the reals on every run, and the default function / constant / suffix tables are read from the live module; '
        'proved about the regenerated definitions: sec*cos = csc*sin = cot*tan = sech*cosh = csch*sinh = coth*tanh = 1 where defined; arccot x = arctan(1/x) for x != 0 with range (-pi/2, pi/2] and cot(arccot x) = x; sec(arcsec x) = x and csc(arccsc x) = x for |x| >= 1 with the principal ranges; '
        'the inverse hyperbolic definitions invert the reciprocal functions whenever the primitive inverts its base function; arctan2(x, y) calls the primitive with (y, x) and refuses the origin; kronecker; the live tables equal the documented ones (every name bound to the documented primitive with the documented argument domain; i, j, e, pi; suffixes). '
        'Hand model of SpecifyDomain.make_decorator and the eval_function arity check: ArgumentError iff the count is wrong (checked first, min_length variant), otherwise the function is called iff every argument has its declared shape and an ArgumentShapeError lists exactly the offending positions; scalar = number or one-element array, square = 2-axis square array. '
        'Tie: translator + table obligations re-checked by the kernel on every run; the derived Python functions against the stated formula bit for bit; the decorator model against eval_function on random argument lists (numbers, vectors, matrices, tensors) for every table entry; '
        'monitor: every table entry through evaluator() on real and complex grids, branch cuts, poles, extreme magnitudes against math/cmath, inverse identities f(f_inv(z)) = z, principal ranges, constants and matrix functions; no nan/inf value, only student-facing errors.',
   note=PROOF_NOTE + ' Partial: numpy / scimath primitives (values, complex continuation, accuracy) are not modelled - they are parameters of the generated definitions and are monitored; the generated definitions are over the reals. factorial needs scipy and is excluded. Trusted in addition: the AST translator (80 lines, output committed and regenerated each run).',
   technique='Lean 4 proof about definitions regenerated from the source (translator) using Mathlib real analysis; kernel-checked table equality; decorator decision theorems + correspondence + value monitor', design='§6 C15'),
 'C20': dict(
   text='The schema_config of every public class (29: graders, samplers, comparers, credit schedules, SpecifyDomain) is TRANSLATED from the live voluptuous objects into terms of a Lean model of the voluptuous fragment the library uses (types with Python isinstance semantics, literals with Python equality, Any, All, Range, Length, NotIn, homogeneous lists, dictionaries with Required/Optional keys, defaults and the extra-keys policy; named validator functions as opaque prims) on every run. '
        'Proved for every schema of the fragment: the validated configuration binds every option that is supplied or has a default, to the supplied value or else the default (option names distinct); unknown option names are rejected; an out-of-domain value of a known option is rejected; validation is idempotent - a validated configuration validates to itself - provided every default lies in its own option\'s domain; the result depends on the supplied bindings only through lookup (keyword-argument and dictionary forms are equivalent). '
        'The normalisation of `answers` (ItemGrader.schema_answers / validate_single_answer / schema_answer / validate_expect_tuple) is modelled and proved to produce the canonical tuple of dictionaries with credits in [0,1], ok pinned only at full credit, bare and dictionary forms equivalent, re-validation the identity; validated answers meet the hypothesis of the C01 grader-tree theorems. '
        'Kernel-checked obligations on the regenerated schemas: option names are distinct and every default lies in the domain of its own option, in every class; the regenerated schemas equal the documented tables (names, required/optional, defaults, domains). '
        'Tie: for every class and every option without a named validator, the minimal configuration with that option set to each value of a pool of in-domain and out-of-domain values, unknown keys and random multi-option combinations: validate_config outcome and validated configuration vs the model, constructor raises only configuration/validation errors; '
        'per class: every option present with its default, Cls(obj.config) == obj, kwargs vs dict; non-default configurations in both forms compared for equality and grading behaviour; 40 cross-option rule violations (whitelist+blacklist, unordered subgrader lists, groupings, nested delimiters, collisions/overrides, sample_from, input_positions, answer-list lengths, impossible matrix combinations ...) and the documented answers formats with their canonical form.',
   note=PROOF_NOTE + ' Partial: coercions (Coerce, PercentageString normalisation, answer canonicalisation, nested-dictionary default filling) and named validator functions are not modelled - options whose domain contains one are compared on acceptance/default only and exercised by the cross-rule and answers-format tables on the implementation. '
        'Findings: F10 (TypeError instead of a validation error for wrongly typed option values; repaired in the vendored voluptuous as upstream does), K5 and K6 are announced as known findings.',
   technique='Lean 4 proof (generic theorems about a mini-voluptuous: default filling, unknown keys, idempotence by induction over the option list) + translator-generated schema obligations + constructor correspondence', design='§6 C20'),
 'C11': dict(
   text='ItemGrader.__call__ / AbstractGrader.__call__ modelled as a state machine over the grader object (stored answers, inferring flag, log flag, debug log) with validation, text check and grading as parameters; proved by induction over ANY call history '
        '(including calls that raise in validation, in the input check or in grading): the next call returns what a freshly constructed grader returns for the current expect value or the last successfully supplied one; '
        'configured answers ignore expect; the debug log shown by a call mentions only that call; the log flag is always cleared; the process-wide negative-power switch is back at its default after any history of MatrixGrader calls (returning or raising); construction copies the configuration so that no list or dictionary of the author (also inside tuples) is shared with the grader (object-identity model of coerce2unicode). '
        'Tie: call histories (short exhaustive sample + random longer) on String/Table/SingleList/Formula/Numerical/Matrix/Interval/LinearComparer graders, configured/unconfigured, debug on/off, vs the model instantiated with outcome tables measured on fresh graders and vs fresh instances; '
        'snapshot checks of author config objects (incl. subgrader objects under debugged parents), evaluator scopes, class-level defaults, MathArray switch, numpy error state, other grader instances and the process-wide parser; registered class defaults (register_defaults): object-identity model of apply_registered_defaults with theorems defaults_no_alias / defaults_precedence / defaults_history, compared with the real method on histories of calls including key order and object identity.',
   note=PROOF_NOTE + ' Two aliasing mechanisms are modelled with object identities and proved (coerce2unicode freshness: constructor_no_alias; the negative-power context manager: negative_powers_history) and tied by identity correspondence; the remaining clauses (evaluator scopes, default tables, numpy error state, class defaults, other instances) are snapshot-compared per case, not proved. The theorems describe the code as repaired by the fix: commits F1-F3.',
   technique='Lean 4 proof (refinement of a call state machine to "fresh grader", induction over histories) + history correspondence + snapshot monitor', design='§6 C11'),
}
NA_REASON = 'check not built yet in this round (planned: see DESIGN.md §6); not claimed until its model, theorems and correspondence exist'

def main():
    checks = []
    for pid in ALL:
        if pid not in CHECKS:
            continue
        c = CHECKS[pid]
        checks.append({
            'property_id': pid,
            'quick_cmd': './check %s --tier quick' % pid,
            'thorough_cmd': './check %s --tier thorough' % pid,
            'evidence_file': '/verif/evidence/%s.json' % pid,
            'replay_cmd_template': './check %s --replay {path}' % pid,
            'engine': 'lean4-model+correspondence',
            'level_claimed': {'category': 'proof', 'text': c['text'], 'design_ref': c['design']},
            'level_note': c['note'],
            'technique': c['technique'],
        })
    man = {
        'version': 1,
        'setup_cmd': 'cd /verif/lean && lake build Mitx driver',
        'hooks': {
            'guard': 'MITX_GRADING_LIBRARY_VERIF',
            'enable': 'no source hooks are needed: the harness imports /repo\'s working tree in-process (sys.path) and observes internals from outside; the guard variable is set by the harness but read by no repository code',
            'baseline_off_cmd': 'python3 /verif/tools/baseline.py',
            'source_commits': [],
            'add_only': True,
        },
        'engines': [{
            'name': 'lean4-model+correspondence', 'path': '/verif/lean + /verif/harness',
            'serves_properties': sorted(CHECKS),
            'kind_free_text': 'Lean 4 theorems about a hand-written executable model (lake lib Mitx, compiled driver exe) + Python differential correspondence harness against the live code',
        }],
        'checks': checks,
        'notes': 'Every check: lake build of the property\'s theorem modules, audit (#print axioms, forbidden-token grep, pinned statements), correspondence, failing-input search on breakage. '
                 'Exit 2 = infrastructure error (never a violation). Known findings: /verif/known_findings.json.',
        'not_applicable': [{'property_id': p, 'reason': NA.get(p, NA_REASON)} for p in ALL if p not in CHECKS],
    }
    json.dump(man, open(os.path.join(V, 'MANIFEST.json'), 'w'), indent=1)
NA = {}
if __name__ == '__main__':
    main()

#!/bin/sh
# usage: tools/process_seeds.sh <id>...   confirm each delivered change (/tmp/wt/out/<id>) and, if kept, run the property's quick check on it
cd "$(dirname "$0")/.."
for i in "$@"; do
  if [ ! -f /tmp/wt/out/$i/patch.diff ] || [ ! -f /tmp/wt/out/$i/demo.py ] || [ ! -f /tmp/wt/out/$i/notes.md ]; then echo "$i INCOMPLETE"; continue; fi
  tools/confirm_seed.sh /tmp/wt/out/$i $i 2>&1 | grep -v WARN | tail -2
  if [ -d seeded/$i ]; then tools/run_seeded.sh $i 2>&1 | grep -v WARN | tail -1; fi
done

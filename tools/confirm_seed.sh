#!/bin/sh
# usage: tools/confirm_seed.sh <src-dir> <seeded-id>
# Confirms an independently written change in a scratch worktree of /repo (demo passes clean, fails changed, pinned suite still
# passes with the change), then files it as /verif/seeded/<id>/ with meta.json. Removes the scratch worktree afterwards.
src=$1; id=$2; wt=/tmp/confirm_$id
git -C /repo worktree add -q --detach $wt HEAD || exit 2
cp $src/demo.py $wt/demo_seed.py
(cd $wt && timeout 600 /venv/bin/python demo_seed.py >/tmp/confirm_$id.clean 2>&1); c=$?
git -C $wt apply $src/patch.diff || { echo "$id APPLY-FAILED"; git -C /repo worktree remove --force $wt; exit 2; }
(cd $wt && timeout 600 /venv/bin/python demo_seed.py >/tmp/confirm_$id.mut 2>&1); m=$?
/venv/bin/python /tmp/wt/suite.py $wt >/tmp/confirm_$id.suite 2>&1; s=$?
files=$(git -C $wt diff --name-only | tr '\n' ' ')
head=$(git -C /repo rev-parse --short HEAD)
git -C /repo worktree remove --force $wt
echo "$id demo_clean=$c demo_changed=$m suite_changed=$s ($(tail -1 /tmp/confirm_$id.suite | head -c 80)) files=$files"
if [ $c -eq 0 ] && [ $m -ne 0 ] && [ $s -eq 0 ]; then
  mkdir -p /verif/seeded/$id && cp $src/patch.diff $src/demo.py $src/notes.md /verif/seeded/$id/
  /venv/bin/python - "$id" "$files" "$head" "$c" "$m" "$s" <<'PY'
import json, sys
id_, files, head, c, m, s = sys.argv[1:7]
notes = open('/verif/seeded/%s/notes.md' % id_).read()
meta = {"id": id_, "property": id_.split('-')[0], "files_touched": files.split(),
        "origin": "independent sub-agent given only the property text and a scratch worktree of /repo (HEAD %s, i.e. with the fix: commits); nothing from /verif" % head,
        "needs_to_manifest": notes[:3000],
        "confirmed": {"how": "tools/confirm_seed.sh: fresh scratch worktree of /repo: demo.py on the clean tree, git apply patch.diff, demo.py again, pinned suite (363 baseline tests) with the patch, worktree removed",
                      "demo_exit_clean": int(c), "demo_exit_mutated": int(m), "suite_exit_mutated": int(s),
                      "suite": "363/363 baseline tests pass with the change applied"}}
json.dump(meta, open('/verif/seeded/%s/meta.json' % id_, 'w'), indent=1)
PY
  echo "$id KEPT"
else
  echo "$id REJECTED"
fi

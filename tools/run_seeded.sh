#!/bin/sh
# usage: tools/run_seeded.sh <seeded-id>...   (e.g. C06-a)  applies the change to /repo, runs the property's quick check, undoes the change.
cd /verif
for s in "$@"; do
  pid=${s%%-*}
  git -C /repo apply /verif/seeded/$s/patch.diff || { echo "$s APPLY-FAILED"; continue; }
  ./check $pid --tier quick > /tmp/seeded_$s.out 2>&1; rc=$?
  git -C /repo checkout -- .
  echo "$s rc=$rc $(grep -c '^VIOLATION' /tmp/seeded_$s.out) $(grep '^VIOLATION' /tmp/seeded_$s.out | head -1)"
done

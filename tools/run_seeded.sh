#!/bin/sh
# usage: tools/run_seeded.sh <seeded-id>...   (e.g. C06-a)  applies the change to /repo, runs the property's quick check
# (or the check named by CHECK=<ID>), undoes the change. Evidence files are saved and restored (they must describe the unchanged tree).
cd /verif
for s in "$@"; do
  pid=${CHECK:-${s%%-*}}
  cp evidence/$pid.json /tmp/evidence_$pid.bak 2>/dev/null
  git -C /repo apply /verif/seeded/$s/patch.diff || { echo "$s APPLY-FAILED"; continue; }
  ./check $pid --tier quick > /tmp/seeded_$s.out 2>&1; rc=$?
  git -C /repo checkout -- .
  git -C /verif checkout -- lean/Mitx/Generated 2>/dev/null
  cp /tmp/evidence_$pid.bak evidence/$pid.json 2>/dev/null
  echo "$s check=$pid rc=$rc $(grep '^VIOLATION' /tmp/seeded_$s.out | head -1)"
done

#!/bin/sh
# usage: tools/run_seeded.sh <seeded-id>...   (e.g. C06-a)  applies the change to the repository (MITX_REPO, default /repo), runs the
# property's quick check (or the check named by CHECK=<ID>), undoes the change. Evidence files are saved and restored (they must describe
# the unchanged tree). Works from any checkout of /verif (paths are relative to this script).
V=$(cd "$(dirname "$0")/.." && pwd)
R=${MITX_REPO:-/repo}
cd "$V"
for s in "$@"; do
  pid=${CHECK:-${s%%-*}}
  cp evidence/$pid.json /tmp/evidence_$pid.$$.bak 2>/dev/null
  git -C $R apply $V/seeded/$s/patch.diff || { echo "$s APPLY-FAILED"; continue; }
  ./check $pid --tier quick > /tmp/seeded_$s.out 2>&1; rc=$?
  git -C $R checkout -- .
  git -C $V checkout -- lean/Mitx/Generated 2>/dev/null
  cp /tmp/evidence_$pid.$$.bak evidence/$pid.json 2>/dev/null
  echo "$s check=$pid rc=$rc $(grep '^VIOLATION' /tmp/seeded_$s.out | head -1)"
done

"""Shared machinery for the mitx-grading-library Lean-4 proof checks.

One check run = build the Lean obligations of the property, audit them (axioms, sorry,
pinned statements), run the model<->implementation correspondence, and decide.
Exit codes: 0 property shown to hold; 1 violation (VIOLATION line printed); 2 infrastructure.
"""
import hashlib, json, os, random, re, subprocess, sys, time, traceback
from fractions import Fraction

VERIF = os.path.dirname(os.path.dirname(os.path.abspath(__file__)))
LEAN = os.path.join(VERIF, 'lean')
REPO = os.environ.get('MITX_REPO', '/repo')
GUARD = 'MITX_GRADING_LIBRARY_VERIF'
ALLOWED_AXIOMS = {'propext', 'Classical.choice', 'Quot.sound'}
FORBIDDEN = re.compile(r'\bsorry\b|\badmit\b|^\s*axiom\s|native_decide|bv_decide|implemented_by|\bunsafe\s|maxHeartbeats\s+0\b|\bextern\b', re.M)

TRUSTED_BASE = [
    'Lean 4.33.0 kernel (thorough tier re-checks the compiled modules with leanchecker)',
    'axioms: propext, Classical.choice, Quot.sound only (audited by #print axioms on every registered theorem; no native_decide/bv_decide/sorry/own axioms)',
    'Mathlib v4.33.0 modules imported by the lemma files',
    'hand-written Lean model is faithful to the Python code only as far as this run\'s correspondence cases exercise it',
    'harness: generators, canonicaliser, compiled Lean driver (leanc) and its JSON parsing',
    'CPython 3.12, numpy, pyparsing, re, vendored voluptuous are not modelled',
]


def import_repo():
    """make the working tree of /repo importable (never an installed copy)"""
    os.environ[GUARD] = '1'
    if REPO not in sys.path:
        sys.path.insert(0, REPO)
    import warnings
    warnings.filterwarnings('ignore')


def frac_to_str(x):
    if isinstance(x, bool):
        x = int(x)
    if isinstance(x, float):
        x = Fraction(x)
    x = Fraction(x)
    return str(x.numerator) if x.denominator == 1 else '%d/%d' % (x.numerator, x.denominator)


def str_to_frac(s):
    return Fraction(s)


class Driver:
    """pipe to the compiled Lean model driver (one JSON object per line each way)"""

    def __init__(self):
        exe = os.path.join(LEAN, '.lake', 'build', 'bin', 'driver')
        if os.path.exists(exe):
            cmd = [exe]
        else:
            cmd = ['lake', 'env', 'lean', '--run', 'Main.lean']
        self.cmd = cmd
        self.p = subprocess.Popen(cmd, cwd=LEAN, stdin=subprocess.PIPE, stdout=subprocess.PIPE, text=True, bufsize=1)
        self.n = 0

    def ask(self, obj):
        self.n += 1
        self.p.stdin.write(json.dumps(obj) + '\n')
        self.p.stdin.flush()
        line = self.p.stdout.readline()
        if not line:
            raise RuntimeError('lean driver died on %r' % (obj,))
        r = json.loads(line)
        if 'fatal' in r:
            raise RuntimeError('lean driver protocol error %r on %r' % (r['fatal'], obj))
        return r

    def ask_many(self, objs):
        """pipelined: a writer thread feeds the driver while this thread reads the answers (no pipe deadlock,
        whatever the size of the requests)"""
        import threading
        if not objs:
            return []
        data = ''.join(json.dumps(o) + '\n' for o in objs)

        def feed():
            try:
                self.p.stdin.write(data)
                self.p.stdin.flush()
            except Exception:
                pass
        t = threading.Thread(target=feed, daemon=True)
        t.start()
        out = []
        for o in objs:
            line = self.p.stdout.readline()
            if not line:
                raise RuntimeError('lean driver died')
            r = json.loads(line)
            if 'fatal' in r:
                raise RuntimeError('lean driver protocol error %r on %r' % (r['fatal'], o))
            out.append(r)
        t.join()
        self.n += len(objs)
        return out

    def close(self):
        try:
            self.p.stdin.close()
            self.p.wait(timeout=10)
        except Exception:
            self.p.kill()


def strip_lean_comments(src):
    out = []
    i, n, depth = 0, len(src), 0
    while i < n:
        if src.startswith('/-', i):
            depth += 1
            i += 2
        elif depth and src.startswith('-/', i):
            depth -= 1
            i += 2
        elif depth:
            i += 1
        elif src.startswith('--', i):
            while i < n and src[i] != '\n':
                i += 1
        elif src[i] == '"':
            j = i + 1
            while j < n and src[j] != '"':
                j += 2 if src[j] == '\\' else 1
            out.append('""')
            i = j + 1
        else:
            out.append(src[i])
            i += 1
    return ''.join(out)


def lean_sources():
    res = []
    for root, _, files in os.walk(os.path.join(LEAN, 'Mitx')):
        for f in files:
            if f.endswith('.lean'):
                res.append(os.path.join(root, f))
    res.append(os.path.join(LEAN, 'Main.lean'))
    return sorted(res)


def static_audit():
    """forbidden constructs anywhere in the Lean sources (comments and strings stripped)"""
    bad = []
    for p in lean_sources():
        src = strip_lean_comments(open(p, encoding='utf-8').read())
        for m in FORBIDDEN.finditer(src):
            line = src.count('\n', 0, m.start()) + 1
            bad.append('%s:%d: %s' % (os.path.relpath(p, LEAN), line, m.group(0).strip()))
    return bad


def run(cmd, cwd=None, timeout=3600):
    t = time.time()
    p = subprocess.run(cmd, cwd=cwd, stdout=subprocess.PIPE, stderr=subprocess.STDOUT, text=True, timeout=timeout)
    return p.returncode, p.stdout, time.time() - t


def registry():
    return json.load(open(os.path.join(VERIF, 'harness', 'theorems.json')))


def norm_ws(s):
    return re.sub(r'\s+', ' ', s).strip()


def lean_build(pid, extra_targets=()):
    reg = registry()[pid]
    targets = list(reg['modules']) + ['driver'] + list(extra_targets)
    rc, out, dt = run(['lake', 'build'] + targets, cwd=LEAN)
    return rc == 0, out, dt


def lean_audit(pid, pin=False):
    """returns (ok, problems, per-theorem info). Generates an audit file that #checks and #print-axioms
    every theorem registered for the property."""
    regall = registry()
    reg = regall[pid]
    os.makedirs(os.path.join(LEAN, '.audit'), exist_ok=True)
    path = os.path.join(LEAN, '.audit', pid + '.lean')
    lines = ['import %s' % m for m in reg['modules']]
    lines.append('set_option pp.maxSteps 100000')
    lines.append('set_option pp.deepTerms true')
    lines.append('set_option pp.proofs false')
    for th in reg['theorems']:
        lines.append('#eval IO.println "@@@CHECK %s"' % th['name'])
        lines.append('#check @%s' % th['name'])
        lines.append('#eval IO.println "@@@AXIOMS %s"' % th['name'])
        lines.append('#print axioms %s' % th['name'])
    lines.append('#eval IO.println "@@@END"')
    open(path, 'w').write('\n'.join(lines) + '\n')
    rc, out, dt = run(['lake', 'env', 'lean', path], cwd=LEAN)
    problems, info = [], {}
    chunks = re.split(r'^@@@', out, flags=re.M)
    got = {}
    for ch in chunks[1:]:
        head, _, body = ch.partition('\n')
        parts = head.split(' ', 1)
        if len(parts) == 2:
            got[(parts[0], parts[1].strip())] = body.strip()
    for th in reg['theorems']:
        name = th['name']
        stmt = got.get(('CHECK', name))
        ax = got.get(('AXIOMS', name))
        if stmt is None or ax is None or 'error' in (stmt or '')[:200] and 'unknown' in stmt:
            problems.append('theorem %s missing or does not elaborate: %s' % (name, (stmt or out)[:300]))
            continue
        if 'unknown constant' in stmt or 'unknown identifier' in stmt or 'Unknown' in stmt:
            problems.append('theorem %s not found: %s' % (name, stmt[:300]))
            continue
        m = re.search(r'depends on axioms: \[(.*?)\]', ax, re.S)
        axioms = set()
        if m:
            axioms = {a.strip() for a in m.group(1).split(',') if a.strip()}
        elif 'does not depend on any axioms' not in ax:
            problems.append('cannot read axioms of %s: %s' % (name, ax[:200]))
        extra = axioms - ALLOWED_AXIOMS
        if extra:
            problems.append('theorem %s uses disallowed axioms %s' % (name, sorted(extra)))
        st = norm_ws(stmt)
        info[name] = {'axioms': sorted(axioms), 'statement': st, 'status': th.get('status', 'full')}
        if pin:
            th['statement'] = st
        elif norm_ws(th.get('statement', '')) != st:
            problems.append('statement of %s differs from the pinned one:\n   pinned: %s\n   now:    %s' % (name, th.get('statement'), st))
    if rc != 0 and not problems:
        problems.append('audit file failed to elaborate: ' + out[-500:])
    if pin:
        json.dump(regall, open(os.path.join(VERIF, 'harness', 'theorems.json'), 'w'), indent=1, ensure_ascii=False)
    return not problems, problems, info


def leanchecker(pid):
    reg = registry()[pid]
    rc, out, dt = run(['lake', 'env', 'leanchecker'] + list(reg['modules']), cwd=LEAN, timeout=3000)
    return rc == 0, out[-2000:], dt


def known_findings(pid):
    path = os.path.join(VERIF, 'known_findings.json')
    if not os.path.exists(path):
        return []
    return [f for f in json.load(open(path))['findings'] if f['property'] == pid]


class Timeout(BaseException):
    pass


CONFIRMED_HANG = [False]   # a timeout reproduced under the long alarm: later timeouts are believed at once
SLOW_RETRIES = [0]      # calls that hit their alarm once but completed when re-run with a much longer one (machine under load)


def _alarm_once(fn, seconds):
    import signal

    def h(sig, frm):
        raise Timeout()
    t0 = time.time()
    old = signal.signal(signal.SIGALRM, h)
    prev_delay, _ = signal.setitimer(signal.ITIMER_REAL, seconds)
    if prev_delay and prev_delay < seconds:
        # an enclosing alarm is due earlier: keep it (nestable alarms)
        signal.signal(signal.SIGALRM, old)
        signal.setitimer(signal.ITIMER_REAL, prev_delay)
        return fn(), True
    try:
        return fn(), bool(prev_delay)
    finally:
        signal.setitimer(signal.ITIMER_REAL, 0)
        signal.signal(signal.SIGALRM, old)
        if prev_delay:
            signal.setitimer(signal.ITIMER_REAL, max(0.01, prev_delay - (time.time() - t0)))


def with_alarm(fn, seconds=10, patient=True):
    """run fn() under a wall-clock alarm; raises Timeout (a BaseException, so `except Exception` in the code under test cannot swallow it).
    A timeout is believed only if it reproduces: outside an enclosing alarm the call is run once more with a six times longer alarm (a stalled
    machine - parallel builds, other checks - must not be mistaken for a non-terminating call); the number of such retries is in the evidence."""
    import signal
    nested = signal.getitimer(signal.ITIMER_REAL)[0] > 0
    try:
        return _alarm_once(fn, seconds)[0]
    except Timeout:
        if nested or not patient or CONFIRMED_HANG[0]:
            raise
        try:
            r = _alarm_once(fn, seconds * 6 + 20)[0]
        except Timeout:
            CONFIRMED_HANG[0] = True
            raise
        SLOW_RETRIES[0] += 1
        return r


class Ctx:
    """what a property module sees"""

    def __init__(self, pid, tier, seed):
        self.pid, self.tier, self.seed = pid, tier, seed
        self.rng = random.Random(seed * 1000003 + int(hashlib.sha1(pid.encode()).hexdigest()[:8], 16))
        self.t0 = time.time()
        self.evaluations = 0
        self.nontrivial = set()
        self.samples = []
        self.hist = {}
        self.disagreements = []       # model vs implementation
        self.violations = []          # property oracle fails on the implementation
        self.known_hits = {}          # finding id -> description of the observed failure
        self.notes = []
        self.contract_checks = 0
        self.driver = None
        self.model_ok = True          # lean build + audit succeeded
        self.quick = tier == 'quick'
        self.deadline = None          # set while a failing-input search runs (time budget)

    def scale(self, quick, thorough):
        return quick if self.quick else thorough

    def count(self, key, n=1):
        self.hist[key] = self.hist.get(key, 0) + n

    def case(self, sample, nontrivial_key=None, kind=None):
        """register one explored case; nontrivial_key (hashable) marks it distinct & non-trivial"""
        if self.deadline is not None and time.time() > self.deadline:
            raise Timeout()
        self.evaluations += 1
        if kind:
            self.count(kind)
        if nontrivial_key is not None:
            h = hashlib.sha1(repr(nontrivial_key).encode()).digest()[:8]
            self.nontrivial.add(h)
        if len(self.samples) < 6 or (self.evaluations % 997 == 0 and len(self.samples) < 12):
            self.samples.append(sample)

    def disagree(self, what, case, impl, model):
        self.disagreements.append({'what': what, 'case': case, 'impl': impl, 'model': model})

    def violation(self, what, case, impl=None, expected=None):
        self.violations.append({'what': what, 'case': case, 'impl': impl, 'expected': expected})

    def known(self, fid, what):
        self.known_hits[fid] = what


def jsonable(x):
    if isinstance(x, Fraction):
        return frac_to_str(x)
    if isinstance(x, (list, tuple)):
        return [jsonable(i) for i in x]
    if isinstance(x, dict):
        return {str(k): jsonable(v) for k, v in x.items()}
    if isinstance(x, (str, int, float, bool)) or x is None:
        return x
    if isinstance(x, (set, frozenset)):
        return sorted(jsonable(i) for i in x)
    return repr(x)

"""Generated grader trees for the grading-core properties (C01, C05, C07, C08, C11):
real graders (SingleListGrader, ListGrader over a harness-defined table-driven ItemGrader with exact Fraction
credits) together with the JSON description the Lean model is driven with."""
import itertools
from fractions import Fraction
from common import frac_to_str

_cls = {}


def table_grader_class():
    """defined lazily (needs /repo on sys.path)"""
    if 'T' in _cls:
        return _cls['T']
    from mitxgraders.baseclasses import ItemGrader
    from voluptuous import Required

    class TableGrader(ItemGrader):
        """check_response is a lookup table (expect, input) -> (credit, msg) | exception instance"""

        @property
        def schema_config(self):
            schema = super(TableGrader, self).schema_config
            return schema.extend({Required('table', default={}): dict})

        def check_response(self, answer, student_input, **kwargs):
            t = self.config['table'].get((answer['expect'], student_input))
            if t is None:
                return {'ok': False, 'grade_decimal': 0, 'msg': ''}
            if isinstance(t, BaseException):
                raise t
            credit, msg = t
            g = credit * answer['grade_decimal']
            ok = answer['ok'] if credit == 1 else self.grade_decimal_to_ok(g)
            return {'ok': ok, 'grade_decimal': g, 'msg': answer['msg'] if (credit > 0 and msg == '') else msg}
    _cls['T'] = TableGrader
    return TableGrader


KEYS = ['a', 'b', 'c', 'd', 'e']
INPUTS = ['a', 'b', 'c', 'd', 'e', 'x', 'y', ' a', 'a ', '']
PAL = [Fraction(0), Fraction(1, 4), Fraction(1, 3), Fraction(1, 2), Fraction(2, 3), Fraction(3, 4), Fraction(1)]
DYAD = [Fraction(0), Fraction(1, 4), Fraction(1, 2), Fraction(3, 4), Fraction(1)]
MSGS = ['', '', 'm1', 'a longer message', 'line1\nline2', 'ünï']


def exc_of(desc):
    from mitxgraders import exceptions as X
    mitx, cls, msg = desc
    if mitx:
        return getattr(X, cls)(msg)
    return {'ValueError': ValueError, 'KeyError': KeyError, 'ZeroDivisionError': ZeroDivisionError, 'RuntimeError': RuntimeError,
            'TypeError': TypeError, 'IndexError': IndexError}[cls](msg)


def gen_table(rng, pal, raises=0.0, inputs=None, density=0.5):
    """returns (python table dict, json table list)"""
    tab, js = {}, []
    for k in KEYS:
        for i in (inputs or INPUTS):
            if k == i and rng.random() < 0.8:
                c, m = Fraction(1), rng.choice(MSGS[:3])
            elif rng.random() < density:
                c, m = rng.choice(pal), rng.choice(MSGS)
            else:
                continue
            if rng.random() < raises:
                desc = rng.choice([(True, 'InvalidInput', 'bad\ninput'), (True, 'ConfigError', 'cfg'), (True, 'StudentFacingError', 'oops'),
                                   (False, 'ValueError', 'boom'), (False, 'ZeroDivisionError', 'division by zero'), (True, 'MissingInput', 'missing')])
                tab[(k, i)] = exc_of(desc)
                js.append({'expect': k, 'input': i, 'raise': [desc[0], desc[1], desc[2]]})
            else:
                tab[(k, i)] = (c, m)
                js.append({'expect': k, 'input': i, 'credit': frac_to_str(c), 'msg': m})
    return tab, js


def gen_item_answers(rng, pal, nmax=4, keys=None):
    """an `answers` config value for a leaf grader (author form)"""
    keys = keys or KEYS
    n = rng.randint(1, nmax)
    out = []
    for _ in range(n):
        r = rng.random()
        exp = rng.choice(keys) if r < 0.6 else tuple(rng.sample(keys, rng.randint(1, 3)))
        if rng.random() < 0.3 and not isinstance(exp, tuple):
            out.append(exp)
            continue
        d = {'expect': exp}
        if rng.random() < 0.7:
            d['grade_decimal'] = rng.choice(pal)
        if rng.random() < 0.5:
            d['msg'] = rng.choice(MSGS)
        if rng.random() < 0.3:
            d['ok'] = rng.choice([True, False, 'partial', 'computed'])
            if rng.random() < 0.5:
                # an author who writes only `ok`: the credit stays at its default (1) and `ok` is kept as written -- the two fields then disagree
                d.pop('grade_decimal', None)
                if rng.random() < 0.5:
                    d.pop('msg', None)
        out.append(d)
    return tuple(out) if (n > 1 or rng.random() < 0.5) else out[0]


def answers_to_json(ans):
    """canonical config['answers'] of an item grader -> JSON for the model"""
    out = []
    for a in ans:
        exps = []
        for e in a['expect']:
            if isinstance(e, str):
                exps.append(e)
            else:      # SingleListGrader: list of validated sub-answers
                exps.append([answers_to_json(x) for x in e])
        out.append({'expect': exps, 'grade_decimal': frac_to_str(a['grade_decimal']), 'msg': a['msg'], 'ok': a['ok']})
    return out


def list_answers_to_json(grader):
    """canonical config['answers'] of a ListGrader -> JSON"""
    from mitxgraders import ListGrader
    subs = grader.config['subgraders'] if grader.subgrader_list else None
    out = []
    for al in grader.config['answers']:
        row = []
        for idx, a in enumerate(al):
            sg = subs[idx] if subs else grader.config['subgraders']
            if isinstance(sg, ListGrader):
                row.append(list_answers_of(sg, a))
            else:
                row.append(answers_to_json(a))
        out.append(row)
    return out


def list_answers_of(sg, tup):
    from mitxgraders import ListGrader
    subs = sg.config['subgraders'] if sg.subgrader_list else None
    out = []
    for al in tup:
        row = []
        for idx, a in enumerate(al):
            s2 = subs[idx] if subs else sg.config['subgraders']
            row.append(list_answers_of(s2, a) if isinstance(s2, ListGrader) else answers_to_json(a))
        out.append(row)
    return out


class Built:
    """a real grader + its model description"""

    def __init__(self, grader, desc, kind):
        self.grader, self.desc, self.kind = grader, desc, kind

    def answers_json(self):
        from mitxgraders import ListGrader
        if isinstance(self.grader, ListGrader):
            return list_answers_to_json(self.grader)
        return answers_to_json(self.grader.config['answers'])


def build_leaf(rng, pal, answers=None, raises=0.0, wrong_msg=None, **kw):
    T = table_grader_class()
    tab, js = gen_table(rng, pal, raises)
    wm = wrong_msg if wrong_msg is not None else rng.choice(['', '', 'generic wrong'])
    cfg = dict(table=tab, wrong_msg=wm, **kw)
    if answers is not None:
        cfg['answers'] = answers
    g = T(**cfg)
    return Built(g, {'type': 'table', 'wrong_msg': wm, 'tab': js}, 'table')


def build_singlelist(rng, pal, sub, answers=None, nested=False, **kw):
    from mitxgraders import SingleListGrader
    cfgd = {'ordered': rng.random() < 0.4, 'length_error': rng.random() < 0.15, 'missing_error': rng.random() < 0.6,
            'partial_credit': rng.random() < 0.75, 'delimiter': rng.choice([';', ';;', '|']) if nested else rng.choice([',', ',', '&&', ', '])}
    cfgd.update({k: v for k, v in kw.items() if k in cfgd})
    wm = rng.choice(['', '', 'list wrong'])
    extra = {k: v for k, v in kw.items() if k not in cfgd}
    cfg = dict(subgrader=sub.grader, wrong_msg=wm, **cfgd, **extra)
    if answers is not None:
        cfg['answers'] = answers
    g = SingleListGrader(**cfg)
    return Built(g, {'type': 'singlelist', 'wrong_msg': wm, 'cfg': cfgd, 'sub': sub.desc}, 'singlelist')


def gen_sl_answers(rng, pal, n_items=None, alt_lists=None, nested=False, sub_delim=','):
    """author-form answers for a SingleListGrader over a leaf (or over an inner SingleListGrader when nested)"""
    n = n_items or rng.randint(1, 5)

    def item():
        if nested:
            k = rng.randint(1, 3)
            return [gen_item_answers(rng, pal, 2) for _ in range(k)]
        return gen_item_answers(rng, pal, 3)

    def one_list():
        return [item() for _ in range(n)]
    k = alt_lists or rng.choice([1, 1, 2, 3])
    outs = []
    for _ in range(k):
        r = rng.random()
        if r < 0.35:
            outs.append(one_list())
        else:
            d = {'expect': one_list() if rng.random() < 0.8 else (one_list(), one_list())}
            if rng.random() < 0.6:
                d['grade_decimal'] = rng.choice(pal)
            if rng.random() < 0.6:
                d['msg'] = rng.choice(['', 'ANSWER-LEVEL', 'ANSWER-LEVEL two', 'ANS\nLEVEL'])
            outs.append(d)
    return tuple(outs) if (k > 1 or rng.random() < 0.5) else outs[0]


def build_list(rng, pal, subs, answers, ordered, partial_credit=True, grouping=None, **kw):
    from mitxgraders import ListGrader
    sg = [s.grader for s in subs] if len(subs) > 1 else subs[0].grader
    g = ListGrader(answers=answers, subgraders=sg, ordered=ordered, partial_credit=partial_credit, grouping=grouping or [], **kw)
    g.debuglog = []      # normally created by __call__; lets the harness call check() directly
    desc = {'type': 'list', 'cfg': {'ordered': ordered, 'partial_credit': partial_credit, 'grouping': grouping or []}, 'subs': [s.desc for s in subs]}
    return Built(g, desc, 'list')


def canon_result(res):
    """real result dict -> comparable JSON (grades as exact strings)"""
    def one(e):
        if e is None:
            return None
        return {'ok': e['ok'], 'grade_decimal': frac_to_str(e['grade_decimal']), 'msg': e['msg']}
    if 'input_list' in res:
        return {'overall_message': res.get('overall_message', ''), 'input_list': [one(e) for e in res['input_list']]}
    return one(res)


def run_impl(fn):
    """returns ('out', value) | ('err', [family, class, message])"""
    from mitxgraders.exceptions import MITxError
    from common import with_alarm, Timeout
    try:
        return ('out', with_alarm(fn, 20))
    except MITxError as e:
        return ('err', ['mitx', type(e).__name__, str(e)])
    except Timeout:
        return ('err', ['py', 'Timeout', 'does not terminate'])
    except Exception as e:
        return ('err', ['py', type(e).__name__, str(e)])

"""Translator: mitxgraders/helpers/calc/mathfuncs.py  ->  lean/Mitx/Generated/MathFuncs.lean

* the derived one-line functions (sec csc cot arcsec arccsc arccot sech csch coth arcsech arccsch arccoth, the bodies of
  arctan2 and kronecker) are read from the AST of the live source and printed as Lean definitions over the reals;
  numpy primitives become Mathlib functions where Mathlib has them (cos sin tan arccos arcsin arctan cosh sinh tanh) and
  explicit function parameters otherwise (arccosh arcsinh arctanh arctan2);
* the default function / constant / suffix tables are read from the live module objects and printed as data
  (name, what the entry points to, domain decorator)."""
import ast, os, inspect

MATHLIB = {'cos': 'Real.cos', 'sin': 'Real.sin', 'tan': 'Real.tan', 'arccos': 'Real.arccos', 'arcsin': 'Real.arcsin', 'arctan': 'Real.arctan',
           'cosh': 'Real.cosh', 'sinh': 'Real.sinh', 'tanh': 'Real.tanh'}
PARAMS = ['arccosh', 'arcsinh', 'arctanh', 'arctan2']
ONE_LINERS = ['sec', 'csc', 'cot', 'arcsec', 'arccsc', 'arccot', 'sech', 'csch', 'coth', 'arcsech', 'arccsch', 'arccoth']


class Untranslatable(Exception):
    pass


def expr(e, used):
    if isinstance(e, ast.BinOp):
        op = {ast.Div: '/', ast.Sub: '-', ast.Add: '+', ast.Mult: '*'}.get(type(e.op))
        if op is None:
            raise Untranslatable(ast.dump(e.op))
        return '(%s %s %s)' % (expr(e.left, used), op, expr(e.right, used))
    if isinstance(e, ast.UnaryOp) and isinstance(e.op, ast.USub):
        return '(-%s)' % expr(e.operand, used)
    if isinstance(e, ast.Constant) and isinstance(e.value, (int, float)) and float(e.value) == int(e.value):
        return '(%d : ℝ)' % int(e.value)
    if isinstance(e, ast.Name):
        return e.id
    if isinstance(e, ast.Attribute) and isinstance(e.value, ast.Name) and e.value.id == 'np' and e.attr == 'pi':
        return 'Real.pi'
    if isinstance(e, ast.Call) and isinstance(e.func, ast.Attribute) and isinstance(e.func.value, ast.Name) and e.func.value.id == 'np':
        f = e.func.attr
        args = ' '.join(expr(a, used) for a in e.args)
        if f == 'real' and len(e.args) == 1:
            return expr(e.args[0], used)         # real arguments: np.real is the identity
        if f in MATHLIB:
            return '(%s %s)' % (MATHLIB[f], args)
        if f in PARAMS:
            used.add(f)
            return '(%s %s)' % (f, args)
    raise Untranslatable(ast.dump(e)[:200])


def cond(e, used):
    if isinstance(e, ast.Compare) and len(e.ops) == 1:
        op = {ast.Lt: '<', ast.Gt: '>', ast.LtE: '≤', ast.GtE: '≥', ast.Eq: '='}.get(type(e.ops[0]))
        if op:
            return '%s %s %s' % (expr(e.left, used), op, expr(e.comparators[0], used))
    if isinstance(e, ast.BoolOp) and isinstance(e.op, ast.And):
        return ' ∧ '.join('(%s)' % cond(v, used) for v in e.values)
    raise Untranslatable(ast.dump(e)[:200])


def body(stmts, used):
    stmts = [s for s in stmts if not (isinstance(s, ast.Expr) and isinstance(s.value, ast.Constant))]      # drop docstrings
    if len(stmts) == 1 and isinstance(stmts[0], ast.Return):
        return expr(stmts[0].value, used)
    if len(stmts) == 1 and isinstance(stmts[0], ast.If) and stmts[0].orelse:
        return 'if %s then %s else %s' % (cond(stmts[0].test, used), body(stmts[0].body, used), body(stmts[0].orelse, used))
    if len(stmts) == 2 and isinstance(stmts[0], ast.If) and not stmts[0].orelse and isinstance(stmts[1], ast.Return):
        first = stmts[0].body
        if len(first) == 1 and isinstance(first[0], ast.Raise):
            return 'if %s then none else some %s' % (cond(stmts[0].test, used), expr(stmts[1].value, used))
        return 'if %s then %s else %s' % (cond(stmts[0].test, used), body(first, used), expr(stmts[1].value, used))
    raise Untranslatable('statements: ' + ', '.join(type(s).__name__ for s in stmts))


def describe(f):
    """what a table entry points to: the innermost function and the decorator's domain"""
    dom = ''
    inner = f
    while hasattr(inner, '__wrapped__'):
        inner = inner.__wrapped__
    if getattr(f, 'validated', False) and f is not inner:
        cl = {}
        for n, c in zip(getattr(f, '__code__', None).co_freevars if hasattr(f, '__code__') else [], f.__closure__ or []):
            try:
                cl[n] = c.cell_contents
            except ValueError:      # empty cell
                pass
        shapes = cl.get('shapes')
        dom = 'shapes=%s,min_length=%s' % (list(shapes) if shapes is not None else '?', cl.get('min_length'))
    mod = getattr(inner, '__module__', None) or type(inner).__module__
    name = getattr(inner, '__name__', repr(inner))
    if name == '<lambda>':
        try:
            name = 'lambda:' + inspect.getsource(inner).strip().split(':', 1)[1].strip().rstrip(',')
        except Exception:
            pass
    mod = 'numpy.scimath' if 'scimath' in str(mod) else 'numpy' if str(mod).startswith('numpy') else str(mod)
    return '%s.%s' % (mod, name), dom


def lean_str(s):
    return '"' + s.replace('\\', '\\\\').replace('"', '\\"') + '"'


def generate(repo, out_path):
    src = open(os.path.join(repo, 'mitxgraders/helpers/calc/mathfuncs.py'), encoding='utf-8').read()
    tree = ast.parse(src)
    funcs = {n.name: n for n in tree.body if isinstance(n, ast.FunctionDef)}
    lines = ['import Mathlib.Analysis.SpecialFunctions.Trigonometric.Arctan', 'import Mathlib.Analysis.SpecialFunctions.Trigonometric.Inverse',
             'import Mathlib.Analysis.SpecialFunctions.Trigonometric.Basic',
             '/-! GENERATED by harness/translate/mathfuncs.py from mitxgraders/helpers/calc/mathfuncs.py on every check run. Do not edit. -/',
             'namespace GenMF', 'noncomputable section', '']
    notes = []
    for name in ONE_LINERS + ['arctan2', 'kronecker']:
        fn = funcs.get(name)
        if fn is None:
            lines.append('-- %s: MISSING in the source' % name); notes.append(name + ' missing'); continue
        args = [a.arg for a in fn.args.args]
        used = set()
        try:
            b = body(fn.body, used)
        except Untranslatable as e:
            lines.append('-- %s: not translatable: %s' % (name, e)); notes.append('%s untranslatable' % name); continue
        params = ''.join(' (%s : %s)' % (p, 'ℝ → ℝ → ℝ' if p == 'arctan2' else 'ℝ → ℝ') for p in PARAMS if p in used)
        ret = 'Option ℝ' if 'then none' in b else 'ℝ'
        lname = name + "'" if name in ('arctan2',) and 'arctan2' in used else name
        lines.append('def %s%s %s : %s := %s' % (lname, params, ' '.join('(%s : ℝ)' % a for a in args), ret, b))
    lines += ['', 'end', '']
    import mitxgraders.helpers.calc.mathfuncs as MF
    tables = []
    for tname in ['DEFAULT_FUNCTIONS', 'ARRAY_ONLY_FUNCTIONS']:
        for k in sorted(getattr(MF, tname)):
            tgt, dom = describe(getattr(MF, tname)[k])
            tables.append((tname, k, tgt, dom))
    consts = sorted((k, repr(v)) for k, v in MF.DEFAULT_VARIABLES.items())
    sufs = sorted((k, repr(v)) for k, v in list(MF.DEFAULT_SUFFIXES.items()) + list(MF.METRIC_SUFFIXES.items()))
    lines.append('def funcTable : List (String × String × String × String) := [')
    lines.append(',\n'.join('  (%s, %s, %s, %s)' % tuple(lean_str(x) for x in row) for row in tables))
    lines.append(']')
    lines.append('def constTable : List (String × String) := [' + ', '.join('(%s, %s)' % (lean_str(a), lean_str(b)) for a, b in consts) + ']')
    lines.append('def suffixTable : List (String × String) := [' + ', '.join('(%s, %s)' % (lean_str(a), lean_str(b)) for a, b in sufs) + ']')
    lines += ['end GenMF', '']
    new = '\n'.join(lines)
    if not os.path.exists(out_path) or open(out_path, encoding='utf-8').read() != new:
        open(out_path, 'w', encoding='utf-8').write(new)
    return notes, len(tables)

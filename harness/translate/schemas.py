"""Translator: the voluptuous schema_config of every public class (read from live objects)  ->  lean/Mitx/Generated/Schemas.lean

Each class becomes a list of options (name, required?, default, domain) where the domain is a term of the model's `Spec`
language (types, literals, Any/All, Range, Length, homogeneous lists, nested dicts) and named validator functions become
`prim "<qualified name>"`."""
import os, numbers
from fractions import Fraction


def lean_str(s):
    return '"' + s.replace('\\', '\\\\').replace('"', '\\"').replace('\n', '\\n') + '"'


def rat(x):
    f = Fraction(x)
    return '(%d : Rat)' % f.numerator if f.denominator == 1 else '((%d : Rat) / %d)' % (f.numerator, f.denominator)


def pyval(v):
    """a Python value as a term of the model's PyVal (None for values the model cannot represent)"""
    if v is None:
        return '.none'
    if isinstance(v, bool):
        return '(.bool %s)' % ('true' if v else 'false')
    if isinstance(v, int):
        return '(.int %s)' % ('(%d)' % v)
    if isinstance(v, float):
        if v != v or v in (float('inf'), float('-inf')):
            return '(.obj [%s])' % lean_str(repr(v))
        return '(.num %s)' % rat(v)
    if isinstance(v, str):
        return '(.str %s)' % lean_str(v)
    if isinstance(v, (list, tuple)):
        items = [pyval(x) for x in v]
        return '(%s [%s])' % ('.list' if isinstance(v, list) else '.tuple', ', '.join(items))
    if isinstance(v, dict) and all(isinstance(k, str) for k in v):
        return '(.dict [%s])' % ', '.join('(%s, %s)' % (lean_str(k), pyval(x)) for k, x in v.items())
    return '(.obj [%s])' % ', '.join(lean_str(c.__name__) for c in type(v).__mro__ if c is not object)      # class name and its base classes


TYPES = {str: 'str', bool: 'bool', int: 'int', float: 'float', list: 'list', tuple: 'tuple', dict: 'dict', object: 'object', numbers.Number: 'Number'}


def spec(v, depth=0):
    import voluptuous as V
    if depth > 6:
        return '(.prim "deep")'
    if isinstance(v, V.Schema):
        return spec(v.schema, depth + 1)
    if isinstance(v, type):
        if v in TYPES:
            return '(.ty %s)' % lean_str(TYPES[v])
        return '(.ty %s)' % lean_str(v.__name__)
    if v is None or isinstance(v, (bool, int, float, str)):
        return '(.lit %s)' % pyval(v)
    if isinstance(v, V.Any):
        return '(.any [%s])' % ', '.join(spec(x, depth + 1) for x in v.validators)
    if isinstance(v, V.All):
        return '(.all [%s])' % ', '.join(spec(x, depth + 1) for x in v.validators)
    if isinstance(v, V.Range):
        lo = 'none' if v.min is None or v.min == float('-inf') else 'some %s' % rat(v.min)
        hi = 'none' if v.max is None or v.max == float('inf') else 'some %s' % rat(v.max)
        return '(.range (%s) (%s) %s %s)' % (lo, hi, 'true' if v.min_included else 'false', 'true' if v.max_included else 'false')
    if isinstance(v, V.Length):
        lo = 'none' if v.min is None else 'some %d' % v.min
        hi = 'none' if v.max is None else 'some %d' % v.max
        return '(.len (%s) (%s))' % (lo, hi)
    if isinstance(v, V.NotIn):
        return '(.notIn [%s])' % ', '.join(pyval(x) for x in v.container)
    if isinstance(v, V.Coerce):
        return '(.prim %s)' % lean_str('Coerce(%s)' % getattr(v.type, '__name__', repr(v.type)))
    if isinstance(v, list):
        return '(.listOf [%s])' % ', '.join(spec(x, depth + 1) for x in v)
    if isinstance(v, dict):
        fields, extra = [], 'false'
        for k, x in v.items():
            if k is V.Extra or (isinstance(k, type) and k is V.Extra):
                extra = 'true'; continue
            name = k.schema if isinstance(k, V.Marker) else k
            if not isinstance(name, str):
                extra = 'true'; continue
            req = 'true' if isinstance(k, V.Required) else 'false'
            has_default = isinstance(k, V.Marker) and not isinstance(getattr(k, 'default', V.UNDEFINED), V.Undefined)
            dflt = 'some %s' % pyval(k.default()) if has_default else 'none'
            fields.append('⟨%s, %s, %s, %s⟩' % (lean_str(name), req, dflt, spec(x, depth + 1)))
        return '(.dict [%s] %s)' % (', '.join(fields), extra)
    if callable(v):
        name = getattr(v, '__qualname__', getattr(v, '__name__', type(v).__name__))
        return '(.prim %s)' % lean_str(name)
    return '(.prim %s)' % lean_str(type(v).__name__)


def public_classes():
    """(name, class, minimal valid kwargs)"""
    import mitxgraders as M
    from mitxgraders.comparers import EqualityComparer, MatrixEntryComparer, LinearComparer
    from mitxgraders.helpers.calc.specify_domain import SpecifyDomain
    from mitxgraders import attemptcredit as AC
    out = [
        ('StringGrader', M.StringGrader, {}), ('FormulaGrader', M.FormulaGrader, {}), ('NumericalGrader', M.NumericalGrader, {}), ('MatrixGrader', M.MatrixGrader, {}),
        ('SingleListGrader', M.SingleListGrader, {'subgrader': M.StringGrader()}), ('ListGrader', M.ListGrader, {'answers': ['a', 'b'], 'subgraders': M.StringGrader()}),
        ('IntervalGrader', M.IntervalGrader, {}),
        ('SumGrader', M.SumGrader, {'answers': {'lower': '1', 'upper': '2', 'summand': 'n', 'summation_variable': 'n'}}),
        ('IntegralGrader', M.IntegralGrader, {'answers': {'lower': '1', 'upper': '2', 'integrand': 'x', 'integration_variable': 'x'}}),
        ('RealInterval', M.RealInterval, {}), ('IntegerRange', M.IntegerRange, {}), ('ComplexRectangle', M.ComplexRectangle, {}), ('ComplexSector', M.ComplexSector, {}),
        ('RandomFunction', M.RandomFunction, {}), ('DependentSampler', M.DependentSampler, {'formula': 'x'}),
        ('RealVectors', M.RealVectors, {}), ('ComplexVectors', M.ComplexVectors, {}), ('RealMatrices', M.RealMatrices, {}), ('ComplexMatrices', M.ComplexMatrices, {}),
        ('RealTensors', M.RealTensors, {'shape': [2, 2, 2]}), ('ComplexTensors', M.ComplexTensors, {'shape': [2, 2, 2]}),
        ('SquareMatrices', M.SquareMatrices, {}), ('IdentityMatrixMultiples', M.IdentityMatrixMultiples, {}),
        ('EqualityComparer', EqualityComparer, {}), ('MatrixEntryComparer', MatrixEntryComparer, {}), ('LinearComparer', LinearComparer, {}),
        ('LinearCredit', AC.LinearCredit, {}), ('GeometricCredit', AC.GeometricCredit, {}), ('ReciprocalCredit', AC.ReciprocalCredit, {}),
        ('SpecifyDomain', SpecifyDomain, {'input_shapes': [1]}),
    ]
    return out


def class_schema(obj):
    sc = obj.schema_config
    return sc.schema if hasattr(sc, 'schema') else sc


def generate(out_path):
    lines = ['import Mitx.Model.Schema', '/-! GENERATED by harness/translate/schemas.py from the live schema_config objects on every check run. Do not edit. -/', 'namespace GenSch', 'open Sc', '']
    names, fps = [], []
    for name, cls, kw in public_classes():
        obj = cls(**kw)
        sch = class_schema(obj)
        text = spec(sch)
        lines.append('def %s : Spec := %s' % (name, text))
        names.append(name); fps.append((name, text))
    lines.append('')
    lines.append('def all : List (String × Spec) := [' + ', '.join('(%s, %s)' % (lean_str(n), n) for n in names) + ']')
    lines.append('/-- the same schemas as canonical text, for comparison with the documented tables -/')
    lines.append('def fingerprint : List (String × String) := [' + ',\n  '.join('(%s, %s)' % (lean_str(n), lean_str(t)) for n, t in fps) + ']')
    lines += ['end GenSch', '']
    new = '\n'.join(lines)
    if not os.path.exists(out_path) or open(out_path, encoding='utf-8').read() != new:
        open(out_path, 'w', encoding='utf-8').write(new)
    return len(names)

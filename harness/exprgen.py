"""Grammar-directed generator of formula strings with a known mathematical meaning (shared by C03/C09/C10/...).

AST (nested tuples):  ('num', text, suffix|None)  ('var', name)  ('call', f, [args])  ('arr', [items])
                      ('neg', e) ('pow', b, e) ('par', [e1, e2, ...]) ('mul', a, b) ('div', a, b) ('add', a, b) ('sub', a, b)
`render` prints with minimal parentheses under the documented precedence table, `value` is the textbook
value over Fractions (independent of the library's parser)."""
from fractions import Fraction

VARS = {'x': Fraction(2), 'y': Fraction(3), 'z': Fraction(5, 2), 'a_1': Fraction(-3, 2), "b'": Fraction(1, 4),
        'c_{12}^{ab}': Fraction(7), 'Xy2': Fraction(-1), 'T_{-3}': Fraction(4), 'w_x_2': Fraction(1, 2), "p''": Fraction(-2),
        'q^{2}': Fraction(3, 4), 'k': Fraction(5)}
SUFS = {'%': Fraction(1, 100), 'k': Fraction(1000), 'M': Fraction(10 ** 6), 'm': Fraction(1, 1000), 'u': Fraction(1, 10 ** 6)}
FUNCS = {'f1': 1, 'g2': 2, 'h3': 3}
NUMS = ['1', '2', '3', '7', '10', '0', '2.5', '.5', '3.', '0.25', '1.50', '2e3', '25E-2', '4e+1', '12E0', '5e-1', '1.5e2', '.5E1', '00.5']   # all exactly representable as doubles


class OOM(Exception):
    pass


class DivZero(Exception):
    pass


def num_value(text):
    t = text.upper().replace('—', '-')
    mant, _, ex = t.partition('E')
    ip, _, fp = mant.partition('.')
    m = Fraction(int(ip or '0')) + (Fraction(int(fp), 10 ** len(fp)) if fp else 0)
    return m * Fraction(10) ** int(ex or '0')


TRACK = {'max': Fraction(0), 'min': None}


def track_reset():
    TRACK['max'] = Fraction(0)
    TRACK['min'] = None


def _t(v):
    a = abs(v)
    if a > TRACK['max']:
        TRACK['max'] = a
    if a != 0 and (TRACK['min'] is None or a < TRACK['min']):
        TRACK['min'] = a
    return v


def value(e, env=VARS, sufs=SUFS):
    """textbook value; every intermediate magnitude is recorded in TRACK (floats overflow where rationals do not)"""
    return _t(_value(e, env, sufs))


def _value(e, env, sufs):
    k = e[0]
    if k == 'grp':
        return value(e[1], env, sufs)
    if k == 'num':
        v = num_value(e[1])
        return v * sufs[e[2]] if e[2] else v
    if k == 'var':
        return env[e[1]]
    if k == 'call':
        a = [value(x, env, sufs) for x in e[2]]
        if e[1] == 'f1' and len(a) == 1:
            return 2 * a[0] + 1
        if e[1] == 'g2' and len(a) == 2:
            return a[0] - 3 * a[1]
        if e[1] == 'h3' and len(a) == 3:
            return a[0] + 2 * a[1] + 4 * a[2]
        raise OOM()
    if k == 'arr':
        raise OOM()
    if k == 'neg':
        return -value(e[1], env, sufs)
    if k == 'pow':
        b, x = value(e[1], env, sufs), value(e[2], env, sufs)
        if x.denominator != 1 or abs(x) > 64:
            raise OOM()
        if x < 0 and b == 0:
            raise DivZero()
        return b ** int(x)
    if k == 'par':
        vs = [value(x, env, sufs) for x in e[1]]
        if any(v == 0 for v in vs):
            return Fraction(0)
        s = sum(1 / v for v in vs)
        if s == 0:
            raise DivZero()
        return 1 / s
    a, b = value(e[1], env, sufs), value(e[2], env, sufs)
    if k == 'mul':
        return a * b
    if k == 'div':
        if b == 0:
            raise DivZero()
        return a / b
    if k == 'add':
        return a + b
    if k == 'sub':
        return a - b
    raise ValueError(k)


LVL = {'grp': 5, 'add': 0, 'sub': 0, 'mul': 1, 'div': 1, 'par': 2, 'neg': 3, 'pow': 4, 'num': 5, 'var': 5, 'call': 5, 'arr': 5}


def render(e, k=0, minus='-'):
    """token list of e at a position that admits precedence level >= k"""
    toks = core(e, minus)
    if LVL[e[0]] >= k:
        return toks
    return ['('] + toks + [')']


def expo(e, minus):
    if e[0] == 'neg':
        return [minus] + chain(e[1], minus)
    return chain(e, minus)


def chain(e, minus):
    if e[0] == 'pow':
        return render(e[1], 5, minus) + ['^'] + expo(e[2], minus)
    return render(e, 5, minus)


def core(e, minus='-'):
    k = e[0]
    if k == 'grp':
        return ['('] + render(e[1], 0, minus) + [')']
    if k == 'num':
        return [e[1] + (e[2] or '')]
    if k == 'var':
        return [e[1]]
    if k == 'call':
        out = [e[1], '(']
        for i, a in enumerate(e[2]):
            out += ([','] if i else []) + render(a, 0, minus)
        return out + [')']
    if k == 'arr':
        out = ['[']
        for i, a in enumerate(e[1]):
            out += ([','] if i else []) + render(a, 0, minus)
        return out + [']']
    if k == 'neg':
        return [minus] + render(e[1], 4, minus)
    if k == 'pow':
        return render(e[1], 5, minus) + ['^'] + expo(e[2], minus)
    if k == 'par':
        out = []
        for i, a in enumerate(e[1]):
            out += (['|', '|'] if i else []) + render(a, 3, minus)
        return out
    op = {'mul': '*', 'div': '/', 'add': '+', 'sub': minus}[k]
    lo = LVL[k]
    return render(e[1], lo, minus) + [op] + render(e[2], lo + 1, minus)


def gen_tree(rng, depth=4, arrays=False, names=None, funcs=True, sufs=True):
    names = names or list(VARS)
    r = rng.random()
    if depth <= 0 or r < 0.22:
        if rng.random() < 0.5:
            return ('var', rng.choice(names))
        suf = rng.choice(['k', 'M']) if (sufs and rng.random() < 0.2) else None      # integer multipliers only inside compound expressions
        return ('num', rng.choice(NUMS), suf)
    d = depth - 1
    g = lambda: gen_tree(rng, d, arrays, names, funcs, sufs)
    if r < 0.30 and funcs:
        f = rng.choice(list(FUNCS))
        return ('call', f, [g() for _ in range(FUNCS[f])])
    if r < 0.34 and arrays:
        return ('arr', [g() for _ in range(rng.randint(1, 3))])
    if r < 0.44:
        return ('neg', g())
    if r < 0.56:
        ex = rng.choice([('num', str(rng.randint(0, 3)), None), ('neg', ('num', str(rng.randint(1, 3)), None)), g()])
        return ('pow', g(), ex)
    if r < 0.64:
        return ('par', [g() for _ in range(rng.randint(2, 3))])
    return (rng.choice(['mul', 'div', 'add', 'sub']), g(), g())


def spell(toks, rng, ws=0.15, emdash=0.1, redundant=0.0):
    """concrete string: spaces anywhere (also inside tokens), tabs/newlines between tokens, em-dash for minus"""
    out = []
    for t in toks:
        if t == '-' and rng.random() < emdash:
            t = '—'
        if rng.random() < ws:
            out.append(rng.choice([' ', '\t', '\n', '\r', '  ', ' \t ']))
        if len(t) > 1 and rng.random() < ws / 2:
            i = rng.randrange(1, len(t))
            t = t[:i] + ' ' + t[i:]
        out.append(t)
    if rng.random() < ws:
        out.append(rng.choice([' ', '\t', '\n']))
    return ''.join(out)


def add_redundant_parens(e, rng, p=0.2):
    """AST with ('grp', e) nodes = redundant parentheses around random sub-expressions (value unchanged)"""
    def walk(x):
        k = x[0]
        if k in ('num', 'var'):
            y = x
        elif k == 'call':
            y = ('call', x[1], [walk(a) for a in x[2]])
        elif k in ('arr', 'par'):
            y = (k, [walk(a) for a in x[1]])
        elif k == 'neg':
            y = ('neg', walk(x[1]))
        else:
            y = (k, walk(x[1]), walk(x[2]))
        return ('grp', y) if rng.random() < p else y
    return walk(e)



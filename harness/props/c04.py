"""C04 — a formula is marked correct exactly when enough samples agree within tolerance."""
import itertools, math
from fractions import Fraction
import gradegen as GG
from common import frac_to_str
from props import c13 as D

ASSUMPTIONS = [
    'the values of the author\'s and the student\'s formula at each sample are inputs of the model (recorded from gen_evaluations); evaluating formulas in floating point is outside the model',
    'samples are scripted dyadic numbers and formulas are dyadic polynomials, so the float differences fed to within_tolerance are exact; for percentage tolerances, complex numbers and arrays (float product / square root) '
    'a guard band of relative width 1e-9 around the boundary is excluded and counted',
    'percentage tolerances enter the model as the exact rational value of the float that percentage_as_number returns',
]
EVIDENCE = {
    'rule': 'cases = (within_tolerance on dyadic grids of real/complex/infinite/array values x absolute and percentage tolerances) and (Formula/Numerical/Matrix grader calls with scripted samples, tolerance, samples 1-6, '
            'failable_evals 0-7, answer credit, student formulas answer+delta / answer*(1+eps) / branch variants / rewrites); non-trivial = at least one sample fails and one passes, or a value exactly on the boundary, or an infinite/complex/array value; '
            'distinct by (config, formulas, samples)',
}


def is_inf(x):
    return isinstance(x, float) and math.isinf(x)


def val_json(x):
    """float / complex / MathArray / ndarray -> model value"""
    import numpy as np
    if isinstance(x, (int, float)) and not isinstance(x, bool):
        if is_inf(float(x)):
            return 'inf' if x > 0 else '-inf'
        return {'num': [frac_to_str(Fraction(x)), '0']}
    if isinstance(x, complex):
        return {'num': [frac_to_str(Fraction(x.real)), frac_to_str(Fraction(x.imag))]}
    a = np.asarray(x)
    if a.shape == ():
        return val_json(a.item())
    es = [[frac_to_str(Fraction(float(np.real(z)))), frac_to_str(Fraction(float(np.imag(z))))] for z in a.flatten()]
    return {'arr': {'shape': list(a.shape), 'es': es}}


def tol_json(tol):
    from mitxgraders.helpers.calc.mathfuncs import percentage_as_number
    if isinstance(tol, str):
        return {'pct': frac_to_str(Fraction(percentage_as_number(tol)))}
    return {'abs': frac_to_str(Fraction(tol))}


def entries(v):
    if v in ('inf', '-inf'):
        return None
    if 'num' in v:
        return [(Fraction(v['num'][0]), Fraction(v['num'][1]))]
    return [(Fraction(a), Fraction(b)) for a, b in v['arr']['es']]


def oracle_within(xj, yj, tolj):
    """the property's reading: (verdict, margin) with margin = |d|^2 / bound^2 (None when not meaningful)"""
    if xj in ('inf', '-inf') or yj in ('inf', '-inf'):
        return xj == yj, None
    ex, ey = entries(xj), entries(yj)
    d2 = sum((a - c) ** 2 + (b - d) ** 2 for (a, b), (c, d) in zip(ex, ey))
    if 'abs' in tolj:
        b2 = Fraction(tolj['abs']) ** 2
    else:
        b2 = sum(a * a + b * b for a, b in ex) * Fraction(tolj['pct']) ** 2
    margin = None if b2 == 0 else d2 / b2
    return d2 <= b2, margin


def exactly_representable(xj, yj, tolj):
    """is the float computation of within_tolerance exact for these arguments? (real scalars, absolute tolerance)"""
    return 'abs' in tolj and isinstance(xj, dict) and isinstance(yj, dict) and 'num' in xj and 'num' in yj and xj['num'][1] == '0' and yj['num'][1] == '0'


def in_guard(margin):
    return margin is not None and abs(float(margin) - 1) < 1e-9 and margin != 1 or False


def part_within(ctx):
    from mitxgraders.helpers.calc.mathfuncs import within_tolerance
    from mitxgraders.helpers.calc import MathArray
    import numpy as np
    rng = ctx.rng
    grid = [Fraction(k, 8) for k in range(-16, 17)]
    tols = [0, 0.125, 0.25, 0.5, 1, 1.5, '0%', '1%', '10%', '12.5%', '25%', '50%', '100%']
    asks, meta = [], []
    inf = float('inf')
    for it in range(ctx.scale(3000, 60000)):
        kind = rng.choice(['real', 'real', 'real', 'complex', 'inf', 'vec', 'mat'])
        tol = rng.choice(tols)
        if kind == 'real':
            x = float(rng.choice(grid)); y = float(x + rng.choice([0, 0.125, -0.125, 0.25, -0.25, 0.5, -0.5, 1, -1, 0.375, float(rng.choice(grid))]))
            if isinstance(tol, str) and rng.random() < 0.5:      # put the student exactly at / around the relative boundary
                from mitxgraders.helpers.calc.mathfuncs import percentage_as_number
                y = x * (1 + rng.choice([1, -1]) * percentage_as_number(tol) * rng.choice([0.5, 1, 1, 2]))
        elif kind == 'complex':
            x = complex(float(rng.choice(grid)), float(rng.choice(grid)))
            k = rng.choice([0, 0.125, 0.25, 0.5])
            y = x + complex(3, 4) * k / 5 * rng.choice([1, -1, 1j]) if rng.random() < 0.5 else complex(float(rng.choice(grid)), float(rng.choice(grid)))
        elif kind == 'inf':
            x = rng.choice([inf, -inf, 1.0, 0.0]); y = rng.choice([inf, -inf, 2.0, 1.0])
        else:
            shape = rng.choice([(2,), (3,), (4,)]) if kind == 'vec' else rng.choice([(2, 2), (2, 3), (3, 1)])
            n = int(np.prod(shape))
            xs = [float(rng.choice(grid)) for _ in range(n)]
            k = rng.choice([0, 0.125, 0.25, 0.5, 1])
            dv = [0.0] * n
            if n >= 2 and rng.random() < 0.6:
                i, j = rng.sample(range(n), 2); dv[i], dv[j] = 3 * k / 5 * 5 / 5, 4 * k / 5
                dv[i], dv[j] = 0.6 * k if False else 3 * k / 4, k       # (3k/4, k): norm 5k/4
            else:
                dv[rng.randrange(n)] = k
            ys = [a + b for a, b in zip(xs, dv)]
            x = MathArray(np.array(xs).reshape(shape)); y = MathArray(np.array(ys).reshape(shape))
        try:
            got = bool(within_tolerance(x, y, tol))
        except Exception as e:
            ctx.count('within:raised'); continue
        xj, yj, tj = val_json(x), val_json(y), tol_json(tol)
        want, margin = oracle_within(xj, yj, tj)
        case = {'part': 'within', 'x': xj, 'y': yj, 'tol': tol}
        guard = (not exactly_representable(xj, yj, tj)) and margin is not None and abs(float(margin) - 1) < 1e-9
        if guard:
            ctx.count('within:guard-band')
        elif got != want:
            ctx.violation('within_tolerance(%r, %r, %r) = %r, the documented rule gives %r' % (x, y, tol, got, want), case, impl=got, expected=want)
        nt = (margin == 1) or kind != 'real' or (margin is not None and 0 < margin)
        ctx.case({'x': repr(x), 'y': repr(y), 'tol': tol, 'verdict': got}, nontrivial_key=(repr(x), repr(y), tol) if nt else None,
                 kind='within:%s:%s%s' % (kind, 'pct' if isinstance(tol, str) else 'abs', ':boundary' if margin == 1 else ''))
        if not guard:
            asks.append({'op': 'within_tol', 'x': xj, 'y': yj, 'tol': tj}); meta.append((case, got))
    if ctx.driver:
        for (case, got), o in zip(meta, ctx.driver.ask_many(asks)):
            if o.get('out') is not got:
                ctx.disagree('within_tolerance differs from the model', case, got, o)


# ---- grader level
def poly(rng, vars_):
    return D.gen_formula(rng, vars_)


def part_graders(ctx):
    from mitxgraders import FormulaGrader, NumericalGrader, MatrixGrader
    Scripted = D.scripted_class()
    rng = ctx.rng
    asks, meta, pasks, pmeta = [], [], [], []
    for it in range(ctx.scale(500, 9000)):
        n = rng.randint(1, 6)
        fe = rng.choice([0, 0, 0, 1, 1, 2, 3, n - 1, n, n + 1, 7])
        fe = max(fe, 0)
        tol = rng.choice([0, 0.125, 0.25, 0.5, 1, '0%', '1%', '10%', '25%', '50%', '0.00125%', '0.00001%', '0.12344%', ' 12.5 %'])
        vars_ = ['x', 'y'][:rng.randint(1, 2)]
        draws = [{v: Fraction(rng.randint(-8, 8), rng.choice([1, 2, 4])) for v in vars_} for _ in range(n)]
        tree = poly(rng, vars_)
        ans = D.render(tree)
        shape = rng.choice(['scalar', 'scalar', 'scalar', 'complex', 'vector', 'matrix', 'numerical'])
        credit = rng.choice([1, 1, 0.5, 0.25, 0])
        amsg = rng.choice(['', 'fb'])
        kdelta = rng.choice(['zero', 'abs', 'rel', 'branch', 'rewrite', 'far'])
        t_abs = tol if not isinstance(tol, str) else 0.25
        dl = rng.choice([0.5, 1, 1, 1.0009765625, 2]) * t_abs * rng.choice([1, -1])
        if shape == 'numerical':
            ans = str(rng.choice([2.5, -1.25, 4, 0.75])); vars_ = []; n = 1; draws = [{}]
        if kdelta == 'zero':
            stu = ans
        elif kdelta == 'abs':
            stu = '(%s) + %r' % (ans, dl) if dl >= 0 else '(%s) - %r' % (ans, -dl)
        elif kdelta == 'rel':
            from mitxgraders.helpers.calc.mathfuncs import percentage_as_number
            r = percentage_as_number(tol) if isinstance(tol, str) else 0.125
            stu = '(%s)*(1 + %r)' % (ans, r * rng.choice([0.5, 1, 2, 0.96, 1.04]))
        elif kdelta == 'branch':
            stu = 'abs(%s)' % ans
        elif kdelta == 'rewrite':
            stu = rng.choice(['0 + (%s)', '(%s)*1', ' ( %s ) ', '(%s) + x - x', '2*(%s) - (%s)']).replace('%s', ans) if vars_ else '(%s) + 0' % ans
        else:
            stu = '(%s) + 1000' % ans
        wrap_a, wrap_s = ans, stu
        if shape == 'complex':
            wrap_a, wrap_s = '(%s) + 2*i' % ans, '(%s) + 2*i' % stu
            if kdelta == 'abs':
                wrap_s = '(%s) + 2*i + (3+4*i)*%r' % (ans, abs(dl) / 5)
        elif shape == 'vector':
            wrap_a, wrap_s = '[%s, 1, x]' % ans if vars_ else '[%s, 1]' % ans, '[%s, 1, x]' % stu if vars_ else '[%s, 1]' % stu
        elif shape == 'matrix':
            wrap_a, wrap_s = '[[%s, 1], [0, 2]]' % ans, '[[%s, 1], [0, 2]]' % stu
        cls = NumericalGrader if shape == 'numerical' else (MatrixGrader if shape in ('vector', 'matrix') else FormulaGrader)
        kw = dict(answers={'expect': wrap_a, 'grade_decimal': credit, 'msg': amsg}, tolerance=tol, failable_evals=fe)
        if cls is not NumericalGrader:
            kw.update(variables=vars_, samples=n, sample_from={v: Scripted(values=[float(d[v]) for d in draws]) for v in vars_})
        if shape == 'matrix':
            kw['max_array_dim'] = 2
        try:
            g = cls(**kw)
        except Exception as e:
            ctx.count('grader:config_rejected'); continue
        rec = []
        orig = g.gen_evaluations

        def spy(*a, _o=orig, _r=rec, **k):
            out = _o(*a, **k)
            _r.append((list(out[0]), list(out[1])))
            return out
        g.gen_evaluations = spy
        k, v = D.run_impl(lambda: g(None, wrap_s))
        case = {'part': 'grader', 'class': cls.__name__, 'answer': wrap_a, 'student': wrap_s, 'tolerance': tol, 'samples': n, 'failable_evals': fe, 'credit': credit,
                'draws': [{a: frac_to_str(b) for a, b in d.items()} for d in draws]}
        if k == 'err' or not rec:
            ctx.count('grader:raised:' + (v[1] if k == 'err' else 'norec')); continue
        exps, stus = rec[0]
        if len(exps) != n or len(stus) != n:
            ctx.violation('number of evaluations differs from the configured number of samples', case, impl=[len(exps), len(stus)])
        pairs = [(val_json(e[0] if isinstance(e, list) else e), val_json(s)) for e, s in zip(exps, stus)]
        tj = tol_json(tol)            # the tolerance the AUTHOR wrote (not the validated copy in g.config: the validator must not change its value)
        # same-sample pairing: the author's value at sample i is the formula on draw i
        if shape == 'scalar':
            for i, (pe, d) in enumerate(zip(pairs, draws)):
                if Fraction(pe[0]['num'][0]) != D.feval(tree, d):
                    ctx.violation('author formula was not evaluated on sample %d of the scripted samples' % i, case, impl=pe[0])
                    break
            if kdelta in ('zero', 'rewrite') and any(a != b for a, b in pairs):
                ctx.violation('student and author formulas were evaluated on different samples (an identical rewriting gives a different value)', case, impl=pairs)
        verdicts, guard = [], False
        for xj, yj in pairs:
            w, m = oracle_within(xj, yj, tj)
            if (not exactly_representable(xj, yj, tj)) and m is not None and abs(float(m) - 1) < 1e-9:
                guard = True
            verdicts.append(w)
        nfail = verdicts.count(False)
        passes = (nfail == 0) if n == 1 else (nfail <= fe)
        ansd = g.config['answers'][0]
        want = {'ok': ansd['ok'], 'grade_decimal': frac_to_str(Fraction(ansd['grade_decimal'])), 'msg': ansd['msg']} if passes else {'ok': False, 'grade_decimal': '0', 'msg': ''}
        got = GG.canon_result(v)
        if guard:
            ctx.count('grader:guard-band')
        elif got != want:
            ctx.violation('%d of %d samples differ by more than the tolerance, failable_evals=%d: expected %r, got %r' % (nfail, n, fe, want, got), case, impl=got, expected=want)
        nt = (0 < nfail < n) or any(oracle_within(x, y, tj)[1] == 1 for x, y in pairs) or shape != 'scalar'
        ctx.case({'class': cls.__name__, 'answer': wrap_a, 'student': wrap_s, 'tol': tol, 'n': n, 'fe': fe, 'failures': nfail, 'result': got},
                 nontrivial_key=(wrap_a, wrap_s, repr(tol), n, fe, repr(case['draws'])) if nt else None,
                 kind='grader:%s:%s:%s' % (shape, kdelta, 'pass' if passes else 'fail'))
        if not guard and shape == 'scalar' and kdelta != 'branch':
            # the WHOLE pipeline in the model: both strings parsed and evaluated on every scripted sample by the Lean evaluator
            pasks.append({'op': 'formula_pipeline', 'answer': wrap_a, 'student': wrap_s, 'hidden': [], 'samples': [[[a, frac_to_str(b)] for a, b in d.items()] for d in draws],
                          'tol': tj, 'failable': fe, 'ans': {'ok': ansd['ok'], 'grade_decimal': frac_to_str(Fraction(ansd['grade_decimal'])), 'msg': ansd['msg']}})
            pmeta.append((case, got))
        if not guard:
            asks.append({'op': 'formula_grade', 'samples': [[a, b] for a, b in pairs], 'tol': tj, 'failable': fe,
                         'answer': {'ok': ansd['ok'], 'grade_decimal': frac_to_str(Fraction(ansd['grade_decimal'])), 'msg': ansd['msg']}})
            meta.append((case, got))
    if ctx.driver:
        for (case, got), o in zip(meta, ctx.driver.ask_many(asks)):
            if o.get('out') != got:
                ctx.disagree('grader verdict differs from the model', case, got, o)
        for (case, got), o in zip(pmeta, ctx.driver.ask_many(pasks)):
            if 'err' in o and o['err'].endswith(('oom', 'undef-func')):
                ctx.count('pipeline:outside-model'); continue
            ctx.count('pipeline:compared')
            if o.get('out') != got:
                ctx.disagree('grader verdict differs from the whole-pipeline model (parse + evaluate on every sample + compare + consolidate)', case, got, o)


def part_sampled_functions(ctx):
    """author and student are compared on the SAME sample at EVERY sample - also when the only thing that is sampled is a function
    (RandomFunction / SpecificFunctions / a list of callables) or a numbered / dependent variable and the answer mentions no plain variable:
    algebraically identical rewritings of the answer always earn its full credit; a formula that misses everywhere earns none"""
    import numpy as np
    from mitxgraders import FormulaGrader, MatrixGrader, RandomFunction, SpecificFunctions, RealInterval, DependentSampler, RealVectors
    rng = ctx.rng
    setups = [
        ('random-function-constant-arg', dict(user_functions={'f': RandomFunction()}), 'f(0)', ['f(0)', 'f(0) + 0', '1*f(0)', 'f(1-1)'], ['f(0) + 1', 'f(1)']),
        ('random-function-difference', dict(user_functions={'f': RandomFunction(), 'g': RandomFunction(center=1)}), 'f(pi) - g(0)', ['f(pi) - g(0)', '0 - g(0) + f(pi)'], ['f(pi) + g(0)']),
        ('specific-functions', dict(user_functions={'f': SpecificFunctions([np.sin, np.cos, np.exp, np.tan])}), 'f(1)', ['f(1)', 'f(1)*1', 'f(2-1)'], ['f(2)']),
        ('list-of-callables', dict(user_functions={'f': [np.sin, np.cos, np.exp]}), '2*f(0.5)', ['2*f(0.5)', 'f(0.5) + f(0.5)'], ['f(0.5)']),
        ('random-function-and-variable', dict(user_functions={'f': RandomFunction()}, variables=['x']), 'f(x) + f(0)', ['f(x) + f(0)', 'f(0) + f(x)'], ['f(x)']),
        ('numbered-only', dict(numbered_vars=['a'], sample_from={'a': RealInterval([1, 5])}), 'a_{1} + 2*a_{2}', ['a_{1} + 2*a_{2}', 'a_{2} + a_{1} + a_{2}'], ['a_{1} + a_{2}']),
        ('dependent-only', dict(variables=['x', 'y'], sample_from={'x': RealInterval([1, 5]), 'y': DependentSampler(depends=['x'], formula='x^2')}), 'y + 1', ['y + 1', 'x^2 + 1', '1 + x*x'], ['y', 'x + 1']),
        ('vector-random-function', dict(user_functions={'f': RandomFunction(output_dim=2)}, max_array_dim=1), 'f(0)', ['f(0)', '2*f(0) - f(0)'], ['2*f(0)', 'f(1)', 'f(0.5)', 'f(0 + 2)']),
        ('vector-random-function-of-variable', dict(user_functions={'r': RandomFunction(output_dim=3)}, variables=['t'], max_array_dim=1), 'r(t)', ['r(t)', 'r(t + 0)', 'r(2*t - t)'], ['r(t + 1)', 'r(2*t)', 'r(t) + r(t + 1) - r(t)']),
    ]
    for it in range(ctx.scale(32, 320)):
        name, kw, ans, same, different = setups[it % len(setups)]
        samples = rng.choice([2, 3, 5, 8])
        fe = rng.choice([0, 0, 1]) if samples > 2 else 0
        try:
            g = FormulaGrader(answers=ans, samples=samples, failable_evals=fe, tolerance=1e-9, **kw)
        except Exception as e:
            ctx.count('sampled:config_rejected:' + type(e).__name__); continue
        for stu, want in [(s_, True) for s_ in same] + [(s_, False) for s_ in different]:
            k, v = D.run_impl(lambda: g(None, stu))
            case = {'part': 'sampled-functions', 'setup': name, 'answer': ans, 'student': stu, 'samples': samples, 'failable_evals': fe}
            if k == 'err':
                ctx.violation('a well-formed formula raised %s' % (v[1],), case, impl=v)
            elif want and v['ok'] is not True:
                ctx.violation('an algebraically identical rewriting of the answer does not earn its credit (author and student not evaluated on the same sample?)', case, impl=GG.canon_result(v))
            elif not want and v['ok'] is not False:
                ctx.violation('a formula that differs from the answer at every sample earned credit', case, impl=GG.canon_result(v))
            ctx.case({'setup': name, 'student': stu, 'ok': v.get('ok') if k == 'out' else v[1]}, nontrivial_key=(name, stu, samples, fe), kind='sampled:' + name)


def part_validators(ctx):
    """the tolerance option is validated: non-negative number or non-negative percentage string"""
    from mitxgraders import FormulaGrader
    for tol, ok in [(0, True), (0.5, True), (-0.1, False), ('5%', True), (' 5% ', True), ('-5%', False), ('5', False), ('abc%', False), (None, False), ('0%', True)]:
        k, v = D.run_impl(lambda: FormulaGrader(answers='1', tolerance=tol))
        if (k == 'out') != ok:
            ctx.violation('tolerance=%r %s by the constructor' % (tol, 'rejected' if ok else 'accepted'), {'part': 'validator', 'tolerance': tol}, impl=v if k == 'err' else 'constructed')
        ctx.case({'tolerance': tol, 'accepted': k == 'out'}, kind='validator')


def part_zero_answers(ctx):
    """a percentage tolerance is a percentage of |expected|: when the author's value is exactly zero only an exactly zero submission matches
    (scalars, vectors, matrices; formulas that are identically zero)"""
    from mitxgraders import FormulaGrader, NumericalGrader, MatrixGrader
    for tol in ['5%', '1%', '0.01%', ' 12.5 %', '50%']:
        specs = [('Formula', lambda: FormulaGrader(answers='x - x', variables=['x'], tolerance=tol), [('0', True), ('x*0', True), ('2*x - x - x', True), ('0.04', False), ('1e-9', False), ('x/1000', False), ('0-0.0001', False)]),
                 ('Numerical', lambda: NumericalGrader(answers='0', tolerance=tol), [('0', True), ('1-1', True), ('0.04', False), ('1e-12', False), ('0-0.001', False)]),
                 ('Matrix', lambda: MatrixGrader(answers='[0, 0]', tolerance=tol), [('[0, 0]', True), ('[1,1] - [1,1]', True), ('[0.01, 0]', False), ('[0, 1e-9]', False), ('[0.03, 0.03]', False)]),
                 ('MatrixMixed', lambda: MatrixGrader(answers='[[1, 0], [0, 0]]', tolerance=tol, max_array_dim=2), [('[[1, 0], [0, 0]]', True), ('[[1, 0], [0, 2]]', False)])]
        for name, mk, probes in specs:
            g = mk()
            for stu, want in probes:
                k, v = D.run_impl(lambda: g(None, stu))
                case = {'part': 'zero-answer', 'grader': name, 'tolerance': tol, 'student': stu}
                ctx.case(case, nontrivial_key=('zero', name, tol, stu), kind='zero-answer')
                if not (k == 'out' and (v['ok'] is True) == want):
                    ctx.violation('the author\'s value is exactly zero, tolerance %s of it is zero: %r should be %s' % (tol, stu, 'accepted' if want else 'refused'), case, impl=v if k == 'err' else GG.canon_result(v))


def run(ctx):
    part_zero_answers(ctx)
    part_within(ctx)
    part_graders(ctx)
    part_sampled_functions(ctx)
    part_validators(ctx)


def search(ctx):
    drv, ctx.driver = ctx.driver, None
    old = (ctx.tier, ctx.quick)
    ctx.tier, ctx.quick = 'thorough', False
    try:
        run(ctx)
    finally:
        ctx.driver = drv
        ctx.tier, ctx.quick = old


def replay(ctx, data):
    v = data.get('violation') or {}
    case = v.get('case')
    if not case:
        return {'holds': True, 'note': 'replay file names a broken obligation, no input to re-run', 'broken': data.get('broken')}
    if case.get('part') == 'grader':
        from mitxgraders import FormulaGrader, NumericalGrader, MatrixGrader
        Scripted = D.scripted_class()
        cls = {'FormulaGrader': FormulaGrader, 'NumericalGrader': NumericalGrader, 'MatrixGrader': MatrixGrader}[case['class']]
        draws = [{a: Fraction(b) for a, b in d.items()} for d in case['draws']]
        kw = dict(answers={'expect': case['answer'], 'grade_decimal': case['credit']}, tolerance=case['tolerance'], failable_evals=case['failable_evals'])
        if cls is not NumericalGrader:
            vs = sorted(draws[0]) if draws else []
            kw.update(variables=vs, samples=case['samples'], sample_from={x: Scripted(values=[float(d[x]) for d in draws]) for x in vs})
        if case['answer'].startswith('[['):
            kw['max_array_dim'] = 2
        g = cls(**kw)
        rec = []
        orig = g.gen_evaluations
        g.gen_evaluations = lambda *a, **k: (lambda out: (rec.append(out), out)[1])(orig(*a, **k))
        res = g(None, case['student'])
        tj = tol_json(case['tolerance'])
        pairs = [(val_json(e[0] if isinstance(e, list) else e), val_json(s)) for e, s in zip(rec[0][0], rec[0][1])]
        nfail = [oracle_within(x, y, tj)[0] for x, y in pairs].count(False)
        n = len(pairs)
        passes = (nfail == 0) if n == 1 else (nfail <= case['failable_evals'])
        return {'holds': (res['ok'] is not False) == (passes and case['credit'] > 0) or (case['credit'] == 0), 'impl': GG.canon_result(res), 'failures': nfail, 'samples': n}
    return {'holds': False, 'note': 'replay by seed: VERIF_SEED=%s ./check C04' % data.get('seed'), 'case': case, 'what': v.get('what')}

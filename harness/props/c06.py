"""C06 — Munkres solver: correspondence with the literal Lean model + subset-DP oracle."""
import copy, itertools
from fractions import Fraction
from common import frac_to_str, with_alarm, Timeout

ASSUMPTIONS = [
    'entries are exact (ints, Fractions, dyadic floats) in the model comparison; IEEE rounding of non-dyadic float costs is outside the theorem and only monitored against the DP oracle within 1e-9',
    'theorems are about Mk.compute (Mitx/Model/Munkres.lean); the tie to munkres.py is this run\'s correspondence (identical pair lists incl. tie choices)',
    '"caller\'s matrix unmodified" and reuse of one solver object are checked per case on the real object (value-semantics model cannot alias)',
]
EVIDENCE = {
    'rule': 'cases = cost matrices (exhaustive small scopes + seeded random int/Fraction/dyadic/grade-like/tie-heavy, square and rectangular, chained on reused solver objects); '
            'non-trivial = at least 2x2, not constant, and the row-wise minima collide in a column (so the greedy stars of step 2 are not already a complete matching); distinct by matrix value',
}


def dp_min_cost(m):
    """exact minimum cost of a matching of size min(r,c): subset DP over columns"""
    r, c = len(m), len(m[0])
    if r > c:
        m = [list(col) for col in zip(*m)]
        r, c = c, r
    INF = None
    best = {0: 0}
    for i in range(r):
        nxt = {}
        for mask, cost in best.items():
            for j in range(c):
                if not mask & (1 << j):
                    v = cost + m[i][j]
                    k = mask | (1 << j)
                    if k not in nxt or v < nxt[k]:
                        nxt[k] = v
        best = nxt
    return min(best.values())


def nontrivial(m):
    r, c = len(m), len(m[0])
    if r < 2 or c < 2:
        return False
    flat = [x for row in m for x in row]
    if len(set(flat)) < 2:
        return False
    argmins = [min(range(c), key=lambda j: row[j]) for row in m]
    return len(set(argmins)) < len(argmins)


def oracle(m, before, res):
    """the property itself on the implementation's output; returns None or a description"""
    r, c = len(before), len(before[0])
    if isinstance(res, str):
        return 'solver ' + res
    if m != before:
        return 'caller matrix modified'
    if len(res) != min(r, c):
        return 'returned %d pairs, expected %d' % (len(res), min(r, c))
    rows = [p[0] for p in res]
    cols = [p[1] for p in res]
    if len(set(rows)) != len(rows) or len(set(cols)) != len(cols):
        return 'row or column used twice'
    if any(not (0 <= i < r and 0 <= j < c) for i, j in res):
        return 'index outside the matrix'
    cost = sum(before[i][j] for i, j in res)
    opt = dp_min_cost(before)
    exact = all(isinstance(x, (int, Fraction)) for row in before for x in row)
    if (cost != opt) if exact else (abs(cost - opt) > 1e-9 * max(1, abs(opt))):
        return 'cost %s is not the minimum %s' % (cost, opt)
    return None


def solve_impl(solver, m):
    before = copy.deepcopy(m)
    try:
        res = with_alarm(lambda: solver.compute(m), 20)
    except Timeout:
        return before, 'does not terminate (20 s)'
    except Exception as e:
        return before, 'raises %s: %s' % (type(e).__name__, e)
    return before, [list(p) for p in res]


def to_model(m):
    return [[frac_to_str(x) for x in row] for row in m]


def gen_random(rng, kind):
    r = rng.randint(1, 10)
    c = r if rng.random() < 0.5 else rng.randint(1, 10)
    if kind == 'small':
        r, c = rng.randint(1, 5), rng.randint(1, 5)
    if kind == 'int':
        f = lambda: rng.randint(0, 20)
    elif kind == 'tie':
        f = lambda: rng.randint(0, 2)
    elif kind == 'grade':
        pal = [Fraction(0), Fraction(1, 10), Fraction(1, 3), Fraction(1, 2), Fraction(7, 10), Fraction(1)]
        f = lambda: 1 - rng.choice(pal)
    elif kind == 'frac':
        f = lambda: Fraction(rng.randint(0, 30), rng.randint(1, 12))
    elif kind == 'dyadic':
        f = lambda: rng.randint(0, 64) / 16.0
    else:
        f = lambda: rng.randint(0, 3)
    return [[f() for _ in range(c)] for _ in range(r)]


def check_case(ctx, solver, m, kind, reused):
    before, res = solve_impl(solver, m)
    bad = oracle(m, before, res if isinstance(res, str) else [tuple(p) for p in res])
    case = {'matrix': to_model(before), 'kind': kind, 'reused_solver': reused}
    ctx.case({'matrix': to_model(before), 'impl': res}, nontrivial_key=tuple(map(tuple, to_model(before))) if nontrivial(before) else None, kind=kind)
    if bad:
        ctx.violation(bad, case, impl=res)
    return case, res


def run(ctx):
    from mitxgraders.helpers.munkres import Munkres
    pending = []   # (case, impl result) to be compared with the model in one pipelined batch

    def flush():
        if not pending or ctx.driver is None:
            pending.clear(); return
        outs = ctx.driver.ask_many([{'op': 'munkres', 'm': c['matrix']} for c, _ in pending])
        for (c, res), o in zip(pending, outs):
            if o['out'] != res:
                ctx.disagree('Munkres.compute result differs from Mk.compute', c, res, o['out'])
        pending.clear()

    # 1. exhaustive small scopes
    shapes = [(r, c) for r in range(1, 4) for c in range(1, 4)]
    fresh_every = True
    for (r, c) in shapes:
        if ctx.quick and r * c == 9:
            # quick tier: every 3x3 matrix over {0,1,2} whose index is in a seeded 1/4 residue class
            combos = (t for k, t in enumerate(itertools.product(range(3), repeat=9)) if (k + ctx.seed) % 4 == 0)
        else:
            combos = itertools.product(range(3), repeat=r * c)
        solver = Munkres()
        for t in combos:
            m = [list(t[i * c:(i + 1) * c]) for i in range(r)]
            pending.append(check_case(ctx, solver, m, 'exh%dx%d' % (r, c), True))
        flush()
    if not ctx.quick:
        solver = Munkres()
        for t in itertools.product(range(2), repeat=16):
            m = [list(t[i * 4:(i + 1) * 4]) for i in range(4)]
            pending.append(check_case(ctx, solver, m, 'exh4x4', True))
            if len(pending) >= 5000:
                flush()
        flush()
    # 2. random exact matrices, fresh and reused solver objects, different shapes in sequence
    kinds = ['int', 'tie', 'grade', 'frac', 'dyadic', 'small']
    n = ctx.scale(1500, 10000)      # the literal function-valued model is slow on 10x10 matrices: thorough stays within ~15 min
    shared = Munkres()
    for k in range(n):
        kind = kinds[k % len(kinds)]
        m = gen_random(ctx.rng, kind)
        reuse = ctx.rng.random() < 0.6
        pending.append(check_case(ctx, shared if reuse else Munkres(), m, kind, reuse))
        if len(pending) >= 1000:
            flush()
    flush()
    # 2b. object identity (model MkH): the working matrix self.C consists of NEW row objects, its final contents and the caller's matrix
    #     as read back afterwards are what the row-heap model gives
    hp, hmeta = [], []
    shared2 = Munkres()
    for k in range(ctx.scale(250, 2500)):
        m = gen_random(ctx.rng, ['small', 'int', 'tie', 'grade', 'frac'][k % 5])
        if len(m) > 6 or len(m[0]) > 6:
            m = [row[:6] for row in m[:6]]
        rows_before = [row for row in m]                     # the caller's row OBJECTS
        solver = shared2 if ctx.rng.random() < 0.5 else Munkres()
        before, res = solve_impl(solver, m)
        if isinstance(res, str):
            ctx.violation(res, {'matrix': to_model(before), 'kind': 'heap'}, impl=res); continue
        aliased = [i for i, row in enumerate(solver.C) if any(row is r0 for r0 in rows_before)]
        case = {'matrix': to_model(before), 'kind': 'heap'}
        if aliased:
            ctx.violation('the solver\'s working matrix shares row objects %r with the caller\'s matrix' % aliased, case, impl=res)
        if any(a is not b for a, b in zip(m, rows_before)) or m != before:
            ctx.violation('caller matrix modified', case, impl=to_model(m))
        ctx.case({'matrix': to_model(before), 'aliased': aliased}, nontrivial_key=('heap', repr(to_model(before))) if nontrivial(before) else None, kind='heap')
        hp.append({'op': 'munkres_heap', 'm': to_model(before)})
        hmeta.append((case, res, [[frac_to_str(Fraction(x)) for x in row] for row in solver.C], to_model(m)))
    if ctx.driver:
        for (case, res, finalC, after), o in zip(hmeta, ctx.driver.ask_many(hp)):
            if o.get('out') != res or o.get('finalC') != finalC or o.get('caller') != after or o.get('fresh') is not True:
                ctx.disagree('row-heap model: result / final working matrix / caller matrix differ', case, {'out': res, 'finalC': finalC, 'caller': after}, o)
    # 3. contract monitor: general floats against the DP oracle (not compared with the model)
    for k in range(ctx.scale(300, 5000)):
        r, c = ctx.rng.randint(1, 8), ctx.rng.randint(1, 8)
        m = [[ctx.rng.random() for _ in range(c)] for _ in range(r)]
        before, res = solve_impl(shared, m)
        bad = oracle(m, before, res if isinstance(res, str) else [tuple(p) for p in res])
        ctx.contract_checks += 1
        if bad:
            ctx.violation(bad + ' (float matrix)', {'matrix': before, 'kind': 'float', 'float': True}, impl=res)


def search(ctx):
    """deeper oracle-only search, used when a proof obligation or the correspondence broke"""
    from mitxgraders.helpers.munkres import Munkres
    solver = Munkres()
    for r in range(1, 4):
        for c in range(1, 4):
            for t in itertools.product(range(3), repeat=r * c):
                m = [list(t[i * c:(i + 1) * c]) for i in range(r)]
                before, res = solve_impl(solver, m)
                bad = oracle(m, before, res if isinstance(res, str) else [tuple(p) for p in res])
                if bad:
                    ctx.violation(bad, {'matrix': to_model(before), 'kind': 'search'}, impl=res)
                    return
    for k in range(20000):
        m = gen_random(ctx.rng, ['int', 'tie', 'grade', 'frac', 'small'][k % 5])
        before, res = solve_impl(solver, m)
        bad = oracle(m, before, res if isinstance(res, str) else [tuple(p) for p in res])
        if bad:
            ctx.violation(bad, {'matrix': to_model(before), 'kind': 'search'}, impl=res)
            return


def replay(ctx, data):
    from mitxgraders.helpers.munkres import Munkres
    v = data.get('violation') or {}
    case = v.get('case')
    if not case:
        return {'holds': True, 'note': 'replay file names a broken obligation, no input to re-run', 'broken': data.get('broken')}
    if case.get('float'):
        m = case['matrix']
    else:
        m = [[Fraction(x) for x in row] for row in case['matrix']]
    before, res = solve_impl(Munkres(), m)
    bad = oracle(m, before, res if isinstance(res, str) else [tuple(p) for p in res])
    return {'holds': bad is None, 'impl': res, 'why': bad}

"""C13 — sampled variable sets are complete and dependent values are consistent."""
import itertools, re
from fractions import Fraction
import gradegen as GG
from common import frac_to_str

ASSUMPTIONS = [
    'a dependent sampler\'s compute_sample is a parameter of the model whose only assumed property is Local (it reads only the variables its formula uses: C10 usage_exact); '
    'in the correspondence it is instantiated with the model\'s own parser/evaluator over exact rationals',
    'independent draws are scripted (a harness VariableSamplingSet hands out prepared dyadic values) so both sides see the same draws; formulas use + - * /2 ^2 on dyadic values, on which float evaluation is exact',
    'the order in which set iteration appends numbered instances to the variable list is canonicalised (sorted) before comparison',
]
EVIDENCE = {
    'rule': 'cases = (declared symbols in a declaration order, scripted independent draws, dependent formulas forming a random DAG or a cyclic/dangling variant, constants) through gen_symbols_samples, plus '
            'grader configurations with numbered variables / dependent samplers / sibling formulas through generate_variable_list and gen_var_and_func_samples; '
            'non-trivial = at least two dependents with a chain of length >= 2, or an error case, or a numbered instance; distinct by (order, formulas, draws)',
}
NAMES = ['a', 'b', 'c', 'x', 'y', 'z', 'u', 'v', 'w', "x'", 'y_1', 'T_{2}']
CONSTS = {'k': 2.5, 'pi': 3.25, 'e': 2.75, 'c0': -1.0, 'i': 0.5}


# ---- formula trees: ('v', name) ('n', int) ('+', l, r) ('-', l, r) ('*', l, r) ('half', e) ('sq', e) ('div0', e)
def gen_formula(rng, avail, depth=0):
    r = rng.random()
    if depth > 2 or r < 0.35 or not avail:
        if avail and rng.random() < 0.8:
            return ('v', rng.choice(avail))
        return ('n', rng.randint(-3, 4))
    if r < 0.55:
        return ('+', gen_formula(rng, avail, depth + 1), gen_formula(rng, avail, depth + 1))
    if r < 0.7:
        return ('-', gen_formula(rng, avail, depth + 1), gen_formula(rng, avail, depth + 1))
    if r < 0.85:
        return ('*', gen_formula(rng, avail, depth + 1), gen_formula(rng, avail, depth + 1))
    if r < 0.93:
        return ('half', gen_formula(rng, avail, depth + 1))
    return ('sq', ('v', rng.choice(avail)))


def render(t):
    k = t[0]
    if k == 'v':
        return t[1]
    if k == 'n':
        return str(t[1]) if t[1] >= 0 else '(0-%d)' % (-t[1])
    if k in '+-*':
        return '(%s %s %s)' % (render(t[1]), k, render(t[2]))
    if k == 'half':
        return '(%s)/2' % render(t[1])
    if k == 'sq':
        return '%s^2' % render(t[1])
    if k == 'div0':
        return '1/(%s - %s)' % (render(t[1]), render(t[1]))
    raise ValueError(k)


def fvars(t):
    if t[0] == 'v':
        return {t[1]}
    if t[0] == 'n':
        return set()
    return set().union(*[fvars(x) for x in t[1:]])


class DivZero(Exception):
    pass


def feval(t, env):
    k = t[0]
    if k == 'v':
        return env[t[1]]
    if k == 'n':
        return Fraction(t[1])
    if k == '+':
        return feval(t[1], env) + feval(t[2], env)
    if k == '-':
        return feval(t[1], env) - feval(t[2], env)
    if k == '*':
        return feval(t[1], env) * feval(t[2], env)
    if k == 'half':
        return feval(t[1], env) / 2
    if k == 'sq':
        return feval(t[1], env) ** 2
    if k == 'div0':
        raise DivZero()


def oracle(symbols, draws, deps, constants):
    """independent reading of the property: topological evaluation. deps: name -> tree.
    returns ('ok', dict) | ('formula',) | ('undefined', names) | ('circular', names)"""
    env = {k: Fraction(v) for k, v in constants.items() if k not in symbols}
    env.update({k: Fraction(v) for k, v in draws.items()})
    todo = dict(deps)
    # which dependents can ever be evaluated
    defined = set(env)
    progress = True
    order = []
    while progress:
        progress = False
        for n in list(todo):
            if fvars(todo[n]) <= defined:
                order.append(n); defined.add(n); del todo[n]; progress = True
    div = False
    for n in order:
        try:
            env[n] = feval(deps[n], env)
        except (DivZero, KeyError):
            div = True
            break
    if div:
        return ('formula',)
    if todo:
        need = set().union(*[fvars(t) for t in todo.values()])
        und = sorted(x for x in need if x not in todo and x not in defined)
        if und:
            return ('undefined', und)
        return ('circular', sorted(todo))
    return ('ok', env)


_S = {}


def scripted_class():
    if 'c' in _S:
        return _S['c']
    from mitxgraders.sampling import VariableSamplingSet
    from voluptuous import Schema, Required

    class Scripted(VariableSamplingSet):
        schema_config = Schema({Required('values'): list})

        def __init__(self, config=None, **kw):
            super(Scripted, self).__init__(config, **kw)
            self.i = 0

        def gen_sample(self):
            v = self.config['values'][self.i % len(self.config['values'])]
            self.i += 1
            return v
    _S['c'] = Scripted
    return Scripted


def gen_case(rng, consts=None):
    consts = CONSTS if consts is None else consts
    n = rng.randint(1, 8)
    pool = NAMES + (list(consts) if rng.random() < 0.35 else [])     # symbols may shadow constants
    names = rng.sample(pool, n)
    nd = rng.randint(0, n - 1) if n > 1 else rng.choice([0, 0, 1])
    hidden = names[:]           # hidden topological order: independents first
    rng.shuffle(hidden)
    indep, dep = hidden[:n - nd], hidden[n - nd:]
    deps = {}
    shape = rng.choice(['dag', 'dag', 'chain', 'diamond'])
    for j, d in enumerate(dep):
        avail = indep + dep[:j] + [c for c in consts if c not in names and rng.random() < 0.3]
        if shape == 'chain' and j > 0:
            t = ('+', ('v', dep[j - 1]), gen_formula(rng, avail, 2))
        elif shape == 'diamond' and j >= 2:
            t = ('-', ('*', ('v', dep[j - 1]), ('n', 2)), ('v', dep[j - 2]))
        else:
            t = gen_formula(rng, avail)
        deps[d] = t
    kind = 'dag'
    r = rng.random()
    if dep and r < 0.12:       # cycle
        a = rng.choice(dep)
        later = [x for x in dep[dep.index(a):]]
        b = rng.choice(later)
        deps[a] = ('+', deps[a], ('v', b))
        kind = 'cyclic'
    elif dep and r < 0.24:     # dangling
        a = rng.choice(dep)
        deps[a] = ('+', deps[a], ('v', rng.choice(['q', 'zz', 'Q', 'a_{9}'])))
        kind = 'dangling'
        if rng.random() < 0.4 and len(dep) > 1:
            b = rng.choice(dep); c = rng.choice(dep)
            deps[b] = ('+', deps[b], ('v', c))
            kind = 'dangling+maybe-cycle'
    elif dep and r < 0.30:
        a = rng.choice(dep)
        deps[a] = ('+', deps[a], ('div0', ('v', rng.choice(indep)) if indep else ('n', 1)))
        kind = 'formula-error'
    nsamp = 2
    draws = [{s: Fraction(rng.randint(-8, 8), rng.choice([1, 1, 2, 4])) for s in indep} for _ in range(nsamp)]
    return names, indep, dep, deps, draws, kind


def run_impl_samples(order, indep, deps, draws, constants):
    from mitxgraders.sampling import gen_symbols_samples, DependentSampler
    Scripted = scripted_class()
    sample_from = {}
    for s in order:
        if s in deps:
            sample_from[s] = DependentSampler(formula=render(deps[s]))
        else:
            sample_from[s] = Scripted(values=[float(d[s]) for d in draws])
    return gen_symbols_samples(list(order), len(draws), sample_from, {}, {}, dict(constants))


def classify_impl(kind, val):
    """('ok', [dict...]) | ('formula',) | ('undefined', names) | ('circular', names) | ('other', text)"""
    if kind == 'out':
        return ('ok', val)
    cls, msg = val[1], val[2] if len(val) > 2 else ''
    if cls != 'ConfigError':
        return ('other', '%s: %s' % (cls, msg))
    m = re.match(r'DependentSamplers depend on undefined quantities: (.*)$', msg)
    if m:
        return ('undefined', m.group(1).split(', '))
    m = re.match(r'Circularly dependent DependentSamplers detected: (.*)$', msg)
    if m:
        return ('circular', m.group(1).split(', '))
    if msg.startswith('Formula error in dependent sampling formula'):
        return ('formula',)
    return ('other', msg)


TIMEOUTS = [0]


def run_impl(fn):
    import common
    try:
        # after a few calls that did not return, the following ones get a short leash (a looping library would otherwise stall the whole check)
        return 'out', common.with_alarm(fn, 5 if TIMEOUTS[0] < 3 else 0.5)
    except common.Timeout:
        TIMEOUTS[0] += 1
        return 'err', [False, 'Timeout', 'the call did not return within 5 s (a terminating call takes milliseconds)']
    except Exception as e:      # noqa
        return 'err', [isinstance(e, __import__('mitxgraders').exceptions.MITxError), type(e).__name__, str(e)]


def inexact(values):
    """the 'float evaluation is exact on dyadic values' premise of the value comparison: false once a value (hence possibly a product of two) needs
    more significant bits than a double has. Deep chains of dependent formulas (x^2 of x^2 ...) reach that in the thorough tier."""
    def sig(v):
        n = abs(Fraction(v).numerator)
        while n and n % 2 == 0:
            n //= 2
        return n.bit_length()
    return any(sig(v) > 26 for v in values.values())


def part_samples(ctx):
    rng = ctx.rng
    asks, meta = [], []
    for it in range(ctx.scale(350, 6000)):
        names, indep, dep, deps, draws, kind = gen_case(rng)
        constants = dict(CONSTS)
        if len(names) <= 4 and rng.random() < 0.5:
            orders = list(itertools.permutations(names))
        else:
            orders = [tuple(rng.sample(names, len(names))) for _ in range(3)]
        first = None
        for order in orders:
            try:
                k, v = run_impl(lambda: run_impl_samples(order, indep, deps, draws, constants))
            except Exception as e:      # construction problems are not C13's business
                ctx.count('skipped'); break
            got = classify_impl(k, v)
            case = {'part': 'samples', 'order': list(order), 'indep': indep, 'deps': {d: render(t) for d, t in deps.items()}, 'trees': deps,
                    'draws': [{s: frac_to_str(x) for s, x in d.items()} for d in draws], 'constants': constants}
            wants = [oracle(set(order), d, deps, constants) for d in draws]
            want = wants[0] if wants[0][0] != 'ok' else (next((w for w in wants if w[0] != 'ok'), None) or ('ok', [w[1] for w in wants]))
            # property oracle on the implementation
            if want[0] == 'ok':
                if got[0] != 'ok':
                    ctx.violation('resolvable dependencies were not resolved: %r' % (got,), case, impl=v)
                else:
                    for sd, w in zip(got[1], want[1]):
                        ks = set(sd)
                        if ks != set(w):
                            ctx.violation('sample keys %r differ from declared symbols + unshadowed constants %r' % (sorted(ks), sorted(w)), case, impl=sorted(ks))
                            break
                        bad = [n for n in w if Fraction(sd[n]) != w[n]]
                        if bad and inexact(w):
                            ctx.count('samples:values beyond exact float arithmetic (guard)'); case['inexact'] = True
                            break
                        if bad:
                            ctx.violation('value of %s is not its formula evaluated on the same sample' % bad, case,
                                          impl={n: frac_to_str(Fraction(sd[n])) for n in bad}, expected={n: frac_to_str(w[n]) for n in bad})
                            break
            elif want[0] != got[0] or (len(want) > 1 and list(want[1]) != list(got[1])):
                ctx.violation('expected %r, implementation gave %r' % (want, got if got[0] != 'ok' else 'values'), case, impl=v if k == 'err' else None)
            # order independence on the implementation
            canon = got if got[0] != 'ok' else ('ok', [{n: Fraction(x) for n, x in sd.items()} for sd in got[1]])
            if first is None:
                first = canon
            elif canon != first:
                ctx.violation('outcome depends on the declaration order', case, impl=repr(canon)[:300], expected=repr(first)[:300])
            chain = len(dep) >= 2 and any(fvars(t) & set(dep) for t in deps.values())
            ctx.case({'order': list(order), 'deps': case['deps'], 'outcome': got[0]}, nontrivial_key=(order, repr(case['deps']), repr(case['draws'])) if (chain or got[0] != 'ok') else None,
                     kind='samples:' + kind + ':' + got[0])
            # model: one request per sample
            for si, d in enumerate(draws):
                asks.append({'op': 'depend', 'constants': [[c, frac_to_str(Fraction(x))] for c, x in constants.items()], 'symbols': list(order),
                             'draws': [[s, frac_to_str(d[s])] for s in order if s in d], 'deps': [[s, render(deps[s])] for s in order if s in deps]})
                meta.append((case, si, got, len(draws)))
    if ctx.driver:
        outs = ctx.driver.ask_many(asks)
        i = 0
        while i < len(asks):
            case, _, got, ns = meta[i]
            mo = outs[i:i + ns]
            i += ns
            errs = [o['err'] for o in mo if 'err' in o]
            if errs:
                e = errs[0]
                mgot = ('formula',) if e[0] == 'formula' else (e[0], e[1]) if e[0] in ('undefined', 'circular') else ('other', e)
                if got[0] == 'ok' or got[0] != mgot[0] or (len(mgot) > 1 and list(mgot[1]) != list(got[1])):
                    ctx.disagree('outcome differs from the model', case, repr(got)[:300], mgot)
                continue
            if got[0] != 'ok':
                ctx.disagree('implementation raised, model produced samples', case, repr(got)[:300], 'ok')
                continue
            for sd, o in zip(got[1], mo):
                impl_items = [[n, frac_to_str(Fraction(x))] for n, x in sd.items()]
                if impl_items != o['out'] and [a for a, _ in impl_items] == [a for a, _ in o['out']] and inexact({a: Fraction(b) for a, b in o['out']}):
                    ctx.count('samples:values beyond exact float arithmetic (guard, model)')      # same names, same order; the exact values need > 53 bits
                    break
                if impl_items != o['out']:
                    ctx.disagree('sample dictionary (contents or insertion order) differs from the model', case, impl_items, o['out'])
                    break


def part_varlist(ctx):
    """generate_variable_list, gen_var_and_func_samples through real graders"""
    from mitxgraders import FormulaGrader, DependentSampler, RealInterval
    rng = ctx.rng
    asks, meta = [], []
    heads_pool = ['a', 'b', 'Cat', 'a_1', 'x']
    for it in range(ctx.scale(150, 2500)):
        heads = rng.sample(heads_pool, rng.randint(1, 3))
        plain = rng.sample(['m', 'n', 'q', 'a', 'b_{2}', 'Cat_{1}'], rng.randint(1, 3))
        plain = [p for p in plain if p not in heads]
        cand = []
        for h in heads + ['B', 'cat', 'zz']:
            for idx in ['1', '12', '0', '-3', '05', '-0', '-05', '007', '1.5', '+1', '']:
                cand.append('%s_{%s}' % (h, idx))
        used_names = rng.sample(cand, rng.randint(1, 4)) + list(plain) + [h for h in heads if rng.random() < 0.3]
        # only syntactically valid names can appear in a parsed expression
        expr = ' + '.join(used_names)
        try:
            from mitxgraders.helpers.calc import parse
            used = sorted(parse(expr).variables_used)
        except Exception:
            # names such as a_{1.5} do not lex as one variable: drop them
            used_names = [u for u in used_names if re.match(r'^[A-Za-z][A-Za-z0-9_]*(_\{-?\d+\})?$', u)]
            if not used_names:
                continue
            expr = ' + '.join(used_names)
            try:
                used = sorted(parse(expr).variables_used)
            except Exception:
                ctx.count('varlist:unparsable'); continue
        try:
            samplers = {h: RealInterval([i + 1, i + 1.5]) for i, h in enumerate(heads)}
            g = FormulaGrader(answers='1', variables=plain, numbered_vars=heads, sample_from=samplers)
        except Exception:
            ctx.count('varlist:config_rejected'); continue
        vl, sf = g.generate_variable_list([expr])
        base = list(g.config['variables'])
        added = vl[len(base):]
        case = {'part': 'varlist', 'variables': plain, 'numbered': heads, 'expr': expr, 'used': used}
        # property oracle: reference matcher written independently of the library's regexp
        def ref_head(v):
            for h in heads:
                if v.startswith(h + '_{') and v.endswith('}'):
                    num = v[len(h) + 2:-1]
                    if re.fullmatch(r'0|-?[1-9][0-9]*', num):
                        return h
            return None
        want = sorted(v for v in used if v not in base and ref_head(v))
        if vl[:len(base)] != base or sorted(added) != want:
            ctx.violation('numbered instances added to the variable list %r, expected %r' % (sorted(added), want), case, impl=vl)
        for v in base:
            if sf.get(v) is not g.config['sample_from'][v]:
                ctx.violation('declared variable %s is no longer sampled from its own sampling set' % v, case)
        for v in added:
            h = ref_head(v)
            if h is not None and sf.get(v) is not g.config['sample_from'][h]:
                ctx.violation('numbered instance %s is not sampled from the sampling set of its head %s' % (v, h), case)
        ctx.case({'numbered': heads, 'expr': expr, 'added': sorted(added)}, nontrivial_key=(tuple(heads), expr) if added else None, kind='varlist:%d' % len(added))
        asks.append({'op': 'varlist', 'variables': base, 'numbered': heads, 'used': used})
        meta.append((case, base, sorted(added), {v: next((h for h in heads if sf[v] is g.config['sample_from'][h]), None) for v in added}))
    if ctx.driver:
        for (case, base, added, heads_of), o in zip(meta, ctx.driver.ask_many(asks)):
            m_added = sorted(o['out'][len(base):])
            if o['out'][:len(base)] != base or m_added != added:
                ctx.disagree('generate_variable_list differs from the model', case, added, m_added)
            elif {a: b for a, b in o['inst']} != heads_of:
                ctx.disagree('sampler of a numbered instance differs from the model', case, heads_of, o['inst'])


def part_grader(ctx):
    """samples seen during real grader calls: complete and consistent"""
    from mitxgraders import FormulaGrader, NumericalGrader, DependentSampler, RealInterval, ListGrader
    from mitxgraders.helpers.calc import parse
    rng = ctx.rng
    Scripted = scripted_class()
    for it in range(ctx.scale(120, 2000)):
        names, indep, dep, deps, draws, kind = gen_case(rng, ['k'])
        order = rng.sample(names, len(names))
        heads = rng.sample(['p', 'r'], rng.randint(0, 2))
        inst = ['%s_{%d}' % (h, rng.choice([0, 1, 7, -2, 13])) for h in heads]
        sample_from = {}
        for s in order:
            sample_from[s] = DependentSampler(formula=render(deps[s])) if s in deps else Scripted(values=[float(d[s]) for d in draws])
        for h in heads:
            sample_from[h] = RealInterval([2, 3])
        ans = ' + '.join(order + inst + (['k'] if 'k' not in order else []))
        stu = ' + '.join(list(reversed(order)) + inst + (['k'] if 'k' not in order else []))
        user_consts = {'k': 2.5}
        try:
            g = FormulaGrader(answers=ans, variables=order, numbered_vars=heads, sample_from=sample_from, samples=len(draws), user_constants=user_consts)
        except Exception as e:
            ctx.count('grader:config_rejected'); continue
        rec = []
        orig = g.gen_var_and_func_samples

        def spy(*a, _o=orig, _r=rec):
            vs, fs = _o(*a)
            _r.append(vs)
            return vs, fs
        g.gen_var_and_func_samples = spy
        k, v = run_impl(lambda: g(None, stu))
        case = {'part': 'grader', 'order': order, 'deps': {d: render(t) for d, t in deps.items()}, 'trees': deps, 'numbered': heads, 'answer': ans, 'student': stu,
                'draws': [{s: frac_to_str(x) for s, x in d.items()} for d in draws]}
        consts = dict(g.constants)
        wants = [oracle(set(order) | set(inst), d, deps, {c: x for c, x in consts.items() if isinstance(x, float)}) for d in draws]
        bad = next((w for w in wants if w[0] != 'ok'), None)
        if bad is not None:
            got = classify_impl(k, v) if k == 'err' else ('ok',)
            if got[0] != bad[0] or (len(bad) > 1 and list(bad[1]) != list(got[1])):
                ctx.violation('grader call: expected configuration error %r, got %r' % (bad, got), case, impl=v)
            ctx.case({'order': order, 'outcome': bad[0]}, nontrivial_key=(tuple(order), repr(case['deps'])), kind='grader:' + bad[0])
            continue
        if k == 'err' or not rec:
            ctx.violation('grader call failed on a resolvable configuration', case, impl=v)
            continue
        for sd, w, d in zip(rec[0], wants, draws):
            expect_keys = set(order) | set(inst) | {c for c in consts if c not in order}
            if set(sd) != expect_keys:
                ctx.violation('sample misses or adds names: %r' % sorted(set(sd) ^ expect_keys), case, impl=sorted(sd))
                break
            for n in dep:
                if Fraction(sd[n]) != feval(deps[n], {**{c: Fraction(x) for c, x in consts.items() if isinstance(x, float) and c not in order}, **{m: Fraction(sd[m]) for m in order}}):
                    ctx.violation('dependent %s is not its formula on the same sample' % n, case, impl=repr(sd)[:400])
                    break
            for v_, h in zip(inst, heads):
                if not (2 <= sd[v_] <= 3):
                    ctx.violation('numbered instance %s not drawn from its head\'s sampling set' % v_, case, impl=sd[v_])
            for n in indep:
                if Fraction(sd[n]) != d[n]:
                    ctx.violation('independent %s does not carry its draw' % n, case)
        if v.get('ok') is not True:
            ctx.violation('a reordering of the answer was not graded correct (inconsistent samples?)', case, impl=v)
        ctx.case({'order': order, 'numbered': heads, 'ok': v.get('ok')}, nontrivial_key=(tuple(order), repr(case['deps']), tuple(inst)) if (len(dep) >= 2 or inst) else None, kind='grader:ok')
    # sibling formulas become dependent variables of the same sample
    for it in range(ctx.scale(40, 600)):
        a, b = rng.randint(1, 5), rng.randint(1, 5)
        lg = ListGrader(answers=['x*%d' % a, 'sibling_1 + %d' % b, 'sibling_2 * sibling_1'], subgraders=FormulaGrader(variables=['x']), ordered=True)
        first = rng.choice(['x*%d' % a, '%d*x' % a, 'x*%d + 0' % a, '(x*%d)' % a])
        k, v = run_impl(lambda: lg(None, [first, '%s + %d' % (first, b), '(%s + %d)*%s' % (first, b, first)]))
        ok = k == 'out' and all(e['ok'] is True for e in v['input_list'])
        if not ok:
            ctx.violation('sibling-dependent answers are not evaluated on the sibling\'s value of the same sample', {'part': 'sibling', 'a': a, 'b': b, 'first': first}, impl=v)
        k2, v2 = run_impl(lambda: lg(None, [first, '%s + %d' % (first, b + 1), '0']))
        if not (k2 == 'out' and [e['ok'] for e in v2['input_list']] == [True, False, False]):
            ctx.violation('sibling-dependent answers accept a wrong value', {'part': 'sibling', 'a': a, 'b': b}, impl=v2)
        ctx.case({'sibling': [a, b, first]}, nontrivial_key=('sib', a, b, first), kind='sibling')


def part_constants(ctx):
    from mitxgraders.sampling import construct_constants
    rng = ctx.rng
    for it in range(ctx.scale(50, 500)):
        d = {k: rng.randint(0, 9) for k in rng.sample(['i', 'j', 'e', 'pi', 'T'], 3)}
        u = {k: rng.randint(10, 19) for k in rng.sample(['i', 'e', 'T', 'k', 'm'], 2)}
        d0 = dict(d)
        got = construct_constants(d, u)
        want = dict(d); want.update(u)
        if got != want or d != d0 or got is d:
            ctx.violation('construct_constants is not "user constants over defaults" on a copy', {'part': 'constants', 'defaults': d0, 'user': u}, impl=got)
        ctx.case({'defaults': d0, 'user': u}, kind='constants')


def part_through_graders(ctx):
    """dependent values are consistent with the draws of the SAME sample wherever they are used by a grader: an author's own sum limit that names
    a dependent instructor variable (evaluated at every sample), and chains of DependentSamplers that start from a sibling input of a ListGrader"""
    from mitxgraders import SumGrader, ListGrader, FormulaGrader, DependentSampler, RealInterval
    rng = ctx.rng
    for samples in (2, 5, 8):
        for pos, honest in [({'lower': 1, 'summand': 2}, ['1', 'k']), ({'summand': 1}, ['k']), ({'lower': 1, 'upper': 2, 'summand': 3}, ['1', '2*n', 'k'])]:
            g = SumGrader(answers={'lower': '1', 'upper': 'N', 'summand': 'k', 'summation_variable': 'k'}, input_positions=pos, variables=['n', 'N'],
                          sample_from={'n': (2, 3, 4, 5, 6, 7), 'N': DependentSampler(depends=['n'], formula='2*n')}, instructor_vars=['N'], samples=samples)
            for rep in range(ctx.scale(2, 6)):
                k, v = run_impl(lambda: g(None, honest if len(honest) > 1 else honest[0]))
                case = {'part': 'grader-sum', 'positions': pos, 'samples': samples, 'student': honest}
                ctx.case(case, nontrivial_key=('gsum', repr(pos), samples, rep), kind='through-graders:sum')
                if not (k == 'out' and v['ok'] is True):
                    ctx.violation("the author's own sum, re-entered by the student, is not accepted: the author's limit N = 2*n was not evaluated on the sample the student's entries were", case, impl=v if k == 'err' else dict(v))
                    break
    for it in range(ctx.scale(10, 60)):
        a = rng.randint(2, 6)
        sub = FormulaGrader(variables=['y', 'z', 'w'], sample_from={'y': DependentSampler(depends=['sibling_1'], formula='sibling_1^2'), 'z': DependentSampler(depends=['y'], formula='y + 1'),
                                                                   'w': DependentSampler(depends=['z', 'y'], formula='z*y')})
        second = rng.choice(['z', 'w', 'z + w'])
        lg = ListGrader(answers=[str(a), second], subgraders=sub, ordered=True)
        val = {'z': a * a + 1, 'w': (a * a + 1) * a * a, 'z + w': a * a + 1 + (a * a + 1) * a * a}[second]
        for stu, want in [(str(val), True), (str(val + 1), False), (second, True)]:
            k, v = run_impl(lambda: lg(None, [str(a), stu]))
            case = {'part': 'grader-sibling-chain', 'first': a, 'second_answer': second, 'student': stu}
            ctx.case(case, nontrivial_key=('gsib', a, second, stu), kind='through-graders:sibling-chain')
            if not (k == 'out' and (v['input_list'][1]['ok'] is True) == want):
                ctx.violation('a chain of dependent variables starting from a sibling input is not resolved consistently (expected %s)' % ('accepted' if want else 'refused'), case, impl=v if k == 'err' else dict(v))
                break


def run(ctx):
    part_through_graders(ctx)
    part_samples(ctx)
    part_varlist(ctx)
    part_grader(ctx)
    part_constants(ctx)


def search(ctx):
    drv, ctx.driver = ctx.driver, None
    old = (ctx.tier, ctx.quick)
    ctx.tier, ctx.quick = 'thorough', False
    try:
        run(ctx)
    finally:
        ctx.driver = drv
        ctx.tier, ctx.quick = old


def replay(ctx, data):
    v = data.get('violation') or {}
    case = v.get('case')
    if not case:
        return {'holds': True, 'note': 'replay file names a broken obligation, no input to re-run', 'broken': data.get('broken')}
    if case.get('part') == 'samples':
        def tup(t):
            return tuple(tup(x) if isinstance(x, list) else x for x in t)
        deps = {d: tup(t) for d, t in case['trees'].items()}
        draws = [{s: Fraction(x) for s, x in d.items()} for d in case['draws']]
        k, val = run_impl(lambda: run_impl_samples(case['order'], case['indep'], deps, draws, case['constants']))
        got = classify_impl(k, val)
        wants = [oracle(set(case['order']), d, deps, case['constants']) for d in draws]
        bad = next((w for w in wants if w[0] != 'ok'), None)
        if bad is not None:
            holds = got[0] == bad[0] and (len(bad) == 1 or list(bad[1]) == list(got[1]))
        else:
            holds = got[0] == 'ok' and all({n: Fraction(x) for n, x in sd.items()} == w[1] for sd, w in zip(got[1], wants))
        return {'holds': holds, 'impl': repr(got)[:500], 'expected': repr(bad or 'values of the topological evaluation')[:300]}
    return {'holds': False, 'note': 'replay by seed: VERIF_SEED=%s ./check C13' % data.get('seed'), 'case': case, 'what': v.get('what')}

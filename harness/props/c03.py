"""C03 — formula strings evaluate to the value mathematics assigns them.
Correspondence: (A) parse trees of the Lean lexer+PEG model vs pyparsing, exact; (B) evaluator value vs the exact
rational interpretation of the model; oracle: textbook value of the generated expression tree / an independent
precedence-climbing evaluator for flat operator sequences; (C) rejection families."""
import itertools, json, math
from fractions import Fraction
import exprgen as G
from common import frac_to_str, with_alarm, Timeout

ASSUMPTIONS = [
    'the Lean parser is a token-level PEG model of the scannerless pyparsing grammar; its fidelity is this run\'s exact tree comparison',
    'numeric leaves: float() literal rounding, float evaluation error, non-integer/complex powers, arrays and named numpy functions are outside the model (oom cases are skipped, counted)',
    'values compared within relative 1e-9 (floats vs exact rationals); variable bindings are dyadic rationals',
]
EVIDENCE = {
    'rule': 'cases = formula strings: renderings (minimal + redundant parentheses, spaces anywhere, tab/CR/LF between tokens, em-dash) of generated expression trees, '
            'all flat operator sequences up to the tier\'s length over distinguishing leaves, mutations and invalid-by-construction families; '
            'non-trivial = valid string with at least two operators or a rejected string from a rejection family; distinct by the space-stripped string',
}

FV = {k: float(v) for k, v in G.VARS.items()}
FS = {k: float(v) for k, v in G.SUFS.items()}
FF = {'f1': lambda x: 2 * x + 1, 'g2': lambda x, y: x - 3 * y, 'h3': lambda x, y, z: x + 2 * y + 4 * z}
MV = [[k, frac_to_str(v)] for k, v in G.VARS.items()]
MS = [[k, frac_to_str(v)] for k, v in G.SUFS.items()]


def canon(t):
    from pyparsing import ParseResults
    if isinstance(t, ParseResults):
        return [t.getName()] + [canon(c) for c in t]
    return t


def py_tree(parser, s):
    from mitxgraders.helpers.calc.exceptions import CalcError
    from mitxgraders.exceptions import MITxError
    try:
        return json.dumps(canon(parser.parse(s).tree), separators=(',', ':'), ensure_ascii=False)
    except MITxError as e:
        return 'ERR'
    except RecursionError:
        return 'RECURSION'


def py_eval(s):
    from mitxgraders.helpers.calc.expressions import evaluator
    from mitxgraders.helpers.calc import exceptions as X
    from mitxgraders.exceptions import MITxError
    try:
        v = with_alarm(lambda: evaluator(s, variables=FV, functions=FF, suffixes=FS)[0], 10)
        return ('val', v)
    except X.UndefinedVariable:
        return ('err', 'undef-var')
    except X.UndefinedFunction as e:
        return ('err', 'suffix' if 'directly after a number' in str(e) else 'undef-func')
    except X.CalcZeroDivisionError:
        return ('err', 'divzero')
    except X.CalcOverflowError:
        return ('err', 'overflow')
    except X.UnableToParse:
        return ('err', 'parse')
    except X.ArgumentError:
        return ('err', 'arity')
    except MITxError as e:
        return ('err', 'mitx:' + type(e).__name__)
    except Timeout:
        return ('err', 'timeout')
    except Exception as e:
        return ('err', 'other:' + type(e).__name__)


def close(a, b, scale=1.0):
    """scale = magnitude of the largest intermediate value (cancellation makes the absolute error proportional to it)"""
    if isinstance(a, complex):
        if abs(a.imag) > 1e-9 * max(1, abs(a.real)):
            return False
        a = a.real
    b = float(b)
    return abs(a - b) <= 1e-9 * max(abs(a), abs(b)) + 1e-10 * max(1.0, scale)


def leaf_scale(s):
    """crude bound on intermediate magnitudes: only used to widen the absolute tolerance"""
    return 1e7 if ('k' in s or 'M' in s or 'e' in s.lower()) else 1e3


def noise(got, verdict, case=None):
    """float rounding can turn an exact 0 denominator into a tiny one: the huge quotient may be absorbed again further up
    (1/huge), so for deep generated trees an exact division by zero that the floats do not hit is not a disagreement"""
    if verdict == 'divzero' and got[0] == 'val':
        v = got[1]
        return abs(v) > 1e8 or v != v or (case is not None and 'ast' in case)
    return False


# ---------- independent precedence-climbing evaluator for flat token sequences (oracle) ----------
def pc_eval(toks, env):
    """documented table: ^ tightest, right-assoc, optional sign on exponent; unary minus; ||; * /; + -"""
    pos = [0]

    def peek():
        return toks[pos[0]] if pos[0] < len(toks) else None

    def eat():
        pos[0] += 1
        return toks[pos[0] - 1]

    def atom():
        t = eat()
        if t == '(':
            v = summ()
            assert eat() == ')'
            return v
        return G._t(env[t] if t in env else G.num_value(t))

    def power():
        b = atom()
        if peek() == '^':
            eat()
            sign = 1
            if peek() == '-':
                eat(); sign = -1
            x = sign * power()
            if x.denominator != 1 or abs(x) > 64:
                raise G.OOM()
            if x < 0 and b == 0:
                raise G.DivZero()
            return G._t(b ** int(x))
        return b

    def negation():
        if peek() == '-':
            eat()
            return -power()
        return power()

    def parallel():
        vs = [negation()]
        while peek() == '|':
            eat(); eat()
            vs.append(negation())
        if len(vs) == 1:
            return vs[0]
        if any(v == 0 for v in vs):
            return Fraction(0)
        s = sum(1 / v for v in vs)
        if s == 0:
            raise G.DivZero()
        return G._t(1 / s)

    def product():
        v = parallel()
        while peek() in ('*', '/'):
            op = eat()
            w = parallel()
            if op == '/':
                if w == 0:
                    raise G.DivZero()
                v = G._t(v / w)
            else:
                v = G._t(v * w)
        return v

    def summ():
        if peek() == '+':
            eat()
        v = product()
        while peek() in ('+', '-'):
            op = eat()
            w = product()
            v = G._t(v + w if op == '+' else v - w)
        return v
    v = summ()
    assert pos[0] == len(toks)
    return v


def oracle_value(fn):
    G.track_reset()
    try:
        v = fn()
        if G.TRACK['max'] > Fraction(10) ** 100 or (G.TRACK['min'] is not None and G.TRACK['min'] < Fraction(1, 10 ** 100)):
            return ('oom', None)       # some intermediate value is outside the comfortable double range
        return ('val', v)
    except G.OOM:
        return ('oom', None)
    except G.DivZero:
        return ('err', 'divzero')
    except OverflowError:
        return ('oom', None)


def check_value(ctx, s, want, case, pending):
    """want: oracle verdict for the string s; checks implementation vs oracle, queues model comparison"""
    got = py_eval(s)
    if want[0] == 'val':
        if abs(want[1]) > Fraction(10) ** 15 or (want[1] != 0 and abs(want[1]) < Fraction(1, 10 ** 15)):
            ctx.count('skipped_magnitude')
        elif got == ('err', 'divzero') and abs(want[1]) > 10 ** 8:
            ctx.count('float_noise')
        elif got[0] != 'val' or not close(got[1], want[1], leaf_scale(s)):
            ctx.violation('value differs from the mathematical value', case, impl=repr(got), expected=frac_to_str(want[1]))
    elif want[0] == 'err':
        if noise(got, want[1], case):
            ctx.count('float_noise')
        elif got != ('err', want[1]):
            ctx.violation('expected a %s error' % want[1], case, impl=repr(got))
    else:
        ctx.count('oom_skipped')
        return
    pending.append((s, got, case))


def flush_eval(ctx, pending):
    if ctx.driver is None or not pending:
        pending.clear(); return
    outs = ctx.driver.ask_many([{'op': 'eval', 's': s, 'vars': MV, 'sufs': MS} for s, _, _ in pending])
    for (s, got, case), o in zip(pending, outs):
        if 'out' in o:
            q = Fraction(o['out'])
            if abs(q) > Fraction(10) ** 15 or (q != 0 and abs(q) < Fraction(1, 10 ** 15)):
                continue
            if got == ('err', 'divzero') and abs(q) > 10 ** 8:
                continue
            if got[0] != 'val' or not close(got[1], q, leaf_scale(s)):
                ctx.disagree('evaluator value differs from the model value', case, repr(got), o['out'])
        else:
            k = o['err']
            if k == 'oom' or noise(got, k, case):
                continue
            if got[0] == 'val' or got[1] != k:
                ctx.disagree('model error %s, implementation %r' % (k, got), case, repr(got), k)
    pending.clear()


def flush_tree(ctx, parser, strings, kind):
    pys = [py_tree(parser, s) for s in strings]
    if ctx.driver is None:
        return pys
    outs = ctx.driver.ask_many([{'op': 'parse', 's': s} for s in strings])
    for s, p, o in zip(strings, pys, outs):
        if p == 'RECURSION':
            continue
        if o['out'] != p:
            ctx.disagree('parse tree differs (%s)' % kind, {'s': s}, p, o['out'])
        elif o['out'] != 'ERR' and o.get('out2') != o['out']:
            ctx.disagree('model usage parser tree differs from pure parser', {'s': s}, p, o.get('out2'))
    return pys


ALPHABET = list("0123456789..++--**//^^(())[],,||%eExyzab''__{}") + ['sin', 'cos', 'x_{1}', '^{2}', '—', '\t', '\n', ' ', 'k', '2e3', '1.5', '.5', '5.', 'f1(', 'x_1', "x'", '\r', '×', '÷', '²', '１', ' ', '$', '#', '!', '=', '<', ';', '"', '\\', '&', '~', '?', '@']


def mutate(rng, s):
    if not s:
        return s
    i = rng.randrange(len(s)); k = rng.random()
    if k < 0.4:
        return s[:i] + s[i + 1:]
    if k < 0.7:
        return s[:i] + rng.choice(ALPHABET) + s[i:]
    return s[:i] + rng.choice(ALPHABET) + s[i + 1:]


REJECT = [
    ('double_op', ['1++2', '1**2', '1//2', '2^^3', 'x*/y', 'x+*y', 'x-/y', 'x^*2', '1|||2', '1||||2', '--x', '-+x', '1+', '*2', '/x', '^2', 'x^', 'x||', '||x', '1 + + 2']),
    ('juxtaposition', ['2x)', '(1)(2)', 'x y z(', '2(3)', '(x)y', 'x(1)(2)', '[1][2]', '3 4 +', '1.2.3', 'x_{1}{2}', ')(', 'x)(y']),
    ('empty', ['()', '[]', 'f1()', '(())', 'x+()', '[[]]', 'f1(,)', 'f1(1,)', 'f1(,1)', '[1,]', '[,1]', '[1,,2]', 'g2(1,,2)']),
    ('foreign', ['1×2', '6÷3', 'x²', '１+1', 'x=1', 'x<y', '1;2', 'a&b', '$x', 'x!', '#1', 'x?y', '2\\3', '"x"', 'x@y', '1 + 1', 'x_{}', 'x^{}', '{x}', 'x_{1', 'é', 'π',
                 '１２３', '٣.٥', '۴۲', '1０', '1e٣', '-２', ' ４２ ', '२०', '+٣', '.５', '４２e1', '1 ０', 'ｘ', 'ｓin(1)', '1\u00a0+ 1', '1\u20092']),
]



def regenerate(ctx):
    """translator: the live pyparsing grammar object graph -> Mitx/Generated/Grammar.lean (obligation grammar_matches)"""
    from translate import grammar as TG
    from common import LEAN
    n = TG.regenerate(LEAN)
    ctx.notes.append('translator: grammar object graph, %d elements' % n)
    return 1


def run(ctx):
    from mitxgraders.helpers.calc.expressions import MathParser
    rng = ctx.rng
    parser = MathParser()
    pending = []
    seen = set()
    # (A) trees: renderings, mutations, junk
    n = ctx.scale(4000, 150000)
    strings = []
    for i in range(n):
        k = rng.random()
        if k < 0.15:
            s = ''.join(rng.choice(ALPHABET) for _ in range(rng.randint(1, 9)))
        else:
            t = G.gen_tree(rng, rng.randint(1, 5), arrays=True)
            if rng.random() < 0.4:
                t = G.add_redundant_parens(t, rng, 0.15)
            s = G.spell(G.render(t), rng)
            if k > 0.7:
                s = mutate(rng, s)
                if rng.random() < 0.3:
                    s = mutate(rng, s)
        strings.append(s)
    for i in range(0, len(strings), 2000):
        chunk = strings[i:i + 2000]
        pys = flush_tree(ctx, parser, chunk, 'generated')
        for s, p in zip(chunk, pys):
            key = s.replace(' ', '')
            nt = p != 'ERR' and sum(key.count(o) for o in '+-*/^|—') >= 2 and key not in seen
            seen.add(key)
            ctx.case({'s': s, 'tree': p if len(p) < 300 else p[:300] + '…'}, nontrivial_key=key if nt else None, kind='tree:valid' if p != 'ERR' else 'tree:rejected')
    # (B) values of generated trees under every rendering
    for i in range(ctx.scale(2500, 60000)):
        t = G.gen_tree(rng, rng.randint(1, 5))
        want = oracle_value(lambda: G.value(t))
        variants = [''.join(G.render(t))]
        variants.append(G.spell(G.render(t), rng, ws=0.3, emdash=0.3))
        variants.append(G.spell(G.render(G.add_redundant_parens(t, rng, 0.3)), rng))
        for s in variants:
            case = {'s': s, 'ast': repr(t)}
            check_value(ctx, s, want, case, pending)
            key = s.replace(' ', '')
            nt = want[0] == 'val' and sum(key.count(o) for o in '+-*/^|—') >= 2 and key not in seen
            seen.add(key)
            ctx.case({'s': s, 'value': frac_to_str(want[1]) if want[0] == 'val' else want}, nontrivial_key=key if nt else None, kind='value:' + want[0])
        if len(pending) > 3000:
            flush_eval(ctx, pending)
    flush_eval(ctx, pending)
    # (C) all flat operator sequences (with optional unary minus / signed exponents) over distinguishing leaves
    leaves = ['x', '3', 'z', 'a_1', '2', 'y']       # 2, 3, 5/2, -3/2, 2, 3
    env = dict(G.VARS)
    ops = ['+', '-', '*', '/', '^', '^-', '||', '*-', '+-', '/-', '||-']
    maxlen = ctx.scale(3, 4)
    count = 0
    for L in range(1, maxlen + 1):
        seqs = itertools.product(ops, repeat=L)
        for seq in seqs:
            if L == 4 and ctx.quick:
                break
            for lead in ('', '-'):
                toks = ([lead] if lead else []) + [leaves[0]]
                for i, op in enumerate(seq):
                    for ch in ({'^-': ['^', '-'], '*-': ['*', '-'], '+-': ['+', '-'], '/-': ['/', '-'], '||': ['|', '|'], '||-': ['|', '|', '-']}.get(op, [op])):
                        toks.append(ch)
                    toks.append(leaves[(i + 1) % len(leaves)])
                s = ''.join(toks)
                want = oracle_value(lambda: pc_eval(toks, env))
                case = {'s': s, 'kind': 'opseq'}
                check_value(ctx, s, want, case, pending)
                ctx.case({'s': s, 'value': frac_to_str(want[1]) if want[0] == 'val' else want},
                         nontrivial_key=s if (L >= 2 and s not in seen) else None, kind='opseq:%d' % L)
                seen.add(s)
                count += 1
            if len(pending) > 3000:
                flush_eval(ctx, pending)
    if ctx.quick:
        # seeded sample of the length-4 sequences
        allseq = list(itertools.product(ops, repeat=4))
        rng.shuffle(allseq)
        for seq in allseq[:1500]:
            toks = [leaves[0]]
            for i, op in enumerate(seq):
                toks += {'^-': ['^', '-'], '*-': ['*', '-'], '+-': ['+', '-'], '/-': ['/', '-'], '||': ['|', '|'], '||-': ['|', '|', '-']}.get(op, [op])
                toks.append(leaves[(i + 1) % len(leaves)])
            s = ''.join(toks)
            want = oracle_value(lambda: pc_eval(toks, env))
            check_value(ctx, s, want, {'s': s, 'kind': 'opseq'}, pending)
            ctx.case({'s': s}, nontrivial_key=s if s not in seen else None, kind='opseq:4')
            seen.add(s)
    flush_eval(ctx, pending)
    # (D) rejection families: the implementation must raise a parse error, and the model must reject too
    for fam, items in REJECT:
        pys = flush_tree(ctx, parser, items, 'reject:' + fam)
        for s, p in zip(items, pys):
            ctx.case({'s': s, 'family': fam, 'impl': p}, nontrivial_key=('rej', s), kind='reject:' + fam)
            if p != 'ERR':
                ctx.violation('string outside the grammar (%s) was accepted' % fam, {'s': s, 'family': fam}, impl=p)
            else:
                got = py_eval(s)
                if got[0] == 'val':
                    ctx.violation('string outside the grammar (%s) was given a value' % fam, {'s': s, 'family': fam}, impl=repr(got))
    # (D') look-alike characters: one ASCII digit / letter of a valid string replaced by a non-ASCII digit (same value under float()/int()) or a
    # fullwidth letter: outside the grammar, whether the string is parsed, evaluated or graded
    from mitxgraders import NumericalGrader, FormulaGrader
    UD = ['٠١٢٣٤٥٦٧٨٩', '۰۱۲۳۴۵۶۷۸۹', '０１２３４５６７８９', '०१२३४५६७८९']
    base = ['12', '3.5', '-2', '1e3', '.5', '2.50', '1 000', '+7', 'x+12', '2*3', '2^10', 'sin(1)', 'a_1', 'x', '7', '42', '2e-2']
    look = []
    for b in base:
        for _ in range(ctx.scale(2, 8)):
            idx = [i for i, ch in enumerate(b) if ch in '0123456789' or ch.isalpha()]
            i = rng.choice(idx)
            rep = rng.choice(UD)[int(b[i])] if b[i].isdigit() else chr(ord(b[i]) + 0xFEE0)
            look.append(b[:i] + rep + b[i + 1:])
    look = sorted(set(look))
    pys = flush_tree(ctx, parser, look, 'reject:lookalike')
    ng, fg = NumericalGrader(answers='42'), FormulaGrader(answers='42', variables=['x'])
    for s2, p in zip(look, pys):
        ctx.case({'s': s2, 'family': 'lookalike', 'impl': p}, nontrivial_key=('rej', s2), kind='reject:lookalike')
        if p != 'ERR':
            ctx.violation('string with a non-ASCII digit/letter was accepted by the parser', {'s': s2, 'family': 'lookalike'}, impl=p)
        got = py_eval(s2)
        if got[0] == 'val':
            ctx.violation('string with a non-ASCII digit/letter was given a value', {'s': s2, 'family': 'lookalike'}, impl=repr(got))
        for g in (ng, fg):
            try:
                r = with_alarm(lambda: g(None, s2), 10)
                ctx.violation('string with a non-ASCII digit/letter was graded instead of being reported as unparsable', {'s': s2, 'family': 'lookalike', 'grader': type(g).__name__}, impl=repr(r)[:200])
            except Exception as exc:
                if type(exc).__name__ not in ('UnableToParse', 'CalcError', 'InvalidInput') and not isinstance(exc, __import__('mitxgraders').exceptions.StudentFacingError):
                    ctx.violation('unexpected error class for a non-ASCII digit/letter', {'s': s2, 'family': 'lookalike'}, impl=type(exc).__name__)
    # (C') exponent towers with signs, against values written out by hand (right-associative; a sign belongs to the WHOLE remaining tower:
    # a^-b^c = a^(-(b^c)); it does not leak to other levels). Irrational results are compared as floats.
    towers = [('2^3^-2', 2 ** (3 ** -2)), ('2^-3^2', 2 ** -(3 ** 2)), ('2^3^-2^2', 2 ** (3 ** -(2 ** 2))), ('16^2^-1', 16 ** (2 ** -1)), ('2^-2^-1', 2 ** -(2 ** -1)),
              ('2^-2^2', 2 ** -(2 ** 2)), ('3^2^-1^5', 3 ** (2 ** -(1 ** 5))), ('2^2^2^-1', 2 ** (2 ** (2 ** -1))), ('4^-2^-1^3', 4 ** -(2 ** -(1 ** 3))), ('10^-1^-2', 10 ** -(1 ** -2)),
              ('x^y^-z', 2 ** (3 ** -2.5)), ('x^-y^z', 2 ** -(3 ** 2.5)), ('-2^2', -(2 ** 2)), ('-2^-2', -(2 ** -2)), ('2^-x^-1', 2 ** -(2 ** -1)), ('(0-2)^2^-1*0 + 2^3^-1', 2 ** (3 ** -1))]
    for expr, wantf in towers:
        got = py_eval(expr)
        case = {'s': expr, 'kind': 'tower'}
        ctx.case(dict(case, value=repr(got)), nontrivial_key=('tower', expr), kind='tower')
        if got[0] != 'val' or abs(complex(got[1]) - wantf) > 1e-12 * max(1.0, abs(wantf)):
            ctx.violation('an exponent tower with signs evaluates to %r, mathematics gives %r' % (got, wantf), case, impl=repr(got), expected=repr(wantf))
    # (D'') overflow with allow_inf=True: whatever is returned for a value too large for a float has the right SIGN (or an overflow error is raised)
    from mitxgraders.helpers.calc import evaluator as _ev
    from mitxgraders import NumericalGrader as _NG
    for expr, sign in [('(0-10)^401', -1), ('(0-2)^1025', -1), ('10^400', 1), ('(0-10)^400', 1), ('0-10^400', -1), ('(0-3)^999', -1), ('2^2000*(0-1)', -1), ('1e308*10', 1), ('(0-1e308)*10', -1)]:
        for ainf in (True, False):
            try:
                val = with_alarm(lambda: _ev(expr, allow_inf=ainf)[0], 10)
                out = ('val', val)
            except Exception as exc:
                out = ('err', type(exc).__name__)
            case = {'s': expr, 'kind': 'overflow', 'allow_inf': ainf}
            ctx.case(dict(case, outcome=repr(out)), nontrivial_key=('ovf', expr, ainf), kind='overflow')
            if out[0] == 'val':
                v_ = complex(out[1])
                if not ainf or v_.imag != 0 or v_.real != sign * float('inf'):
                    ctx.violation('a value too large for a float must be an overflow error, or (allow_inf) the infinity of the right sign %+d' % sign, case, impl=repr(out[1]))
    for stu in ['(0-10)^401', '(0-2)^1025']:
        try:
            r = with_alarm(lambda: _NG(answers='infty', allow_inf=True)(None, stu), 10)
            if r['ok'] is True:
                ctx.violation('a huge NEGATIVE power is graded equal to +infinity', {'s': stu, 'kind': 'overflow-grader'}, impl=repr(r))
        except Exception:
            pass
    # (D''') metric suffixes are per grader: after a grader WITH metric_suffixes was built (and used), a number directly followed by k, M, m, u ...
    # is still outside the grammar of a grader built without them
    from mitxgraders import FormulaGrader as _FG
    _FG(answers='2000', metric_suffixes=True)(None, '2k')
    plain_g = _FG(answers='2000*x', variables=['x'])
    for stu in ['2k*x', '2000*x + 0M', '2m*x*1000000', 'x*2k', '5u + 2000*x']:
        try:
            r = with_alarm(lambda: plain_g(None, stu), 10)
            ctx.violation('a metric suffix is accepted by a grader built WITHOUT metric_suffixes (another grader had them enabled)', {'s': stu, 'kind': 'suffix-leak'}, impl=repr(r)[:200])
        except Exception as exc:
            ctx.case({'s': stu, 'error': type(exc).__name__}, nontrivial_key=('suffix-leak', stu), kind='suffix-leak')
    # (E) number literal formats and suffixes through the evaluator
    lits = []
    for m in ['0', '7', '12', '3.', '.5', '2.50', '0.125', '00012.5']:
        for ex in ['', 'e0', 'E2', 'e-2', 'E+3', 'e—1']:
            for suf in ['', '%', 'k', 'M', 'm', 'u']:
                lits.append((m + ex + suf, m + ex, suf))
    for s, numtxt, suf in lits:
        want = ('val', G.num_value(numtxt) * (G.SUFS[suf] if suf else 1))
        check_value(ctx, s, want, {'s': s, 'kind': 'literal'}, pending)
        ctx.case({'s': s}, nontrivial_key=('lit', s) if (suf or 'e' in s.lower()) else None, kind='literal')
    flush_eval(ctx, pending)
    # case sensitivity of names
    for s, want in [('X', ('err', 'undef-var')), ('xy2', ('err', 'undef-var')), ('Xy2', ('val', Fraction(-1))), ('F1(1)', ('err', 'undef-func')),
                    ('2K', ('err', 'suffix')), ('2k', ('val', Fraction(2000))), ('t_{-3}', ('err', 'undef-var'))]:
        check_value(ctx, s, want, {'s': s, 'kind': 'case'}, pending)
        ctx.case({'s': s}, nontrivial_key=('case', s), kind='case')
    flush_eval(ctx, pending)


def search(ctx):
    drv, ctx.driver = ctx.driver, None
    old = (ctx.tier, ctx.quick)
    ctx.tier, ctx.quick = 'thorough', False
    try:
        run_limited(ctx)
    finally:
        ctx.driver = drv
        ctx.tier, ctx.quick = old


def run_limited(ctx):
    # oracle-only pass of (B)-(E) at thorough size but bounded
    import types
    saved = ctx.scale
    ctx.scale = lambda q, t: min(t, 20000)
    try:
        run(ctx)
    finally:
        ctx.scale = saved


def replay(ctx, data):
    v = data.get('violation') or {}
    case = v.get('case')
    if not case:
        return {'holds': True, 'note': 'replay file names a broken obligation, no input to re-run', 'broken': data.get('broken')}
    s = case['s']
    got = py_eval(s)
    res = {'s': s, 'impl': repr(got), 'expected': v.get('expected'), 'what': v.get('what')}
    if v.get('expected') and got[0] == 'val':
        res['holds'] = close(got[1], Fraction(v['expected']))
    elif 'outside the grammar' in v.get('what', ''):
        from mitxgraders.helpers.calc.expressions import MathParser
        res['holds'] = py_tree(MathParser(), s) == 'ERR'
    else:
        res['holds'] = False
    return res

"""C05 — ListGrader gives the best consistent assignment and reports it per input box."""
import itertools
from fractions import Fraction
import gradegen as GG
from common import frac_to_str

ASSUMPTIONS = [
    'credit matrices are arbitrary exact Fractions realised through a harness-defined table-driven ItemGrader; ListGrader, ItemGrader.check and Munkres run unmodified in exact arithmetic',
    'get_best_result sums grades in numpy doubles: cases with several alternative answer lists use dyadic credits (exact in doubles)',
    'optimal assignments need not be unique: the model reproduces the implementation\'s choice (exact comparison); the oracle demands maximal total credit and per-position consistency',
]
EVIDENCE = {
    'rule': 'cases = (ListGrader options ordered/partial_credit/grouping, subgrader tree, 1-3 answer lists, input list); non-trivial = unordered with n>=3 and a credit matrix in which '
            'the greedy row-wise best choice is not a valid assignment, or several answer lists with different totals, or a grouped/nested grader; distinct by (config, answers, inputs)',
}


def brute_max(C):
    n = len(C)
    return max(sum(C[i][p[i]] for i in range(n)) for p in itertools.permutations(range(n)))


def consistent_assignment_exists(E, entries, C, target):
    """E[i][j] = canonical result of checking input i against answer j; entries[i] the reported entry"""
    n = len(entries)
    for p in itertools.permutations(range(n)):
        if all(E[i][p[i]] == entries[i] for i in range(n)) and sum(C[i][p[i]] for i in range(n)) == target:
            return True
    return False


def entry_tot(res):
    return sum(e['grade_decimal'] for e in res['input_list'])


def run(ctx):
    from mitxgraders import ListGrader, SingleListGrader
    rng = ctx.rng
    pending = []

    def flush():
        if ctx.driver is None or not pending:
            pending.clear(); return
        outs = ctx.driver.ask_many([{'op': 'check', 'grader': c['grader'], 'answers': c['answers'], 'input': c['input']} for c, _, _, _ in pending])
        for (case, kind, val, grader), o in zip(pending, outs):
            if kind == 'err':
                if o.get('err') != val:
                    ctx.disagree('error differs', case, val, o)
            elif 'out' not in o or o['out'] != GG.canon_result(val):
                if float_tie(grader, case['input']):
                    ctx.count('float tie-break among alternative answer lists (guard)'); continue
                ctx.disagree('ListGrader result differs', case, GG.canon_result(val), o)
        pending.clear()

    def float_tie(grader, inp):
        """get_best_result adds the (exact) entry credits of each alternative answer list as numpy floats and compares the sums with ==; two lists
        whose exact totals are equal and maximal can then differ by rounding (thirds from a 3-item SingleListGrader), and the list chosen among
        exactly tied ones differs from the model's exact arithmetic. Every candidate is still a best one: not a property matter."""
        import numpy as np
        try:
            answers = grader.config['answers']
            if len(answers) < 2:
                return False
            res = [grader.perform_check(al, inp) for al in answers]
            exact = [sum(Fraction(e['grade_decimal']) for e in r['input_list']) for r in res]
            fl = [float(np.array([float(e['grade_decimal']) for e in r['input_list']]).sum()) for r in res]
            top = [i for i, t in enumerate(exact) if t == max(exact)]
            return len(top) > 1 and len({fl[i] for i in top}) > 1
        except Exception:
            return False

    def record(built, inp, kind, val, nt, label):
        case = {'grader': built.desc, 'answers': built.answers_json(), 'input': inp}
        pending.append((case, kind, val, built.grader))
        ctx.case({'cfg': built.desc['cfg'], 'input': inp, 'impl': GG.canon_result(val) if kind == 'out' else val},
                 nontrivial_key=(repr(built.desc['cfg']), repr(case['answers']), repr(inp)) if nt else None, kind=label)
        return case

    # ---------- A. flat unordered, one leaf subgrader, 1-3 answer lists
    for it in range(ctx.scale(120, 3000)):
        multi = it % 3 == 0
        pal = GG.DYAD if multi else GG.PAL
        n = rng.randint(2, ctx.scale(5, 6))
        leaf = GG.build_leaf(rng, pal, wrong_msg=rng.choice(['', 'w']))
        k = rng.choice([2, 3]) if multi else 1
        lists = [[GG.gen_item_answers(rng, pal, 2) for _ in range(n)] for _ in range(k)]
        answers = tuple(lists) if k > 1 else lists[0]
        pc = rng.random() < 0.75
        try:
            built = GG.build_list(rng, pal, [leaf], answers, ordered=False, partial_credit=pc)
        except Exception as e:
            ctx.count('config_rejected:' + type(e).__name__); continue
        g = built.grader
        canon_lists = g.config['answers']
        for _ in range(ctx.scale(3, 6)):
            inputs = [rng.choice(GG.INPUTS) for _ in range(n)]
            if rng.random() < 0.12:
                # wrong number of inputs: must be refused (ConfigError), never graded
                bad = inputs + [rng.choice(GG.INPUTS)] * rng.randint(1, 2) if rng.random() < 0.6 else inputs[:-1]
                kind, val = GG.run_impl(lambda: g.check(None, bad))
                if not (kind == 'err' and val[1] == 'ConfigError'):
                    ctx.violation('wrong number of inputs (%d for %d answers) was not refused with a ConfigError' % (len(bad), n),
                                  {'cfg': built.desc['cfg'], 'input': bad}, impl=GG.canon_result(val) if kind == 'out' else val)
                record(built, bad, kind, val, False, 'wrong-count')
            variants = [inputs]
            if n <= 4:
                perms = list(itertools.permutations(inputs)); rng.shuffle(perms)
                variants += [list(p) for p in perms[:ctx.scale(2, 23)]]
            for inp in variants:
                kind, val = GG.run_impl(lambda: g.check(None, inp))
                # oracle
                nt = False
                if kind == 'out':
                    Es = []
                    for al in canon_lists:
                        E = [[GG.canon_result(leaf.grader.check(al[j], inp[i])) for j in range(n)] for i in range(n)]
                        C = [[Fraction(E[i][j]['grade_decimal']) for j in range(n)] for i in range(n)]
                        Es.append((E, C, brute_max(C)))
                    best_total = max(b for _, _, b in Es)
                    ents = [GG.canon_result(e) for e in val['input_list']]
                    if len(ents) != n:
                        ctx.violation('number of entries differs from number of inputs', {'cfg': built.desc['cfg'], 'input': inp}, impl=GG.canon_result(val))
                    elif pc or all(e['ok'] is True for e in val['input_list']):
                        tot = entry_tot(val)
                        if tot != best_total:
                            ctx.violation('total credit %s is not the maximum %s over all assignments / answer lists' % (tot, best_total),
                                          {'cfg': built.desc['cfg'], 'answers': built.answers_json(), 'input': inp, 'table': leaf.desc['tab']}, impl=GG.canon_result(val))
                        elif not any(b == best_total and consistent_assignment_exists(E, ents, C, best_total) for E, C, b in Es):
                            ctx.violation('entries are not the results of a one-to-one assignment reported at the positions of their inputs',
                                          {'cfg': built.desc['cfg'], 'answers': built.answers_json(), 'input': inp, 'table': leaf.desc['tab']}, impl=GG.canon_result(val))
                    else:
                        if any(e['grade_decimal'] != 0 or e['ok'] is not False for e in val['input_list']):
                            ctx.violation('partial_credit=False but a non-perfect result is not zeroed', {'cfg': built.desc['cfg'], 'input': inp}, impl=GG.canon_result(val))
                    C0 = Es[0][1]
                    greedy = [max(range(n), key=lambda j: C0[i][j]) for i in range(n)]
                    nt = (n >= 3 and len(set(greedy)) < n) or (k > 1 and len({b for _, _, b in Es}) > 1)
                record(built, inp, kind, val, nt, 'unordered:%dlists' % k)
        if len(pending) > 1500:
            flush()
    flush()
    # ---------- B. flat ordered with a list of different subgraders (leaf / SingleListGrader)
    for it in range(ctx.scale(80, 1500)):
        pal = GG.DYAD
        n = rng.randint(2, 5)
        subs, lists = [], None
        for j in range(n):
            leaf = GG.build_leaf(rng, pal, wrong_msg=rng.choice(['', 'w']))
            if rng.random() < 0.25:
                subs.append(GG.build_singlelist(rng, pal, leaf)); 
            else:
                subs.append(leaf)
        k = rng.choice([1, 1, 2, 3])
        lists = []
        for _ in range(k):
            al = []
            for sgb in subs:
                al.append(GG.gen_sl_answers(rng, pal, alt_lists=1) if sgb.kind == 'singlelist' else GG.gen_item_answers(rng, pal, 2))
            lists.append(al)
        answers = tuple(lists) if k > 1 else lists[0]
        pc = rng.random() < 0.7
        try:
            built = GG.build_list(rng, pal, subs, answers, ordered=True, partial_credit=pc)
        except Exception as e:
            ctx.count('config_rejected:' + type(e).__name__); continue
        g = built.grader
        for _ in range(ctx.scale(3, 6)):
            inp = []
            for sgb in subs:
                if sgb.kind == 'singlelist':
                    d = sgb.desc['cfg']['delimiter']
                    inp.append(d.join(rng.choice(GG.INPUTS[:6]) for _ in range(rng.randint(1, 4))))
                else:
                    inp.append(rng.choice(GG.INPUTS))
            kind, val = GG.run_impl(lambda: g.check(None, inp))
            if kind == 'out':
                # oracle: per answer list, entry i = subgrader_i.check(answer_i, input_i); the reported list has maximal total
                cands = []
                ok = True
                for al in g.config['answers']:
                    rs = [GG.run_impl(lambda j=j: subs[j].grader.check(al[j], inp[j])) for j in range(n)]
                    if any(kk == 'err' for kk, _ in rs):
                        ok = False; break
                    cands.append([GG.canon_result(r) for _, r in rs])
                if ok:
                    ents = [GG.canon_result(e) for e in val['input_list']]
                    best = max(sum(Fraction(e['grade_decimal']) for e in c) for c in cands)
                    if pc or all(e['ok'] is True for e in ents):
                        if ents not in cands:
                            ctx.violation('ordered: i-th result is not what the i-th subgrader returns for the i-th answer and input', {'cfg': built.desc['cfg'], 'input': inp}, impl=ents, expected=cands)
                        elif sum(Fraction(e['grade_decimal']) for e in ents) != best:
                            ctx.violation('reported answer list does not have maximal total credit', {'cfg': built.desc['cfg'], 'input': inp}, impl=ents, expected=cands)
                    elif any(e['grade_decimal'] != '0' or e['ok'] is not False for e in ents):
                        ctx.violation('partial_credit=False but a non-perfect result is not zeroed', {'cfg': built.desc['cfg'], 'input': inp}, impl=ents)
            record(built, inp, kind, val, k > 1 or any(s.kind == 'singlelist' for s in subs), 'ordered:%dlists' % k)
    flush()
    # ---------- C. grouping with nested ListGraders
    for it in range(ctx.scale(80, 1500)):
        pal = GG.DYAD
        gsize = rng.randint(2, 4)
        ngroups = rng.randint(2, 3)
        outer_ordered = rng.random() < 0.5
        leaf = GG.build_leaf(rng, pal, wrong_msg='')
        inner_ordered = rng.random() < 0.5

        def inner_answers():
            return [GG.gen_item_answers(rng, pal, 2) for _ in range(gsize)]
        try:
            inner = GG.build_list(rng, pal, [leaf], inner_answers(), ordered=inner_ordered, partial_credit=True)
            # grouping: a random assignment of 1..ngroups with equal sizes, plus (ordered only) optionally a singleton leaf group
            grouping = [gi + 1 for gi in range(ngroups) for _ in range(gsize)]
            rng.shuffle(grouping)
            subs = [inner]
            answers = [inner_answers() for _ in range(ngroups)]
            if outer_ordered and rng.random() < 0.5:
                inner2 = GG.build_list(rng, pal, [leaf], inner_answers(), ordered=not inner_ordered, partial_credit=True)
                subs = [inner if gi % 2 == 0 else inner2 for gi in range(ngroups)]
                if rng.random() < 0.5:
                    grouping.insert(rng.randrange(len(grouping) + 1), ngroups + 1)
                    subs = subs + [leaf]
                    answers = answers + [GG.gen_item_answers(rng, pal, 2)]
            k = rng.choice([1, 2])
            if k == 2:
                alt = [inner_answers() for _ in range(ngroups)] + answers[ngroups:]
                ans_cfg = (answers, alt)
            else:
                ans_cfg = answers
            built = GG.build_list(rng, pal, subs, ans_cfg, ordered=outer_ordered, partial_credit=rng.random() < 0.8, grouping=grouping)
        except Exception as e:
            ctx.count('config_rejected:' + type(e).__name__); continue
        g = built.grader
        for _ in range(ctx.scale(3, 6)):
            inp = [rng.choice(GG.INPUTS) for _ in grouping]
            if rng.random() < 0.1:
                inp = inp + ['a'] if rng.random() < 0.5 else inp[:-1]
            kind, val = GG.run_impl(lambda: g.check(None, inp))
            if len(inp) != len(grouping) and not (kind == 'err' and val[1] == 'ConfigError'):
                ctx.violation('grouped: wrong number of inputs was not refused with a ConfigError', {'cfg': built.desc['cfg'], 'input': inp},
                              impl=GG.canon_result(val) if kind == 'out' else val)
            if kind == 'out':
                ents = val['input_list']
                if len(ents) != len(inp) or any(e is None for e in ents):
                    ctx.violation('grouped: not exactly one entry per input', {'cfg': built.desc['cfg'], 'input': inp}, impl=GG.canon_result(val))
                elif outer_ordered and len(g.config['answers']) == 1 and g.config['partial_credit']:
                    # position oracle: group gi (inputs at the positions with grouping == gi+1) graded by its subgrader against its answer
                    for gi in range(max(grouping)):
                        idxs = [i for i, x in enumerate(grouping) if x == gi + 1]
                        sg = (g.config['subgraders'][gi] if g.subgrader_list else g.config['subgraders'])
                        a = g.config['answers'][0][gi]
                        sub_in = inp[idxs[0]] if len(idxs) == 1 else [inp[i] for i in idxs]
                        kk, rr = GG.run_impl(lambda: sg.check(a, sub_in))
                        if kk == 'out':
                            want = [rr] if len(idxs) == 1 else rr['input_list']
                            got = [ents[i] for i in idxs]
                            if [GG.canon_result(x) for x in want] != [GG.canon_result(x) for x in got]:
                                ctx.violation('grouped: results are not reported at the positions of the inputs they grade',
                                              {'cfg': built.desc['cfg'], 'input': inp, 'group': gi + 1}, impl=GG.canon_result(val), expected=[GG.canon_result(x) for x in want])
                elif (not outer_ordered) and g.config['partial_credit'] and len(inp) == len(grouping):
                    # unordered groups: the reported entries are, group by group, what the nested grader returns for SOME one-to-one
                    # assignment of groups to answers, and the total credit is maximal over all assignments and answer lists
                    ng = max(grouping)
                    sg = g.config['subgraders']
                    idxs = [[i for i, x in enumerate(grouping) if x == gi + 1] for gi in range(ng)]
                    best_total, found = None, False
                    got = [[GG.canon_result(ents[i]) for i in idx] for idx in idxs]
                    tot = sum(Fraction(e['grade_decimal']) for e in ents)
                    okall = True
                    for al in g.config['answers']:
                        R = [[None] * ng for _ in range(ng)]
                        for gi in range(ng):
                            for aj in range(ng):
                                kk, rr = GG.run_impl(lambda: sg.check(al[aj], [inp[i] for i in idxs[gi]]))
                                if kk != 'out':
                                    okall = False
                                else:
                                    R[gi][aj] = [GG.canon_result(x) for x in rr['input_list']]
                        if not okall:
                            break
                        T = [[sum(Fraction(e['grade_decimal']) for e in R[gi][aj]) for aj in range(ng)] for gi in range(ng)]
                        for p in itertools.permutations(range(ng)):
                            t = sum(T[gi][p[gi]] for gi in range(ng))
                            if best_total is None or t > best_total:
                                best_total = t
                            if all(R[gi][p[gi]] == got[gi] for gi in range(ng)):
                                found = True
                    if okall:
                        if tot != best_total:
                            ctx.violation('grouped unordered: total credit %s is not the maximum %s over all assignments of groups to answers' % (tot, best_total),
                                          {'cfg': built.desc['cfg'], 'answers': built.answers_json(), 'input': inp, 'table': leaf.desc['tab']}, impl=GG.canon_result(val))
                        elif not found:
                            ctx.violation('grouped unordered: entries are not the nested results of a one-to-one assignment reported at the positions of their inputs',
                                          {'cfg': built.desc['cfg'], 'answers': built.answers_json(), 'input': inp, 'table': leaf.desc['tab']}, impl=GG.canon_result(val))
            record(built, inp, kind, val, True, 'grouped:%s' % ('ordered' if outer_ordered else 'unordered'))
            if rng.random() < 0.15 and len(inp) == len(grouping):
                # one answer fewer / more than groups (fixed finding F11): must be refused with a ConfigError, by the code and by the model
                saved = g.config['answers']
                try:
                    g.config['answers'] = tuple((list(al[:-1]) if (g.subgrader_list or rng.random() < 0.6) else list(al) + [al[0]]) for al in saved)
                    kind2, val2 = GG.run_impl(lambda: g.check(None, inp))
                    if not (kind2 == 'err' and val2[1] == 'ConfigError'):
                        ctx.violation('grouped: a number of answers different from the number of groups was not refused with a ConfigError',
                                      {'cfg': built.desc['cfg'], 'input': inp}, impl=GG.canon_result(val2) if kind2 == 'out' else val2)
                    record(built, inp, kind2, val2, True, 'grouped:answers-mismatch')
                finally:
                    g.config['answers'] = saved
    flush()
    # ---------- D. a grouping can also just PERMUTE: every group a single input, groups numbered in another order than the boxes
    for it in range(ctx.scale(60, 800)):
        pal = GG.DYAD
        n = rng.randint(2, 4)
        perm = list(range(1, n + 1)); rng.shuffle(perm)
        subs = [GG.build_leaf(rng, pal, wrong_msg=rng.choice(['', 'w%d' % j])) for j in range(n)]
        try:
            built = GG.build_list(rng, pal, subs, [GG.gen_item_answers(rng, pal, 2) for _ in range(n)], ordered=True, partial_credit=True, grouping=perm)
        except Exception as e:
            ctx.count('config_rejected:' + type(e).__name__); continue
        g = built.grader
        for _ in range(3):
            inp = [rng.choice(GG.INPUTS) for _ in range(n)]
            kind, val = GG.run_impl(lambda: g.check(None, inp))
            if kind == 'out':
                ents = val['input_list']
                for i in range(n):
                    gi = perm[i] - 1                       # box i belongs to group perm[i]: graded by that group's subgrader against that group's answer
                    kk, rr = GG.run_impl(lambda: g.config['subgraders'][gi].check(g.config['answers'][0][gi], inp[i]))
                    if kk == 'out' and (len(ents) != n or GG.canon_result(ents[i]) != GG.canon_result(rr)):
                        ctx.violation('permuting grouping: the result at box %d is not that of its own group (%d)' % (i + 1, perm[i]),
                                      {'cfg': built.desc['cfg'], 'input': inp}, impl=GG.canon_result(val), expected=GG.canon_result(rr))
                        break
            record(built, inp, kind, val, perm != sorted(perm), 'grouped:singleton-permutation')
    flush()


def search(ctx):
    drv, ctx.driver = ctx.driver, None
    old = (ctx.tier, ctx.quick)
    ctx.tier, ctx.quick = 'thorough', False
    try:
        run(ctx)
    finally:
        ctx.driver = drv
        ctx.tier, ctx.quick = old


def replay(ctx, data):
    v = data.get('violation') or {}
    if not v.get('case'):
        return {'holds': True, 'note': 'replay file names a broken obligation, no input to re-run', 'broken': data.get('broken')}
    return {'holds': False, 'note': 'replay by seed: VERIF_SEED=%s ./check C05 (cases are regenerated deterministically)' % data.get('seed'), 'case': v['case'], 'what': v['what']}

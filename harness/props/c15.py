"""C15 — built-in functions and constants agree with their mathematical definitions."""
from common import with_alarm, Timeout
import cmath, math, os, re
from fractions import Fraction
import gradegen as GG
from common import LEAN, REPO, frac_to_str
from props import c13 as D
from translate import mathfuncs as TR

ASSUMPTIONS = [
    'numpy / numpy.lib.scimath primitives (sin, cos, exp, log, sqrt, arccos, ... and their complex continuation) are not modelled: the theorems are about the library\'s own definitions in terms of those primitives; '
    'the primitives are monitored against math / cmath on grids (exploration, not proof)',
    'the generated Lean definitions are over the reals (np.real(val) is the identity there); complex arguments of the derived functions are monitored through the identity f(f_inverse(z)) = z',
    'inverse hyperbolic primitives and the two-argument arctangent are parameters of the generated definitions (hypothesis: the primitive inverts its base function at the reciprocal argument)',
    'factorial needs scipy (absent) and is excluded',
]
EVIDENCE = {
    'rule': 'cases = every entry of the default and matrix function tables evaluated through evaluator() on real grids, complex grids, neighbourhoods of branch cuts and poles, large and tiny magnitudes, against math/cmath references and the inverse identities; '
            'wrong arities and wrong argument shapes for every entry against the decorator model; the derived functions against "primitive of the reciprocal" bit for bit; non-trivial = complex / near-singular / wrong-arity / wrong-shape argument; distinct by (function, arguments)',
}


def regenerate(ctx):
    notes, n = TR.generate(REPO, os.path.join(LEAN, 'Mitx', 'Generated', 'MathFuncs.lean'))
    ctx.notes.append('translator: 14 derived definitions, %d table rows%s' % (n, ('; ' + '; '.join(notes)) if notes else ''))
    return 15


REAL_REF = {
    'sin': math.sin, 'cos': math.cos, 'tan': math.tan, 'sec': lambda x: 1 / math.cos(x), 'csc': lambda x: 1 / math.sin(x), 'cot': lambda x: 1 / math.tan(x),
    'exp': math.exp, 'arctan': math.atan, 'sinh': math.sinh, 'cosh': math.cosh, 'tanh': math.tanh, 'sech': lambda x: 1 / math.cosh(x), 'csch': lambda x: 1 / math.sinh(x), 'coth': lambda x: 1 / math.tanh(x),
    'arcsinh': math.asinh, 'abs': abs, 'floor': math.floor, 'ceil': math.ceil,
    'arccot': lambda x: math.atan(1 / x) if x != 0 else math.pi / 2, 'arccsch': lambda x: math.asinh(1 / x),
}
COMPLEX_REF = {
    'sin': cmath.sin, 'cos': cmath.cos, 'tan': cmath.tan, 'exp': cmath.exp, 'sqrt': cmath.sqrt, 'ln': cmath.log, 'log10': cmath.log10, 'log2': lambda z: cmath.log(z) / math.log(2),
    'sinh': cmath.sinh, 'cosh': cmath.cosh, 'tanh': cmath.tanh, 'arcsin': cmath.asin, 'arccos': cmath.acos, 'arctan': cmath.atan, 'arcsinh': cmath.asinh, 'arccosh': cmath.acosh, 'arctanh': cmath.atanh,
    'abs': abs, 'sec': lambda z: 1 / cmath.cos(z), 'csc': lambda z: 1 / cmath.sin(z), 'cot': lambda z: 1 / cmath.tan(z), 'sech': lambda z: 1 / cmath.cosh(z), 'csch': lambda z: 1 / cmath.sinh(z), 'coth': lambda z: 1 / cmath.tanh(z),
}
REAL_ONLY = {'arccosh': math.acosh, 'arcsech': lambda x: math.acosh(1 / x), 'arccoth': lambda x: math.atanh(1 / x), 'arcsec': lambda x: math.acos(1 / x), 'arccsc': lambda x: math.asin(1 / x)}
INVERSE_OF = {'arcsin': 'sin', 'arccos': 'cos', 'arctan': 'tan', 'arcsec': 'sec', 'arccsc': 'csc', 'arccot': 'cot', 'arcsinh': 'sinh', 'arccosh': 'cosh', 'arctanh': 'tanh',
              'arcsech': 'sech', 'arccsch': 'csch', 'arccoth': 'coth', 'ln': 'exp', 'sqrt': None}
POLES = {'tan': [math.pi / 2], 'sec': [math.pi / 2], 'csc': [0.0], 'cot': [0.0], 'csch': [0.0], 'coth': [0.0], 'ln': [0.0], 'log10': [0.0], 'log2': [0.0], 'arcsec': [0.0], 'arccsc': [0.0],
         'arcsech': [0.0], 'arccsch': [0.0], 'arccoth': [0.0, 1.0, -1.0], 'arctanh': [1.0, -1.0]}


def close(a, b, tol=1e-9):
    a, b = complex(a), complex(b)
    return abs(a - b) <= tol * max(1.0, abs(a), abs(b))


def fmt(z):
    z = complex(z)
    if z.imag == 0:
        return '(%r)' % z.real if z.real >= 0 else '(0-%r)' % (-z.real)
    return '(%s + %s*i)' % (fmt(z.real), fmt(z.imag))


def ev(expr, matrix=False):
    from mitxgraders.helpers.calc import evaluator
    from mitxgraders.helpers.calc.mathfuncs import DEFAULT_FUNCTIONS, ARRAY_ONLY_FUNCTIONS, DEFAULT_VARIABLES, merge_dicts
    funcs = merge_dicts(DEFAULT_FUNCTIONS, ARRAY_ONLY_FUNCTIONS) if matrix else DEFAULT_FUNCTIONS
    return evaluator(expr, dict(DEFAULT_VARIABLES), funcs, {}, max_array_dim=2)[0]


def part_values(ctx):
    import numpy as np
    from mitxgraders.helpers.calc.mathfuncs import DEFAULT_FUNCTIONS
    rng = ctx.rng
    names = sorted(n for n in DEFAULT_FUNCTIONS if n not in ('fact', 'factorial', 'min', 'max', 'arctan2', 'kronecker', 're', 'im', 'conj'))
    reals = [-1000.0, -745.5, -800.25, 1e-310, -1e-310, 5e-324, 0.0, 0.5, -0.5, 1.0, -1.0, 2.0, -2.0, 0.25, 3.0, -3.0, 10.0, 1e-8, -1e-8, 1e-300, 1e6, 0.999999999, 1.000000001, math.pi / 2 + 1e-9, math.pi, 0.1, 7.3]
    cplx = [complex(a, b) for a in (-2.0, -0.5, 0.0, 0.3, 1.0, 2.5) for b in (-1.5, -1e-12, 1e-12, 0.7, 2.0)]
    for name in names:
        pts = list(reals) + [rng.uniform(-6, 6) for _ in range(ctx.scale(6, 60))] + cplx + [complex(rng.uniform(-3, 3), rng.uniform(-3, 3)) for _ in range(ctx.scale(6, 60))]
        for p in POLES.get(name, []):
            pts += [p, p + 1e-7, p - 1e-7]
        for z in pts:
            k, v = D.run_impl(lambda: ev('%s(%s)' % (name, fmt(z))))
            case = {'part': 'value', 'function': name, 'arg': repr(z)}
            is_c = isinstance(z, complex)
            if k == 'err':
                # outside the domain: must be a student-facing error
                if v[0] is not True:
                    ctx.violation('%s(%r) raised a non-library exception %s' % (name, z, v[1]), case, impl=v)
                at_pole = any(abs(complex(z) - p) < 1e-6 for p in POLES.get(name, []))
                if not at_pole and not (name in ('floor', 'ceil') and is_c) and abs(complex(z)) < 1e5 and not (name in ('exp', 'sinh', 'cosh') and abs(complex(z)) > 700):
                    # a value exists in the domain: raising here is wrong unless the function is genuinely undefined there
                    ref = (COMPLEX_REF if is_c else REAL_REF).get(name) or COMPLEX_REF.get(name)
                    if not is_c and name in REAL_ONLY:
                        ref = REAL_ONLY[name]       # no complex continuation is documented for these: the real domain decides
                    try:
                        refv = ref(z) if ref else None
                    except Exception:
                        refv = None
                    if refv is not None and abs(refv) < 1e300:
                        ctx.violation('%s(%r) is defined (= %r) but an error was raised: %s' % (name, z, refv, v[2][:80]), case, impl=v)
                ctx.case(dict(case, outcome=v[1]), nontrivial_key=(name, repr(z)), kind='value:error')
                continue
            if isinstance(v, float) and (math.isnan(v) or math.isinf(v)) or isinstance(v, complex) and (cmath.isnan(v) or cmath.isinf(v)):
                ctx.violation('%s(%r) returned %r instead of raising a student-facing error' % (name, z, v), case, impl=repr(v))
                continue
            ref = None
            if not is_c and name in REAL_REF:
                ref = REAL_REF[name]
            elif name in COMPLEX_REF:
                ref = COMPLEX_REF[name]
            if ref is not None:
                try:
                    want = ref(z)
                    on_cut = name in ('sqrt', 'ln', 'log10', 'log2', 'arcsin', 'arccos', 'arccosh', 'arctanh') and is_c and abs(z.imag) <= 1e-11   # signed-zero conventions on branch cuts
                    if not on_cut and not close(v, want, 1e-7 if abs(complex(want)) > 1e6 else 1e-9):
                        ctx.violation('%s(%r) = %r, textbook value %r' % (name, z, v, want), case, impl=repr(v), expected=repr(want))
                except (ValueError, ZeroDivisionError, OverflowError):
                    pass
            inv = INVERSE_OF.get(name)
            if inv:
                k2, back = D.run_impl(lambda: ev('%s(%s(%s))' % (inv, name, fmt(z))))
                if k2 == 'out' and not close(back, z, 1e-6):
                    ctx.violation('%s(%s(z)) != z at z = %r (got %r): the inverse function is on a wrong branch or wrongly defined' % (inv, name, z, back), case, impl=repr(back))
            if name == 'sqrt' and not close(v * v, z, 1e-9):
                ctx.violation('sqrt(z)^2 != z', case, impl=repr(v))
            ctx.case(dict(case, value=repr(v)), nontrivial_key=(name, repr(z)) if is_c or abs(complex(z)) < 1e-6 or abs(complex(z)) > 100 else None, kind='value:ok')
    # principal ranges on the reals
    for x in [rng.uniform(-50, 50) for _ in range(ctx.scale(100, 2000))] + [0.0, 1.0, -1.0, 1e-9, -1e-9]:
        for name, lo, hi, dom in [('arccot', -math.pi / 2, math.pi / 2, lambda t: True), ('arcsec', 0, math.pi, lambda t: abs(t) >= 1), ('arccsc', -math.pi / 2, math.pi / 2, lambda t: abs(t) >= 1),
                                  ('arctan', -math.pi / 2, math.pi / 2, lambda t: True), ('arcsin', -math.pi / 2, math.pi / 2, lambda t: abs(t) <= 1), ('arccos', 0, math.pi, lambda t: abs(t) <= 1)]:
            if not dom(x):
                continue
            k, v = D.run_impl(lambda: ev('%s(%s)' % (name, fmt(x))))
            if k == 'out' and not (isinstance(v, float) and lo - 1e-12 <= v <= hi + 1e-12):
                ctx.violation('%s(%r) = %r is outside the principal range [%r, %r]' % (name, x, v, lo, hi), {'part': 'range', 'function': name, 'arg': x}, impl=repr(v))
            ctx.case({'range': name, 'x': x}, kind='range')
    # the derived functions are exactly "primitive of the reciprocal" as the generated definitions say
    import mitxgraders.helpers.calc.mathfuncs as MF
    derived = {'sec': lambda z: 1 / np.cos(z), 'csc': lambda z: 1 / np.sin(z), 'cot': lambda z: 1 / np.tan(z), 'sech': lambda z: 1 / np.cosh(z), 'csch': lambda z: 1 / np.sinh(z), 'coth': lambda z: 1 / np.tanh(z),
               'arcsec': lambda z: np.arccos(1. / z), 'arccsc': lambda z: np.arcsin(1. / z), 'arcsech': lambda z: np.arccosh(1. / z), 'arccsch': lambda z: np.arcsinh(1. / z), 'arccoth': lambda z: np.arctanh(1. / z),
               'arccot': lambda z: (-np.pi / 2 - np.arctan(z)) if np.real(z) < 0 else (np.pi / 2 - np.arctan(z))}
    for name, ref in derived.items():
        for z in [rng.uniform(-4, 4) for _ in range(ctx.scale(20, 200))] + [complex(rng.uniform(-2, 2), rng.uniform(-2, 2)) for _ in range(ctx.scale(10, 100))]:
            try:
                a = getattr(MF, name)(z)
                b = ref(z)
            except Exception:
                continue
            if not (a == b or (a != a and b != b)):
                ctx.violation('mathfuncs.%s(%r) = %r differs from the formula the generated definition states (%r)' % (name, z, a, b), {'part': 'derived', 'function': name, 'arg': repr(z)}, impl=repr(a))
            ctx.case({'derived': name}, kind='derived')


def part_integer_typed(ctx):
    """a variable whose VALUE is an integer of any type (Python int, numpy int64 / int32 from np.arange, an entry of an integer array) is the same
    number as the float: f(N) = f(float(N)) for every one-argument default function (no integer division, no integer overflow)"""
    import numpy as np
    from mitxgraders.helpers.calc import evaluator
    from mitxgraders.helpers.calc.mathfuncs import DEFAULT_FUNCTIONS, DEFAULT_VARIABLES
    names = sorted(n for n in DEFAULT_FUNCTIONS if n not in ('fact', 'factorial', 'min', 'max', 'arctan2', 'kronecker'))
    for n_ in (2, 3, 5, -2, 1):
        for label, val in [('int', int(n_)), ('np.int64', np.int64(n_)), ('np.int32', np.int32(n_)), ('arange entry', np.arange(-2, 6)[n_ + 2])]:
            for f in names:
                def one(v_):
                    try:
                        return ('val', evaluator('%s(N)' % f, dict(DEFAULT_VARIABLES, N=v_), DEFAULT_FUNCTIONS, {})[0])
                    except Exception as exc:
                        return ('err', type(exc).__name__)
                a, b = one(val), one(float(n_))
                case = {'part': 'integer-typed', 'function': f, 'N': n_, 'type': label}
                ctx.case(case, nontrivial_key=('inttyped', f, n_, label), kind='integer-typed')
                same = a[0] == b[0] and (a[1] == b[1] if a[0] == 'err' else (a[1] == b[1] or (a[1] != a[1] and b[1] != b[1]) or abs(complex(a[1]) - complex(b[1])) <= 1e-12 * max(1.0, abs(complex(b[1])))))
                if not same:
                    ctx.violation('%s(N) with N = %r (%s) gives %r, with N = %r it gives %r' % (f, n_, label, a[1], float(n_), b[1]), case, impl=repr(a[1]))


def part_special(ctx):
    rng = ctx.rng
    # arctan2(x, y): documented argument order, range (-pi, pi]
    for it in range(ctx.scale(150, 3000)):
        x, y = rng.choice([0.0, 1.0, -1.0, rng.uniform(-5, 5)]), rng.choice([0.0, 1.0, -1.0, rng.uniform(-5, 5)])
        k, v = D.run_impl(lambda: ev('arctan2(%s, %s)' % (fmt(x), fmt(y))))
        case = {'part': 'arctan2', 'x': x, 'y': y}
        if x == 0 and y == 0:
            if not (k == 'err' and v[0] is True):
                ctx.violation('arctan2(0, 0) must raise a student-facing error', case, impl=v if k == 'err' else repr(v))
        elif k == 'err' or not close(v, math.atan2(y, x)) or not (-math.pi < v <= math.pi):
            ctx.violation('arctan2(x=%r, y=%r) should be the angle of the point (x, y) = %r' % (x, y, math.atan2(y, x)), case, impl=v if k == 'err' else repr(v))
        ctx.case(case, nontrivial_key=('atan2', x, y), kind='arctan2')
    # functions of REAL arguments: a complex argument is outside the domain -> student-facing error, never a value
    cplx = ['i', '1+i', '2-3*i', '0.5*i', '(1+i)^2', 'sqrt(0-4)']
    real = ['1', '2', '0-1.5', '0', 'pi']
    for it in range(ctx.scale(60, 600)):
        f = rng.choice(['arctan2', 'arctan2', 'min', 'max', 'floor', 'ceil', 'fact', 'factorial'])
        nargs = 2 if f in ('arctan2', 'min', 'max') else 1
        args = [rng.choice(real) for _ in range(nargs)]
        args[rng.randrange(nargs)] = rng.choice(cplx)
        expr = '%s(%s)' % (f, ', '.join(args))
        k, v = D.run_impl(lambda: ev(expr))
        if not (k == 'err' and v[0] is True):
            ctx.violation('%s has a complex argument (outside the domain of %s): a student-facing error is required' % (expr, f), {'part': 'real-domain', 'expr': expr}, impl=v if k == 'err' else repr(v))
        ctx.case({'real-domain': expr}, nontrivial_key=('realdom', expr), kind='real-domain')
    for a, b in [(1, 1), (1, 2), (0, 0), (-3, -3), (2.5, 2.5), (2, 2.5)]:
        k, v = D.run_impl(lambda: ev('kronecker(%s, %s)' % (fmt(a), fmt(b))))
        if not (k == 'out' and v == (1 if a == b else 0)):
            ctx.violation('kronecker(%r, %r)' % (a, b), {'part': 'kronecker', 'a': a, 'b': b}, impl=repr(v))
        ctx.case({'kronecker': [a, b]}, kind='kronecker')
    for expr, want in [('i^2', -1), ('j^2', -1), ('i - j', 0), ('ln(e)', 1), ('cos(pi)', -1), ('exp(i*pi) + 1', 0), ('e', math.e), ('pi', math.pi), ('re(3+4*i)', 3), ('im(3+4*i)', 4), ('conj(3+4*i)', 3 - 4j), ('abs(3+4*i)', 5),
                       ('min(3, 1, 2)', 1), ('max(3, 1, 2)', 3), ('min(2, 2.5)', 2), ('floor(0-1.5)', -2), ('ceil(0-1.5)', -1), ('log10(1000)', 3), ('log2(8)', 3), ('sqrt(0-4)', 2j), ('ln(0-1)', 1j * math.pi)]:
        k, v = D.run_impl(lambda: ev(expr))
        if not (k == 'out' and close(v, want)):
            ctx.violation('%s should be %r' % (expr, want), {'part': 'constant', 'expr': expr}, impl=v if k == 'err' else repr(v))
        ctx.case({'constant': expr}, kind='constants')
    # matrix functions
    import numpy as np
    for expr, want in [('norm([3,4])', 5), ('abs([3,4])', 5), ('norm([[1,2],[3,4]])', math.sqrt(30)), ('trans([[1,2],[3,4]])', [[1, 3], [2, 4]]), ('ctrans([[1,i],[0,1]])', [[1, 0], [-1j, 1]]), ('adj([[1,i],[0,1]])', [[1, 0], [-1j, 1]]),
                       ('det([[1,2],[3,4]])', -2), ('trace([[1,2],[3,4]])', 5), ('cross([1,0,0],[0,1,0])', [0, 0, 1]), ('cross([1,2,3],[4,5,6])', [-3, 6, -3]), ('det([[2,0,0],[0,3,0],[0,0,4]])', 24), ('trans([1,2,3])', [1, 2, 3]),
                       # complex entries: the magnitude conjugates (|v|^2 = sum |v_k|^2, not v.v)
                       ('abs([3*i,4*i])', 5), ('abs([1,i])', math.sqrt(2)), ('norm([1,i])', math.sqrt(2)), ('abs([0-3,4*i])', 5), ('norm([[i,1],[0,2*i]])', math.sqrt(6)),
                       ('abs([1+i,1-i])', 2), ('abs(3*i)', 3), ('abs(0-2.5)', 2.5), ('norm([3*i,0,4])', 5), ('ctrans([i,2])', [-1j, 2]), ('trace([[i,1],[1,i]])', 2j), ('det([[i,0],[0,i]])', -1)]:
        k, v = D.run_impl(lambda: ev(expr, matrix=True))
        ok = k == 'out' and np.shape(v) == np.shape(want) and np.allclose(np.asarray(v, dtype=complex), np.asarray(want, dtype=complex), atol=1e-9)
        if not ok:
            ctx.violation('%s should be %r' % (expr, want), {'part': 'matrix-function', 'expr': expr}, impl=v if k == 'err' else repr(v))
        ctx.case({'matrix-function': expr}, nontrivial_key=('mf', expr), kind='matrix-functions')


def shape_of(arg):
    import numpy as np
    from mitxgraders.helpers.calc import MathArray
    if isinstance(arg, MathArray):
        return list(arg.shape)
    if isinstance(arg, (int, float, complex)):
        return 'number'
    return 'other'


def part_domain(ctx):
    """wrong arities / wrong shapes for every table entry vs the decorator model"""
    from mitxgraders.helpers.calc.mathfuncs import DEFAULT_FUNCTIONS, ARRAY_ONLY_FUNCTIONS, merge_dicts
    from mitxgraders.helpers.calc import MathArray
    from mitxgraders.helpers.calc.expressions import MathExpression
    rng = ctx.rng
    funcs = merge_dicts(DEFAULT_FUNCTIONS, ARRAY_ONLY_FUNCTIONS)
    pool = [1.5, 2, 0.3 + 1j, MathArray([1.0]), MathArray([1.0, 2.0]), MathArray([1.0, 2.0, 3.0]), MathArray([[1.0, 2.0], [3.0, 4.0]]), MathArray([[1.0, 2.0, 3.0], [4.0, 5.0, 6.0]]), MathArray([[2.0]]),
            MathArray([[[1.0, 2.0], [3.0, 4.0]], [[5.0, 6.0], [7.0, 8.0]]]), MathArray([[[1.0, 2.0], [3.0, 4.0]]] * 3)]
    asks, meta = [], []
    for name in sorted(funcs):
        f = funcs[name]
        if name in ('fact', 'factorial'):
            continue
        _, dom = TR.describe(f)
        for it in range(ctx.scale(12, 80)):
            nargs = rng.choice([0, 1, 1, 2, 2, 3, 4])
            args = [rng.choice(pool) for _ in range(nargs)]
            k, v = D.run_impl(lambda: MathExpression.eval_function([name, list(args)], funcs))
            case = {'part': 'domain', 'function': name, 'args': [repr(a)[:40] for a in args]}
            if k == 'err' and v[0] is not True:
                ctx.violation('%s(%s) raised a non-library exception %s' % (name, ', '.join(case['args']), v[1]), case, impl=v)
            got = ('called',) if k == 'out' or v[1] not in ('ArgumentError', 'ArgumentShapeError') else (v[1],)
            if got[0] == 'ArgumentShapeError':
                bad = [i + 1 for i, line in enumerate(v[2].split('\n')[1:]) if 'has an error' in line]
                got = ('ArgumentShapeError', bad)
            ctx.case(dict(case, outcome=got[0]), nontrivial_key=(name, repr(case['args'])) if got[0] != 'called' else None, kind='domain:' + got[0])
            if dom:
                m = re.match(r"shapes=\[(.*)\],min_length=(\w+)", dom)
                shapes = [('scalar' if s.strip() == '(1,)' else 'square' if 'square' in s else [int(x) for x in re.findall(r'\d+', s)]) for s in re.findall(r"\([^)]*\)|'square'", m.group(1))]
                ml = None if m.group(2) == 'None' else int(m.group(2))
                # property oracle: arguments of the wrong count or shape must be refused with a student-facing error
                def fits(spec, a):
                    sh = shape_of(a)
                    if spec == 'scalar':
                        return sh == 'number' or (isinstance(sh, list) and int(__import__('numpy').prod(sh)) == 1)
                    if spec == 'square':
                        return isinstance(sh, list) and len(sh) == 2 and sh[0] == sh[1]
                    return sh == spec
                count_ok = (nargs >= ml) if ml is not None else (nargs == len(shapes))
                shapes_ok = count_ok and all(fits(shapes[0] if ml is not None else shapes[i], a) for i, a in enumerate(args))
                if not (count_ok and shapes_ok) and k == 'out':
                    ctx.violation('%s(...) was evaluated on arguments of the wrong %s instead of raising a student-facing error' % (name, 'shape' if count_ok else 'count'), case, impl=repr(v)[:120])
                asks.append({'op': 'domain', 'shapes': shapes, 'min_length': ml, 'args': [shape_of(a) for a in args]}); meta.append((case, got))
            else:
                # unvalidated functions: eval_function checks the declared number of arguments
                if k == 'err' and v[1] == 'ArgumentError' and nargs == 1:
                    ctx.violation('one-argument function %s refused one argument' % name, case, impl=v)
                if k == 'out' and nargs != 1:
                    ctx.violation('one-argument function %s accepted %d arguments' % (name, nargs), case, impl=repr(v)[:80])
    if ctx.driver:
        for (case, got), o in zip(meta, ctx.driver.ask_many(asks)):
            mg = ('called',) if 'out' in o else (o['err'][0],) if o['err'][0] == 'ArgumentError' else (o['err'][0], o['err'][1])
            if mg != got:
                ctx.disagree('argument validation differs from the decorator model', case, got, mg)


def part_disturbed(ctx):
    """out-of-domain arguments must keep raising (never nan / a warning) whatever the library evaluated before in the same process: calls that fail
    inside comparisons, shape mismatches, overflow, division by zero ... are run first, then the domain probes again; numpy's error state is compared"""
    import numpy as np
    from mitxgraders import FormulaGrader, MatrixGrader, NumericalGrader, RealVectors, RealMatrices
    rng = ctx.rng
    base_err = dict(np.geterr())
    disturbers = [
        lambda: FormulaGrader(answers='3*v', variables=['v'], sample_from={'v': RealVectors(shape=3)})(None, '3*v*v'),
        lambda: FormulaGrader(answers='v', variables=['v'], sample_from={'v': RealVectors(shape=2)})(None, '1'),
        lambda: FormulaGrader(answers='A', variables=['A'], sample_from={'A': RealMatrices(shape=[2, 2])}, max_array_dim=2)(None, 'A*[1,2,3]'),
        lambda: MatrixGrader(answers='[1,2]')(None, '[1,2,3]'),
        lambda: NumericalGrader(answers='1')(None, '1/0'),
        lambda: NumericalGrader(answers='1')(None, 'exp(1000)'),
        lambda: NumericalGrader(answers='1')(None, 'arccosh(0.5)'),
        lambda: FormulaGrader(answers='x', variables=['x'], tolerance='1%')(None, 'x+[1,2]'),
        lambda: FormulaGrader(answers='[x,1]', variables=['x'], max_array_dim=1)(None, 'x'),
        lambda: NumericalGrader(answers='infty', allow_inf=True) if False else NumericalGrader(answers='1')(None, '0^-1'),
    ]
    probes = [('arccosh(0.5)', False), ('arcsec(0.5)', False), ('arccsc(0.5)', False), ('arccoth(0.5)', False), ('arcsech(2)', False), ('ln(0)', False),
              ('cot(0)', False), ('exp(1000)', False), ('0^-1', False), ('sqrt(-4)', True), ('arcsin(2)', True), ('exp(-750)', True), ('arccosh(2)', True)]
    for it in range(ctx.scale(30, 300)):
        di = rng.randrange(len(disturbers))
        try:
            with_alarm(disturbers[di], 20)
        except BaseException as e:
            if isinstance(e, Timeout):
                ctx.violation('a grader call did not terminate', {'part': 'disturbed', 'disturber': di}); continue
        now = dict(np.geterr())
        if now != base_err:
            ctx.violation('numpy floating-point error handling was left changed by a library call: %r -> %r' % (base_err, now), {'part': 'disturbed', 'disturber': di}, impl=now, expected=base_err)
            np.seterr(**base_err)
        for expr, in_domain in rng.sample(probes, 5):
            k, v = D.run_impl(lambda: ev(expr))
            ctx.contract_checks += 1
            case = {'part': 'disturbed', 'disturber': di, 'expr': expr}
            if in_domain:
                bad = k != 'out' or (isinstance(v, (float, complex)) and (cmath.isnan(v) if isinstance(v, complex) else math.isnan(v)))
                if bad:
                    ctx.violation('in-domain %s no longer evaluates after another library call' % expr, case, impl=v)
            else:
                if k == 'out':
                    ctx.violation('out-of-domain %s returned %r instead of a student-facing error after another library call' % (expr, v), case, impl=repr(v))
                elif v[0] is not True:
                    ctx.violation('out-of-domain %s raised a non-library exception' % expr, case, impl=v)
        ctx.case({'disturber': di}, nontrivial_key=('dist', it), kind='disturbed')


def run(ctx):
    part_values(ctx)
    part_special(ctx)
    part_integer_typed(ctx)
    part_domain(ctx)
    part_disturbed(ctx)


def search(ctx):
    drv, ctx.driver = ctx.driver, None
    old = (ctx.tier, ctx.quick)
    ctx.tier, ctx.quick = 'thorough', False
    try:
        run(ctx)
    finally:
        ctx.driver = drv
        ctx.tier, ctx.quick = old


def replay(ctx, data):
    v = data.get('violation') or {}
    case = v.get('case')
    if not case:
        return {'holds': True, 'note': 'replay file names a broken obligation, no input to re-run', 'broken': data.get('broken')}
    if case.get('part') == 'value':
        z = complex(case['arg']) if 'j' in case['arg'] else float(case['arg'])
        k, val = D.run_impl(lambda: ev('%s(%s)' % (case['function'], fmt(z))))
        ref = (COMPLEX_REF if isinstance(z, complex) else REAL_REF).get(case['function']) or COMPLEX_REF.get(case['function'])
        try:
            want = ref(z)
        except Exception:
            want = None
        return {'holds': (k == 'err' and val[0] is True and want is None) or (k == 'out' and want is not None and close(val, want)), 'impl': repr(val), 'expected': repr(want)}
    return {'holds': False, 'note': 'replay by seed: VERIF_SEED=%s ./check C15' % data.get('seed'), 'case': case, 'what': v.get('what')}

"""C07 — SingleListGrader scores a delimited list by the documented credit formula."""
import itertools
from fractions import Fraction
import gradegen as GG
from common import frac_to_str

ASSUMPTIONS = [
    'item credits are arbitrary exact Fractions realised through a harness-defined table-driven subgrader; the real SingleListGrader/ItemGrader/Munkres code runs unmodified in exact arithmetic',
    'for unordered lists the optimal matching need not be unique: the model reproduces the implementation\'s choice (compared exactly), the oracle only demands optimality and accepts either message outcome when optimal matchings differ in whether every item earned credit',
]
EVIDENCE = {
    'rule': 'cases = (SingleListGrader options, expected list(s) with item alternatives/partial credit/answer-level credit+message, submission of 1-7 items); '
            'non-trivial = at least two submitted items, some item credit strictly between 0 and 1 or a surplus/missing item, graded (not an error); distinct by (config, answers, submission)',
}


def brute_best(C, n, m, ordered):
    """C[i][j] credit of expected item i vs submitted item j; returns (best total, list of optimal assignments as dict i->j)"""
    if ordered:
        k = min(n, m)
        return sum(C[i][i] for i in range(k)), [{i: i for i in range(k)}]
    best, arg = None, []
    small, big = (n, m) if n <= m else (m, n)
    for perm in itertools.permutations(range(big), small):
        if n <= m:
            asg = {i: perm[i] for i in range(n)}
        else:
            asg = {perm[j]: j for j in range(m)}
        tot = sum(C[i][j] for i, j in asg.items())
        if best is None or tot > best:
            best, arg = tot, [asg]
        elif tot == best:
            arg.append(asg)
    return best, arg


def oracle_single(leaf, cfg, ans, items_sub):
    """expected result for ONE alternative with ONE expect list: returns dict(grade, msg_shown: True/False/None) or ('err', cls)"""
    items = ans['expect']
    n, m = len(items), len(items_sub)
    if cfg['length_error'] and n != m:
        return ('err', 'MissingInput')
    if cfg['missing_error'] and any(s.strip() == '' for s in items_sub):
        return ('err', 'MissingInput')
    C = [[leaf.check(items[i], items_sub[j])['grade_decimal'] for j in range(m)] for i in range(n)]
    best, args = brute_best(C, n, m, cfg['ordered'])
    surplus = max(0, m - n)
    raw = max(Fraction(0), Fraction(best - surplus) / n)
    if not cfg['partial_credit'] and raw < 1:
        raw = Fraction(0)
    grade = raw * ans['grade_decimal']
    if n != m:
        shown = False
    else:
        flags = {all(C[i][j] > 0 for i, j in a.items()) for a in args}
        shown = True if flags == {True} else (False if flags == {False} else None)
    return {'grade': grade, 'shown': shown}


def run(ctx):
    from mitxgraders import SingleListGrader
    rng = ctx.rng
    pending = []

    def flush():
        if ctx.driver is None or not pending:
            pending.clear(); return
        outs = ctx.driver.ask_many([{'op': 'check', 'grader': c['grader'], 'answers': c['answers'], 'input': c['input']} for c, _, _ in pending])
        for (case, kind, val), o in zip(pending, outs):
            if kind == 'err':
                if o.get('err') != val:
                    ctx.disagree('error differs', case, val, o)
            elif 'out' not in o or o['out'] != GG.canon_result(val):
                ctx.disagree('SingleListGrader result differs', case, GG.canon_result(val), o)
        pending.clear()

    n_cfg = ctx.scale(150, 4000)
    for it in range(n_cfg):
        pal = GG.PAL
        nested = it % 6 == 5
        leaf = GG.build_leaf(rng, pal, wrong_msg='')
        try:
            if nested:
                inner = GG.build_singlelist(rng, pal, leaf, nested=False, delimiter=',')
                answers = GG.gen_sl_answers(rng, pal, n_items=rng.randint(1, 3), nested=True)
                built = GG.build_singlelist(rng, pal, inner, answers=answers, nested=True)
            else:
                single_alt = it % 2 == 0
                answers = GG.gen_sl_answers(rng, pal, alt_lists=1 if single_alt else None)
                built = GG.build_singlelist(rng, pal, leaf, answers=answers)
        except Exception as e:
            ctx.count('config_rejected:' + type(e).__name__)
            continue
        g = built.grader
        cfg = built.desc['cfg']
        d = cfg['delimiter']
        canon = g.config['answers']
        aj = GG.answers_to_json(canon)
        n_exp = len(canon[0]['expect'][0])
        subs = []
        for _ in range(ctx.scale(6, 10)):
            m = rng.randint(1, 7) if rng.random() < 0.5 else max(1, n_exp + rng.randint(-1, 1))
            if nested:
                di = built.desc['sub']['cfg']['delimiter']
                items = [di.join(rng.choice(GG.INPUTS[:6] + (['', ' '] if rng.random() < 0.3 else [])) for _ in range(rng.randint(1, 3))) for _ in range(m)]
            else:
                items = [rng.choice(GG.INPUTS if rng.random() < 0.3 else GG.INPUTS[:7]) for _ in range(m)]
            subs.append(items)
        # the submissions the answers were written for: each alternative's own expected items (full item credit with the usual tables), also
        # reordered and with one item replaced -- exercises 'answer credit x list credit' and the partial_credit=False rule at full and near-full credit
        for alt in canon[:3]:
            for el in alt['expect'][:2]:
                if nested:
                    try:
                        di = built.desc['sub']['cfg']['delimiter']
                        perfect = []
                        for x in el:                 # x: alternatives of one sub-list (validated answers of the inner SingleListGrader)
                            inner_list = max(x, key=lambda d_: d_['grade_decimal'])['expect'][0]
                            perfect.append(di.join(max(y, key=lambda d_: d_['grade_decimal'])['expect'][0] for y in inner_list))
                    except Exception:
                        continue
                    subs.append(list(perfect))
                    subs.append(perfect[:-1])                                  # a sub-list missing
                    subs.append(perfect + [perfect[0]])                        # a surplus sub-list
                    continue
                # item = tuple of item-answer dictionaries: submit the expected text of the best-paying one
                perfect = [max(x, key=lambda d_: d_['grade_decimal'])['expect'][0] if isinstance(x, (list, tuple)) and x and isinstance(x[0], dict) else None for x in el]
                if not perfect or any(not isinstance(x, str) for x in perfect):
                    continue
                subs.append(list(perfect))
                if len(perfect) > 1:
                    sh = list(perfect); rng.shuffle(sh); subs.append(sh)
                    subs.append(perfect[:-1] + [rng.choice(GG.INPUTS[:7])])
        for items in subs:
            variants = [items]
            if len(items) <= 5 and not cfg['ordered']:
                perms = list(itertools.permutations(items))
                rng.shuffle(perms)
                variants += [list(p) for p in perms[:ctx.scale(3, 24)]]
            base_sig = None
            for v in variants:
                inp = d.join(v)
                kind, val = GG.run_impl(lambda: g.check(None, inp))
                case = {'grader': built.desc, 'answers': aj, 'input': inp}
                pending.append((case, kind, val))
                # ---- oracle
                split_ok = inp.split(d) == v
                if not nested and split_ok and len(canon) == 1 and len(canon[0]['expect']) == 1:
                    ans1 = dict(canon[0]); ans1['expect'] = canon[0]['expect'][0]
                    want = oracle_single(leaf.grader, cfg, ans1, v)
                    if isinstance(want, tuple):
                        if not (kind == 'err' and val[1] == want[1]):
                            ctx.violation('expected %s' % want[1], case, impl=val if kind == 'err' else GG.canon_result(val))
                    elif kind == 'err':
                        ctx.violation('raised instead of grading', case, impl=val)
                    else:
                        if val['grade_decimal'] != want['grade']:
                            ctx.violation('grade differs from the credit formula', case, impl=GG.canon_result(val), expected=frac_to_str(want['grade']))
                        amsg = canon[0]['msg']
                        if amsg and want['shown'] is not None:
                            has = amsg in val['msg'].split('\n') or val['msg'].endswith(amsg)
                            if has != want['shown']:
                                ctx.violation('answer-level message shown=%s, expected %s' % (has, want['shown']), case, impl=GG.canon_result(val))
                if nested and split_ok:
                    # error clause through the nesting: a blank item inside a submitted sub-list, with missing_error on the inner grader, is a
                    # student-facing MissingInput whenever that sub-list is compared with any answer (always when unordered; position < #answers when ordered)
                    icfg = built.desc['sub']['cfg']
                    blank = [j for j, it_ in enumerate(v) if any(x.strip() == '' for x in it_.split(icfg['delimiter']))]
                    lens = [len(el) for alt in canon for el in alt['expect']]
                    compared = [j for j in blank if (not cfg['ordered']) or any(j < n_ for n_ in lens)]
                    # the answer-level message needs every expected AND every submitted sub-list to have earned credit: never with a missing / surplus sub-list
                    if kind == 'out' and len(canon) == 1 and len(canon[0]['expect']) == 1 and canon[0]['msg'] and len(v) != len(canon[0]['expect'][0]):
                        amsg_ = canon[0]['msg']
                        if amsg_ in val['msg'].split('\n') or val['msg'].endswith(amsg_):
                            ctx.violation('answer-level message shown although a sub-list is missing or surplus (%d submitted, %d expected)' % (len(v), len(canon[0]['expect'][0])), case, impl=GG.canon_result(val))
                    if icfg['missing_error'] and compared and not (kind == 'err' and val[1] == 'MissingInput'):
                        ctx.violation('a blank item inside sub-list %d with missing_error on the inner grader must raise MissingInput' % compared[0], case,
                                      impl=val if kind == 'err' else GG.canon_result(val))
                if not cfg['ordered'] and kind == 'out':
                    sig = (val['grade_decimal'], val['ok'])
                    if base_sig is None:
                        base_sig = sig
                    elif sig != base_sig:
                        ctx.violation('unordered grade changes under a permutation of the submitted items', case, impl=repr(sig), expected=repr(base_sig))
                nt = None
                if kind == 'out' and len(v) >= 2 and (0 < val['grade_decimal'] < 1 or len(v) != n_exp):
                    nt = (repr(built.desc['cfg']), repr(aj), inp)
                ctx.case({'cfg': cfg, 'input': inp, 'impl': GG.canon_result(val) if kind == 'out' else val}, nontrivial_key=nt,
                         kind=('nested' if nested else 'flat') + (':err' if kind == 'err' else ':graded'))
        if len(pending) > 2000:
            flush()
    flush()
    # string-form answers and inferred expect
    T = GG.table_grader_class()
    for it in range(ctx.scale(40, 400)):
        leaf = GG.build_leaf(rng, GG.PAL, wrong_msg='')
        d = rng.choice([',', ';', '&&'])
        exp_items = [rng.choice(GG.KEYS) for _ in range(rng.randint(1, 5))]
        g1 = SingleListGrader(answers=d.join(exp_items), subgrader=leaf.grader, delimiter=d, ordered=rng.random() < 0.5)
        g2 = SingleListGrader(answers=list(exp_items), subgrader=leaf.grader, delimiter=d, ordered=g1.config['ordered'])
        g3 = SingleListGrader(subgrader=leaf.grader, delimiter=d, ordered=g1.config['ordered'])
        inp = d.join(rng.choice(GG.INPUTS[:7]) for _ in range(rng.randint(1, 6)))
        r1, r2, r3 = GG.run_impl(lambda: g1(None, inp)), GG.run_impl(lambda: g2(None, inp)), GG.run_impl(lambda: g3(d.join(exp_items), inp))
        ctx.case({'expect': d.join(exp_items), 'input': inp}, nontrivial_key=('str', d.join(exp_items), inp), kind='string-form')
        if not (r1 == r2 == r3):
            ctx.violation('string-form / list-form / inferred expect disagree', {'expect': d.join(exp_items), 'input': inp, 'delimiter': d}, impl=[r1, r2, r3])
    # nested delimiters must differ
    leaf = GG.build_leaf(rng, GG.PAL)
    k, v = GG.run_impl(lambda: SingleListGrader(answers=[['a', 'b'], ['c']], subgrader=SingleListGrader(subgrader=leaf.grader, delimiter=','), delimiter=','))
    if not (k == 'err' and v[1] == 'ConfigError'):
        ctx.violation('nested SingleListGraders with equal delimiters accepted', {'label': 'nested-delims'}, impl=v)


def search(ctx):
    drv, ctx.driver = ctx.driver, None
    old = (ctx.tier, ctx.quick)
    ctx.tier, ctx.quick = 'thorough', False
    try:
        run(ctx)
    finally:
        ctx.driver = drv
        ctx.tier, ctx.quick = old


def replay(ctx, data):
    v = data.get('violation') or {}
    if not v.get('case'):
        return {'holds': True, 'note': 'replay file names a broken obligation, no input to re-run', 'broken': data.get('broken')}
    return {'holds': False, 'note': 'replay by seed: VERIF_SEED=%s ./check C07 (cases are regenerated deterministically)' % data.get('seed'), 'case': v['case'], 'what': v['what']}

"""C08 — among alternative answers the student receives the best-scoring one (ItemGrader.check)."""
import itertools
from fractions import Fraction
import gradegen as GG
from common import frac_to_str

ASSUMPTIONS = [
    'leaf graders are a harness-defined table-driven ItemGrader with exact Fraction credits (arbitrary credit/message tables, scripted exceptions) and real SingleListGraders over it; '
    'Formula/Numerical/Matrix leaves satisfy the same ItemGrader.check code path (their check_response is a parameter of the model)',
    'the answers tuple fed to the model is the canonical config[\'answers\'] computed by the real constructor (schema canonicalisation itself is C20)',
]
EVIDENCE = {
    'rule': 'cases = (leaf credit table, answers tuple of 1-6 alternatives incl. tuple-valued expect / partial credit / messages / pinned ok, listing order, wrong_msg, input); '
            'non-trivial = at least two alternatives give the input different positive credit or tie at the maximum with different messages; distinct by (table, answers, order, input)',
}


def single_alternatives(canon):
    """split canonical answers into one-alternative-one-value answers"""
    out = []
    for a in canon:
        for e in a['expect']:
            b = dict(a)
            b['expect'] = (e,)
            out.append(b)
    return out


def check_one(ctx, built, canon_answers, inp, pending, label, wrong_msg):
    g = built.grader
    kind, val = GG.run_impl(lambda: g.check(canon_answers, inp))
    # oracle: each alternative graded alone
    singles = single_alternatives(canon_answers)
    alone = [GG.run_impl(lambda s=s: g.check_response({**s, 'expect': s['expect'][0]}, inp)) for s in singles]
    case = {'grader': built.desc, 'answers': GG.answers_to_json(canon_answers), 'input': inp, 'label': label}
    if any(k == 'err' for k, _ in alone):
        if kind != 'err':
            ctx.violation('an alternative raises but check returned', case, impl=GG.canon_result(val))
        nt = None
    else:
        grades = [r['grade_decimal'] for _, r in alone]
        best = max(grades)
        if kind == 'err':
            ctx.violation('check raised although no alternative raises', case, impl=val)
        else:
            if val['grade_decimal'] != best:
                ctx.violation('grade is not the maximum over the alternatives', case, impl=GG.canon_result(val), expected=frac_to_str(best))
            tied = [r for _, r in alone if r['grade_decimal'] == best]
            longest = max(len(r['msg']) for r in tied)
            expect_msgs = {r['msg'] for r in tied if len(r['msg']) == longest}
            if best == 0 and longest == 0:
                if val['msg'] != wrong_msg:
                    ctx.violation('wrong_msg not shown although best grade is 0 and no message applies', case, impl=GG.canon_result(val))
            else:
                if val['msg'] not in expect_msgs:
                    ctx.violation('reported message is not a longest message among the alternatives tied at the maximum', case, impl=GG.canon_result(val), expected=sorted(expect_msgs))
        pos = sorted(set(x for x in grades if x > 0))
        nt = (repr(case['answers']), inp, label) if (len(pos) >= 2 or len({r['msg'] for _, r in alone if r['grade_decimal'] == best}) >= 2) else None
    ctx.case({'answers': case['answers'], 'input': inp, 'impl': GG.canon_result(val) if kind == 'out' else val}, nontrivial_key=nt, kind='check:' + built.kind)
    pending.append((case, kind, val))
    return kind, val


def flush(ctx, pending):
    if ctx.driver is None or not pending:
        pending.clear(); return
    outs = ctx.driver.ask_many([{'op': 'check', 'grader': c['grader'], 'answers': c['answers'], 'input': c['input']} for c, _, _ in pending])
    for (case, kind, val), o in zip(pending, outs):
        if kind == 'err':
            if o.get('err') != val:
                ctx.disagree('error differs', case, val, o)
        else:
            if 'out' not in o or o['out'] != GG.canon_result(val):
                ctx.disagree('check result differs', case, GG.canon_result(val), o)
    pending.clear()


def run(ctx):
    rng = ctx.rng
    pending = []
    n = ctx.scale(120, 2500)
    for it in range(n):
        pal = GG.PAL
        raises = 0.04 if it % 5 == 0 else 0.0
        kind = 'singlelist' if it % 4 == 3 else 'table'
        wrong = rng.choice(['', 'generic wrong', 'W'])
        if kind == 'table':
            answers = GG.gen_item_answers(rng, pal, 6 if it % 7 == 0 else 4)
            built = GG.build_leaf(rng, pal, answers=answers, raises=raises, wrong_msg=wrong)
            inputs = GG.INPUTS
        else:
            leaf = GG.build_leaf(rng, pal, raises=raises, wrong_msg='')
            answers = GG.gen_sl_answers(rng, pal, alt_lists=rng.choice([2, 3, 4]))
            try:
                built = GG.build_singlelist(rng, pal, leaf, answers=answers)
            except Exception as e:
                ctx.count('config_rejected')
                continue
            d = built.desc['cfg']['delimiter']
            inputs = [d.join(rng.choice(GG.INPUTS[:7]) for _ in range(rng.randint(1, 5))) for _ in range(8)]
            wrong = built.desc['wrong_msg']
        canon = built.grader.config['answers']
        alts = list(canon)
        perms = list(itertools.permutations(range(len(alts))))
        if len(perms) > ctx.scale(6, 120):
            rng.shuffle(perms)
            perms = [tuple(range(len(alts)))] + perms[:ctx.scale(5, 119)]
        for inp in inputs:
            seen = None
            for p in perms:
                ans = tuple(alts[i] for i in p)
                k, v = check_one(ctx, built, ans, inp, pending, 'perm%s' % (p,), wrong)
                sig = ('err',) if k == 'err' else (v['grade_decimal'],)   # `ok` may be author-pinned per alternative; the property speaks of the grade
                if seen is None:
                    seen = sig
                elif sig != seen and 'err' not in (sig[0], seen[0]):
                    ctx.violation('grade depends on the listing order of the alternatives',
                                  {'grader': built.desc, 'answers': GG.answers_to_json(ans), 'input': inp, 'label': 'order'}, impl=repr(sig), expected=repr(seen))
        if len(pending) > 2000:
            flush(ctx, pending)
    flush(ctx, pending)
    monitor_real_graders(ctx)
    # empty answers -> ConfigError
    T = GG.table_grader_class()
    k, v = GG.run_impl(lambda: T().check(None, 'a'))
    if not (k == 'err' and v[1] == 'ConfigError'):
        ctx.violation('no answers configured but check did not raise ConfigError', {'label': 'empty'}, impl=v)


def monitor_real_graders(ctx):
    """contract monitor: the same ItemGrader.check law on the library's own leaf graders (String, Formula, Numerical,
    Matrix incl. suppressed shape messages), graders used one after another in one process"""
    from mitxgraders import StringGrader, FormulaGrader, NumericalGrader, MatrixGrader
    rng = ctx.rng
    specs = [
        ('String', lambda **kw: StringGrader(**kw), ['cat', 'dog', 'Cat', 'fish'], ['cat', 'dog', 'Cat', 'bird', ' cat ']),
        ('Formula', lambda **kw: FormulaGrader(**kw), ['2', '1+1', '3', '2*2'], ['2', '1 + 1', '3', '4', '5', '2.0']),
        ('Numerical', lambda **kw: NumericalGrader(**kw), ['2', '3', '4.5'], ['2', '3', '4.5', '7', '9/2']),
        ('Matrix', lambda **kw: MatrixGrader(**kw), ['[1,2]', '[2,4]/2', '[3,4]', '[[1,2],[3,4]]'], ['[1,2]', '[3,4]', '[1,2,3]', '[[1,2],[3,4]]', '5', '[1,2]+[0,0]']),
        ('MatrixSuppressed', lambda **kw: MatrixGrader(suppress_matrix_messages=True, **kw), ['[1,2]', '[3,4]', '[[1,0],[0,1]]'], ['[1,2]', '[3,4]', '[1,2,3]', '[[1,0],[0,1]]', '5', '[[1,2]]']),
        ('MatrixNoShapeErr', lambda **kw: MatrixGrader(shape_errors=False, **kw), ['[1,2]', '[3,4]'], ['[1,2]', '[1,2,3]', '7', '[3,4]']),
    ]
    # fixed scenario for every leaf grader: a zero-credit alternative with its own SHORT feedback, a LONG generic wrong_msg, one grader object
    # that first sees a submission matching nothing and then the one matching the zero-credit alternative (specific feedback must win)
    for name, mk, exps, inps in specs:
        alts0 = ({'expect': exps[0], 'grade_decimal': 1}, {'expect': exps[1], 'grade_decimal': 0, 'msg': 'no!'}, {'expect': exps[2 % len(exps)], 'grade_decimal': 0.5, 'msg': 'half'})
        wrong0 = 'Try again, that is not one of the expected answers'
        try:
            g0 = mk(answers=alts0, wrong_msg=wrong0)
        except Exception:
            continue
        nomatch = '[9,9]' if name.startswith('Matrix') else ('12345' if name in ('Formula', 'Numerical') else 'zzz')
        for inp in [nomatch, exps[1], exps[0], exps[1], nomatch, exps[2 % len(exps)], exps[1]]:
            k1, r1 = GG.run_impl(lambda: g0(None, inp))
            k2, r2 = GG.run_impl(lambda: mk(answers=alts0, wrong_msg=wrong0)(None, inp))
            ctx.contract_checks += 1
            if k1 == 'out' and len(exps) > 2 and inp == exps[2] and abs(r1['grade_decimal'] - 0.5) < 1e-12 and r1['msg'] != 'half':
                ctx.violation('the matched half-credit alternative\'s own feedback must be reported (real %s grader)' % name,
                              {'monitor': name, 'answers': list(alts0), 'wrong_msg': wrong0, 'input': inp}, impl=GG.canon_result(r1))
            if (k1, r1 if k1 == 'err' else GG.canon_result(r1)) != (k2, r2 if k2 == 'err' else GG.canon_result(r2)):
                ctx.violation('a grader that has already graded other submissions answers differently from a fresh one (real %s grader, fixed scenario)' % name,
                              {'monitor': name, 'answers': list(alts0), 'wrong_msg': wrong0, 'input': inp}, impl=r1 if k1 == 'err' else GG.canon_result(r1), expected=r2 if k2 == 'err' else GG.canon_result(r2))
                break
    for it in range(ctx.scale(60, 1200)):
        name, mk, exps, inps = specs[it % len(specs)]
        n = rng.randint(1, 4)
        alts = []
        for _ in range(n):
            d = {'expect': rng.choice(exps), 'grade_decimal': rng.choice([1, 1, 0.5, 0.25, 0]), 'msg': rng.choice(['', '', 'note', 'a longer note'])}
            if rng.random() < 0.25:      # only `ok` written by the author: full default credit with ok=False / 'partial'
                d = {'expect': d['expect'], 'ok': rng.choice([False, 'partial']), 'msg': rng.choice(['', '', 'note'])}
            alts.append(d)
        wrong = rng.choice(['', 'W1', 'W2 longer'])
        try:
            g = mk(answers=tuple(alts), wrong_msg=wrong)
        except Exception:
            ctx.count('monitor:config_rejected'); continue
        perms = list(itertools.permutations(range(n)))[:6]
        # ONE grader object serving all the submissions, in a random order with repeats: its verdicts must be those of a fresh grader each time
        seq = [rng.choice(inps + ['no such answer', 'zzz']) for _ in range(2 * len(inps) + 2)]
        for inp in seq:
            k1, r1 = GG.run_impl(lambda: g(None, inp))
            k2, r2 = GG.run_impl(lambda: mk(answers=tuple(alts), wrong_msg=wrong)(None, inp))
            ctx.contract_checks += 1
            if (k1, r1 if k1 == 'err' else GG.canon_result(r1)) != (k2, r2 if k2 == 'err' else GG.canon_result(r2)):
                ctx.violation('a grader that has already graded other submissions answers differently from a fresh one (real %s grader)' % name,
                              {'monitor': name, 'answers': alts, 'wrong_msg': wrong, 'input': inp, 'earlier': seq[:seq.index(inp)][-4:]}, impl=r1 if k1 == 'err' else GG.canon_result(r1), expected=r2 if k2 == 'err' else GG.canon_result(r2))
                break
        for inp in inps:
            alone = []
            for a in alts:
                k, r = GG.run_impl(lambda a=a: mk(answers=a, wrong_msg='')(None, inp))
                alone.append((k, r))
                ctx.contract_checks += 1
                if k == 'out' and r['grade_decimal'] == 0 and r['msg'] != '' and a['msg'] == '' and name != 'MatrixNoShapeErr':
                    ctx.violation('grader without wrong_msg shows a message on a zero grade although no specific feedback applies (real %s grader)' % name,
                                  {'monitor': name, 'answers': [a], 'wrong_msg': '', 'input': inp}, impl=r)
            for p in perms:
                gp = mk(answers=tuple(alts[i] for i in p), wrong_msg=wrong)
                k, r = GG.run_impl(lambda: gp(None, inp))
                ctx.contract_checks += 1
                case = {'monitor': name, 'answers': [alts[i] for i in p], 'wrong_msg': wrong, 'input': inp}
                if any(ka == 'err' for ka, _ in alone):
                    if k != 'err':
                        ctx.violation('an alternative raises but the grader returned (real %s grader)' % name, case, impl=r)
                    continue
                if k == 'err':
                    ctx.violation('grader raised although no alternative raises (real %s grader)' % name, case, impl=r)
                    continue
                best = max(x['grade_decimal'] for _, x in alone)
                if abs(r['grade_decimal'] - best) > 1e-12:
                    ctx.violation('grade is not the maximum over the alternatives (real %s grader)' % name, case, impl=r, expected=best)
                tied = [x for _, x in alone if x['grade_decimal'] == best]
                longest = max(len(x['msg']) for x in tied)
                if best == 0 and longest == 0:
                    if r['msg'] != wrong:
                        ctx.violation('wrong_msg handling: expected %r (real %s grader)' % (wrong, name), case, impl=r)
                elif r['msg'] not in {x['msg'] for x in tied if len(x['msg']) == longest}:
                    ctx.violation('message is not a longest one among the tied alternatives (real %s grader)' % name, case, impl=r)


def search(ctx):
    drv, ctx.driver = ctx.driver, None
    old = (ctx.tier, ctx.quick)
    ctx.tier, ctx.quick = 'thorough', False
    try:
        run(ctx)
    finally:
        ctx.driver = drv
        ctx.tier, ctx.quick = old


def replay(ctx, data):
    v = data.get('violation') or {}
    if not v.get('case'):
        return {'holds': True, 'note': 'replay file names a broken obligation, no input to re-run', 'broken': data.get('broken')}
    return {'holds': False, 'note': 'replay by seed: VERIF_SEED=%s ./check C08 (cases are regenerated deterministically)' % data.get('seed'), 'case': v['case'], 'what': v['what']}

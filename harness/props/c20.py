"""C20 — configuration validation enforces documented option domains and fills defaults."""
import itertools, os, re, numbers
from fractions import Fraction
import gradegen as GG
from common import LEAN, REPO, frac_to_str
from props import c13 as D
from translate import schemas as TS

ASSUMPTIONS = [
    'the mini-voluptuous of the model covers acceptance and default filling, not coercion (Coerce, PercentageString normalisation, answer canonicalisation): options whose domain contains a named validator function are compared only on their default value; '
    'those validators are exercised on the implementation by the cross-rule and answers-format tables',
    'schemas are read from live objects constructed with a minimal valid configuration; a schema_config that depended on other option values would be seen for that configuration only',
    'equality of reconstructed objects uses the library\'s own __eq__',
]
EVIDENCE = {
    'rule': 'cases = for every public class (29) and every option without a named validator: the minimal configuration with that single option set to each value of a pool of in-domain and out-of-domain values (wrong type, out of range, wrong length, literals of the domain, the default), plus unknown keys and random multi-option combinations; '
            'constructor outcome vs the model, validated config vs the model\'s (defaults filled); reconstruction equality and kwargs/dict equivalence per class; a table of cross-option rule violations and of answers formats; non-trivial = an out-of-domain value, an unknown key, or a cross-rule case; distinct by (class, configuration)',
}


def regenerate(ctx):
    n = TS.generate(os.path.join(LEAN, 'Mitx', 'Generated', 'Schemas.lean'))
    ctx.notes.append('translator: schemas of %d public classes' % n)
    return 2


class Junk(object):
    pass


def to_py(v):
    """python value -> model PyVal JSON"""
    if v is None or isinstance(v, (bool, str)):
        return v
    if isinstance(v, int):
        return v
    if isinstance(v, float):
        if v != v or v in (float('inf'), float('-inf')):
            return {'obj': [repr(v), 'float', 'Number']}      # a float (so a Number) that no range contains
        return {'f': frac_to_str(Fraction(v))}
    if isinstance(v, list):
        return {'list': [to_py(x) for x in v]}
    if isinstance(v, tuple):
        return {'tuple': [to_py(x) for x in v]}
    if isinstance(v, dict) and all(isinstance(k, str) for k in v):
        return {'dict': [[k, to_py(x)] for k, x in v.items()]}
    return {'obj': [c.__name__ for c in type(v).__mro__ if c is not object]}


def same_value(a, b):
    """python value vs model PyVal JSON (structural; floats exact)"""
    return to_py(a) == b or (isinstance(a, bool) is False and isinstance(a, (int, float)) and not isinstance(b, (dict, bool)) and b == a)


POOL = [None, True, False, 0, 1, -1, 2, 5, 100, 1.5, -0.5, 0.0, 0.5, '', 'abc', 'err', 'msg', 'type', 'shape', 'proportional', 'upper', 'lower', 'symmetric', 'diagonal', 'hermitian', '5%',
        [], ['a'], ['a', 'b'], [1], [1, 2], [None], [None, None], [2, 2], [1, 3], (), ('a',), (1, 2), (2, 2), {}, {'a': 1}, {'start': 1, 'stop': 2}, 3 + 4j, Junk(), float('nan')]


def option_table(obj):
    """[(name, spec text)] for the dict schema of an object"""
    import voluptuous as V
    sch = TS.class_schema(obj)
    out = []
    if not isinstance(sch, dict):
        return out
    for k, x in sch.items():
        name = k.schema if isinstance(k, V.Marker) else k
        if isinstance(name, str):
            out.append((name, TS.spec(x), k))
    return out


def part_options(ctx):
    from mitxgraders.baseclasses import ObjectWithSchema
    from mitxgraders.exceptions import ConfigError
    import voluptuous as V
    rng = ctx.rng
    asks, meta = [], []
    for name, cls, base in TS.public_classes():
        obj = cls(**base)
        table = option_table(obj)
        if not table:
            continue
        clean = [(n, s) for n, s, _ in table if '.prim' not in s]
        base_cfg = {k: v for k, v in base.items() if any(n == k and '.prim' not in s for n, s, _ in table)}
        primkeys = {k: v for k, v in base.items() if k not in base_cfg}
        cases = []
        for opt, stext in clean:
            lits = re.findall(r'\.lit \(\.str "([^"]*)"\)', stext)
            pool = POOL + lits + [x + 'x' for x in lits[:1]]
            if ctx.quick:
                pool = rng.sample(POOL, 14) + lits + [None, True, 0, 1, -1, 1.5, 'abc', [], (), float('nan')]
            for v in pool:
                cases.append({opt: v})
        cases += [{'no_such_option': 1}, {'Debug': True}, {}]
        for _ in range(ctx.scale(6, 60)):
            opts = rng.sample(clean, min(len(clean), rng.randint(2, 3)))
            cases.append({o: rng.choice(POOL) for o, _ in opts})
        for extra in cases:
            cfg = dict(base_cfg); cfg.update(extra)
            full = dict(primkeys); full.update(cfg)
            k, v = D.run_impl(lambda: obj.validate_config(ObjectWithSchema.coerce2unicode(dict(full))))
            case = {'part': 'options', 'class': name, 'config': {a: repr(b)[:60] for a, b in extra.items()}}
            if k == 'err' and v[1] not in ('ConfigError', 'Error') and not v[1].endswith('Invalid'):
                ctx.violation('validating the configuration raised %s instead of a configuration/validation error' % v[1], case, impl=v)
            ck, cv = D.run_impl(lambda: cls(**dict(full)))
            if ck == 'err' and name == 'MatrixGrader' and extra.get('identity_dim') is True and cv[1] == 'TypeError':
                ctx.known('K6', 'MatrixGrader(identity_dim=True) raises TypeError')
            elif ck == 'err' and cv[1] not in ('ConfigError', 'Error') and not cv[1].endswith('Invalid'):
                ctx.violation('constructor raised %s instead of a configuration/validation error' % cv[1], case, impl=cv)
            for o_, v_ in extra.items():
                if isinstance(v_, float) and v_ != v_ and ck == 'out' and '.range' in dict(clean).get(o_, '') and '.any' not in dict(clean).get(o_, ''):
                    ctx.violation('NaN (which lies in no range) was accepted for the range-restricted option %s' % o_, case, impl='constructed')
            if k == 'err' and ck == 'out':
                ctx.violation('constructor accepted a configuration its schema rejects', case, impl='constructed')
            ctx.case(dict(case, accepted=(k == 'out')), nontrivial_key=(name, repr(sorted(case['config'].items()))) if k == 'err' or len(extra) != 1 else None, kind='options:%s' % ('accepted' if k == 'out' else 'rejected'))
            asks.append({'op': 'schema_validate', 'cls': name, 'cfg': [[a, to_py(b)] for a, b in cfg.items()]})
            meta.append((case, k, v if k == 'out' else None, set(n for n, _ in clean), dict(full), set(n for n, s_ in clean if '.dict [' in s_)))
    if ctx.driver:
        for (case, k, val, cleankeys, full, nested), o in zip(meta, ctx.driver.ask_many(asks)):
            if 'err' in o:
                if o['err'][0] == 'missing' and o['err'][1] not in cleankeys:
                    continue          # a required option with a named validator that the reduced configuration leaves out
                if k == 'out':
                    ctx.disagree('implementation accepts a configuration the model rejects (%s %s)' % tuple(o['err'][:2]), case, 'accepted', o['err'])
            else:
                if k != 'out':
                    ctx.disagree('implementation rejects a configuration the model accepts', case, 'rejected', 'accepted')
                    continue
                mout = {a: b for a, b in o['out']}
                for key in cleankeys:
                    if key in nested:
                        continue          # nested dictionaries: acceptance only (the model does not fill nested defaults)
                    if (key in val) != (key in mout):
                        ctx.disagree('option %s present/absent differently in the validated configuration' % key, case, key in val, key in mout)
                        break
                    if key in val and key in full and not same_value(val[key], mout[key]):
                        ctx.disagree('validated value of %s differs from the model' % key, case, repr(val[key])[:80], mout[key])
                        break
                    if key in val and key not in full and not same_value(val[key], mout[key]):
                        ctx.disagree('default of %s differs from the model' % key, case, repr(val[key])[:80], mout[key])
                        break


def part_objects(ctx):
    """every option present, reconstruction, kwargs vs dict"""
    import voluptuous as V
    for name, cls, base in TS.public_classes():
        obj = cls(**base)
        table = option_table(obj)
        case = {'part': 'object', 'class': name}
        for opt, stext, marker in table:
            has_default = isinstance(marker, V.Marker) and not isinstance(getattr(marker, 'default', V.UNDEFINED), V.Undefined)
            if (isinstance(marker, V.Required)) and opt not in obj.config:
                ctx.violation('option %s is missing from the constructed object\'s configuration' % opt, case, impl=sorted(obj.config))
            if has_default and opt not in base and opt in obj.config:
                d = marker.default()
                try:
                    same = obj.config[opt] == d or name in ('SquareMatrices', 'IdentityMatrixMultiples', 'ListGrader', 'RealMatrices', 'ComplexMatrices', 'IntervalGrader', 'DependentSampler') and opt in ('shape', 'answers', 'complex', 'subgrader', 'depends')      # options completed by __init__ after validation
                except Exception:
                    same = True
                if not same and '.prim' not in stext:
                    ctx.violation('omitted option %s does not carry its documented default %r' % (opt, d), case, impl=repr(obj.config[opt])[:80])
        # reconstruction
        k, again = D.run_impl(lambda: cls(obj.config))
        if k == 'err':
            if name in ('SquareMatrices', 'IdentityMatrixMultiples'):
                ctx.known('K5', '%s(obj.config) raises: %s' % (name, again[2][:80]))
            else:
                ctx.violation('constructing %s again from its own configuration fails: %s' % (name, again[2][:100]), case, impl=again)
        else:
            try:
                eq = again == obj
            except Exception as e:
                eq = 'error: %r' % e
            if eq is not True:
                ctx.violation('%s(obj.config) is not equal to obj' % name, case, impl=repr(eq))
        # kwargs vs dict
        k1, o1 = D.run_impl(lambda: cls(**base)); k2, o2 = D.run_impl(lambda: cls(dict(base)))
        if not (k1 == k2 == 'out' and o1 == o2):
            ctx.violation('keyword-argument and dictionary forms of the same configuration give different objects', case, impl=[k1, k2])
        ctx.case(case, nontrivial_key=('obj', name), kind='object')


EQUIV = [
    ('StringGrader', dict(answers='cat', case_sensitive=False, strip_all=True), 'CAT'),
    ('FormulaGrader', dict(answers='x^2', variables=['x'], tolerance=0.5, samples=3, blacklist=['sin']), 'x*x'),
    ('NumericalGrader', dict(answers='2.5', tolerance='1%'), '2.5'),
    ('MatrixGrader', dict(answers='[1, 2, 3]', entry_partial_credit=0.5), '[1, 2, 4]'),
    ('MatrixGrader', dict(answers='[1, 2, 3]', entry_partial_credit='proportional', entry_partial_msg='some wrong'), '[1, 0, 3]'),
    ('SingleListGrader', dict(answers=['a', 'b'], subgrader=None, ordered=True, delimiter=';'), 'a;b'),
    ('IntervalGrader', dict(answers='[1, 2)', opening_brackets='[(', closing_brackets='])'), '[1, 2)'),
    ('SumGrader', dict(answers={'lower': '1', 'upper': '3', 'summand': 'n', 'summation_variable': 'n'}, even_odd=1, input_positions={'summand': 1}), 'n'),
]


def part_equiv(ctx):
    """keyword-argument and dictionary forms of the same (non-default) configuration: equal objects, equal behaviour"""
    import mitxgraders as M
    for name, cfg, inp in EQUIV:
        cls = getattr(M, name)
        cfg = dict(cfg)
        if 'subgrader' in cfg and cfg['subgrader'] is None:
            cfg['subgrader'] = M.StringGrader()
        k1, a = D.run_impl(lambda: cls(**cfg)); k2, b = D.run_impl(lambda: cls(dict(cfg)))
        case = {'part': 'equiv', 'class': name, 'config': {x: repr(y)[:40] for x, y in cfg.items()}}
        if not (k1 == k2 == 'out'):
            ctx.violation('one of the two forms of the configuration is rejected', case, impl=[a if k1 == 'err' else 'ok', b if k2 == 'err' else 'ok']); continue
        if not (a == b and a.config == b.config):
            ctx.violation('keyword-argument and dictionary forms give unequal objects', case, impl='unequal')
        r1 = D.run_impl(lambda: a(None, inp)); r2 = D.run_impl(lambda: b(None, inp))
        if r1 != r2:
            ctx.violation('keyword-argument and dictionary forms of one configuration grade differently', case, impl=[repr(r1)[:150], repr(r2)[:150]])
        k3, c = D.run_impl(lambda: cls(a.config))
        if k3 == 'out' and D.run_impl(lambda: c(None, inp)) != r1:
            ctx.violation('a grader rebuilt from obj.config grades differently', case, impl=repr(D.run_impl(lambda: c(None, inp)))[:150])
        ctx.case(case, nontrivial_key=('equiv', name, repr(sorted(case['config'].items()))), kind='equiv')


def part_registered(ctx):
    """registered defaults: the most specific class wins, an explicit option wins over both, clearing restores the documented default"""
    import mitxgraders as M
    from mitxgraders.baseclasses import AbstractGrader, ItemGrader
    saved = [(c, c.default_values) for c in (AbstractGrader, ItemGrader, M.StringGrader, M.FormulaGrader)]
    try:
        AbstractGrader.register_defaults({'debug': True, 'attempt_based_credit_msg': False})
        ItemGrader.register_defaults({'wrong_msg': 'item-level'})
        M.StringGrader.register_defaults({'debug': False, 'wrong_msg': 'string-level', 'strip': False})
        g = M.StringGrader(answers='a')
        f = M.FormulaGrader(answers='1')
        want = [(g.config['debug'], False), (g.config['wrong_msg'], 'string-level'), (g.config['strip'], False), (g.config['attempt_based_credit_msg'], False),
                (f.config['debug'], True), (f.config['wrong_msg'], 'item-level'), (M.StringGrader(answers='a', debug=True).config['debug'], True),
                (M.StringGrader({'answers': 'a', 'wrong_msg': 'explicit'}).config['wrong_msg'], 'explicit')]
        bad = [(a, b) for a, b in want if a != b]
        if bad:
            ctx.violation('registered defaults are not applied most-specific-class-last with explicit options on top', {'part': 'registered-defaults'}, impl=repr(bad))
    finally:
        for c, v in saved:
            c.default_values = v
    g = M.StringGrader(answers='a')
    if g.config['debug'] is not False or g.config['wrong_msg'] != '' or g.config['strip'] is not True:
        ctx.violation('documented defaults are not restored after clearing registered defaults', {'part': 'registered-defaults'}, impl=repr({k: g.config[k] for k in ('debug', 'wrong_msg', 'strip')}))
    ctx.case({'registered-defaults': True}, nontrivial_key='registered', kind='registered-defaults')


def part_answers(ctx):
    """ItemGrader.schema_answers on generated author formats (bare values, dictionaries with any subset of keys, tuples of alternatives,
    invalid credits, unknown keys, non-text entries) vs the answers-validation model; canonical form and reconstruction checked directly"""
    import mitxgraders as M
    rng = ctx.rng
    S = M.StringGrader
    asks, meta = [], []

    def gen_exp():
        r = rng.random()
        ent = lambda: rng.choice(['cat', 'dog', '', 'ünï']) if rng.random() < 0.9 else rng.choice([5, None, 2.5])
        if r < 0.6:
            e = ent(); return e, {'one': e if isinstance(e, str) else None}
        l = tuple(ent() for _ in range(rng.randint(0, 3)))
        return l, {'tuple': [x if isinstance(x, str) else None for x in l]}

    def gen_one():
        if rng.random() < 0.35:
            py, js = gen_exp()
            if isinstance(py, dict):
                return None
            return py, {'bare': js}
        d, jd = {}, {'unknown': False}
        if rng.random() < 0.92:
            py, js = gen_exp(); d['expect'] = py; jd['expect'] = js
        if rng.random() < 0.6:
            g = rng.choice([0, 1, 0.5, 0.25, 1.0, 0.0, Fraction(1, 3), 1.5, -0.25, 2])
            d['grade_decimal'] = g; jd['grade'] = frac_to_str(g)
        if rng.random() < 0.4:
            m = rng.choice(['', 'hint', 'two\nlines']); d['msg'] = m; jd['msg'] = m
        if rng.random() < 0.5:
            o = rng.choice(['computed', True, False, 'partial']); d['ok'] = o; jd['ok'] = o
        if rng.random() < 0.08:
            d['credit'] = 1; jd['unknown'] = True
        return d, {'dict': jd}

    for it in range(ctx.scale(400, 6000)):
        n = rng.choice([1, 1, 2, 3])
        items = [gen_one() for _ in range(n)]
        pys = [p for p, _ in items]
        # a single non-tuple answer may be given directly; several must be a tuple
        fmt = pys[0] if n == 1 and rng.random() < 0.5 and not isinstance(pys[0], tuple) else tuple(pys)
        if n == 1 and isinstance(fmt, tuple) and len(fmt) == 1 and isinstance(pys[0], tuple):
            pass
        k, g = D.run_impl(lambda: S(answers=fmt))
        case = {'part': 'answers', 'answers': repr(fmt)}
        if k == 'out':
            a = g.config['answers']
            impl = [{'expect': list(x['expect']), 'grade_decimal': frac_to_str(x['grade_decimal']), 'msg': x['msg'], 'ok': x['ok']} for x in a]
            canon_ok = isinstance(a, tuple) and all(isinstance(x, dict) and set(x) == {'expect', 'grade_decimal', 'msg', 'ok'} and isinstance(x['expect'], tuple)
                                                   and 0 <= x['grade_decimal'] <= 1 for x in a)
            if not canon_ok:
                ctx.violation('answers are not normalised to the canonical tuple of dictionaries with credits in [0,1]', case, impl=repr(a)[:200])
            for x in a:
                want = True if x['grade_decimal'] == 1 else (False if x['grade_decimal'] == 0 else 'partial')
                if x['ok'] != want and x['grade_decimal'] != 1:
                    ctx.violation('a validated answer carries an ok that contradicts its credit', case, impl=repr(x))
            k2, g2 = D.run_impl(lambda: S(g.config))
            if not (k2 == 'out' and g2 == g and g2.config['answers'] == a):
                ctx.violation('a grader rebuilt from its canonical configuration differs', case, impl=repr(g2)[:100])
        else:
            impl = None
            if not (g[1] in ('ConfigError', 'Error') or g[1].endswith('Invalid')):
                ctx.violation('invalid answers raised %s instead of a configuration / validation error' % g[1], case, impl=g)
        ctx.case(dict(case, accepted=k == 'out'), nontrivial_key=('ans', repr(fmt)) if n > 1 or isinstance(pys[0], dict) else None, kind='answers:' + ('ok' if k == 'out' else 'rejected'))
        asks.append({'op': 'validate_answers', 'answers': [j for _, j in items]}); meta.append((case, impl))
    if ctx.driver:
        for (case, impl), o in zip(meta, ctx.driver.ask_many(asks)):
            if o.get('out') != impl:
                ctx.disagree('answers validation differs from the model', case, impl, o.get('out'))


def part_math_config(ctx):
    """MathMixin.validate_math_config vs the model Mc.validate: random option combinations on the math graders; the first failing rule and its
    exact message, or acceptance"""
    import mitxgraders as M
    rng = ctx.rng
    asks, meta = [], []
    classes = [('FormulaGrader', M.FormulaGrader, {}), ('MatrixGrader', M.MatrixGrader, {}), ('SumGrader', M.SumGrader, {'answers': {'lower': '1', 'upper': '3', 'summand': 'n', 'summation_variable': 'n'}})]
    for it in range(ctx.scale(400, 6000)):
        cname, cls, base = rng.choice(classes)
        dfuncs, dvars = sorted(cls.default_functions), sorted(cls.default_variables)
        pool_f = rng.sample(dfuncs, 4) + ['det', 'trans', 'nosuchfunction', 'Sin']
        blacklist = rng.sample(pool_f, rng.choice([0, 0, 0, 1, 2]))
        whitelist = rng.choice([[], [], [], [None], rng.sample(pool_f, rng.randint(1, 3))])
        variables = rng.sample(['x', 'y', 'pi', 'e', 'i', 'c', 'k2', 'sin', 'z'], rng.randint(0, 4))
        numbered = rng.sample(['a', 'pi', 'b', 'j'], rng.choice([0, 0, 1, 2]))
        ucs = {}
        for nm in rng.sample(['c', 'pi', 'e', 'x', 'y', 'tau', 'i'], rng.choice([0, 1, 2, 3])):
            ucs[nm] = None if rng.random() < 0.35 else rng.choice([2.5, 3, 1j])
        ufs = {nm: abs for nm in rng.sample(['f', 'sin', 'det', 'g', 'norm'], rng.choice([0, 0, 1, 2]))}
        sup = rng.random() < 0.4
        kw = dict(base, blacklist=blacklist, whitelist=whitelist, variables=variables, numbered_vars=numbered, user_constants=dict(ucs), user_functions=ufs, suppress_warnings=sup)
        k, v = D.run_impl(lambda: cls(**kw))
        got = 'ok' if k == 'out' else (v[2] if v[1] == 'ConfigError' else '%s: %s' % (v[1], v[2][:80]))
        case = {'part': 'math-config', 'class': cname, 'blacklist': blacklist, 'whitelist': whitelist, 'variables': variables, 'numbered_vars': numbered,
                'user_constants': {a: repr(b) for a, b in ucs.items()}, 'user_functions': sorted(ufs), 'suppress_warnings': sup}
        ctx.case(case, nontrivial_key=('mc', cname, repr(case)) if got != 'ok' else None, kind='math-config:' + ('ok' if got == 'ok' else got.split(':')[0][:24]))
        asks.append({'op': 'math_config', 'default_functions': dfuncs, 'default_variables': dvars, 'blacklist': blacklist, 'whitelist': whitelist, 'variables': variables, 'numbered_vars': numbered,
                     'user_constants': [[a, b is None] for a, b in ucs.items()], 'user_functions': list(ufs), 'suppress_warnings': sup})
        meta.append((case, got))
    if ctx.driver:
        for (case, got), o in zip(meta, ctx.driver.ask_many(asks)):
            mg = o.get('out') if 'out' in o else o.get('err')
            if mg != got:
                ctx.disagree('cross-option validation of the math graders differs from the model', case, got, o)


DOCUMENTED_DEFAULTS = {
    # transcribed from docs/grading_math/*.md (the option lists "default: ..."), NOT read from the schemas
    'IntegralGrader': ({'answers': {'lower': '1', 'upper': '2', 'integrand': 'x', 'integration_variable': 'x'}}, {'samples': 1, 'complex_integrand': False, 'failable_evals': 0, 'tolerance': '0.01%'}),
    'FormulaGrader': ({}, {'samples': 5, 'failable_evals': 0, 'tolerance': '0.01%', 'metric_suffixes': False}),
    'NumericalGrader': ({}, {'samples': 1, 'failable_evals': 0, 'tolerance': '5.0%'}),
    'MatrixGrader': ({}, {'samples': 5, 'max_array_dim': 1, 'negative_powers': True, 'shape_errors': True, 'suppress_matrix_messages': False}),
    'SumGrader': ({'answers': {'lower': '1', 'upper': '2', 'summand': 'n', 'summation_variable': 'n'}}, {'samples': 2, 'infty_val': 1000, 'infty_val_fact': 80, 'even_odd': 0}),
}


def part_documented_defaults(ctx):
    import mitxgraders as M
    for name, (kw, table) in DOCUMENTED_DEFAULTS.items():
        k, g = D.run_impl(lambda: getattr(M, name)(**kw))
        if k == 'err':
            ctx.violation('%s with a minimal configuration cannot be constructed' % name, {'part': 'documented-defaults', 'class': name}, impl=g); continue
        for opt, want in table.items():
            ctx.case({'class': name, 'option': opt}, nontrivial_key=('docdef', name, opt), kind='documented-default')
            if g.config.get(opt) != want or type(g.config.get(opt)) is bool and not isinstance(want, bool):
                ctx.violation('%s: omitted option %s is %r, the documented default is %r' % (name, opt, g.config.get(opt), want), {'part': 'documented-defaults', 'class': name, 'option': opt}, impl=repr(g.config.get(opt)))


def part_cross(ctx):
    import mitxgraders as M
    from mitxgraders.helpers.calc.specify_domain import SpecifyDomain
    S = M.StringGrader
    bad = [
        ('whitelist+blacklist', lambda: M.FormulaGrader(whitelist=['sin'], blacklist=['cos'])),
        ('unknown blacklist entry', lambda: M.FormulaGrader(blacklist=['nosuchfunction'])),
        ('unknown whitelist entry', lambda: M.FormulaGrader(whitelist=['nosuchfunction'])),
        ('array function blacklisted in a FormulaGrader (not one of ITS defaults)', lambda: M.FormulaGrader(blacklist=['det'])),
        ('MatrixGrader user function overrides an array function', lambda: M.MatrixGrader(answers='[1,2]', user_functions={'det': abs})),
        ('MatrixGrader user function overrides a default function', lambda: M.MatrixGrader(answers='[1,2]', user_functions={'sin': abs})),
        ('whitelist [None] + blacklist', lambda: M.FormulaGrader(whitelist=[None], blacklist=['cos'])),
        ('whitelist [None] + unknown blacklist entry', lambda: M.FormulaGrader(whitelist=[None], blacklist=['nosuchfunction'])),
        ('unknown entry after a known one (blacklist)', lambda: M.FormulaGrader(blacklist=['sin', 'nosuchfunction'])),
        ('unknown entry after a known one (whitelist)', lambda: M.FormulaGrader(whitelist=['sin', 'nosuchfunction'])),
        ('unordered list with several subgraders', lambda: M.ListGrader(answers=['a', 'b'], subgraders=[S(), S()], ordered=False)),
        ('subgrader count mismatch', lambda: M.ListGrader(answers=['a', 'b'], subgraders=[S(), S(), S()], ordered=True)),
        # unorderable values for range-restricted options are validation errors, never a raw TypeError (fix F10)
        ('complex amplitude', lambda: M.RandomFunction(amplitude=3 + 4j)),
        ('complex amplitude with zero imaginary part', lambda: M.RandomFunction(amplitude=3 + 0j)),
        ('complex infty_val', lambda: M.SumGrader(answers={'lower': '1', 'upper': '2', 'summand': 'n', 'summation_variable': 'n'}, infty_val=3 + 4j)),
        ('complex infty_val_fact', lambda: M.SumGrader(answers={'lower': '1', 'upper': '2', 'summand': 'n', 'summation_variable': 'n'}, infty_val_fact=2j)),
        ('string num_terms', lambda: M.RandomFunction(num_terms='three')),
        ('grouping not starting at 1', lambda: M.ListGrader(answers=[['a', 'b'], 'c'], subgraders=[M.ListGrader(subgraders=S()), S()], ordered=True, grouping=[2, 2, 3])),
        ('grouping not starting at 1 (unordered)', lambda: M.ListGrader(answers=[['a', 'b'], ['c', 'd']], subgraders=M.ListGrader(subgraders=S()), grouping=[2, 3, 2, 3])),
        ('grouping starting at 0', lambda: M.ListGrader(answers=[['a', 'b'], ['c', 'd']], subgraders=M.ListGrader(subgraders=S()), grouping=[0, 0, 1, 1])),
        ('non-contiguous grouping', lambda: M.ListGrader(answers=[['a', 'b'], ['c', 'd']], subgraders=M.ListGrader(subgraders=S()), grouping=[1, 1, 3, 3])),
        ('grouping vs subgraders', lambda: M.ListGrader(answers=[['a', 'b'], 'c'], subgraders=[M.ListGrader(subgraders=S()), S(), S()], ordered=True, grouping=[1, 1, 2])),
        ('multi-item group without ListGrader', lambda: M.ListGrader(answers=['a', 'b'], subgraders=S(), grouping=[1, 1, 2, 2])),
        ('fewer answers than groups', lambda: M.ListGrader(answers=[['a', 'b'], ['c', 'd']], subgraders=M.ListGrader(subgraders=S()), grouping=[1, 1, 2, 2, 3, 3])),
        ('more answers than groups', lambda: M.ListGrader(answers=[['a', 'b'], ['c', 'd'], ['e', 'f']], subgraders=M.ListGrader(subgraders=S()), grouping=[1, 1, 2, 2], ordered=False)),
        ('unequal groups unordered', lambda: M.ListGrader(answers=[['a', 'b'], ['c']], subgraders=M.ListGrader(subgraders=S()), grouping=[1, 1, 2])),
        ('nested delimiters equal', lambda: M.SingleListGrader(subgrader=M.SingleListGrader(subgrader=S(), delimiter=','), delimiter=',')),
        ('variable / constant collision', lambda: M.FormulaGrader(variables=['x'], user_constants={'x': 1})),
        ('variable overrides default constant', lambda: M.FormulaGrader(variables=['pi'])),
        ('numbered var overrides default', lambda: M.FormulaGrader(numbered_vars=['e'])),
        ('user function overrides default', lambda: M.FormulaGrader(user_functions={'sin': abs})),
        ('user constant overrides default', lambda: M.FormulaGrader(user_constants={'pi': 3})),
        ('duplicate variables', lambda: M.FormulaGrader(variables=['x', 'x'])),
        ('sample_from for an undeclared variable', lambda: M.FormulaGrader(variables=['x'], sample_from={'y': [1, 2]})),
        ('bad sample_from value', lambda: M.FormulaGrader(variables=['x'], sample_from={'x': 'banana'})),
        ('NumericalGrader with variables', lambda: M.NumericalGrader(variables=['x'])),
        ('NumericalGrader samples', lambda: M.NumericalGrader(samples=2)),
        ('input_positions gap', lambda: M.SumGrader(answers={'lower': '1', 'upper': '2', 'summand': 'n', 'summation_variable': 'n'}, input_positions={'lower': 1, 'upper': 3})),
        ('input_positions repeated', lambda: M.SumGrader(answers={'lower': '1', 'upper': '2', 'summand': 'n', 'summation_variable': 'n'}, input_positions={'lower': 1, 'upper': 1})),
        ('SpecifyDomain min_length with two shapes', lambda: SpecifyDomain(input_shapes=[1, 1], min_length=2)),
        ('grade_decimal out of range', lambda: S(answers={'expect': 'a', 'grade_decimal': 1.5})),
        ('unknown answer key', lambda: S(answers={'expect': 'a', 'credit': 1})),
        ('negative tolerance', lambda: M.FormulaGrader(tolerance=-1)),
        ('answer lists of different lengths (dict expect tuple)', lambda: M.SingleListGrader(answers={'expect': (['a', 'b'], ['a', 'b', 'c'])}, subgrader=S())),
        ('answer lists of different lengths (string tuple)', lambda: M.SingleListGrader(answers=('a, b', 'a, b, c'), subgrader=S())),
        ('answer lists of different lengths (two answers)', lambda: M.SingleListGrader(answers=(['a', 'b'], {'expect': ['a', 'b', 'c'], 'grade_decimal': 0.5}), subgrader=S())),
        ('answer lists of different lengths (later alternative)', lambda: M.SingleListGrader(answers=({'expect': (['a', 'b'], ['c', 'd'])}, {'expect': (['a', 'b'], ['c', 'd', 'e'])}), subgrader=S())),
        ('negative percentage', lambda: M.FormulaGrader(tolerance='-1%')),
        ('interval bracket', lambda: M.IntervalGrader(answers='<1, 2>')),
        ('SquareMatrices impossible combination', lambda: M.SquareMatrices(symmetry='antisymmetric', determinant=1, dimension=3)),
        ('RealInterval three numbers', lambda: M.RealInterval([1, 2, 3])),
        ('IntegerRange float', lambda: M.IntegerRange([1, 2.5])),
        ('DiscreteSet list', lambda: M.DiscreteSet([1, 2])),
        ('LinearCredit negative', lambda: __import__('mitxgraders').attemptcredit.LinearCredit(decrease_credit_steps=0)),
        ('GeometricCredit factor > 1', lambda: __import__('mitxgraders').attemptcredit.GeometricCredit(factor=1.5)),
    ]
    # rules that no other option may switch off (suppress_warnings only silences the override-of-defaults warnings)
    hard = [
        ('whitelist+blacklist', dict(whitelist=['sin'], blacklist=['cos'])),
        ('unknown blacklist entry', dict(blacklist=['nosuchfunction'])),
        ('unknown whitelist entry', dict(whitelist=['nosuchfunction'])),
        ('whitelist [None] + blacklist', dict(whitelist=[None], blacklist=['cos'])),
        ('whitelist [None] + unknown blacklist entry', dict(whitelist=[None], blacklist=['nosuchfunction'])),
        ('variable / constant collision', dict(variables=['x'], user_constants={'x': 1})),
        ('variable / constant collision (2)', dict(variables=['x', 'y'], user_constants={'c': 2, 'y': 3.5})),
        ('duplicate variables', dict(variables=['x', 'x'])),
        ('sample_from for an undeclared variable', dict(variables=['x'], sample_from={'y': [1, 2]})),
        ('bad sample_from value', dict(variables=['x'], sample_from={'x': 'banana'})),
        ('negative tolerance', dict(tolerance=-1)),
    ]
    extras = [dict(suppress_warnings=True), dict(debug=True), dict(suppress_warnings=True, samples=3), dict(suppress_warnings=True, metric_suffixes=True)]
    for label, kw in hard:
        for cls in (M.FormulaGrader, M.MatrixGrader):
            for ex in extras:
                for form in ('kwargs', 'dict'):
                    cfg = dict(kw, **ex)
                    bad.append(('%s [%s, %s, %s]' % (label, cls.__name__, '+'.join(sorted(ex)), form),
                                (lambda cls=cls, cfg=cfg: cls(**cfg)) if form == 'kwargs' else (lambda cls=cls, cfg=cfg: cls(cfg))))
    for label, mk in bad:
        k, v = D.run_impl(mk)
        ok = k == 'err' and (v[1] in ('ConfigError', 'Error') or v[1].endswith('Invalid'))
        if not ok:
            ctx.violation('cross-option rule not enforced: %s' % label, {'part': 'cross', 'rule': label}, impl=v if k == 'err' else 'constructed')
        ctx.case({'rule': label, 'outcome': v[1] if k == 'err' else 'constructed'}, nontrivial_key=('cross', label), kind='cross:rejected')
    good = [
        ('suppressed override', lambda: M.FormulaGrader(variables=['pi'], suppress_warnings=True)),
        ('whitelist none', lambda: M.FormulaGrader(whitelist=[None])),
        ('ordered list of subgraders', lambda: M.ListGrader(answers=['a', 'b'], subgraders=[S(), S()], ordered=True)),
        ('grouping', lambda: M.ListGrader(answers=[['a', 'b'], ['c', 'd']], subgraders=M.ListGrader(subgraders=S()), grouping=[1, 1, 2, 2])),
        ('nested delimiters distinct', lambda: M.SingleListGrader(subgrader=M.SingleListGrader(subgrader=S(), delimiter=','), delimiter=';')),
        ('deleted default constant', lambda: M.FormulaGrader(user_constants={'pi': None}, variables=['pi'])),
        # each grader's own default function table is the reference: MatrixGrader adds norm, trans, det, ... to it
        ('MatrixGrader blacklists an array function', lambda: M.MatrixGrader(answers='[1,2]', blacklist=['det'])),
        ('MatrixGrader whitelists array functions', lambda: M.MatrixGrader(answers='[1,2]', whitelist=['trans', 'norm', 'sin'])),
        ('MatrixGrader overrides an array function, warnings suppressed', lambda: M.MatrixGrader(answers='[1,2]', user_functions={'det': abs}, suppress_warnings=True)),
        # documented: subgrader=None means the default NumericalGrader
        ('IntervalGrader(subgrader=None), keywords', lambda: M.IntervalGrader(answers='[1,2)', subgrader=None)(None, '[1,2)')),
        ('IntervalGrader(subgrader=None), dictionary', lambda: M.IntervalGrader({'answers': '[1,2)', 'subgrader': None})(None, '[1,2)')),
        ('IntervalGrader(subgrader=None) without answers', lambda: M.IntervalGrader(subgrader=None)('[1,2)', '[1,2)')),
    ]
    for label, mk in good:
        k, v = D.run_impl(mk)
        if k != 'out':
            ctx.violation('a valid configuration was rejected: %s' % label, {'part': 'cross', 'rule': label}, impl=v)
        ctx.case({'rule': label}, nontrivial_key=('cross-ok', label), kind='cross:accepted')
    # answers formats -> canonical tuple of dictionaries
    for fmt in ['cat', {'expect': 'cat'}, ('cat', 'dog'), ({'expect': 'cat', 'grade_decimal': 0.5}, 'dog'), {'expect': ('cat', 'dog'), 'msg': 'm'}, ({'expect': ('a', 'b')}, {'expect': 'c', 'ok': 'partial', 'grade_decimal': 0.3})]:
        k, g = D.run_impl(lambda: S(answers=fmt))
        case = {'part': 'answers-format', 'answers': repr(fmt)}
        if k == 'err':
            ctx.violation('documented answers format rejected', case, impl=g); continue
        a = g.config['answers']
        ok = isinstance(a, tuple) and all(isinstance(x, dict) and set(x) == {'expect', 'grade_decimal', 'msg', 'ok'} and isinstance(x['expect'], tuple) for x in a)
        if not ok:
            ctx.violation('answers are not normalised to the canonical tuple of dictionaries', case, impl=repr(a)[:200])
        k2, g2 = D.run_impl(lambda: S(g.config))
        if not (k2 == 'out' and g2 == g):
            ctx.violation('a grader rebuilt from its canonical configuration differs', case, impl=repr(g2)[:100])
        ctx.case(case, nontrivial_key=('fmt', repr(fmt)), kind='answers-format')
    for fmt in [['a', 'b'], (['a', 'b'], ['c', 'd']), [('a', 'x'), 'b']]:
        k, g = D.run_impl(lambda: M.ListGrader(answers=fmt, subgraders=S()))
        if k == 'err' or not (isinstance(g.config['answers'], (tuple, list))):
            ctx.violation('documented ListGrader answers format rejected', {'part': 'answers-format', 'answers': repr(fmt)}, impl=g if k == 'err' else repr(g.config['answers'])[:100])
        else:
            k2, g2 = D.run_impl(lambda: M.ListGrader(g.config))
            if not (k2 == 'out' and g2 == g):
                ctx.violation('a ListGrader rebuilt from its configuration differs', {'part': 'answers-format', 'answers': repr(fmt)}, impl=g2 if k2 == 'err' else 'unequal')
        ctx.case({'list-answers': repr(fmt)}, nontrivial_key=('lfmt', repr(fmt)), kind='answers-format')


def run(ctx):
    part_options(ctx)
    part_objects(ctx)
    part_cross(ctx)
    part_documented_defaults(ctx)
    part_math_config(ctx)
    part_answers(ctx)
    part_equiv(ctx)
    part_registered(ctx)


def search(ctx):
    drv, ctx.driver = ctx.driver, None
    old = (ctx.tier, ctx.quick)
    ctx.tier, ctx.quick = 'thorough', False
    try:
        run(ctx)
    finally:
        ctx.driver = drv
        ctx.tier, ctx.quick = old


def replay(ctx, data):
    v = data.get('violation') or {}
    case = v.get('case')
    if not case:
        return {'holds': True, 'note': 'replay file names a broken obligation, no input to re-run', 'broken': data.get('broken')}
    return {'holds': False, 'note': 'replay by seed: VERIF_SEED=%s ./check C20' % data.get('seed'), 'case': case, 'what': v.get('what')}

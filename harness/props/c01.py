"""C01 — every grader call returns a well-formed, self-consistent edX result.
(1) the whole __call__ (check + key stripping + attempt credit + debug log + message formatting) of generated grader
trees vs the Lean model; (2) the C01 predicate itself on every returned value; (3) contract monitor: the same predicate
on the library's own leaf graders (String, Formula, Numerical, Matrix, Interval, Sum, nested lists)."""
import itertools, re
from fractions import Fraction
import gradegen as GG
from common import frac_to_str, with_alarm, Timeout
from props.c17 import sched_desc, make_sched

ASSUMPTIONS = [
    'leaf graders in the model comparison are a table-driven ItemGrader (arbitrary exact credits, messages, scripted exceptions); Formula/Numerical/Matrix/Interval/Sum leaves are monitored against the C01 predicate, not modelled',
    'attempt-based credit multiplies by a float: grades compared within 1e-12, everything else exactly',
    'debug log text is taken from the real grader (log_output()) and given to the model, which decides only where it is placed',
    'known finding K4 (SumGrader/IntegralGrader return the single-input form for a list of inputs) is announced, not reported as a violation',
]
EVIDENCE = {
    'rule': 'cases = (grader tree, options attempt credit/debug/partial_credit/ordered/wrong_msg, input incl. unicode garbage/empty/stray delimiters, attempt number); '
            'non-trivial = returned result with at least one grade strictly between 0 and 1, or a list result with >= 3 entries, or attempt credit < 1 applied; distinct by (grader, options, input)',
}
GARBAGE = ['', ' ', 'ünï∑', '💥', ',,,', ';', 'a,,b', '\t', 'a\nb', '((', 'x' * 50, ' a', 'NaN', '{}']
KEYS1 = {'ok', 'grade_decimal', 'msg'}


def wf_entry(e, strict_ok):
    if not isinstance(e, dict) or set(e.keys()) != KEYS1:
        return 'entry keys are %r' % (sorted(e.keys()) if isinstance(e, dict) else type(e))
    g = e['grade_decimal']
    if isinstance(g, bool) or not isinstance(g, (int, float, Fraction)) or not (0 <= g <= 1):
        return 'grade_decimal %r outside [0,1]' % (g,)
    if not isinstance(e['msg'], str):
        return 'msg is not a string'
    want = True if g == 1 else (False if g == 0 else 'partial')
    if e['ok'] is not want and e['ok'] != want:
        if strict_ok or e['ok'] not in (True, False, 'partial'):
            return 'ok=%r inconsistent with grade_decimal=%r' % (e['ok'], g)
    return None


def wf(res, inp, debug, strict_ok=True):
    """the C01 predicate on a returned value; returns None or a description"""
    if isinstance(inp, list):
        if not isinstance(res, dict) or set(res.keys()) != {'overall_message', 'input_list'}:
            return 'list input but keys are %r' % (sorted(res.keys()) if isinstance(res, dict) else type(res))
        if not isinstance(res['overall_message'], str):
            return 'overall_message is not a string'
        if len(res['input_list']) != len(inp):
            return '%d entries for %d inputs' % (len(res['input_list']), len(inp))
        msgs = [res['overall_message']]
        for e in res['input_list']:
            bad = wf_entry(e, strict_ok)
            if bad:
                return bad
            msgs.append(e['msg'])
    else:
        bad = wf_entry(res, strict_ok)
        if bad:
            return bad
        msgs = [res['msg']]
    if not debug:
        for m in msgs:
            if 'MITx Grading Library Version' in m or 'Student Response' in m or 'Running on edX using python' in m:
                return 'debug output in a message although debug is off'
    return None


def has_pinned(answers_json):
    def walk(a):
        for x in a:
            if isinstance(x, dict) and 'expect' in x:
                g = Fraction(x['grade_decimal'])
                want = True if g == 1 else (False if g == 0 else 'partial')
                if x['ok'] != want:
                    return True
                for e in x['expect']:
                    if isinstance(e, list) and any(walk(i) for i in e):
                        return True
            elif isinstance(x, list):
                if walk(x):
                    return True
        return False
    return walk(answers_json)


def close_res(a, b):
    """implementation result (floats possible) vs model result (exact strings)"""
    def ent(x, y):
        return x['ok'] == y['ok'] and x['msg'] == y['msg'] and abs(Fraction(x['grade_decimal']) - Fraction(y['grade_decimal'])) <= Fraction(1, 10 ** 12)
    if ('input_list' in a) != ('input_list' in b):
        return False
    if 'input_list' in a:
        return a['overall_message'] == b['overall_message'] and len(a['input_list']) == len(b['input_list']) and all(ent(x, y) for x, y in zip(a['input_list'], b['input_list']))
    return ent(a, b)


def gen_tree(rng, kw):
    """a random grader tree; returns (Built, input generator)"""
    pal = GG.DYAD
    r = rng.random()
    raises = 0.05 if rng.random() < 0.4 else 0.0
    if r < 0.3:
        b = GG.build_leaf(rng, pal, answers=GG.gen_item_answers(rng, pal, 4), raises=raises, **kw)
        return b, lambda: rng.choice(GG.INPUTS + GARBAGE)
    if r < 0.5:
        leaf = GG.build_leaf(rng, pal, raises=raises)
        b = GG.build_singlelist(rng, pal, leaf, answers=GG.gen_sl_answers(rng, pal), **kw)
        d = b.desc['cfg']['delimiter']
        return b, lambda: (d.join(rng.choice(GG.INPUTS[:8]) for _ in range(rng.randint(1, 6))) if rng.random() < 0.8 else rng.choice(GARBAGE))
    n = rng.randint(2, 5)
    ordered = rng.random() < 0.5
    k = rng.choice([1, 1, 2])
    if ordered and rng.random() < 0.5:
        subs = []
        for j in range(n):
            leaf = GG.build_leaf(rng, pal, raises=raises)
            subs.append(GG.build_singlelist(rng, pal, leaf) if rng.random() < 0.3 else leaf)
    else:
        subs = [GG.build_leaf(rng, pal, raises=raises)]
    ss = subs if len(subs) > 1 else subs * n
    lists = [[(GG.gen_sl_answers(rng, pal, alt_lists=1) if s.kind == 'singlelist' else GG.gen_item_answers(rng, pal, 2)) for s in ss] for _ in range(k)]
    if rng.random() < 0.25 and len(subs) == 1:
        # grouped / nested
        gsize, ng = 2, rng.randint(2, 3)
        inner = GG.build_list(rng, pal, subs, [GG.gen_item_answers(rng, pal, 2) for _ in range(gsize)], ordered=rng.random() < 0.5)
        grouping = [gi + 1 for gi in range(ng) for _ in range(gsize)]
        rng.shuffle(grouping)
        answers = [[GG.gen_item_answers(rng, pal, 2) for _ in range(gsize)] for _ in range(ng)]
        b = GG.build_list(rng, pal, [inner], answers, ordered=ordered, partial_credit=rng.random() < 0.8, grouping=grouping, **kw)
        m = len(grouping)
    else:
        b = GG.build_list(rng, pal, subs, tuple(lists) if k > 1 else lists[0], ordered=ordered, partial_credit=rng.random() < 0.8, **kw)
        m = n

    def gen_inp():
        out = []
        for j in range(m):
            s = ss[j] if (len(subs) > 1 and j < len(ss)) else subs[0]
            if s.kind == 'singlelist':
                d = s.desc['cfg']['delimiter']
                out.append(d.join(rng.choice(GG.INPUTS[:6]) for _ in range(rng.randint(1, 4))))
            else:
                out.append(rng.choice(GG.INPUTS[:8] + GARBAGE[:4]))
        return out
    return b, gen_inp


def run_model_part(ctx):
    rng = ctx.rng
    scheds = [None, None, sched_desc('linear', after=1, steps=4, min='1/5'), sched_desc('geometric', factor='1/2'), sched_desc('reciprocal'),
              sched_desc('geometric', factor='0'),
              sched_desc('table', tab=[[n, v] for n, v in zip(range(1, 20), ['1', '1/10000', '1/5000', '3/10000', '1/2', '1/10000', '1', '1/20000', '1/10000'] + ['1/10000'] * 10)])]
    pending = []

    def flush():
        if ctx.driver is None or not pending:
            pending.clear(); return
        outs = ctx.driver.ask_many([q for q, _, _, _ in pending])
        for (q, case, kind, val), o in zip(pending, outs):
            if kind == 'err':
                if o.get('err') != val:
                    ctx.disagree('error differs', case, val, o)
            elif 'out' not in o or not close_res(val, o['out']):
                ctx.disagree('call result differs', case, GG.canon_result(val), o)
        pending.clear()

    for it in range(ctx.scale(250, 6000)):
        sd = rng.choice(scheds)
        debug = rng.random() < 0.2
        flag = rng.random() < 0.7
        kw = {'debug': debug}
        if sd is not None:
            kw.update(attempt_based_credit=make_sched(sd), attempt_based_credit_msg=flag)
        try:
            built, gen_inp = gen_tree(rng, kw)
        except Exception as e:
            ctx.count('config_rejected:' + type(e).__name__); continue
        g = built.grader
        aj = built.answers_json()
        pinned = has_pinned(aj)
        for _ in range(ctx.scale(4, 8)):
            inp = gen_inp()
            att = None if sd is None else rng.choice([1, 1, 2, 3, 5, 9, 0, -1, 14, 15, 16])
            if isinstance(inp, list) and rng.random() < 0.1:
                inp = inp + [rng.choice(GG.INPUTS[:5])] * rng.randint(1, 2) if rng.random() < 0.6 else inp[:-1]
            akw = {} if att is None else {'attempt': att}
            kind, val = GG.run_impl(lambda: g(None, inp, **akw))
            log = g.log_output() if debug else ''
            case = {'grader': built.desc, 'answers': aj, 'input': inp, 'attempt': att, 'sched': sd, 'debug': debug, 'flag': flag}
            nt = False
            if kind == 'out':
                bad = wf(val, inp, debug, strict_ok=not pinned)
                if bad:
                    ctx.violation(bad, case, impl=GG.canon_result(val))
                ents = val['input_list'] if 'input_list' in val else [val]
                nt = any(0 < e['grade_decimal'] < 1 for e in ents) or len(ents) >= 3
            elif val[0] != 'mitx' and not debug:
                ctx.violation('a non-library exception escaped with debug off', case, impl=val)
            ctx.case({'kind': built.kind, 'input': inp, 'attempt': att, 'debug': debug, 'impl': GG.canon_result(val) if kind == 'out' else val},
                     nontrivial_key=(repr(built.desc), repr(aj), repr(inp), att, debug) if nt else None, kind='call:' + built.kind + (':err' if kind == 'err' else ''))
            q = {'op': 'call', 'grader': built.desc, 'answers': aj, 'input': inp, 'debug': debug, 'log': log, 'attempt_msg': flag, 'attempt': att,
                 'sched': ({k: v for k, v in sd.items()} if sd else None)}
            pending.append((q, case, kind, val))
        if len(pending) > 1500:
            flush()
    flush()


def monitor(ctx):
    """the C01 predicate on the library's own leaf graders"""
    from mitxgraders import (StringGrader, FormulaGrader, NumericalGrader, MatrixGrader, SingleListGrader, ListGrader,
                             IntervalGrader, SumGrader, LinearCredit, RealInterval)
    from mitxgraders.comparers import LinearComparer
    rng = ctx.rng
    formulas = ['x+1', '1+x', 'x + 1.0', '2*x', 'x^2', 'x', '1', 'sin(x)', 'x+', '((x)', '1/0', 'y', '', ' ', 'ünï', '[1,2]', 'x+[1,2]', '1e999', '0^-1', 'sqrt(-1)*0+x+1', 'x+1+0*i']
    mats = ['[1,2]', '[2,1]', '[1,2,3]', '[[1,2],[3,4]]', '[1,2]+[0,0]', '[1,3]', '5', 'x*[1,2]', '[1,2]^2', '[', '']
    specs = []
    for dbg in (False, True):
        for att in (None, LinearCredit()):
            kw = {'debug': dbg}
            if att is not None:
                kw['attempt_based_credit'] = att
            specs += [
                ('String', StringGrader(answers=('cat', {'expect': 'dog', 'grade_decimal': 0.5, 'msg': 'half'}), wrong_msg='no', **kw), ['cat', 'dog', 'Cat', '', 'ünï', ' cat ']),
                ('Formula', FormulaGrader(answers=('x+1', {'expect': '2*x', 'grade_decimal': 0.5, 'msg': 'double'}), variables=['x'], **kw), formulas),
                ('FormulaLinear', FormulaGrader(answers=({'expect': {'comparer': LinearComparer(proportional=0.5, offset=0.25), 'comparer_params': ['x+1']}, 'grade_decimal': rng.choice([1, 0.5, 0])},),
                                                variables=['x'], **kw), formulas + ['2*x+2', 'x+3', '3*x+5']),
                ('Numerical', NumericalGrader(answers=('2', {'expect': '3', 'grade_decimal': 0.25}), **kw), ['2', '3', '2.0000001', '1+1', 'x', '', '1/0', 'pi']),
                ('Matrix', MatrixGrader(answers=({'expect': '[1,2]', 'grade_decimal': rng.choice([1, 0.5, 0])},), entry_partial_credit=rng.choice([0.5, 'proportional']), variables=['x'], **kw), mats),
                ('MatrixFlat0', MatrixGrader(answers='[1,2]', entry_partial_credit=0, **kw), mats + ['[1,3]', '[0,2]']),
                ('MatrixFlat1', MatrixGrader(answers=({'expect': '[1,2]', 'grade_decimal': rng.choice([1, 0.5])},), entry_partial_credit=1, **kw), mats + ['[1,3]', '[0,2]']),
                ('MatrixMsgOnly', MatrixGrader(answers='[[1,2],[3,4]]', entry_partial_msg='some entries are wrong', **kw), mats + ['[[1,2],[3,5]]', '[[0,2],[3,4]]']),
                ('MatrixPlain', MatrixGrader(answers='[[1,2],[3,4]]', **kw), mats),
                ('SingleListFormula', SingleListGrader(answers=['x', '2*x', '3'], subgrader=FormulaGrader(variables=['x']), **kw), ['x,2*x,3', '3,x,2*x', 'x,x', 'x,,3', '', 'x,2*x,3,4,5,6,7', 'x;2']),
                ('Interval', IntervalGrader(answers='[1,2)', **kw), ['[1,2)', '(1,2)', '[1,2]', '[1,3)', '1,2', '[1,2', '[a,b)', '', '[1,2,3)']),
                ('ListFormula', ListGrader(answers=['x', '2*x', ('3', {'expect': '4', 'grade_decimal': 0.5})], subgraders=FormulaGrader(variables=['x']), **kw),
                 [['x', '2*x', '3'], ['3', 'x', '2*x'], ['4', 'x', 'x'], ['', 'x', '1'], ['x+', 'x', '1']]),
                ('ListNested', ListGrader(answers=[['a', 'b'], ['c', 'd']], subgraders=ListGrader(subgraders=StringGrader(), ordered=True, answers=['x', 'y']), grouping=[1, 2, 1, 2], **kw),
                 [['a', 'c', 'b', 'd'], ['c', 'a', 'd', 'b'], ['a', 'b', 'c', 'd'], ['', '', '', '']]),
                ('Sum', SumGrader(answers={'lower': '1', 'upper': '5', 'summand': 'n', 'summation_variable': 'n'}, input_positions={'lower': 1, 'upper': 2, 'summand': 3}, **kw),
                 [['1', '5', 'n'], ['5', '1', 'n'], ['0', '5', 'n'], ['1', '5', 'n+1'], ['1', '', 'n'], ['a', '5', 'n']]),
            ]
    for name, g, inputs in specs:
        debug = g.config['debug']
        for inp in inputs:
            for attempt in ([None] if not g.config['attempt_based_credit'] else [1, 3, 7]):
                akw = {} if attempt is None else {'attempt': attempt}
                kind, val = GG.run_impl(lambda: g(None, inp, **akw))
                ctx.contract_checks += 1
                case = {'monitor': name, 'input': inp, 'attempt': attempt, 'debug': debug}
                if kind == 'out':
                    bad = wf(val, inp, debug, strict_ok=True)
                    if bad and name == 'Sum' and isinstance(inp, list) and isinstance(val, dict) and set(val.keys()) == KEYS1:
                        ctx.known('K4', 'SumGrader(...)(None, %r) returned the single-input form' % (inp,))
                        bad = wf(val, 'x', debug, strict_ok=True)
                    if bad:
                        ctx.violation('real %s grader: %s' % (name, bad), case, impl=val)
                elif val[0] != 'mitx' and not debug:
                    ctx.violation('real %s grader: non-library exception escaped with debug off' % name, case, impl=val)


def monitor_positions(ctx):
    """one entry per submitted input IN INPUT ORDER, also when a grouping only renumbers the boxes (every group a single input)"""
    from mitxgraders import ListGrader, StringGrader, NumericalGrader
    rng = ctx.rng
    words = ['cat', 'dog', 'emu', 'fox']
    for it in range(ctx.scale(30, 300)):
        n = rng.randint(2, 4)
        perm = list(range(1, n + 1)); rng.shuffle(perm)
        answers = [words[j] if j % 2 == 0 else str(j + 5) for j in range(n)]          # group j+1: a word (StringGrader) or a number (NumericalGrader)
        subs = [StringGrader() if j % 2 == 0 else NumericalGrader() for j in range(n)]
        g = ListGrader(answers=answers, subgraders=subs, ordered=True, grouping=perm, debug=rng.random() < 0.2)
        right = [answers[perm[i] - 1] for i in range(n)]                              # what belongs in box i
        for _ in range(3):
            inp = [right[i] if rng.random() < 0.6 else rng.choice(['6', '7', '8', '11'] if right[i].isdigit() else words + ['zz']) for i in range(n)]
            want = [inp[i] == right[i] for i in range(n)]
            kind, val = GG.run_impl(lambda: g(None, inp))
            ctx.contract_checks += 1
            case = {'monitor': 'positions', 'grouping': perm, 'answers': answers, 'input': inp}
            if kind != 'out':
                ctx.violation('ListGrader with a renumbering grouping raised', case, impl=val); continue
            got = [e['ok'] is True for e in val['input_list']]
            if len(val['input_list']) != n or got != want:
                ctx.violation('entries are not reported in input order: ok flags %r, the boxes hold %r' % (got, want), case, impl=val)
            ctx.case(case, nontrivial_key=('positions', repr(perm), repr(inp)) if perm != sorted(perm) else None, kind='positions')


def monitor_long_lists(ctx):
    """float arithmetic of the consolidation: long lists (up to 60 items) of the real graders, fully / partly correct, with extra and missing items:
    the credit stays in [0, 1], and a fully correct list is exactly 1 with ok=True"""
    from mitxgraders import StringGrader, SingleListGrader, ListGrader
    rng = ctx.rng
    sizes = list(range(2, 61)) if not ctx.quick else sorted(rng.sample(range(5, 61), 22) + [9, 11, 18, 20])
    for n in sizes:
        words = ['w%d' % j for j in range(n)]
        part = rng.choice([0.1, 0.3, 0.7, 1 / 3])
        for label, answers in [('plain', list(words)), ('weighted', [({'expect': w, 'grade_decimal': 1}, {'expect': w + 'p', 'grade_decimal': part}) for w in words])]:
            for ordered in (True, False):
                g = SingleListGrader(answers=answers, subgrader=StringGrader(), ordered=ordered, partial_credit=True)
                shuffled = list(words); rng.shuffle(shuffled)
                subs = [('all correct', words), ('all correct, shuffled', shuffled), ('one extra', words + ['zz']), ('one missing', words[:-1]),
                        ('all part credit', [w + 'p' for w in words]), ('half wrong', [w if j % 2 else 'zz%d' % j for j, w in enumerate(words)])]
                for what, items in subs:
                    inp = ', '.join(items)
                    kind, val = GG.run_impl(lambda: g(None, inp))
                    ctx.contract_checks += 1
                    case = {'monitor': 'long-list', 'n': n, 'answers': label, 'ordered': ordered, 'submission': what}
                    if kind != 'out':
                        ctx.violation('long SingleListGrader raised', case, impl=val); continue
                    bad = wf(val, inp, False, strict_ok=True)
                    if not bad and what == 'all correct' and not (val['grade_decimal'] == 1 and val['ok'] is True):
                        bad = 'a fully correct list of %d items is graded %r / ok=%r' % (n, val['grade_decimal'], val['ok'])
                    if not bad and what == 'all correct, shuffled' and not ordered and not (val['grade_decimal'] == 1 and val['ok'] is True):
                        bad = 'a fully correct (reordered) list of %d items is graded %r / ok=%r' % (n, val['grade_decimal'], val['ok'])
                    if bad:
                        ctx.violation('real SingleListGrader, %d items, %s: %s' % (n, what, bad), case, impl=val)
                    ctx.case(case, nontrivial_key=('longlist', n, label, ordered, what), kind='long-list:' + what)
        # nested unordered ListGrader: the group credits are consolidated too
        k = rng.choice([2, 3])
        if n % k == 0 and 2 <= n // k <= 7:
            m = n // k
            groups = [[words[a * k + b] for b in range(k)] for a in range(m)]
            g = ListGrader(answers=groups, subgraders=ListGrader(subgraders=StringGrader(), ordered=False), grouping=[a + 1 for a in range(m) for _ in range(k)], ordered=False)
            for what, items in [('all correct', words), ('last wrong', words[:-1] + ['zz'])]:
                kind, val = GG.run_impl(lambda: g(None, list(items)))
                ctx.contract_checks += 1
                case = {'monitor': 'long-nested-list', 'n': n, 'group_size': k, 'submission': what}
                if kind == 'out':
                    bad = wf(val, list(items), False, strict_ok=True)
                    if bad:
                        ctx.violation('real nested ListGrader: %s' % bad, case, impl=val)


def debug_isolation(ctx):
    """debug output appears only for graders CONFIGURED with debug=True: objects built with debug off are shared between parents with debug
    on/off, the parents are called (including calls that raise inside the check), and afterwards every object built with debug off is called
    directly; what counts is how the object was constructed, not what its config says at call time"""
    from mitxgraders import StringGrader, FormulaGrader, ListGrader, SingleListGrader, NumericalGrader
    rng = ctx.rng
    for it in range(ctx.scale(40, 400)):
        leafs = [('String', lambda: StringGrader(), 'cat', ['cat', 'dog', '']),
                 ('Formula', lambda: FormulaGrader(variables=['x']), 'x+1', ['x+1', '1+x', 'x+', '((x', 'y', '1/0']),
                 ('Numerical', lambda: NumericalGrader(), '2', ['2', '1+1', 'x', '2+', '']),
                 ('StringMin', lambda: StringGrader(accept_any=True, min_length=3, explain_minimums='err'), 'anything', ['abcd', 'ab', ''])]
        name, mk, ans, inputs = rng.choice(leafs)
        child = mk()                                   # constructed with debug OFF
        shape = rng.choice(['flat', 'nested', 'singlelist'])
        n = rng.randint(2, 3)
        if shape == 'flat':
            parent_dbg = ListGrader(answers=[ans] * n, subgraders=child, ordered=rng.random() < 0.5, debug=True)
            parent_off = ListGrader(answers=[ans] * n, subgraders=child, ordered=rng.random() < 0.5, debug=False)
            objs_off = [('child', child, lambda: rng.choice(inputs), {'expect': ans})]
            mkinp = lambda: [rng.choice(inputs) for _ in range(n)]
        elif shape == 'nested':
            inner = ListGrader(answers=[ans] * 2, subgraders=child, ordered=True)          # debug OFF
            parent_dbg = ListGrader(answers=[[ans, ans]] * n, subgraders=inner, grouping=[g + 1 for g in range(n) for _ in range(2)], ordered=rng.random() < 0.5, debug=True)
            parent_off = ListGrader(answers=[[ans, ans]] * n, subgraders=inner, grouping=[g + 1 for g in range(n) for _ in range(2)], ordered=True, debug=False)
            objs_off = [('child', child, lambda: rng.choice(inputs), {'expect': ans}), ('inner', inner, lambda: [rng.choice(inputs), rng.choice(inputs)], {})]
            mkinp = lambda: [rng.choice(inputs) for _ in range(2 * n)]
        else:
            parent_dbg = SingleListGrader(answers=[ans, ans], subgrader=child, debug=True)
            parent_off = SingleListGrader(answers=[ans, ans], subgrader=child, debug=False)
            objs_off = [('child', child, lambda: rng.choice(inputs), {'expect': ans})]
            mkinp = lambda: ', '.join(rng.choice(inputs) for _ in range(rng.randint(1, 3)))
        history = []
        for step in range(rng.randint(2, 6)):
            which = rng.random()
            inp = mkinp()
            if isinstance(inp, list) and rng.random() < 0.25:
                inp = inp[:-1]                          # wrong number of inputs: the call raises inside check
            par, pdebug = (parent_dbg, True) if which < 0.65 else (parent_off, False)
            kind, val = GG.run_impl(lambda: par(None, inp))
            history.append(('parent debug=%s' % pdebug, inp, 'raised ' + str(val[1]) if kind == 'err' else 'returned'))
            if kind == 'out':
                bad = wf(val, inp, pdebug, strict_ok=True)
                if bad:
                    ctx.violation('parent built with debug=%s: %s' % (pdebug, bad), {'monitor': 'debug-isolation', 'leaf': name, 'shape': shape, 'history': history}, impl=val)
            # every object that was BUILT with debug off must stay silent when called on its own
            for label, obj, mk_in, ekw in objs_off:
                i2 = mk_in()
                k2, v2 = GG.run_impl(lambda: obj(ekw.get('expect') if label == 'child' else None, i2) if label == 'child' else obj([ans, ans], i2))
                ctx.contract_checks += 1
                if k2 == 'out':
                    bad = wf(v2, i2, False, strict_ok=True)
                    if bad:
                        ctx.violation('%s grader built with debug off, called after its parent: %s' % (label, bad),
                                      {'monitor': 'debug-isolation', 'leaf': name, 'shape': shape, 'history': history, 'input': i2}, impl=v2)
            ctx.case({'leaf': name, 'shape': shape, 'history': history[-1:]}, nontrivial_key=('dbgiso', it, step) if kind == 'err' else None, kind='debug-isolation:' + shape)


def debug_registered_defaults(ctx):
    """course-wide registered defaults (docs/plugins.md) on one or two classes of the chain; a debugged grader is built and called; graders built
    afterwards WITHOUT debug must stay silent (and the registered dictionaries must be what was registered)"""
    from mitxgraders import StringGrader, FormulaGrader, ListGrader, NumericalGrader
    from mitxgraders.baseclasses import AbstractGrader, ItemGrader
    rng = ctx.rng
    fam = [('String', StringGrader, [ItemGrader, AbstractGrader], {'case_sensitive': False}, dict(answers='cat'), 'Cat', ['cat', 'dog', 'CAT']),
           ('Formula', FormulaGrader, [ItemGrader, AbstractGrader], {'tolerance': 0.5}, dict(answers='x+1', variables=['x']), 'x+1', ['x+1', 'x+1.2', 'x+', '2']),
           ('Numerical', NumericalGrader, [FormulaGrader, ItemGrader], {'tolerance': 0.5}, dict(answers='2'), '2.1', ['2', '2.2', '7', '1+'])]
    for it in range(ctx.scale(30, 300)):
        name, cls, supers, reg, kw, good, inputs = rng.choice(fam)
        layers = [(cls, dict(reg))]
        if rng.random() < 0.4:
            sup = rng.choice(supers)
            layers.append((sup, {'attempt_based_credit_msg': False} if sup is AbstractGrader else {'wrong_msg': 'registered wrong_msg'}))
        if rng.random() < 0.3:
            layers = layers[1:] or layers
        registered = []
        try:
            for c, dflt in layers:
                c.register_defaults(dflt); registered.append((c, dict(dflt)))
            debugged = cls(debug=True, **kw)
            k0, v0 = GG.run_impl(lambda: debugged(None, good))
            if k0 == 'out' and 'MITx Grading Library Version' not in v0['msg']:
                ctx.violation('grader built with debug=True gives no debug output', {'monitor': 'debug-registered', 'family': name}, impl=v0)
            for step in range(3):
                mode = rng.choice(['plain', 'in-list', 'inferred'])
                inp = rng.choice(inputs)
                try:
                    if mode == 'plain':
                        g = cls(**kw); sub = inp
                        k, v = GG.run_impl(lambda: g(None, inp))
                    elif mode == 'inferred':
                        g = cls(**{a: b for a, b in kw.items() if a != 'answers'}); sub = inp
                        k, v = GG.run_impl(lambda: g(kw['answers'], inp))
                    else:
                        g = ListGrader(answers=[kw['answers']] * 2, subgraders=cls(**{a: b for a, b in kw.items() if a != 'answers'})); sub = [inp, rng.choice(inputs)]
                        k, v = GG.run_impl(lambda: g(None, sub))
                except Exception as exc:      # a valid configuration that constructs on its own must construct after another grader was built
                    ctx.violation('constructing a %s grader (valid configuration, no debug) fails after a debugged grader of the family was built: %s: %s' % (name, type(exc).__name__, str(exc)[:200]),
                                  {'monitor': 'debug-registered', 'family': name, 'registered_on': [c.__name__ for c, _ in registered], 'mode': mode}, impl=type(exc).__name__)
                    continue
                ctx.contract_checks += 1
                case = {'monitor': 'debug-registered', 'family': name, 'registered_on': [c.__name__ for c, _ in registered], 'mode': mode, 'input': sub}
                if g.config['debug'] is not False:
                    ctx.violation('a grader built without debug has config[debug]=%r after an earlier grader was debugged' % (g.config['debug'],), case, impl=repr(g.config['debug']))
                if k == 'out':
                    bad = wf(v, sub, False, strict_ok=True)
                    if bad:
                        ctx.violation('grader built WITHOUT debug after a debugged one (registered defaults in use): %s' % bad, case, impl=v)
                ctx.case(case, nontrivial_key=('dbgreg', name, len(registered), mode, repr(sub)), kind='debug-registered:' + mode)
            for c, dflt in registered:
                if c.default_values != dflt:
                    ctx.violation('registered defaults of %s changed by constructing graders: %r' % (c.__name__, c.default_values), {'monitor': 'debug-registered', 'family': name}, impl=repr(c.default_values))
        finally:
            for c, _ in layers:
                c.clear_registered_defaults()


def part_interval(ctx):
    """IntervalGrader.check_response (brackets graded on top of the two bounds) over a table-driven subgrader for the bounds, vs the model"""
    from mitxgraders import FormulaGrader, IntervalGrader
    from voluptuous import Required, Schema
    rng = ctx.rng

    class TableFormula(FormulaGrader):
        @property
        def schema_config(self):
            return super(TableFormula, self).schema_config.extend({Required('table', default={}): dict})

        @staticmethod
        def validate_expect(expect):
            return Schema(str)(expect)

        def check_response(self, answer, student_input, **kwargs):
            t = self.config['table'].get((answer['expect'], student_input))
            if t is None:
                return {'ok': False, 'grade_decimal': 0, 'msg': ''}
            credit, msg = t
            g = credit * answer['grade_decimal']
            ok = answer['ok'] if credit == 1 else self.grade_decimal_to_ok(g)
            return {'ok': ok, 'grade_decimal': g, 'msg': answer['msg'] if (credit > 0 and msg == '') else msg}

    asks, meta = [], []
    pal = GG.DYAD
    for it in range(ctx.scale(60, 900)):
        tab, tj = GG.gen_table(rng, pal, raises=0.0, inputs=['a', 'b', 'c', 'x', ' a', 'a '], density=0.6)
        sub = TableFormula(table=tab, wrong_msg=rng.choice(['', 'w']))
        opening, closing = rng.choice(['[(', '[(<', '(']), rng.choice(['])', '])>', ')'])

        def br(chars):
            k = rng.randint(1, 2)
            out = []
            for _ in range(k):
                d = {'expect': rng.choice(chars) if rng.random() < 0.7 else tuple(rng.sample(chars, min(len(chars), 2))), 'grade_decimal': rng.choice(pal), 'msg': rng.choice(['', 'bm'])}
                out.append(d)
            return tuple(out) if rng.random() < 0.8 else out[0]['expect'] if isinstance(out[0]['expect'], str) else tuple(out)
        ans = {'expect': [br(opening), rng.choice(['a', 'b', ('a', {'expect': 'b', 'grade_decimal': rng.choice(pal), 'msg': 'alt'})]),
                          rng.choice(['b', 'c', ('b', {'expect': 'a', 'grade_decimal': rng.choice(pal), 'msg': ''})]), br(closing)],
               'grade_decimal': rng.choice([1, 1, Fraction(1, 2)]), 'msg': rng.choice(['', 'overall'])}
        pc = rng.random() < 0.7
        try:
            g = IntervalGrader(answers=ans, subgrader=sub, opening_brackets=opening, closing_brackets=closing, partial_credit=pc)
        except Exception as e:
            ctx.count('interval:config_rejected:' + type(e).__name__); continue
        canon = g.config['answers'][0]
        exp = canon['expect'][0]
        brj = lambda lst: [{'expect': list(x['expect']), 'grade_decimal': frac_to_str(x['grade_decimal']), 'msg': x['msg']} for x in lst]
        itemj = lambda lst: [{'expect': list(x['expect']), 'grade_decimal': frac_to_str(x['grade_decimal']), 'msg': x['msg'], 'ok': x['ok']} for x in lst]
        for _ in range(ctx.scale(8, 12)):
            r = rng.random()
            o = rng.choice(opening) if rng.random() < 0.9 else rng.choice('<{|a')
            c = rng.choice(closing) if rng.random() < 0.9 else rng.choice('>}|b')
            items = [rng.choice(['a', 'b', 'c', 'a', 'b', 'x', ' a', 'a '] + ([''] if rng.random() < 0.15 else [])) for _ in range(rng.choice([2] * 9 + [1, 3]))]
            inp = o + ','.join(items) + c
            if r < 0.15:
                inp = rng.choice(['  ', ' '] ) + inp + rng.choice(['', ' ', '\t'])
            elif r < 0.20:
                inp = rng.choice(['', 'ab', '[a)', '[,]', 'a,b', '[a,b', 'ünï∑x'])
            kind, val = GG.run_impl(lambda: g.check_response(dict(canon, expect=exp), inp))
            case = {'part': 'interval', 'answers': repr(ans), 'opening': opening, 'closing': closing, 'partial_credit': pc, 'input': inp}
            if kind == 'out':
                res = {k2: val[k2] for k2 in ('ok', 'grade_decimal', 'msg')}
                bad = wf_entry(res, strict_ok=True)
                if bad:
                    ctx.violation('IntervalGrader: ' + bad, case, impl=GG.canon_result(res))
                implc = GG.canon_result(res)
            else:
                implc = val
                if val[0] != 'mitx':
                    ctx.violation('IntervalGrader.check_response raised a non-library exception', case, impl=val)
            ctx.case(dict(case, impl=implc), nontrivial_key=('iv', repr(ans), inp) if kind == 'out' and 0 < val['grade_decimal'] < 1 else None, kind='interval:' + (kind if kind == 'err' else 'graded'))
            asks.append({'op': 'interval_check', 'cfg': {'opening': opening, 'closing': closing, 'delimiter': ',', 'partial_credit': pc}, 'tab': tj, 'wrong_msg': sub.config['wrong_msg'],
                         'meta': {'grade_decimal': frac_to_str(canon['grade_decimal']), 'msg': canon['msg'], 'ok': canon['ok']},
                         'open': brj(exp[0]), 'lo': itemj(exp[1]), 'hi': itemj(exp[2]), 'close': brj(exp[3]), 'input': inp})
            meta.append((case, kind, implc))
    if ctx.driver:
        for (case, kind, implc), o in zip(meta, ctx.driver.ask_many(asks)):
            if kind == 'err':
                if o.get('err') != implc:
                    ctx.disagree('IntervalGrader error differs from the model', case, implc, o)
            elif o.get('out') != implc:
                ctx.disagree('IntervalGrader result differs from the model', case, implc, o)


def run(ctx):
    run_model_part(ctx)
    part_interval(ctx)
    monitor(ctx)
    monitor_positions(ctx)
    monitor_long_lists(ctx)
    debug_isolation(ctx)
    debug_registered_defaults(ctx)


def search(ctx):
    drv, ctx.driver = ctx.driver, None
    old = (ctx.tier, ctx.quick)
    ctx.tier, ctx.quick = 'thorough', False
    try:
        run(ctx)
    finally:
        ctx.driver = drv
        ctx.tier, ctx.quick = old


def replay(ctx, data):
    v = data.get('violation') or {}
    if not v.get('case'):
        return {'holds': True, 'note': 'replay file names a broken obligation, no input to re-run', 'broken': data.get('broken')}
    return {'holds': False, 'note': 'replay by seed: VERIF_SEED=%s ./check C01 (cases are regenerated deterministically)' % data.get('seed'), 'case': v['case'], 'what': v['what']}

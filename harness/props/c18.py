"""C18 — StringGrader matches exactly the inputs equal after the configured cleaning."""
import itertools, re
from fractions import Fraction
import gradegen as GG
from common import frac_to_str

ASSUMPTIONS = [
    'the regular-expression engine (re.fullmatch) is a parameter of the model: its verdicts on the cleaned strings are computed in Python and handed to the model',
    'str.lower is modelled for ASCII and Latin-1 letters (the alphabet the generators use); full Unicode case mapping (final sigma, dotted I) is outside the model',
]
EVIDENCE = {
    'rule': 'cases = (16 cleaning-flag combinations, expected string, submission derived from it by whitespace/case/character edits) and (accept_any/accept_nonempty, min_length, min_words, explain_minimums, '
            'validation_pattern, explain_validation, submission); non-trivial = submission differs from the expected string as text and contains whitespace or mixed case, or a pattern that matches only part of the input; distinct by (config, expect, submission)',
}
ALPH = ['a', 'B', 'c', '1', '.', ' ', ' ', '\t', '\r', '\n', '\r\n', '\n\r', 'é', 'É', 'ß', '\xa0', ' ', '-']


def ref_clean(s, f):
    """independent reading of the documented normalisation"""
    # each CRLF, then each remaining LFCR, then every remaining tab/CR/LF is one space (a run such as LF CR LF CR is
    # read as LF, CRLF, CR: the library's documented order)
    s = re.sub(r'\r\n', ' ', s.replace('\t', ' '))
    s = re.sub(r'\n\r', ' ', s)
    s = re.sub(r'[\r\n]', ' ', s)
    if not f['case_sensitive']:
        s = s.lower()
    if f['strip']:
        s = s.strip()
    if f['strip_all']:
        s = s.replace(' ', '')
    if f['clean_spaces']:
        s = re.sub(r' {2,}', ' ', s)
    return s


def structural(s, c, f):
    """facts the cleaned string must satisfy whatever the implementation order"""
    if any(ch in c for ch in '\t\r\n'):
        return 'tab/CR/LF left in the cleaned string'
    ns = lambda t: [ch for ch in t if not ch.isspace()]
    want = ns(s.lower() if not f['case_sensitive'] else s)
    if ns(c) != want:
        return 'a non-whitespace character was dropped or altered'
    if f['strip'] and c != c.strip():
        return 'leading/trailing whitespace left although strip is on'
    if f['strip_all'] and ' ' in c:
        return 'a space left although strip_all is on'
    if f['clean_spaces'] and '  ' in c:
        return 'two adjacent spaces left although clean_spaces is on'
    return None


def rand_string(rng, n=None):
    return ''.join(rng.choice(ALPH) for _ in range(n if n is not None else rng.randint(0, 8)))


def edits(rng, s):
    out = [s, s.upper(), s.lower(), ' ' + s, s + '\t', s + ' \n', '\r\n' + s, s.replace(' ', '  '), s.replace(' ', '\t'), s.replace(' ', ''), s.replace(' ', '\n\r'),
           s.replace('\r\n', '\n'), s.replace('\n\r', ' '), s + '\xa0']
    if s:
        i = rng.randrange(len(s))
        out += [s[:i] + ' ' + s[i:], s[:i] + s[i + 1:], s[:i] + ('x' if s[i] != 'x' else 'y') + s[i + 1:], s[:i] + '\n\r' + s[i:], s[:i] + '\r\n' + s[i:]]
    return out


def cfg_json(g):
    c = g.config
    return {k: c[k] for k in ('case_sensitive', 'strip', 'strip_all', 'clean_spaces', 'accept_any', 'accept_nonempty', 'min_length', 'min_words',
                              'explain_minimums', 'validation_pattern', 'explain_validation', 'invalid_msg', 'debug')}


def run(ctx):
    from mitxgraders import StringGrader
    rng = ctx.rng
    flagsets = [dict(zip(('case_sensitive', 'strip', 'strip_all', 'clean_spaces'), t)) for t in itertools.product([True, False], repeat=4)]
    # ---- (1) clean_input on all 16 flag combinations
    asks, meta = [], []
    for f in flagsets:
        g = StringGrader(**f)
        strs = set()
        for _ in range(ctx.scale(40, 600)):
            base = rand_string(rng)
            for e in edits(rng, base):
                strs.add(e)
        for s in sorted(strs):
            c = g.clean_input(s)
            bad = structural(s, c, f)
            if bad is None and c != ref_clean(s, f):
                bad = 'cleaned string %r differs from the documented normalisation %r' % (c, ref_clean(s, f))
            case = {'part': 'clean', 'flags': f, 's': s}
            if bad:
                ctx.violation(bad, case, impl=c)
            nt = (s != c) and any(ch.isspace() for ch in s)
            ctx.case({'flags': f, 's': s, 'cleaned': c}, nontrivial_key=(tuple(f.values()), s) if nt else None, kind='clean')
            asks.append({'op': 'string_clean', 'cfg': f, 's': s}); meta.append((case, c))
    if ctx.driver:
        for (case, c), o in zip(meta, ctx.driver.ask_many(asks)):
            if o['out'] != c:
                ctx.disagree('clean_input differs from the model', case, c, o['out'])
    # ---- (2) check_response: matching mode
    asks, meta = [], []
    for it in range(ctx.scale(300, 6000)):
        f = rng.choice(flagsets)
        expect = rand_string(rng, rng.randint(1, 6))
        pat = rng.choice([None, None, None, r'[a-zA-Zé ]+', r'a|B', r'a.*', r'(a|B)c?', r'\w+', r'^a', r'a$', r'.*1'])
        ev = rng.choice(['err', 'msg', None])
        dbg = rng.random() < 0.15
        ans = {'expect': expect, 'grade_decimal': rng.choice([1, 1, 0.5, 0]), 'msg': rng.choice(['', 'fb'])}
        try:
            g = StringGrader(answers=ans, validation_pattern=pat, explain_validation=ev, debug=dbg, **f)
        except Exception:
            ctx.count('config_rejected'); continue
        canon = dict(g.config['answers'][0]); canon['expect'] = canon['expect'][0]
        for stu in edits(rng, expect)[:ctx.scale(8, 19)] + [rand_string(rng)]:
            kind, val = GG.run_impl(lambda: g.check_response(canon, stu))
            ce, cs = ref_clean(expect, f), ref_clean(stu, f)
            fe = pat is None or re.fullmatch(pat, ce) is not None
            fs = pat is None or re.fullmatch(pat, cs) is not None
            case = {'part': 'match', 'cfg': cfg_json(g), 'answer': {'expect': expect, 'grade_decimal': frac_to_str(canon['grade_decimal']), 'msg': canon['msg'], 'ok': canon['ok']}, 'student': stu}
            # oracle
            if not fe:
                want = ('err', 'ConfigError')
            elif not fs:
                want = ('err', 'InvalidInput') if ev == 'err' else ('refused', g.config['invalid_msg'] if (ev == 'msg' or dbg) else '')
            elif cs == ce:
                want = ('match',)
            else:
                want = ('nomatch',)
            got = None
            if kind == 'err':
                got = ('err', val[1])
            elif val['grade_decimal'] == canon['grade_decimal'] and val['msg'] == canon['msg'] and val['ok'] == canon['ok'] and want[0] == 'match':
                got = ('match',)
            elif val['grade_decimal'] == 0 and val['ok'] is False:
                got = ('refused', val['msg']) if want[0] == 'refused' else (('nomatch',) if val['msg'] == '' else ('refused', val['msg']))
            else:
                got = ('match',)
            if got != want:
                ctx.violation('expected %r, got %r' % (want, got), case, impl=val if kind == 'err' else GG.canon_result(val))
            nt = stu != expect and (any(ch.isspace() for ch in stu) or stu.lower() != stu) or (pat is not None and fs != (re.match(pat, cs) is not None))
            ctx.case({'cfg': {k: v for k, v in case['cfg'].items() if k in f or k in ('validation_pattern', 'explain_validation')}, 'expect': expect, 'student': stu,
                      'impl': val if kind == 'err' else GG.canon_result(val)}, nontrivial_key=(repr(case['cfg']), expect, stu) if nt else None, kind='match:' + want[0])
            asks.append(dict(op='string_check', cfg=case['cfg'], fm_expect=fe, fm_student=fs, expect=expect, student=stu, **{k: case['answer'][k] for k in ('grade_decimal', 'msg', 'ok')}))
            meta.append((case, kind, val))
    # ---- (3) accept_any / accept_nonempty grids
    for it in range(ctx.scale(200, 4000)):
        f = rng.choice(flagsets)
        mode = rng.choice(['accept_any', 'accept_nonempty', 'both'])
        modekw = {'accept_any': True, 'accept_nonempty': True} if mode == 'both' else {mode: True}
        ml, mw = rng.choice([0, 0, 1, 3, 5]), rng.choice([0, 0, 1, 2, 3])
        em = rng.choice(['err', 'msg', None])
        pat = rng.choice([None, None, r'[a-z ]+', r'a|B c', r'\S+( \S+)*'])
        ev = rng.choice(['err', 'msg', None])
        dbg = rng.random() < 0.15
        g = StringGrader(min_length=ml, min_words=mw, explain_minimums=em, validation_pattern=pat, explain_validation=ev, debug=dbg, **modekw, **f)
        canon = {'expect': '', 'grade_decimal': 1, 'msg': '', 'ok': True}
        eff_ml = 1 if (mode in ('accept_nonempty', 'both') and ml == 0) else ml
        for stu in [rand_string(rng) for _ in range(5)] + ['', ' ', 'a B c', 'a  B', 'aB c\t1', '\xa0']:
            kind, val = GG.run_impl(lambda: g.check_response(canon, stu))
            cs = ref_clean(stu, f)
            fs = pat is None or re.fullmatch(pat, cs) is not None
            case = {'part': 'any', 'cfg': cfg_json(g), 'answer': {'expect': '', 'grade_decimal': '1', 'msg': '', 'ok': True}, 'student': stu}
            if not fs:
                want = ('err', 'InvalidInput') if ev == 'err' else ('refused', g.config['invalid_msg'] if (ev == 'msg' or dbg) else '')
            elif len(cs) >= eff_ml and len(cs.split()) >= mw:
                want = ('accepted',)
            else:
                want = ('err', 'InvalidInput') if em == 'err' else ('refused-min', em == 'msg' or dbg)
            if kind == 'err':
                got = ('err', val[1])
            elif val['grade_decimal'] == 1:
                got = ('accepted',)
            elif want[0] == 'refused-min':
                got = ('refused-min', val['msg'].startswith('Your response is too short')) if (val['msg'] == '' or val['msg'].startswith('Your response is too short')) else ('refused', val['msg'])
            else:
                got = ('refused', val['msg'])
            if got != want:
                ctx.violation('expected %r, got %r' % (want, got), case, impl=val if kind == 'err' else GG.canon_result(val))
            ctx.case({'mode': mode, 'min_length': ml, 'min_words': mw, 'student': stu, 'impl': val if kind == 'err' else GG.canon_result(val)},
                     nontrivial_key=(repr(case['cfg']), stu) if (cs != stu or not fs or want[0] != 'accepted') else None, kind='any:' + want[0])
            asks.append(dict(op='string_check', cfg=case['cfg'], fm_expect=True, fm_student=fs, expect='', student=stu, grade_decimal='1', msg='', ok=True))
            meta.append((case, kind, val))
    if ctx.driver:
        for (case, kind, val), o in zip(meta, ctx.driver.ask_many(asks)):
            if kind == 'err':
                if o.get('err') != val:
                    ctx.disagree('error differs', case, val, o)
            elif 'out' not in o or o['out'] != GG.canon_result(val):
                ctx.disagree('check_response differs from the model', case, GG.canon_result(val), o)
    # ---- (3b) no character is altered, on either side: strings that differ as code-point sequences are different, also when they LOOK alike
    # (combining sequences vs precomposed letters, OHM SIGN vs GREEK OMEGA, ANGSTROM SIGN vs A WITH RING); the configured answer is kept as written
    import unicodedata
    looks = ['e\u0301cole', '\u00e9cole', '\u2126', '\u03a9', '\u212bngstrom', '\u00c5ngstrom', 'A\u030angstrom', 'caf\u00e9', 'cafe\u0301', 'na\u00efve', 'nai\u0308ve', 'x\u00b2', 'x2']
    for expect in looks:
        g = StringGrader(answers=expect)
        for stu in looks + [unicodedata.normalize('NFC', expect), unicodedata.normalize('NFD', expect)]:
            kind, val = GG.run_impl(lambda: g(None, stu))
            want = (stu == expect)
            case = {'part': 'lookalike', 'expect': expect.encode('unicode_escape').decode(), 'student': stu.encode('unicode_escape').decode()}
            ctx.case(case, nontrivial_key=('lookalike', expect, stu), kind='lookalike:' + ('same' if want else 'different'))
            if not (kind == 'out' and (val['ok'] is True) == want):
                ctx.violation('code-point sequences %s but the submission is %s' % ('equal' if want else 'different', 'refused' if want else 'accepted'), case, impl=val if kind == 'err' else GG.canon_result(val))
    # ---- (3c) a grader's wrong_msg stays its own: a silent refusal (explain_* = None) of ANOTHER grader shows nothing
    for opt in ('explain_minimums', 'explain_validation'):
        kw = dict(accept_any=True, min_length=3) if opt == 'explain_minimums' else dict(answers='cat', validation_pattern='[a-z]+')
        bad_in = 'ab' if opt == 'explain_minimums' else 'C4T!'
        first = StringGrader(wrong_msg='message of the FIRST grader', **dict(kw, **{opt: None}))
        GG.run_impl(lambda: first(None, bad_in))
        for second_kw in ({}, {'wrong_msg': 'second'}):
            second = StringGrader(**dict(kw, **{opt: None}), **second_kw)
            kind, val = GG.run_impl(lambda: second(None, bad_in))
            want_msg = second_kw.get('wrong_msg', '')
            case = {'part': 'silent-refusal', 'option': opt, 'second_wrong_msg': want_msg}
            ctx.case(case, nontrivial_key=('silent', opt, want_msg), kind='silent-refusal')
            if not (kind == 'out' and val['ok'] is False and val['msg'] == want_msg):
                ctx.violation('a silent refusal shows %r instead of the grader\'s own wrong_msg %r (another grader was used before)' % (val['msg'] if kind == 'out' else val, want_msg), case, impl=val if kind == 'err' else GG.canon_result(val))
    # ---- (4) through the whole grader: expect=None in accept_any mode
    g = StringGrader(accept_any=True)
    k, v = GG.run_impl(lambda: g(None, 'anything'))
    if not (k == 'out' and v['ok'] is True):
        ctx.violation('accept_any grader with expect=None does not accept', {'part': 'call'}, impl=v)


def search(ctx):
    drv, ctx.driver = ctx.driver, None
    old = (ctx.tier, ctx.quick)
    ctx.tier, ctx.quick = 'thorough', False
    try:
        run(ctx)
    finally:
        ctx.driver = drv
        ctx.tier, ctx.quick = old


def replay(ctx, data):
    from mitxgraders import StringGrader
    v = data.get('violation') or {}
    case = v.get('case')
    if not case:
        return {'holds': True, 'note': 'replay file names a broken obligation, no input to re-run', 'broken': data.get('broken')}
    if case.get('part') == 'clean':
        g = StringGrader(**case['flags'])
        c = g.clean_input(case['s'])
        bad = structural(case['s'], c, case['flags']) or (None if c == ref_clean(case['s'], case['flags']) else 'differs from documented normalisation')
        return {'holds': bad is None, 'impl': c, 'why': bad}
    return {'holds': False, 'note': 'replay by seed: VERIF_SEED=%s ./check C18' % data.get('seed'), 'case': case, 'what': v.get('what')}

"""C11 — a grader's verdict depends only on its configuration and the current call.
(1) call histories on item graders vs fresh instances (oracle) and vs the Lean call state machine instantiated with
outcome tables measured on fresh graders; (2) snapshot checks: author config objects, evaluator scopes, class-level
defaults and process-wide settings are unchanged by construction and grading."""
import copy
import json, itertools, re
import gradegen as GG
from common import with_alarm, Timeout

ASSUMPTIONS = [
    'the state machine is parametrised by outcome tables (validate / grade / text check) that are measured on freshly constructed graders in this run',
    'math graders draw random samples: outcomes are compared as verdicts (ok, grade, message class), debug logs as the lines naming the student input and the inferred expect value',
    'aliasing clauses (author config objects, scopes, class-level defaults, MathArray negative-power switch, numpy error state) are snapshot-compared per case, not proved',
]
EVIDENCE = {
    'rule': 'cases = call histories over (expect in {absent, valid A, valid B, invalid}) x (input in {right for A, right for B, wrong, malformed, non-text}) per grader class, configured/unconfigured answers, debug on/off; '
            'non-trivial = history with a raising call followed by a returning call whose expect differs or is absent; distinct by (class, options, history)',
}

NONTEXT = object()


def classes():
    from mitxgraders import StringGrader, SingleListGrader, FormulaGrader, NumericalGrader, MatrixGrader, IntervalGrader
    from mitxgraders.comparers import LinearComparer
    T = GG.table_grader_class()
    tab = {('a', 'a'): (1, ''), ('b', 'b'): (1, 'bee'), ('a', 'b'): (0.5, 'half'), ('a', 'boom'): ValueError('boom')}
    return [
        ('String', lambda **kw: StringGrader(**kw), 'cat', 'dog', ['zzz'], ['cat', 'dog', 'bird', 'ca\tt']),
        ('StringPattern', lambda **kw: StringGrader(validation_pattern='[a-z]+', **kw), 'cat', 'dog', 'CAT', ['cat', 'dog', 'bird', 'c4t']),
        ('Table', lambda **kw: T(table=tab, **kw), 'a', 'b', ['a'], ['a', 'b', 'x', 'boom']),
        ('SingleList', lambda **kw: SingleListGrader(subgrader=StringGrader(), **kw), 'a,b', 'c,d,e', 'a,,b', ['a,b', 'c,d,e', 'b,a', 'a,,b', 'x']),
        ('Formula', lambda **kw: FormulaGrader(variables=['x'], **kw), 'x+1', '2*x', 'x+', ['x+1', '2*x', 'x', '1+', 'y']),
        ('Numerical', lambda **kw: NumericalGrader(**kw), '2', '3', 'x', ['2', '3', '4', '1/0']),
        ('Matrix', lambda **kw: MatrixGrader(**kw), '[1,2]', '[3,4]', '[1,', ['[1,2]', '[3,4]', '[1,2,3]', '[1,']),
        ('Interval', lambda **kw: IntervalGrader(**kw), '[1,2)', '(0,5]', '[1,2', ['[1,2)', '(0,5]', '[1,3)', '1,2']),
        # answers always configured (a comparer object cannot come through expect): same grader object, zero then proportional submissions
        ('FormulaLinear', lambda **kw: FormulaGrader(**dict(kw, answers={'comparer': LinearComparer(proportional=0.5, offset=0.25), 'comparer_params': ['x+1']}, variables=['x'])),
         'x+1', 'x+2', 'x+', ['x+1', '2*x+2', 'x+3', '0', '0*x', '3*x+7']),
    ]


def canon(kind, val, debug):
    if kind == 'err':
        fam, cls, msg = val
        return json.dumps(['err', fam, cls, re.sub(r'\s+', ' ', msg)[:200]])
    if 'input_list' in val:
        return json.dumps(['outlist', val.get('overall_message', '')[:100], [[e['ok'], round(float(e['grade_decimal']), 9), e['msg'][:100]] for e in val['input_list']]])
    msg = val['msg']
    log = None
    if '<pre>' in msg:
        msg, _, rest = msg.partition('<pre>')
        lines = [l.replace('<br/>', '').replace('</pre>', '').strip() for l in rest.split('\n')]
        log = []
        for i, l in enumerate(lines):
            if l.startswith('Student Response'):
                log.append('input:' + (lines[i + 1] if i + 1 < len(lines) else ''))
            if l.startswith('Expect value inferred to be'):
                log.append('inferred:' + l[len('Expect value inferred to be'):].strip())
    return json.dumps(['out', val['ok'], round(float(val['grade_decimal']), 9), msg.replace('<br/>', '').strip()[:200], log])


def do_call(g, e, i, debug):
    inp = 5 if i is NONTEXT else i
    kind, val = GG.run_impl(lambda: g(e, inp))
    return canon(kind, val, debug)


def istr(i):
    return '<non-text>' if i is NONTEXT else i


def run(ctx):
    import numpy as np
    rng = ctx.rng
    for name, mk, eA, eB, eBad, inputs in classes():
        for configured, debug in itertools.product([False, True], [False, True]):
            if name == 'FormulaLinear':
                if not configured:
                    continue          # its answers are always configured (see classes())
                kwc = {}
            elif configured:
                kwc = {'answers': eA}
            else:
                kwc = {}
            mkg = lambda: mk(debug=debug, **kwc)
            try:
                mkg()
            except Exception as ex:
                ctx.count('config_rejected'); continue
            expects = [None, eA, eB, eBad]
            ins = list(inputs) + [NONTEXT]
            events = [(e, i) for e in expects for i in ins]
            # ---- outcome tables from fresh graders (model parameters) and validity of each expect value
            fresh_out = {}
            for e, i in events:
                np.random.seed(1)
                fresh_out[(json.dumps(e), istr(i))] = do_call(mkg(), e, i, debug)
            valid = {}
            for e in expects[1:]:
                g = mkg()
                try:
                    g(e, inputs[0])
                except Exception:
                    pass
                valid[json.dumps(e)] = bool(getattr(g, 'inferring_answers', False)) if not configured else False
            L = ctx.scale(2, 3)
            seqs = list(itertools.product(range(len(events)), repeat=L))
            if len(seqs) > ctx.scale(150, 6000):
                rng.shuffle(seqs); seqs = seqs[:ctx.scale(150, 6000)]
            extra = [tuple(rng.randrange(len(events)) for _ in range(rng.randint(3, ctx.scale(5, 9)))) for _ in range(ctx.scale(70, 1500))]
            asks, meta = [], []
            for seq in seqs + extra:
                g = mkg()
                outs = []
                lastgood = None
                raised_then_ok = False
                saw_raise = False
                for idx in seq:
                    e, i = events[idx]
                    np.random.seed(1)
                    o = do_call(g, e, i, debug)
                    outs.append(o)
                    # oracle: a fresh grader given the current expect, or the last successfully supplied one
                    eff = e if (e is not None or configured) else lastgood
                    if configured:
                        eff = None
                    want = fresh_out[(json.dumps(eff), istr(i))]
                    if e is not None and not configured and valid[json.dumps(e)]:
                        lastgood = e
                    # the log of a fresh call with an explicit expect mentions that expect; drop the inferred line when the current call gave none
                    if e is None and eff is not None:
                        w = json.loads(want)
                        if w[0] == 'out' and w[4] is not None:
                            w[4] = [x for x in w[4] if not x.startswith('inferred:')]
                        want = json.dumps(w)
                    if o != want:
                        ctx.violation('call outcome differs from a freshly constructed grader',
                                      {'class': name, 'configured': configured, 'debug': debug, 'history': [[events[k][0], istr(events[k][1])] for k in seq[:len(outs)]]},
                                      impl=o, expected=want)
                        break
                    if json.loads(o)[0] == 'err':
                        saw_raise = True
                    elif saw_raise:
                        raised_then_ok = True
                hist = [[events[k][0], istr(events[k][1])] for k in seq]
                ctx.case({'class': name, 'configured': configured, 'debug': debug, 'history': hist, 'outcomes': [o[:80] for o in outs]},
                         nontrivial_key=(name, configured, debug, tuple(seq)) if raised_then_ok else None, kind='hist:' + name)
                # model request
                if len(outs) == len(seq):
                    q = {'op': 'call_hist', 'configured': (json.dumps(eA) if configured else None),
                         'valid': [[k, v] for k, v in valid.items()],
                         'err_validate': [[json.dumps(e), fresh_out[(json.dumps(e), istr(inputs[0]))]] for e in expects[1:]],
                         'text_ok': [[istr(i), i is not NONTEXT] for i in ins],
                         'err_text': [[istr(NONTEXT), fresh_out[(json.dumps(eA if not configured else None), istr(NONTEXT))]]],
                         'grade': [[json.dumps(e), istr(i), strip_inferred(fresh_out[(json.dumps(e if not configured else None), istr(i))])] for e in expects[1:] for i in ins],
                         'grade_none': [[istr(i), fresh_out[(json.dumps(None), istr(i))]] for i in ins],
                         'calls': [[json.dumps(events[k][0]) if events[k][0] is not None else None, istr(events[k][1])] for k in seq]}
                    asks.append(q); meta.append((hist, outs, name, configured, debug))
            if ctx.driver:
                for (hist, outs, nm, cf, db), o in zip(meta, ctx.driver.ask_many(asks)):
                    for k, (mine, mo) in enumerate(zip(outs, o['out'])):
                        if strip_inferred(mine) != mo['out']:
                            ctx.disagree('call %d of the history differs from the state-machine model' % k, {'class': nm, 'configured': cf, 'debug': db, 'history': hist}, mine, mo)
                            break
    snapshots(ctx)
    identity_part(ctx)
    registered_defaults(ctx)


def strip_inferred(o):
    w = json.loads(o)
    if w[0] == 'out' and w[4] is not None:
        w[4] = [x for x in w[4] if not x.startswith('inferred:')]
    return json.dumps(w)


def snapshot_globals():
    import numpy as np
    from mitxgraders.helpers.calc import mathfuncs, math_array
    from mitxgraders.helpers.math_helpers import MathMixin
    from mitxgraders.baseclasses import ObjectWithSchema
    from mitxgraders import FormulaGrader, MatrixGrader, NumericalGrader, StringGrader, ListGrader, SingleListGrader
    snap = {
        'DEFAULT_VARIABLES': {k: repr(v) for k, v in mathfuncs.DEFAULT_VARIABLES.items()},
        'DEFAULT_FUNCTIONS': {k: id(v) for k, v in mathfuncs.DEFAULT_FUNCTIONS.items()},
        'DEFAULT_SUFFIXES': dict(mathfuncs.DEFAULT_SUFFIXES),
        'METRIC_SUFFIXES': dict(mathfuncs.METRIC_SUFFIXES),
        'negative_powers': math_array.MathArray._negative_powers,
        'geterr': dict(np.geterr()),
    }
    for cls in (MathMixin, FormulaGrader, MatrixGrader, NumericalGrader):
        snap[cls.__name__ + '.default_variables'] = {k: repr(v) for k, v in cls.default_variables.items()}
        snap[cls.__name__ + '.default_functions'] = {k: id(v) for k, v in cls.default_functions.items()}
        snap[cls.__name__ + '.default_suffixes'] = dict(cls.default_suffixes)
    for cls in (FormulaGrader, MatrixGrader, NumericalGrader, StringGrader, ListGrader, SingleListGrader):
        snap[cls.__name__ + '.default_values'] = copy.deepcopy(getattr(cls, 'default_values', None))
    return snap


def deep_repr(x):
    """structural fingerprint of author config objects (functions by identity)"""
    if isinstance(x, dict):
        return {repr(k): deep_repr(v) for k, v in x.items()}
    if isinstance(x, (list, tuple)):
        return [type(x).__name__] + [deep_repr(v) for v in x]
    if callable(x) and not hasattr(x, 'config'):
        return ('callable', id(x))
    if hasattr(x, 'config'):
        return ('obj', type(x).__name__, id(x), deep_repr(x.config))
    return repr(x)


def snapshots(ctx):
    from mitxgraders import (StringGrader, FormulaGrader, NumericalGrader, MatrixGrader, SingleListGrader, ListGrader, IntervalGrader,
                             RealInterval, SumGrader)
    rng = ctx.rng
    base = snapshot_globals()
    f_user = lambda x: x * x
    scen = []
    scen.append(('String', StringGrader, {'answers': ('cat', {'expect': 'dog', 'grade_decimal': 0.5})}, ['cat', 'dog', 'x']))
    scen.append(('Formula', FormulaGrader, {'answers': ('x+f(1)', {'expect': '2*x', 'grade_decimal': 0.5}), 'variables': ['x'], 'user_functions': {'f': f_user},
                                           'user_constants': {'c': 3.0}, 'sample_from': {'x': [1, 2]}, 'metric_suffixes': True}, ['x+1', '2*x', 'x+', '1k*x', 'f(x)']))
    scen.append(('FormulaNoSuffix', FormulaGrader, {'answers': '2*x', 'variables': ['x']}, ['2*x', '2*x+0k', '1k']))
    scen.append(('Matrix', MatrixGrader, {'answers': '[[1,2],[3,4]]', 'negative_powers': False, 'user_constants': {'A': None}}, ['[[1,2],[3,4]]', '[[1,2],[3,4]]^-1', '[[1,2],[3,4]]^2', '[1,', '1/0']))
    scen.append(('SingleListTuple', SingleListGrader, {'answers': (['a', 'b'], ['c', 'd']), 'subgrader': StringGrader()}, ['a,b', 'c,d', 'x']))
    scen.append(('ListTuple', ListGrader, {'answers': (['a', 'b'], ['c', 'd']), 'subgraders': StringGrader()}, [['a', 'b'], ['d', 'c'], ['x', 'y']]))
    scen.append(('ListMatrix', ListGrader, {'answers': (['[1,2]', '[3,4]'], ['[5,6]', '[7,8]']), 'subgraders': MatrixGrader(entry_partial_credit='proportional')}, [['[1,2]', '[3,4]'], ['[1,0]', '[3,4]']]))
    scen.append(('ListMatrixPlain', ListGrader, {'answers': (['[1,2]', '[3,4]'], ['[5,6]', '[7,8]']), 'subgraders': MatrixGrader()}, [['[1,2]', '[3,4]'], ['[1,0]', '[3,4]']]))
    scen.append(('Interval', IntervalGrader, {'answers': '[1,2)'}, ['[1,2)', '(1,2)', 'x']))
    # debugged parents: the subgrader OBJECTS inside the author's configuration (and their configurations) must come out unchanged
    scen.append(('ListDebug', ListGrader, {'answers': ['a', 'b'], 'subgraders': StringGrader(), 'debug': True}, [['a', 'b'], ['b', 'x'], ['a']]))
    scen.append(('ListDebugSubs', ListGrader, {'answers': ['a', '2'], 'subgraders': [StringGrader(), NumericalGrader()], 'ordered': True, 'debug': True}, [['a', '2'], ['b', '1+'], ['a', '3']]))
    scen.append(('NestedDebug', ListGrader, {'answers': [['a', 'b'], ['c', 'd']], 'subgraders': ListGrader(subgraders=StringGrader(), ordered=True), 'grouping': [1, 1, 2, 2], 'debug': True},
                 [['a', 'b', 'c', 'd'], ['c', 'd', 'a', 'x']]))
    scen.append(('SingleListDebug', SingleListGrader, {'answers': ['a', 'b'], 'subgrader': StringGrader(), 'debug': True}, ['a,b', 'b', 'a,b,c']))
    for rep in range(ctx.scale(2, 10)):
        order = list(range(len(scen))); rng.shuffle(order)
        for k in order:
            name, cls, cfg, inputs = scen[k]
            before = deep_repr(cfg)
            reference = None
            for form in ('dict', 'kwargs', 'dict'):
                try:
                    g = cls(cfg) if form == 'dict' else cls(**cfg)
                except Exception as e:
                    ctx.violation('construction from an unchanged configuration now fails: %s' % e, {'scenario': name, 'form': form}); break
                outs = []
                for inp in inputs:
                    kind, val = GG.run_impl(lambda: g(None, inp))
                    outs.append(canon(kind, val, False))
                ctx.contract_checks += 1
                shared = set(mutable_containers(cfg)) & set(mutable_containers(g.config))
                if shared:
                    ctx.violation("the grader's configuration shares a mutable object with the author's configuration object", {'scenario': name, 'form': form},
                                  impl=[repr(mutable_containers(cfg)[i])[:80] for i in shared])
                    break
                if deep_repr(cfg) != before:
                    ctx.violation("construction or grading altered the author's configuration object", {'scenario': name, 'form': form}, impl=deep_repr(cfg), expected=before)
                    break
                if reference is None:
                    reference = outs
                elif outs != reference:
                    ctx.violation('a grader built again from the same configuration object grades differently', {'scenario': name, 'form': form}, impl=outs, expected=reference)
                    break
                now = snapshot_globals()
                if now != base:
                    diff = [k2 for k2 in base if base[k2] != now.get(k2)]
                    ctx.violation('process-wide / class-level state changed: %s' % diff, {'scenario': name, 'form': form}, impl={d: now[d] for d in diff}, expected={d: base[d] for d in diff})
                    base = now
            ctx.case({'scenario': name}, nontrivial_key=('snap', name, rep), kind='snapshot')
    # ---- other grader instances and the process-wide parser are not affected by what one grader did
    probes = [
        ('MatrixSuppressedPlain', lambda: MatrixGrader(answers='[1,2]', suppress_matrix_messages=True), ['[1,2,3]', '[1,2]+[1,2,3]', '5', '[1,2]']),
        ('MatrixSuppressedOwnMsg', lambda: MatrixGrader(answers='[1,2]', suppress_matrix_messages=True, wrong_msg='own message'), ['[1,2,3]', '5']),
        ('FormulaPlain', lambda: FormulaGrader(answers='2*x', variables=['x']), ['2*x', 'x*2', 'x+x']),
        ('StringSilentMin', lambda: StringGrader(accept_any=True, min_length=3, explain_minimums=None), ['ab', 'abcd', '']),
        ('StringSilentPattern', lambda: StringGrader(answers='cat', validation_pattern='[a-z]+', explain_validation=None), ['C4T', 'cat', 'dog']),
        ('StringSilentOwnMsg', lambda: StringGrader(accept_any=True, min_length=3, explain_minimums=None, wrong_msg='own message'), ['ab', 'abcd']),
    ]
    baseline = {nm: [canon(*GG.run_impl(lambda: mkp()(None, i)), False) for i in ins] for nm, mkp, ins in probes}
    disturbers = [
        lambda k: MatrixGrader(answers='[1,2]', suppress_matrix_messages=True, wrong_msg='message of ANOTHER grader')(None, '[1,2,3]'),
        lambda k: FormulaGrader(answers='qq+1', variables=['qq', 'hh'], user_functions={'hh': f_user})(None, 'qq + hh(1) + ' + '(' * 90 + '1' + ')' * 90),
        lambda k: FormulaGrader(answers='x', variables=['x'], metric_suffixes=True)(None, 'x+0k'),
        lambda k: FormulaGrader(answers='x', variables=['x'])(None, 'sin(a)+2k*(b'),
        lambda k: StringGrader(accept_any=True, min_length=5, explain_minimums=None, wrong_msg='message of ANOTHER string grader')(None, 'ab'),
        lambda k: StringGrader(answers='dog', validation_pattern='[a-z]+', explain_validation=None, wrong_msg='message of ANOTHER string grader (pattern)')(None, 'D0G'),
    ]
    for k in range(ctx.scale(6, 40)):
        for di, dist in enumerate(disturbers):
            try:
                dist(k)
            except Exception:
                pass
            # a formula never parsed before in this process (the parser cache is process-wide)
            uniq = 'x*2+0*%d%d%d' % (ctx.seed, k, di)
            kind, val = GG.run_impl(lambda: FormulaGrader(answers='2*x', variables=['x'])(None, uniq))
            ctx.contract_checks += 1
            if not (kind == 'out' and val['ok'] is True):
                ctx.violation('a grader call was influenced by what another grader did before (fresh formula %r no longer graded correct)' % uniq,
                              {'scenario': 'cross-instance', 'disturber': di}, impl=val)
            for nm, mkp, ins in probes:
                now = [canon(*GG.run_impl(lambda: mkp()(None, i)), False) for i in ins]
                if now != baseline[nm]:
                    ctx.violation('a fresh %s grader grades differently after another grader was used' % nm, {'scenario': 'cross-instance', 'disturber': di}, impl=now, expected=baseline[nm])
                    baseline[nm] = now
        ctx.case({'scenario': 'cross-instance', 'round': k}, nontrivial_key=('cross', k), kind='cross-instance')
    # a comparer may hand back the SAME dictionary object every time (a module-level constant of the author's): it must not be changed, and the
    # verdict must be the same at every call and for a fresh grader
    shared_res = {'grade_decimal': 0.4, 'msg': 'close enough'}
    before_shared = dict(shared_res)
    def const_comparer(comparer_params_eval, student_eval, utils):
        return shared_res
    for credit in (1, 0.5):
        first = None
        for rep in range(4):
            g = FormulaGrader(answers={'expect': {'comparer': const_comparer, 'comparer_params': ['x']}, 'grade_decimal': credit}, variables=['x']) if rep % 2 == 0 else g
            kind, val = GG.run_impl(lambda: g(None, 'x + 1'))
            ctx.contract_checks += 1
            out = canon(kind, val, False)
            if first is None:
                first = out
            elif out != first:
                ctx.violation('the same submission is graded differently at a later call (a comparer returned the same result object again)', {'scenario': 'shared-comparer-result', 'answer_credit': credit, 'call': rep}, impl=out, expected=first)
                break
            if shared_res != before_shared:
                ctx.violation("the dictionary returned by the author's comparer was changed by the grader", {'scenario': 'shared-comparer-result', 'answer_credit': credit}, impl=dict(shared_res), expected=before_shared)
                shared_res.clear(); shared_res.update(before_shared)
                break
        ctx.case({'scenario': 'shared-comparer-result', 'credit': credit}, nontrivial_key=('shared-comparer', credit), kind='snapshot')
    # the host process's own numpy error settings survive grader calls (the library installs its handler at import, not at every evaluation)
    import numpy as _np
    saved_err, saved_call = _np.geterr(), _np.geterrcall()
    try:
        host_call = lambda *a: None
        _np.seterr(divide='warn', over='ignore', invalid='warn'); _np.seterrcall(host_call)
        host = (dict(_np.geterr()), _np.geterrcall())
        for mkg, inp in [(lambda: FormulaGrader(answers='x+1', variables=['x']), 'x+1'), (lambda: NumericalGrader(answers='2'), '1+1'), (lambda: MatrixGrader(answers='[1,2]'), '[1,2]'),
                         (lambda: FormulaGrader(answers='sqrt(x)', variables=['x']), 'x^0.5')]:
            GG.run_impl(lambda: mkg()(None, inp))
            ctx.contract_checks += 1
            now = (dict(_np.geterr()), _np.geterrcall())
            if now != host:
                ctx.violation("a grader call replaced the host process's numpy error settings", {'scenario': 'host-numpy-settings', 'input': inp}, impl=repr(now)[:200], expected=repr(host)[:200])
                break
        ctx.case({'scenario': 'host-numpy-settings'}, nontrivial_key=('host-np',), kind='snapshot')
    finally:
        _np.seterr(**saved_err); _np.seterrcall(saved_call)
    # evaluator scopes are not mutated
    from mitxgraders.helpers.calc.expressions import evaluator
    import numpy as np
    vs, fs, sf = {'x': 2.0, 'y': 3.0}, {'f': f_user}, {'k': 1000.0}
    b = (dict(vs), dict(fs), dict(sf))
    for s in ['x+y', 'f(x)*2k', 'z', 'f(', '[x,y]*2', 'x^y']:
        try:
            evaluator(s, variables=vs, functions=fs, suffixes=sf, max_array_dim=1)
        except Exception:
            pass
        if (vs, fs, sf) != b:
            ctx.violation('evaluator mutated the scope handed to it', {'s': s})


def registered_defaults(ctx):
    """course-wide defaults (register_defaults, docs/plugins.md) on one to three classes of a grader's chain: constructing graders with explicit options never
    writes into the registered dictionaries, later graders get exactly schema defaults < superclass defaults < subclass defaults < explicit options"""
    from mitxgraders import StringGrader, FormulaGrader, NumericalGrader, MatrixGrader, ListGrader, SingleListGrader
    from mitxgraders.baseclasses import AbstractGrader, ItemGrader
    rng = ctx.rng
    chains = [
        (StringGrader, [StringGrader, ItemGrader, AbstractGrader], dict(answers='cat'), ['cat', 'Cat', 'dog']),
        (FormulaGrader, [FormulaGrader, ItemGrader, AbstractGrader], dict(answers='x+1', variables=['x']), ['x+1', 'x+1.3', 'x']),
        (NumericalGrader, [NumericalGrader, FormulaGrader, ItemGrader, AbstractGrader], dict(answers='2'), ['2', '2.3', '3']),
        (MatrixGrader, [MatrixGrader, FormulaGrader, ItemGrader], dict(answers='[1,2]'), ['[1,2]', '[1,2.3]', '[1,3]']),
        (SingleListGrader, [SingleListGrader, ItemGrader, AbstractGrader], dict(answers=['a', 'b'], subgrader=StringGrader()), ['a,b', 'b,a', 'a']),
    ]
    options = {'StringGrader': [{'case_sensitive': False}, {'strip': False, 'wrong_msg': 'S'}], 'FormulaGrader': [{'tolerance': 0.5}, {'tolerance': 0.3, 'wrong_msg': 'F'}],
               'NumericalGrader': [{'tolerance': 0.4}, {'wrong_msg': 'N'}], 'MatrixGrader': [{'tolerance': 0.5}, {'max_array_dim': 2}], 'SingleListGrader': [{'ordered': True}, {'wrong_msg': 'SL'}],
               'ItemGrader': [{'wrong_msg': 'I'}], 'AbstractGrader': [{'attempt_based_credit_msg': False}, {'suppress_warnings': True}]}
    explicit_pool = [dict(debug=True), dict(wrong_msg='explicit'), dict(debug=True, wrong_msg='explicit'), dict(suppress_warnings=True), {}]
    for it in range(ctx.scale(40, 400)):
        cls, chain, kw, inputs = rng.choice(chains)
        layers = [(c, dict(rng.choice(options[c.__name__]))) for c in rng.sample(chain, rng.randint(1, min(3, len(chain))))]
        layers.sort(key=lambda cd: chain.index(cd[0]))            # most specific class first
        case = {'scenario': 'registered-defaults', 'class': cls.__name__, 'registered': [[c.__name__, d] for c, d in layers]}
        try:
            plain = cls(**kw)                                          # before anything is registered: the schema defaults
            for c, d in layers:
                c.register_defaults(d)
            held = [(c, c.default_values, copy.deepcopy(c.default_values)) for c, _ in layers]
            expected = dict(plain.config)
            for c, d in reversed(layers):                              # superclass first, subclass on top
                expected.update(d)
            history = []
            # ---- correspondence with the object-identity model Rd.applyDefaults: the method itself, on a history of calls
            from mitxgraders.baseclasses import ObjectWithSchema
            walk, k_ = [type(plain)], type(plain)
            while k_ is not ObjectWithSchema:
                k_ = k_.__bases__[0]; walk.append(k_)
            regs = {}                                                   # python id -> (model id, dict object)
            for k_ in walk:
                if k_.default_values is not None and id(k_.default_values) not in regs:
                    regs[id(k_.default_values)] = (len(regs), k_.default_values)
            jd = lambda dct: [[str(a), json.dumps(b, sort_keys=True, default=repr)] for a, b in dct.items()]
            chain_ids = [None if k_.default_values is None else regs[id(k_.default_values)][0] for k_ in walk]
            cells_before = [[mid, jd(obj)] for mid, obj in regs.values()]
            mcalls, impl_outs = [], []
            for _ in range(rng.randint(1, 4)):
                ex = dict(rng.choice(explicit_pool), **rng.choice([{}, {'case_sensitive': True}, {'tolerance': 0.25}, {'wrong_msg': 'w2', 'zzz_unknown': [1, 2]}]))
                out = plain.apply_registered_defaults(ex)
                mcalls.append([chain_ids, jd(ex)])
                impl_outs.append((jd(out), [mid for mid, obj in regs.values() if out is obj], out is ex))
            if ctx.driver:
                o = ctx.driver.ask_many([{'op': 'defaults_hist', 'cells': cells_before, 'next': len(regs), 'calls': mcalls}])[0]
                mcase = dict(case, calls=mcalls)
                if 'out' not in o:
                    ctx.disagree('defaults model error', mcase, None, o)
                else:
                    if [a for a, _, _ in impl_outs] != [m[1] for m in o['out']]:
                        ctx.disagree('apply_registered_defaults: contents/order differ from the model', mcase, [a for a, _, _ in impl_outs], [m[1] for m in o['out']])
                    if any(al or same for _, al, same in impl_outs):
                        ctx.disagree('apply_registered_defaults returned an existing dictionary object (the model allocates a new one)', mcase, [(al, same) for _, al, same in impl_outs], 'fresh')
                    if [[mid, jd(obj)] for mid, obj in regs.values()] != o['cells']:
                        ctx.disagree('registered dictionaries after the calls differ from the model (which never writes to them)', mcase, [[mid, jd(obj)] for mid, obj in regs.values()], o['cells'])
                ctx.count('registered-defaults:model histories')
            for step in range(rng.randint(2, 5)):
                ex = dict(rng.choice(explicit_pool))
                try:
                    g = cls(**dict(kw, **ex))
                except Exception as e:
                    ctx.violation('constructing a grader with valid explicit options fails while defaults are registered: %s: %s' % (type(e).__name__, str(e)[:150]), dict(case, history=history, explicit=ex))
                    break
                history.append(ex)
                for i in inputs:
                    GG.run_impl(lambda: g(None, i))
                ctx.contract_checks += 1
                want = dict(expected, **ex)
                plainval = lambda v: v is None or isinstance(v, (str, bool, int, float))        # options holding objects (samplers, subgraders, answers) are rebuilt per grader
                want = {k: v for k, v in want.items() if plainval(v)}
                got = {k: g.config[k] for k in want}
                if deep_repr(got) != deep_repr(want):
                    diff = [k for k in want if deep_repr(want[k]) != deep_repr(got.get(k))]
                    ctx.violation('configuration is not schema defaults < registered defaults (superclass, then subclass) < explicit options; differing keys %s' % diff,
                                  dict(case, history=history), impl={k: repr(got.get(k)) for k in diff}, expected={k: repr(want[k]) for k in diff})
                    break
                for c, obj, val in held:
                    if c.default_values is not obj or c.default_values != val:
                        ctx.violation('the registered defaults of %s were altered by constructing/using a grader' % c.__name__, dict(case, history=history), impl=repr(c.default_values), expected=repr(val))
                        break
                shared = [c.__name__ for c, obj, _ in held if g.config is obj or any(v is obj for v in g.config.values())]
                if shared:
                    ctx.violation("a grader's configuration IS the registered defaults dictionary of %s" % shared, dict(case, history=history))
            ctx.case(case, nontrivial_key=('regdef', cls.__name__, repr(case['registered']), it), kind='registered-defaults:%d' % len(layers))
        finally:
            for c in chain:
                c.clear_registered_defaults()


# ---------------------------------------------------------------- object identity: coerce2unicode and the negative-power switch
class Opaque(object):
    pass


def gen_obj(rng, depth):
    r = rng.random()
    if depth <= 0 or r < 0.3:
        return rng.choice(['a', 'b', 'x+1', '', 'ünï']) if rng.random() < 0.8 else Opaque()
    k = rng.randint(0, 3)
    if r < 0.55:
        return [gen_obj(rng, depth - 1) for _ in range(k)]
    if r < 0.8:
        return tuple(gen_obj(rng, depth - 1) for _ in range(k))
    return {'k%d' % i: gen_obj(rng, depth - 1) for i in range(k)}


def pv_json(x, ids, fresh_base=None, counter=None):
    """value with identities: containers already in `ids` keep their number; others are numbered fresh_base, fresh_base+1, ... in preorder"""
    def num(o):
        if id(o) not in ids:
            if fresh_base is None:
                ids[id(o)] = len(ids)
            else:
                ids[id(o)] = fresh_base + counter[0]; counter[0] += 1
        return ids[id(o)]
    if isinstance(x, str):
        return ['atom', x]
    if isinstance(x, list):
        n = num(x)
        return ['list', n, [pv_json(i, ids, fresh_base, counter) for i in x]]
    if isinstance(x, dict):
        n = num(x)
        return ['dict', n, [[k, pv_json(v, ids, fresh_base, counter)] for k, v in x.items()]]
    if isinstance(x, tuple):
        return ['tuple', [pv_json(i, ids, fresh_base, counter) for i in x]]
    return ['opaque', num(x)]


def mutable_containers(x, acc=None, through_objects=False):
    acc = acc if acc is not None else {}
    if isinstance(x, (list, dict)):
        if id(x) in acc:
            return acc
        acc[id(x)] = x
        for v in (x.values() if isinstance(x, dict) else x):
            mutable_containers(v, acc)
    elif isinstance(x, tuple):
        for v in x:
            mutable_containers(v, acc)
    return acc


def identity_part(ctx):
    from mitxgraders.baseclasses import ObjectWithSchema
    from mitxgraders.helpers.calc.math_array import MathArray
    from mitxgraders import MatrixGrader
    rng = ctx.rng
    asks, meta = [], []
    for it in range(ctx.scale(300, 4000)):
        obj = gen_obj(rng, rng.randint(1, 4))
        ids = {}
        jin = pv_json(obj, ids)
        n = len(ids)
        out = ObjectWithSchema.coerce2unicode(obj)
        jout = pv_json(out, dict(ids), fresh_base=n, counter=[0])
        shared = set(mutable_containers(obj)) & set(mutable_containers(out))
        case = {'part': 'coerce2unicode', 'value': jin}
        if shared:
            ctx.violation("the configuration copy shares a mutable object with the author's value", case, impl=jout)
        if out != obj:
            ctx.violation("the configuration copy differs in value from the author's object", case, impl=jout)
        ctx.case({'value': jin}, nontrivial_key=repr(jin) if len(mutable_containers(obj)) >= 2 else None, kind='coerce')
        asks.append({'op': 'coerce', 'value': jin, 'next': n}); meta.append((case, jout))
    if ctx.driver:
        for (case, jout), o in zip(meta, ctx.driver.ask_many(asks)):
            if o.get('out') != jout:
                ctx.disagree('coerce2unicode: identities/shape of the copy differ from the object-identity model', case, jout, o.get('out'))
    # the negative-power switch through histories of MatrixGrader calls, returning and raising
    seen = []

    def probe(x):
        seen.append(MathArray._negative_powers)
        return x
    graders = {True: MatrixGrader(answers='probe(1)*[[1,2],[3,4]]', user_functions={'probe': probe}, negative_powers=True),
               False: MatrixGrader(answers='probe(1)*[[1,2],[3,4]]', user_functions={'probe': probe}, negative_powers=False)}
    inputs_ok = ['probe(1)*[[1,2],[3,4]]', '[[1,2],[3,4]]^2*probe(0)']
    inputs_raise = ['probe(1)*[[1,2],[3,4]]+[1,2]', 'probe(1)*[[1,2],[3,4]]^-1', 'probe(1)+', 'probe(1)/0']
    asks, meta = [], []
    for it in range(ctx.scale(40, 400)):
        calls, impl = [], []
        for _ in range(rng.randint(1, 8)):
            cfg = rng.random() < 0.5
            raises = rng.random() < 0.5
            inp = rng.choice(inputs_raise if raises else inputs_ok)
            del seen[:]
            kind, val = GG.run_impl(lambda: graders[cfg](None, inp))
            inside = set(seen)
            if inside and inside != {cfg}:
                ctx.violation('inside a MatrixGrader call the negative-power switch is not the configured value', {'part': 'negative_powers', 'cfg': cfg, 'input': inp}, impl=sorted(inside))
            after = MathArray._negative_powers
            if after is not True:
                ctx.violation('the negative-power switch was left changed after a call', {'part': 'negative_powers', 'cfg': cfg, 'input': inp, 'outcome': kind}, impl=after)
                MathArray._negative_powers = True
            calls.append([cfg, kind == 'err']); impl.append([cfg, after])
        ctx.case({'calls': calls}, nontrivial_key=('np', repr(calls)) if any(c[1] for c in calls) else None, kind='negative_powers')
        asks.append({'op': 'np_hist', 'calls': calls}); meta.append((calls, impl))
    if ctx.driver:
        for (calls, impl), o in zip(meta, ctx.driver.ask_many(asks)):
            if o.get('out') != impl:
                ctx.disagree('negative-power switch history differs from the model', {'part': 'negative_powers', 'calls': calls}, impl, o.get('out'))


def search(ctx):
    drv, ctx.driver = ctx.driver, None
    old = (ctx.tier, ctx.quick)
    ctx.tier, ctx.quick = 'thorough', False
    try:
        run(ctx)
    finally:
        ctx.driver = drv
        ctx.tier, ctx.quick = old


def replay(ctx, data):
    v = data.get('violation') or {}
    case = v.get('case')
    if not case:
        return {'holds': True, 'note': 'replay file names a broken obligation, no input to re-run', 'broken': data.get('broken')}
    if 'history' in case:
        import numpy as np
        spec = {c[0]: c for c in classes()}[case['class']]
        name, mk, eA, eB, eBad, inputs = spec
        kwc = {'answers': eA} if case['configured'] else {}
        g = mk(debug=case['debug'], **kwc)
        outs = []
        for e, i in case['history']:
            np.random.seed(1)
            outs.append(do_call(g, e, NONTEXT if i == '<non-text>' else i, case['debug']))
        return {'holds': outs[-1] == v.get('expected'), 'outcomes': outs, 'expected_last': v.get('expected')}
    return {'holds': False, 'note': 'snapshot scenario: re-run ./check C11', 'case': case}

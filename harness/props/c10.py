"""C10 — exact name usage and history-independent parsing.
(1) usage sets of real parse() vs the side-effecting Lean parser vs the names of the generated tree;
(2) call histories (parse / evaluate, valid and malformed strings) on one parser object and on the shared
module-level PARSER vs the Lean parser-object state machine and vs a freshly constructed parser."""
import itertools, json
from fractions import Fraction
import exprgen as G
from props.c03 import canon, py_tree
from common import with_alarm, Timeout

ASSUMPTIONS = [
    'the parser-object model (cache keyed by the space-stripped string, scratch sets reset in finally) is tied to MathParser by this run\'s history comparison',
    'bracket validation errors are compared between the used parser and a fresh one (class + message), the model only says "rejected"',
    'evaluate calls are compared with a fresh parser\'s evaluation (values exactly, errors by class+message); their numeric semantics belong to C03',
]
EVIDENCE = {
    'rule': 'usage cases = generated derivations with known name sets (prefix/suffix-related names, variables named like functions, primes, tensor indices, suffix letters next to e-exponents, names only in arrays/exponents); '
            'history cases = call sequences over an alphabet of valid/invalid strings (exhaustive up to the tier\'s length, random longer), each call compared; '
            'non-trivial = expression with at least two distinct names, or a history containing at least one failing call followed by a successful one; distinct by string / by sequence',
}

NAMES = ['x', 'xx', 'x1', 'x_1', 'x_1_2', "x'", "x''", 'sin', 'sinx', 'e', 'E', 'e1', 'k', 'kk', 'f', 'f1', 'T_{ab}', 'T_{ab}^{c}', 'T^{c}', 'a_{-1}', 'abc', 'ab', 'a']
FNAMES = ['f', 'sin', 'x', "g'", 'f_1', 'T_{ab}', 'abc', 'k']


def ast_names(e, acc=None):
    acc = acc if acc is not None else {'vars': set(), 'funcs': set(), 'sufs': set()}
    k = e[0]
    if k == 'num':
        if e[2]:
            acc['sufs'].add(e[2])
    elif k == 'var':
        acc['vars'].add(e[1])
    elif k == 'call':
        acc['funcs'].add(e[1])
        for a in e[2]:
            ast_names(a, acc)
    elif k in ('arr', 'par'):
        for a in e[1]:
            ast_names(a, acc)
    elif k in ('neg', 'grp'):
        ast_names(e[1], acc)
    else:
        ast_names(e[1], acc); ast_names(e[2], acc)
    return acc


def gen_named(rng, depth):
    r = rng.random()
    if depth <= 0 or r < 0.25:
        q = rng.random()
        if q < 0.55:
            return ('var', rng.choice(NAMES))
        suf = rng.choice(['k', 'e', 'E', 'kk', '%', 'x', 'ab', 'M']) if q < 0.8 else None
        # suffix letters next to e-exponents: 2e3k, 1e, 3E (suffix E), 2e-1e
        return ('num', rng.choice(['1', '2.5', '2e3', '1E-2', '7', '.5', '3e+1']), suf)
    d = depth - 1
    g = lambda: gen_named(rng, d)
    if r < 0.40:
        return ('call', rng.choice(FNAMES), [g() for _ in range(rng.randint(1, 3))])
    if r < 0.50:
        return ('arr', [g() for _ in range(rng.randint(1, 3))])
    if r < 0.58:
        return ('neg', g())
    if r < 0.70:
        return ('pow', g(), g())
    if r < 0.76:
        return ('par', [g(), g()])
    return (rng.choice(['mul', 'div', 'add', 'sub']), g(), g())


def usage_of(expr):
    return {'vars': sorted(expr.variables_used), 'funcs': sorted(expr.functions_used), 'sufs': sorted(expr.suffixes_used)}


def object_state(expr):
    """every attribute of a (cached) MathExpression, canonically: the model treats these objects as immutable once built"""
    out = {}
    for k, v in sorted(vars(expr).items()):
        if k == 'tree':
            out[k] = json.dumps(canon(v), separators=(',', ':'), ensure_ascii=False)
        elif isinstance(v, (set, frozenset)):
            out[k] = sorted(v)
        else:
            out[k] = repr(v)
    return out


def call_parse(parser, s):
    from mitxgraders.exceptions import MITxError
    try:
        e = parser.parse(s)
        return {'out': json.dumps(canon(e.tree), separators=(',', ':'), ensure_ascii=False), 'usage': usage_of(e)}
    except MITxError as ex:
        return {'out': 'ERR', 'cls': type(ex).__name__, 'msg': str(ex)}
    except RecursionError:
        return {'out': 'RECURSION'}


def observe(parser):
    return {'scratch_empty': not (parser.variables_used or parser.functions_used or parser.suffixes_used),
            'cache': sorted(parser.cache.keys())}


ALPHA = ['x+1', 'x + 1', 'sin(x)+2k', 'x+', 'f(x', 'x)', 'sin(a)+2k*(b', 'f(x,)', '2k*y', 'qq+hh(1)', 'T_{ab}*x', '1\t+x', 'x(1+', 'y^2', '3e', '[x,sin(y)]']


def check_history(ctx, parser_factory, calls, kind, compare_model=True):
    """run `calls` on one parser; every call is compared with a fresh parser (oracle) and queued for the model"""
    from mitxgraders.helpers.calc.expressions import MathParser
    p = parser_factory()
    impl = []
    failed_then_ok = False
    seen_fail = False
    for i, s in enumerate(calls):
        r = call_parse(p, s)
        o = observe(p)
        fresh = call_parse(MathParser(), s)
        if r != fresh:
            ctx.violation('parse outcome depends on history', {'calls': calls[:i + 1], 'kind': kind}, impl=r, expected=fresh)
        if not o['scratch_empty']:
            ctx.violation('parser scratch sets not empty between calls', {'calls': calls[:i + 1], 'kind': kind}, impl=o)
        if r['out'] == 'ERR':
            seen_fail = True
        elif seen_fail:
            failed_then_ok = True
        impl.append((r, o))
    ctx.case({'calls': calls, 'outcomes': [r['out'][:60] for r, _ in impl]}, nontrivial_key=('h', tuple(calls)) if failed_then_ok else None, kind=kind)
    return impl


def compare_hist_with_model(ctx, batch):
    if ctx.driver is None or not batch:
        return
    outs = ctx.driver.ask_many([{'op': 'parse_hist', 'calls': calls} for calls, _, _ in batch])
    for (calls, impl, shared_cache), o in zip(batch, outs):
        for i, ((r, ob), m) in enumerate(zip(impl, o['out'])):
            if r['out'] == 'RECURSION':
                break
            if r['out'] != m['out'] or (r['out'] != 'ERR' and r['usage'] != m['usage']):
                ctx.disagree('history: outcome of call %d differs from the model' % i, {'calls': calls}, r, m)
                break
            if r['out'] == 'ERR' and r['cls'] == 'UnableToParse' and m.get('orig') is not None and ("'%s'" % m['orig']) not in r['msg']:
                ctx.disagree('UnableToParse message does not name the submitted string', {'calls': calls}, r, m)
                break
            if not shared_cache and (ob['cache'] != m['cache'] or ob['scratch_empty'] != m['scratch_empty']):
                ctx.disagree('history: parser state after call %d differs from the model' % i, {'calls': calls}, ob, {k: m[k] for k in ('cache', 'scratch_empty')})
                break



def regenerate(ctx):
    """translator: the live pyparsing grammar object graph -> Mitx/Generated/Grammar.lean (obligation grammar_matches)"""
    from translate import grammar as TG
    from common import LEAN
    n = TG.regenerate(LEAN)
    ctx.notes.append('translator: grammar object graph, %d elements' % n)
    return 1


def run(ctx):
    from mitxgraders.helpers.calc.expressions import MathParser, PARSER, evaluator
    from mitxgraders.exceptions import MITxError
    rng = ctx.rng
    # ---- (1) usage exactness
    strings, asts = [], []
    for i in range(ctx.scale(3000, 80000)):
        t = gen_named(rng, rng.randint(1, 4))
        strings.append(G.spell(G.render(t), rng, ws=0.1, emdash=0.05))
        asts.append(t)
    parser = MathParser()
    seen = set()
    for lo in range(0, len(strings), 2000):
        chunk = strings[lo:lo + 2000]
        outs = ctx.driver.ask_many([{'op': 'parse', 's': s} for s in chunk]) if ctx.driver else [None] * len(chunk)
        for s, t, o in zip(chunk, asts[lo:lo + 2000], outs):
            r = call_parse(parser, s)
            want = {k: sorted(v) for k, v in ast_names(t).items()}
            key = s.replace(' ', '')
            nt = sum(len(v) for v in want.values()) >= 2 and key not in seen
            seen.add(key)
            ctx.case({'s': s, 'names': want}, nontrivial_key=key if nt else None, kind='usage')
            if r['out'] in ('ERR', 'RECURSION'):
                # suffix-looking tails can make a derivation invalid ('2e3 e' etc.): only a problem if the model accepts
                if o is not None and o['out'] != 'ERR' and r['out'] == 'ERR':
                    ctx.disagree('implementation rejects, model accepts', {'s': s}, r, o['out'])
                ctx.count('usage:rejected')
                continue
            if r['usage'] != want:
                # the generator's intended reading can differ from the grammar's (e.g. '2e3'+'k' lexes differently); the model arbitrates
                if o is not None and o['out'] != 'ERR' and o['usage'] == r['usage'] and o['out'] == r['out']:
                    ctx.count('usage:reading_differs_from_generator')
                else:
                    ctx.violation('reported names are not the names occurring in the expression', {'s': s}, impl=r['usage'], expected=want)
            if o is not None:
                if o['out'] != r['out'] or o.get('usage') != r['usage']:
                    ctx.disagree('usage/tree differ from the model', {'s': s}, r, o)
    # ---- (2) histories on a private parser: exhaustive short, random long
    L = ctx.scale(2, 3)
    alpha = ALPHA[:12]
    batch = []
    for seq in itertools.product(alpha, repeat=L):
        calls = list(seq)
        batch.append((calls, check_history(ctx, MathParser, calls, 'hist:exh%d' % L), False))
        if len(batch) >= 500:
            compare_hist_with_model(ctx, batch); batch = []
    if ctx.quick:
        allseq = list(itertools.product(range(12), repeat=3))
        rng.shuffle(allseq)
        for seq in allseq[:600]:
            calls = [alpha[i] for i in seq]
            batch.append((calls, check_history(ctx, MathParser, calls, 'hist:exh3-sample'), False))
    else:
        allseq = list(itertools.product(range(12), repeat=4))
        rng.shuffle(allseq)
        for seq in allseq[:6000]:
            calls = [alpha[i] for i in seq]
            batch.append((calls, check_history(ctx, MathParser, calls, 'hist:exh4-sample'), False))
            if len(batch) >= 500:
                compare_hist_with_model(ctx, batch); batch = []
    compare_hist_with_model(ctx, batch); batch = []
    pool = ALPHA + strings[:200] + [G.spell(G.render(gen_named(rng, 3)), rng)[:-1] for _ in range(60)] + ['((((', 'x_{1', '1+(2*[3,4)]', 'a b', '', 'qq + hh(1) + ' + '(' * 80 + '1' + ')' * 80, 'zq*' + '[' * 70 + '1' + ']' * 70]
    for k in range(ctx.scale(40, 600)):
        calls = [rng.choice(pool) for _ in range(rng.randint(5, ctx.scale(60, 200)))]
        batch.append((calls, check_history(ctx, MathParser, calls, 'hist:random'), False))
    compare_hist_with_model(ctx, batch); batch = []
    # ---- (2b) object identity: scratch rebinding and aliasing of cached expressions, vs the object-identity model
    hb = []
    for seq in itertools.product(alpha[:8], repeat=2):
        hb.append((list(seq), heap_history(ctx, list(seq), 'heap:exh2')))
    for k in range(ctx.scale(60, 600)):
        calls = [rng.choice(pool[:len(ALPHA) + 200]) for _ in range(rng.randint(3, ctx.scale(25, 80)))]
        hb.append((calls, heap_history(ctx, calls, 'heap:random')))
    compare_heap_with_model(ctx, hb)
    # ---- (3) the shared module-level PARSER with interleaved evaluate calls
    envs = [({'x': 2.0, 'y': 3.0, 'a': 1.5, 'b': 0.5, 'qq': 1.0}, {'k': 1000.0, '%': 0.01}),
            ({'x': -1.0, 'y': 0.25, 'a': 2.0, 'b': 4.0, 'qq': 3.0}, {'k': 1024.0, '%': 0.01, 'M': 1e6})]
    from mitxgraders.helpers.calc import MathArray
    # a third environment gives the same names ARRAY values: '[x, y]' is then a matrix, and max_array_dim / max_array_dim_used differ per call
    envs.append(({'x': MathArray([1.0, 2.0]), 'y': MathArray([3.0, 4.0]), 'a': MathArray([0.5, 0.25]), 'b': MathArray([2.0, 1.0]), 'qq': 1.0}, {'k': 1000.0, '%': 0.01}))
    funcs = {'sin': lambda v: v + 1, 'hh': lambda v: 2 * v, 'f': lambda v: v * v}
    evpool = ['x+1', '2k+1', '2k*y', 'sin(x)+2k', 'x+', 'sin(a)+2k*(b', 'qq+hh(1)', '3*1e999', 'y^2', '1/0', 'x /(y-3)', 'f(x)||2', '5%', 'zz+1', '2M',
              '[x, y]', '[a, b] + [b, a]', '[x, y]*2', '[[1, 2], [3, 4]]*[1, 1]', '[x, y', 'x*y', '[x+1, qq]', '[1, 2] + x',
              # the same unparsable text with different spacing: each failure must speak about the string that was submitted THIS time
              'x +', ' x+', 'x  +  ', 'a +* b', 'a+*b', ' a  +*  b ', '2 x y', '2x y', 'sin(a) +2k*(b']
    for k in range(ctx.scale(60, 800)):
        ops = []
        for _ in range(rng.randint(4, 40)):
            if rng.random() < 0.5:
                ops.append(('parse', rng.choice(pool)))
            else:
                ops.append(('eval', rng.choice(evpool), rng.randrange(3), rng.random() < 0.3, rng.choice([0, 1, 1, 2])))
        failed = False
        for i, op in enumerate(ops):
            if op[0] == 'parse':
                r = call_parse(PARSER, op[1])
                fresh = call_parse(MathParser(), op[1])
            else:
                _, s, ei, ainf, mad = op
                vs, sf = envs[ei]

                def ev_shared():
                    return evaluator(s, variables=vs, functions=funcs, suffixes=sf, allow_inf=ainf, max_array_dim=mad)

                def ev_fresh():
                    # the same call with an empty cache (what a process that never saw the string would do); the history's cache is put back afterwards
                    saved = dict(PARSER.cache)
                    PARSER.cache.clear()
                    try:
                        return evaluator(s, variables=vs, functions=funcs, suffixes=sf, allow_inf=ainf, max_array_dim=mad)
                    finally:
                        PARSER.cache.clear(); PARSER.cache.update(saved)

                def outcome(fn):
                    try:
                        v, meta = fn()
                        return ('val', repr(v), sorted(meta.variables_used), sorted(meta.functions_used), sorted(meta.suffixes_used), meta.max_array_dim_used)
                    except MITxError as e:
                        return ('err', type(e).__name__, str(e))
                    except Exception as e:
                        return ('exc', type(e).__name__)
                r, fresh = outcome(ev_shared), outcome(ev_fresh)
            if op[0] == 'eval' and r[0] == 'err' and r[1] == 'UnableToParse' and 'Could not parse' in r[2] and ("'%s'" % op[1].strip()) not in r[2]:
                ctx.violation('the parse error of an evaluation quotes another string than the one submitted', {'ops': [list(o) for o in ops[:i + 1]], 'kind': 'shared'}, impl=r, expected=op[1])
                failed = True
                break
            if r != fresh:
                ctx.violation('outcome on the shared parser depends on history', {'ops': [list(o) for o in ops[:i + 1]], 'kind': 'shared'}, impl=r, expected=fresh)
                failed = True
                break
            if PARSER.variables_used or PARSER.functions_used or PARSER.suffixes_used:
                ctx.violation('shared parser scratch sets not empty between calls', {'ops': [list(o) for o in ops[:i + 1]], 'kind': 'shared'})
                break
        ctx.case({'ops': [list(o) for o in ops[:6]]}, nontrivial_key=('s', repr(ops)), kind='hist:shared')
    # ---- (4) consumers of the reported sets: real grader calls on the shared parser, then a sweep of every cached expression
    fresh_usage, history = {}, []
    cache_sweep(ctx, fresh_usage, history)
    ops = consumer_ops(rng)
    for k in range(ctx.scale(150, 1500)):
        label, thunk = rng.choice(ops)
        try:
            with_alarm(thunk, 20)
            outcome = 'returned'
        except Timeout:
            outcome = 'timeout'
        except MITxError as e:
            outcome = type(e).__name__
        except Exception as e:
            outcome = 'exc:' + type(e).__name__
        history.append((label, outcome))
        ctx.count('consumer:%s:%s' % (label, outcome if outcome in ('returned', 'timeout') else 'error'))
        bad = cache_sweep(ctx, fresh_usage, history)
        ctx.case({'consumer': label, 'outcome': outcome, 'cache_size': len(PARSER.cache)}, nontrivial_key=('c', k, label) if outcome == 'returned' else None, kind='hist:consumer')
        if bad:
            break


def heap_history(ctx, calls, kind):
    """the same history observed at the level of OBJECT IDENTITY: which set object is bound to the parser after each call, which object the
    returned expression holds, and what every cached expression reads — compared with the object-identity model (PH) call by call"""
    from mitxgraders.helpers.calc.expressions import MathParser
    from mitxgraders.exceptions import MITxError
    p = MathParser()
    keep, canon = [], {}

    def cid(obj):
        keep.append(obj)                     # keep every set alive so that id() values are never reused
        return canon.setdefault(id(obj), len(canon))
    cid(p.variables_used)
    impl = []
    for s in calls:
        try:
            e = p.parse(s)
            rec = {'expr': cid(e.variables_used), 'usage': usage_of(e)}
        except MITxError:
            rec = {'expr': None}
        except RecursionError:
            break
        rec['scratch'] = cid(p.variables_used)
        rec['scratch_empty'] = not (p.variables_used or p.functions_used or p.suffixes_used)
        rec['cached'] = sorted(({'key': k, 'id': cid(v.variables_used), 'usage': usage_of(v)} for k, v in p.cache.items()), key=lambda d: d['key'])
        # the three sets of one expression / of the parser are replaced together
        for k, v in p.cache.items():
            if v.functions_used is p.functions_used or v.suffixes_used is p.suffixes_used or v.variables_used is p.variables_used:
                ctx.violation('a cached expression shares a set object with the parser (later parses will write into it)', {'calls': calls, 'kind': kind, 'key': k})
        impl.append(rec)
    ctx.case({'calls': calls[:8], 'ids': [(r['expr'], r['scratch']) for r in impl[:8]]}, nontrivial_key=('heap', tuple(calls)) if any(r['expr'] is None for r in impl) and any(r['expr'] is not None for r in impl) else None, kind=kind)
    return impl


def compare_heap_with_model(ctx, batch):
    if ctx.driver is None or not batch:
        return
    outs = ctx.driver.ask_many([{'op': 'parse_hist_heap', 'calls': calls} for calls, _ in batch])
    for (calls, impl), o in zip(batch, outs):
        for i, (r, m) in enumerate(zip(impl, o['out'])):
            m = dict(m)
            m['cached'] = sorted(m['cached'], key=lambda d: d['key'])
            if r != m:
                ctx.disagree('object-identity history: call %d differs from the model (ids are canonicalised by first appearance)' % i, {'calls': calls[:i + 1]}, r, m)
                break


def consumer_ops(rng):
    """library operations that parse through the shared PARSER and then USE the reported name sets (graders of every math class);
    each is (label, thunk). None of them may change what the parser reports for any string afterwards."""
    from mitxgraders import (FormulaGrader, NumericalGrader, MatrixGrader, SumGrader, ListGrader, SingleListGrader,
                             RealInterval, IntegerRange, DependentSampler, RealVectors)
    fexprs = ['floor(N/2)', 'abs(N)+1', 'max(N,2)', 'sqrt(N^2)', 'N', '3', 'ceil(N/3)+min(2,N)']
    summands = ['k^2', 'k*x', '1/k^2', 'sin(k)', 'k', 'k+N', '2^(-k)']

    def sumg():
        lo, up, sm = rng.choice(['1', '0', 'abs(-1)'] + fexprs[:2]), rng.choice(fexprs), rng.choice(summands)
        g = SumGrader(answers={'lower': lo, 'upper': up, 'summand': sm, 'summation_variable': 'k'},
                      input_positions=rng.choice([{'summand': 1}, {'lower': 1, 'upper': 2, 'summand': 3}, {'upper': 1, 'summand': 2}]),
                      variables=['N', 'x'], sample_from={'N': IntegerRange([4, 9]), 'x': RealInterval([1, 2])}, samples=2)
        pos = g.config['input_positions']
        fields = {'lower': rng.choice([lo, 'max(1,0)']), 'upper': rng.choice([up, 'floor(N/2)', 'round(N)']), 'summand': rng.choice([sm, 'k^2', 'abs(k)'])}
        inp = [fields[k] for k in sorted([k for k in pos if pos[k] is not None], key=lambda k: pos[k])]
        return g(None, inp if len(inp) > 1 else inp[0])

    def formg():
        ans = rng.choice(['x^2+sin(y)', 'k^2', 'a_{1}+a_{2}', 'x*y+2k', 'cos(x)^2', 'abs(x)+k'])
        kw = rng.choice([{}, {'whitelist': ['sin', 'cos', 'abs']}, {'blacklist': ['tan']}, {'required_functions': ['sin']},
                         {'forbidden_strings': ['x*x']}, {'whitelist': [None]}])
        g = FormulaGrader(answers=ans, variables=['x', 'y', 'k', 'z'], numbered_vars=['a'], metric_suffixes=rng.random() < 0.5,
                          sample_from={'z': DependentSampler(depends=['x', 'y'], formula=rng.choice(['x+y', 'sin(x)*y', 'k^2', 'abs(x)']))}, **kw)
        return g(None, rng.choice([ans, 'x^2', 'k^2', 'k*k', 'sin(y)+x*x', 'z+1', 'abs(x)+k', 'tan(x)', '', '  ']))

    def numg():
        g = NumericalGrader(answers=rng.choice(['2k', '1200', 'sqrt(4)', 'abs(-3)', '5%']), metric_suffixes=True, tolerance='1%')
        return g(None, rng.choice(['2k', '2000', '1.2k', 'sqrt(4)', 'abs(-3)', '0.05', '2', 'floor(2.5)', '', ' ']))

    def matg():
        g = MatrixGrader(answers=rng.choice(['[x,y]*2', 'A*v', 'trans(A)*A', 'norm(v)*k^2']), variables=['x', 'y', 'A', 'v', 'k'],
                         sample_from={'A': RealVectors(shape=[2, 2]) if False else __import__('mitxgraders').RealMatrices(shape=[2, 2]), 'v': RealVectors(shape=2)})
        return g(None, rng.choice(['[x,y]*2', '[2*x,2*y]', 'A*v', 'trans(A)*A', 'k^2*norm(v)', 'k^2', 'abs(v)', '', ' ']))

    def listg():
        g = ListGrader(answers=['x+1', 'k^2'], subgraders=FormulaGrader(variables=['x', 'k']), ordered=rng.random() < 0.5)
        return g(None, [rng.choice(['x+1', 'k^2', '1+x']), rng.choice(['k^2', 'k*k', 'abs(k)^2'])])

    def slg():
        g = SingleListGrader(answers=['k^2', 'x+1'], subgrader=FormulaGrader(variables=['x', 'k']))
        return g(None, rng.choice(['k^2, x+1', 'x+1, k^2', 'k*k, abs(x)+1']))

    def sibling():
        g = ListGrader(answers=['k^2', 'floor(k)'], subgraders=[FormulaGrader(variables=['k']),
                       FormulaGrader(variables=['k'], sample_from={}, answers=None) if False else FormulaGrader(variables=['k'])], ordered=True)
        return g(None, ['k^2', rng.choice(['floor(k)', 'floor(sibling_1)', 'sibling_1'])])
    return [('SumGrader', sumg), ('FormulaGrader', formg), ('NumericalGrader', numg), ('MatrixGrader', matg), ('ListGrader', listg),
            ('SingleListGrader', slg), ('siblings', sibling)]


def cache_sweep(ctx, fresh_usage, history):
    """every cached expression of the shared PARSER must still report exactly what a fresh parser reports for its key"""
    from mitxgraders.helpers.calc.expressions import MathParser, PARSER
    bad = 0
    for key, expr in list(PARSER.cache.items()):
        if key not in fresh_usage:
            try:
                fresh_usage[key] = usage_of(MathParser().parse(key))
            except Exception as e:
                fresh_usage[key] = ('unparseable', type(e).__name__)
        if isinstance(fresh_usage[key], dict) and 'state' not in fresh_usage[key]:
            fresh_usage[key] = dict(fresh_usage[key], state=object_state(MathParser().parse(key)))
        if isinstance(fresh_usage[key], dict) and object_state(expr) != fresh_usage[key]['state']:
            ctx.violation('a cached expression object was changed by using it (its attributes differ from those of a fresh parse of the same string)',
                          {'string': key, 'kind': 'cache-sweep-state', 'history': history[-12:]}, impl=object_state(expr), expected=fresh_usage[key]['state'])
            bad += 1
            if bad >= 3:
                break
        if usage_of(expr) != {k: v for k, v in fresh_usage[key].items() if k != 'state'}:
            ctx.violation('names reported for a string changed after other library calls (cached name sets were altered)',
                          {'string': key, 'kind': 'cache-sweep', 'history': history[-12:]}, impl=usage_of(expr), expected=fresh_usage[key])
            bad += 1
            if bad >= 3:
                break
    return bad


def search(ctx):
    drv, ctx.driver = ctx.driver, None
    try:
        run(ctx)
    finally:
        ctx.driver = drv


def replay(ctx, data):
    from mitxgraders.helpers.calc.expressions import MathParser
    v = data.get('violation') or {}
    case = v.get('case')
    if not case:
        return {'holds': True, 'note': 'replay file names a broken obligation, no input to re-run', 'broken': data.get('broken')}
    if 'calls' in case:
        p = MathParser()
        for s in case['calls']:
            r = call_parse(p, s)
        fresh = call_parse(MathParser(), case['calls'][-1])
        return {'holds': r == fresh, 'impl': r, 'fresh': fresh}
    if 's' in case:
        r = call_parse(MathParser(), case['s'])
        return {'holds': r.get('usage') == v.get('expected'), 'impl': r}
    return {'holds': False, 'note': 'shared-parser history: re-run ./check C10', 'case': case}

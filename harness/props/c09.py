"""C09 — restrictions on student formulas cannot be bypassed to obtain credit."""
import itertools, re
from fractions import Fraction
import gradegen as GG
from common import frac_to_str
from props import c13 as D

ASSUMPTIONS = [
    'the numeric verdict of raw_check is an input of the model (recorded by wrapping the instance\'s raw_check); C04 covers it',
    'the names a formula uses are computed by the model\'s own parser (C10 usage sets); the scope handed to the model is computed by the harness from the configuration (variables, numbered instances, constants, instructor variables, siblings)',
    'formulas are generated so that evaluation itself does not fail (no poles), because an evaluation error would pre-empt the restriction being tested',
]
EVIDENCE = {
    'rule': 'cases = (grader class, restriction options, answer, student formula = correct answer combined with a neutral term that uses a restricted construct in some position, or a clean rewriting); '
            'non-trivial = the formula uses a restricted construct (cheating) or is a clean formula under an active restriction; distinct by (config, formula)',
}

ZERO_WITH = {          # value-neutral terms using a construct
    'func': ['0*{f}(x)', '{f}(0)*0', '({f}(x) - {f}(x))', '0*{f}(0*x)'],
    'var': ['({v} - {v})', '0*{v}', '({v}^0 - 1)', '{v}*0'],
}
POSITIONS = ['{a} + {z}', '{z} + {a}', '({a})*(1 + {z})', '{a} + sin({z})', '{a} + 0*cos(x + {z})', '({a})^(1 + {z})', '{a} + abs({z})*2']


def cfg_json(g):
    c = g.config
    return {'defaults': sorted(g.default_functions), 'whitelist': list(c['whitelist']), 'blacklist': list(c['blacklist']), 'user_functions': sorted(c['user_functions']),
            'forbidden': list(c['forbidden_strings']), 'required': list(c['required_functions'])}


def ref_numbered(heads, v):
    for h in heads:
        if v.startswith(h + '_{') and v.endswith('}') and re.fullmatch(r'0|-?[1-9][0-9]*', v[len(h) + 2:-1]):
            return True
    return False


def scope_json(g, used_vars, siblings=()):
    c = g.config
    variables = list(c['variables'])
    inst = [v for v in used_vars if v not in variables and ref_numbered(c['numbered_vars'], v)]
    names = variables + inst + [k for k in g.constants if k not in variables] + list(siblings)
    return {'sample_names': names, 'instructor_vars': list(c['instructor_vars']), 'siblings': list(siblings),
            'functions': sorted(set(g.functions) | set(g.random_funcs)), 'suffixes': allowed_suffixes(c)}


def allowed_suffixes(c):
    """documented: '%' always, the metric prefixes only with metric_suffixes=True (not read from the grader object)"""
    return ['%'] + (['k', 'M', 'G', 'T', 'm', 'u', 'n', 'p'] if c['metric_suffixes'] else [])


def spy_raw(g):
    rec = []
    orig = g.raw_check

    def raw(*a, **k):
        res, used = orig(*a, **k)
        rec.append((dict(res), set(used)))
        return res, used
    g.raw_check = raw
    return rec


def classify(k, v):
    if k == 'out':
        return ('out', GG.canon_result(v))
    cls, msg = v[1], v[2]
    if cls == 'UndefinedVariable':
        return ('UndefinedVariable', sorted(re.match(r"Invalid Input: '(.*?)' not permitted in answer as a variable", msg).group(1).split("', '")))
    if cls == 'UndefinedFunction' and 'directly after a number' in msg:
        return ('UndefinedSuffix', sorted(re.match(r"Invalid Input: '(.*?)' not permitted directly", msg).group(1).split("', '")))
    if cls == 'UndefinedFunction':
        return ('UndefinedFunction', sorted(re.match(r"Invalid Input: '(.*?)' not permitted in answer as a function", msg).group(1).split("', '")))
    if cls == 'InvalidInput' and 'must contain the function' in msg:
        return ('required', msg.rsplit(' ', 1)[1])
    if cls == 'InvalidInput' and msg.startswith('Invalid Input: function(s)'):
        return ('notPermitted', re.findall(r"'([^']*)'", msg))
    if cls == 'InvalidInput':
        return ('forbidden',)
    return ('other', cls, msg[:80])


def model_outcome(o):
    if 'out' in o:
        return ('out', o['out'])
    e = o['err']
    if e[0] in ('UndefinedVariable', 'UndefinedFunction', 'UndefinedSuffix', 'notPermitted'):
        return (e[0], e[1])
    if e[0] == 'required':
        return ('required', e[1])
    return tuple(e)


def gen_config(rng):
    from mitxgraders import FormulaGrader
    kw = dict(variables=['x', 'y'], samples=3)
    restricted = {'funcs': set(), 'vars': set()}
    mode = rng.choice(['blacklist', 'whitelist', 'whitelist_none', 'none', 'none'])
    if mode == 'blacklist':
        bl = rng.sample(['tan', 'cos', 'exp', 'sqrt', 'arctan'], rng.randint(1, 3)); kw['blacklist'] = bl; restricted['funcs'] |= set(bl)
    elif mode == 'whitelist':
        wl = rng.sample(['sin', 'cos', 'abs', 'exp'], rng.randint(1, 3)) + ['sin', 'abs']; kw['whitelist'] = sorted(set(wl))
        restricted['funcs'] |= {'tan', 'exp', 'cos', 'sqrt', 'arctan'} - set(wl)
    elif mode == 'whitelist_none':
        kw['whitelist'] = [None]; restricted['funcs'] |= {'tan', 'cos', 'exp', 'sqrt', 'sin', 'abs', 'arctan'}
    if rng.random() < 0.5:
        kw['user_functions'] = {'f': lambda t: t * t + 1, 'G': lambda t: 2 * t}
    if rng.random() < 0.5:
        kw['variables'] = ['x', 'y', 'z']; kw['instructor_vars'] = ['z']; restricted['vars'].add('z')
    if rng.random() < 0.3:
        kw['numbered_vars'] = ['a']
    if rng.random() < 0.3:
        kw['user_constants'] = {'c': 3.0}
    if rng.random() < 0.35:
        kw['forbidden_strings'] = rng.sample(['x+y', '+ y', 'y*x', '2*x', 'x^2'], rng.randint(1, 2))
    if rng.random() < 0.3:
        kw['required_functions'] = [rng.choice(['sin', 'abs', 'f'] if 'user_functions' in kw else ['sin', 'abs'])]
    if rng.random() < 0.2:
        kw['metric_suffixes'] = True
    restricted['vars'] |= {'q', 'X', 'Y', "x'", 'xy', 'a_{05}', 'A_{1}', 'pI', 'z2'} | (set() if 'numbered_vars' in kw else {'a_{1}'}) | (set() if 'user_constants' in kw else {'c'})
    return kw, restricted, mode


def allowed_fun(kw, f):
    if f in kw.get('user_functions', {}):
        return True
    if kw.get('whitelist') == [None]:
        return False
    if kw.get('whitelist'):
        return f in kw['whitelist']
    return f not in kw.get('blacklist', [])


def part_formula(ctx):
    from mitxgraders import FormulaGrader, NumericalGrader, MatrixGrader
    rng = ctx.rng
    asks, meta = [], []
    for it in range(ctx.scale(260, 5000)):
        kw, restricted, mode = gen_config(rng)
        # the author's answer may use anything (incl. restricted functions and instructor variables)
        ans_parts = ['x^2', 'y', 'x*y', 'sin(x)', 'abs(y)']
        if 'z' in kw['variables']:
            ans_parts.append('z')
        if 'user_functions' in kw:
            ans_parts.append('f(x)')
        base = ' + '.join(rng.sample(ans_parts, rng.randint(1, 3)))
        if rng.random() < 0.3 and restricted['funcs']:
            rf = rng.choice(sorted(restricted['funcs']))
            base += ' + %s(x)*0 + 1' % rf if rf != 'sqrt' else ' + sqrt(x^2)*0 + 1'
        credit = rng.choice([1, 1, 0.5])
        cls = rng.choice([FormulaGrader, FormulaGrader, MatrixGrader])
        try:
            g = cls(answers={'expect': base, 'grade_decimal': credit}, **kw)
        except Exception as e:
            ctx.count('config_rejected'); continue
        rec = spy_raw(g)
        # candidate student formulas
        cands = [('clean', base, None), ('clean-rewrite', '0 + (%s)' % base, None), ('wrong', '(%s) + 1' % base, None)]
        for f in rng.sample(['tan', 'cos', 'exp', 'arctan', 'sin', 'abs', 'f', 'G', 'Sin', 'TAN', 'h'], 4):
            z = rng.choice(ZERO_WITH['func']).format(f=f)
            cands.append(('func:' + f, rng.choice(POSITIONS).format(a=base, z=z), f))
        for v in rng.sample(sorted(restricted['vars']) + ['z', 'c', 'a_{1}', 'a_{-3}', 'pi', 'e'], 4):
            z = rng.choice(ZERO_WITH['var']).format(v=v)
            cands.append(('var:' + v, rng.choice(POSITIONS).format(a=base, z=z), v))
        if cls is MatrixGrader and rng.random() < 0.7:
            f = rng.choice(['tan', 'cos', 'exp'])
            cands.append(('func-in-array:' + f, '(%s) + [0*%s(x), 0]*[0, 0]' % (base, f), f))
            cands.append(('var-in-array:q', '(%s) + [q - q, 0]*[1, 1]' % base, 'q'))
        for suf, neutral in rng.sample([('k', '0k'), ('m', '0m'), ('M', '0M'), ('u', '0u'), ('%', '0%'), ('K', '0K'), ('mm', '0mm')], 3):
            cands.append(('suffix:' + suf, rng.choice(['{a} + {z}', '{z} + {a}', '({a})*(1 + {z})', '{a} + sin({z})']).format(a=base, z=neutral), suf))
        for fs in kw.get('forbidden_strings', []):
            sp = ' '.join(fs.replace(' ', ''))
            cands.append(('forbidden', '(%s) + 0*(%s)' % (base, sp), fs))
        for kind, stu, construct in cands:
            del rec[:]
            k, v = D.run_impl(lambda: g(None, stu))
            got = classify(k, v)
            case = {'part': 'formula', 'class': cls.__name__, 'config': {a: (sorted(b) if isinstance(b, dict) else b) for a, b in kw.items()}, 'answer': base, 'student': stu, 'kind': kind}
            try:
                from mitxgraders.helpers.calc import parse
                p = parse(stu)
                used_vars, used_funcs = set(p.variables_used), set(p.functions_used)
            except Exception:
                ctx.count('unparsable'); continue
            # ---- property oracle (independent of the model)
            c = g.config
            in_scope = set(c['variables']) - set(c['instructor_vars']) | set(g.constants) | {u for u in used_vars if ref_numbered(c['numbered_vars'], u)}
            bad_vars = used_vars - in_scope
            known_funcs = set(g.functions) | set(g.random_funcs)
            bad_funcs = {f for f in used_funcs if f not in known_funcs}
            not_perm = {f for f in used_funcs if f in known_funcs and not allowed_fun(kw, f)}
            forb = any(fs.replace(' ', '') in stu.replace(' ', '') for fs in kw.get('forbidden_strings', []))
            miss = [f for f in kw.get('required_functions', []) if f not in used_funcs]
            bad_sufs = set(p.suffixes_used) - set(allowed_suffixes(c))
            cheating = bool(bad_vars or bad_funcs or not_perm or forb or miss or bad_sufs)
            if bad_sufs and not bad_vars and not bad_funcs and got[0] != 'UndefinedSuffix':
                ctx.violation('a suffix that is not enabled (%s) must be rejected, got %r' % (sorted(bad_sufs), got[:2]), case, impl=got)
            if cheating:
                if got[0] == 'out' and Fraction(got[1]['grade_decimal']) > 0:
                    ctx.violation('credit awarded although the formula uses a restricted construct (%s)' % (sorted(bad_vars) or sorted(bad_funcs) or sorted(not_perm) or ('forbidden string' if forb else 'missing %s' % miss)), case, impl=got[1])
                if bad_vars and got[0] != 'UndefinedVariable':
                    ctx.violation('a name outside the student\'s scope (%s) must be rejected as an undefined variable, got %r' % (sorted(bad_vars), got[:2]), case, impl=got)
                elif not bad_vars and bad_funcs and got[0] != 'UndefinedFunction':
                    ctx.violation('an unknown function must be rejected as undefined, got %r' % (got[:2],), case, impl=got)
            elif kind in ('clean', 'clean-rewrite'):
                if not (got[0] == 'out' and Fraction(got[1]['grade_decimal']) == Fraction(credit)):
                    ctx.violation('a clean correct formula did not earn the answer\'s credit', case, impl=got)
            ctx.case({'class': cls.__name__, 'mode': mode, 'student': stu, 'kind': kind, 'outcome': got[0]},
                     nontrivial_key=(repr(case['config']), stu) if (cheating or len(kw) > 2) else None,
                     kind='formula:%s:%s' % (kind.split(':')[0], got[0]))
            # ---- model
            ask = dict(op='restrict', s=stu, cfg=cfg_json(g), **scope_json(g, used_vars))
            if rec:
                r0 = rec[0][0]
                ask['raw'] = {'ok': r0['ok'], 'grade_decimal': frac_to_str(Fraction(r0['grade_decimal'])), 'msg': r0['msg']}
            asks.append(ask); meta.append((case, got, bool(rec)))
    if ctx.driver:
        for (case, got, has_raw), o in zip(meta, ctx.driver.ask_many(asks)):
            mo = model_outcome(o)
            if mo == ('out', 'scope-ok'):
                # the real raw_check raised after the scope check passed (evaluation error): not this property's business
                if got[0] in ('UndefinedVariable', 'UndefinedFunction', 'UndefinedSuffix'):
                    ctx.disagree('implementation reports an undefined name, the model finds every name in scope', case, got, mo)
                continue
            if got[0] == 'out' and mo[0] == 'out':
                if got[1] != mo[1]:
                    ctx.disagree('result differs from the model', case, got, mo)
            elif got[0] == 'other' or mo[0] == 'parse':
                continue
            elif tuple(got[:2]) != tuple(mo[:2]) and not (got[0] == 'notPermitted' and mo[0] == 'notPermitted' and sorted(got[1]) == sorted(mo[1])):
                ctx.disagree('refusal differs from the model', case, got, mo)


def part_lists_and_sums(ctx):
    """sibling variables are hidden from the student; SumGrader and NumericalGrader share the validators"""
    from mitxgraders import ListGrader, FormulaGrader, NumericalGrader, SumGrader
    rng = ctx.rng
    for it in range(ctx.scale(40, 600)):
        a = rng.randint(2, 5)
        lg = ListGrader(answers=['x*%d' % a, 'sibling_1 + 1'], subgraders=FormulaGrader(variables=['x']), ordered=True)
        for second, cheat in [('x*%d + 1' % a, False), ('sibling_1 + 1', True), ('x*%d + 1 + (sibling_1 - sibling_1)' % a, True), ('x*%d + 1 + 0*sibling_2' % a, True), ('x*%d + 1 + sibling_1^0 - 1' % a, True)]:
            k, v = D.run_impl(lambda: lg(None, ['x*%d' % a, second]))
            case = {'part': 'sibling', 'a': a, 'second': second}
            if cheat:
                if not (k == 'err' and v[1] == 'UndefinedVariable'):
                    ctx.violation('a sibling variable in the student\'s formula must be rejected as undefined', case, impl=v if k == 'err' else GG.canon_result(v))
            elif not (k == 'out' and v['input_list'][1]['ok'] is True):
                ctx.violation('clean second input not accepted', case, impl=v if k == 'err' else GG.canon_result(v))
            ctx.case(dict(case, outcome=v[1] if k == 'err' else 'graded'), nontrivial_key=('sib', a, second), kind='sibling:' + ('cheat' if cheat else 'clean'))
        # a sibling that only feeds a DependentSampler (the answers never name it) is hidden from the student all the same
        from mitxgraders import DependentSampler
        lg2 = ListGrader(answers=['x*%d' % a, 'z'], subgraders=FormulaGrader(variables=['x', 'z'], sample_from={'z': DependentSampler(depends=['sibling_1'], formula='sibling_1 + 1')}), ordered=True)
        for second, cheat in [('x*%d + 1' % a, False), ('z', False), ('sibling_1 + 1', True), ('z + 0*sibling_1', True), ('x*%d + 1 + sibling_1 - sibling_1' % a, True)]:
            k, v = D.run_impl(lambda: lg2(None, ['x*%d' % a, second]))
            case = {'part': 'sibling-via-dependent', 'a': a, 'second': second}
            if cheat:
                if not (k == 'err' and v[1] == 'UndefinedVariable'):
                    ctx.violation('a sibling variable (used only by a DependentSampler) in the student\'s formula must be rejected as undefined', case, impl=v if k == 'err' else GG.canon_result(v))
            elif not (k == 'out' and v['input_list'][1]['ok'] is True):
                ctx.violation('clean second input not accepted', case, impl=v if k == 'err' else GG.canon_result(v))
            ctx.case(dict(case, outcome=v[1] if k == 'err' else 'graded'), nontrivial_key=('sibdep', a, second), kind='sibling-dep:' + ('cheat' if cheat else 'clean'))
        ng = NumericalGrader(answers='%d' % a, blacklist=['sqrt'], forbidden_strings=['+'], required_functions=[])
        for stu, cheat in [('%d' % a, False), ('sqrt(%d)^2' % a, True), ('%d + 0' % a, True), ('%d +0' % a, True), ('%d - 0' % a, False), ('%d + sqrt(0)' % a, True), ('x', True)]:
            k, v = D.run_impl(lambda: ng(None, stu))
            if cheat and not (k == 'err' and v[0] is True):
                ctx.violation('NumericalGrader: restricted construct not refused', {'part': 'numerical', 'student': stu}, impl=v if k == 'err' else GG.canon_result(v))
            if not cheat and not (k == 'out' and v['ok'] is True):
                ctx.violation('NumericalGrader: clean input refused', {'part': 'numerical', 'student': stu}, impl=v if k == 'err' else GG.canon_result(v))
            ctx.case({'numerical': stu}, nontrivial_key=('num', a, stu), kind='numerical:' + ('cheat' if cheat else 'clean'))
        sg = SumGrader(answers={'lower': '1', 'upper': '%d' % a, 'summand': 'n*s', 'summation_variable': 'n'}, variables=['s', 't'], instructor_vars=['t'], blacklist=['cos'], forbidden_strings=['n*n'])
        for inp, cheat in [(['1', '%d' % a, 'n*s', 'n'], False), (['1', '%d' % a, 'n*s + t - t', 'n'], True), (['1 + 0*t', '%d' % a, 'n*s', 'n'], True),
                           (['1', '%d' % a, 'n*s + 0*cos(n)', 'n'], True), (['1', '%d + 0*cos(0)' % a, 'n*s', 'n'], True), (['1', '%d' % a, 'n*s + 0*n * n', 'n'], True), (['1', '%d' % a, 'm*s', 'm'], False)]:
            k, v = D.run_impl(lambda: sg(None, inp))
            if cheat and not (k == 'err' and v[0] is True and v[1] in ('InvalidInput', 'UndefinedVariable', 'UndefinedFunction')):
                ctx.violation('SumGrader: restricted construct not refused', {'part': 'sum', 'student': inp}, impl=v if k == 'err' else GG.canon_result(v))
            if not cheat and not (k == 'out' and v['ok'] is True):
                ctx.violation('SumGrader: clean input refused', {'part': 'sum', 'student': inp}, impl=v if k == 'err' else GG.canon_result(v))
            ctx.case({'sum': inp}, nontrivial_key=('sum', a, repr(inp)), kind='sum:' + ('cheat' if cheat else 'clean'))


def part_partial_positions(ctx):
    """SumGrader / IntegralGrader whose author uses an instructor variable in a limit, with every subset of input boxes: whatever the student is
    asked to type (a limit, the summand/integrand) may not mention the instructor variable, even where it cancels; honest entries are accepted"""
    import itertools
    from mitxgraders import SumGrader, IntegralGrader, DependentSampler
    rng = ctx.rng
    try:
        import scipy  # noqa: F401  (IntegralGrader imports scipy.integrate lazily; the repo's test environment does not ship it)
        classes = [(SumGrader, 'summand', 'summation_variable', '1'), (IntegralGrader, 'integrand', 'integration_variable', '0')]
    except ImportError:
        ctx.count('positions:IntegralGrader skipped (no scipy in the test environment)')
        classes = [(SumGrader, 'summand', 'summation_variable', '1')]
    masks, mmeta = [], []
    for cls, body, var, lo in classes:
        fields = ['lower', 'upper', body, var]
        for which in ('upper', 'lower', 'body'):
            author = {'upper': {'lower': lo, 'upper': 'N', body: 'k', var: 'k'}, 'lower': {'lower': 'N - 20', 'upper': '3', body: 'k', var: 'k'},
                      'body': {'lower': lo, 'upper': '4', body: 'k + N - 2*n', var: 'k'}}[which]
            honest = dict(author); honest[body if which == 'body' else which] = {'upper': '2*n', 'lower': '2*n - 20', 'body': 'k'}[which]
            subsets = [c for r in range(1, 5) for c in itertools.combinations(fields, r)]
            for sub in (subsets if not ctx.quick else rng.sample(subsets, 9)):
                pos = {f: i + 1 for i, f in enumerate(sub)}
                try:
                    g = cls(answers=author, input_positions=pos, variables=['n', 'N'], sample_from={'n': (2, 3, 4, 5), 'N': DependentSampler(depends=['n'], formula='2*n')}, instructor_vars=['N'])
                except Exception:
                    ctx.count('positions:config_rejected'); continue
                def submit(entries):
                    inp = [entries[f] for f in sub]
                    out = D.run_impl(lambda: g(None, inp if len(inp) > 1 else inp[0]))
                    # the model's scope decision for the student's evaluation: typed entries in the scrubbed scope, the author's in the full one
                    full = dict(author, **{f: entries[f] for f in sub})
                    sj = scope_json(g, set())
                    masks.append({'op': 'sum_scope', 'sample_names': sj['sample_names'], 'instructor_vars': sj['instructor_vars'], 'functions': sj['functions'], 'suffixes': sj['suffixes'],
                                  'asked': {'lower': 'lower' in sub, 'upper': 'upper' in sub, 'body': body in sub}, 'dummy': full[var], 'lower': full['lower'], 'upper': full['upper'], 'body': full[body]})
                    mmeta.append(({'part': 'positions-model', 'class': cls.__name__, 'positions': pos, 'student': inp, 'author': author}, out))
                    return inp, out
                inp, (k, v) = submit(honest)
                case = {'part': 'positions', 'class': cls.__name__, 'positions': pos, 'author_limit_with_instructor_var': which, 'student': inp}
                if not (k == 'out' and v['ok'] is True):
                    ctx.violation('honest entries refused', case, impl=v if k == 'err' else GG.canon_result(v))
                ctx.case(case, nontrivial_key=('pos', cls.__name__, which, repr(pos), 'honest'), kind='positions:clean')
                for f in sub:
                    if f == var:
                        continue
                    for cheat in ([honest[f] + ' + N - N', honest[f] + ' + 0*N'] + (['N'] if (f == 'upper' and which == 'upper') else []) + (['N - 20'] if (f == 'lower' and which == 'lower') else [])):
                        inp, (k, v) = submit(dict(honest, **{f: cheat}))
                        case = {'part': 'positions', 'class': cls.__name__, 'positions': pos, 'author_limit_with_instructor_var': which, 'student': inp, 'cheat_in': f}
                        if not (k == 'err' and v[0] is True and v[1] == 'UndefinedVariable'):
                            ctx.violation('instructor variable used in the student\'s %s: must be refused as an undefined variable' % f, case, impl=v if k == 'err' else GG.canon_result(v))
                        ctx.case(case, nontrivial_key=('pos', cls.__name__, which, repr(pos), f, cheat), kind='positions:cheat:' + f)
    if ctx.driver and masks:
        for (case, (k, v)), o in zip(mmeta, ctx.driver.ask_many(masks)):
            if 'err' in o and o['err'][0] == 'UndefinedVariable':
                names = o['err'][1]
                if not (k == 'err' and v[1] == 'UndefinedVariable' and all(("'%s'" % nm) in v[2] for nm in names)):
                    ctx.disagree('Sum/Integral entry scopes: the model refuses %r as undefined in the %s entry, the implementation does not' % (names, o['err'][2]), case, v if k == 'err' else GG.canon_result(v), o)
            elif 'out' in o:
                if k == 'err' and v[1] in ('UndefinedVariable', 'UndefinedFunction'):
                    ctx.disagree('Sum/Integral entry scopes: the model finds every name in scope, the implementation raises', case, v, o)
            else:
                ctx.count('positions-model:other')
        ctx.count('positions:model comparisons', len(masks))


POISON = ['sqrt(4) + ' + '(' * 80 + '1' + ')' * 80, 'tan(1) + cos(2) + ' + '(' * 120 + 'x' + ')' * 120, 'sqrt(', 'sqrt(2)) + tan(1', 'f(sqrt(1), tan(2) +', 'sqrt(1) + 2 3', '[' * 70 + 'sqrt(1)' + ']' * 70]


def part_history(ctx):
    """restrictions cannot be bypassed by first submitting something that fails (the parser is shared by the whole process)"""
    from mitxgraders import FormulaGrader, NumericalGrader, MatrixGrader, SumGrader
    rng = ctx.rng
    for cls in (FormulaGrader, NumericalGrader, MatrixGrader):
        for it in range(ctx.scale(2, 12)):
            kw = {} if cls is NumericalGrader else {'variables': ['x']}
            req = cls(answers='sqrt(4)' if cls is NumericalGrader else 'sqrt(x^2 + 1)', required_functions=['sqrt'], **kw)
            bl = cls(answers='4' if cls is NumericalGrader else 'x + tan(0)', blacklist=['tan', 'cos'], **kw)
            stu_req = '4^0.5' if cls is NumericalGrader else '(x^2 + 1)^0.5'
            stu_bl = '4 + 0*1' if cls is NumericalGrader else 'x + 0*x'
            # every failing submission is followed IMMEDIATELY by the probes (a later failure of another kind could tidy up what an earlier one left behind),
            # then a few random sequences
            sequences = [[p_] for p_ in POISON] + [rng.sample(POISON, 3) for _ in range(2)]
            for seq in sequences:
                for poison in seq:
                    for g in rng.sample([req, bl], 2):
                        D.run_impl(lambda: g(None, poison))
                k, v = D.run_impl(lambda: req(None, stu_req))
                if not (k == 'err' and v[1] == 'InvalidInput'):
                    ctx.violation('after a failing submission, a formula omitting the required function was not refused', {'part': 'history', 'class': cls.__name__, 'student': stu_req, 'after': [q[:40] for q in seq]}, impl=v if k == 'err' else GG.canon_result(v))
                k, v = D.run_impl(lambda: bl(None, stu_bl))
                if not (k == 'out' and v['ok'] is True):
                    ctx.violation('after a failing submission that used a blacklisted function, a clean formula is refused', {'part': 'history', 'class': cls.__name__, 'student': stu_bl, 'after': [q[:40] for q in seq]}, impl=v if k == 'err' else GG.canon_result(v))
            ctx.case({'history': cls.__name__}, nontrivial_key=('hist', cls.__name__, it), kind='history')
    # every input box of a summation grader is checked for forbidden strings
    keys = ['lower', 'upper', 'summand', 'summation_variable']
    for it in range(ctx.scale(30, 300)):
        used = rng.sample(keys[:3], rng.randint(1, 3)) + (['summation_variable'] if rng.random() < 0.5 else [])
        rng.shuffle(used)
        pos = {k: i + 1 for i, k in enumerate(used)}
        ans = {'lower': '1', 'upper': '5', 'summand': '2*n', 'summation_variable': 'n'}
        sg = SumGrader(answers=ans, input_positions=pos, forbidden_strings=['+'])
        clean = {'lower': '1', 'upper': '5', 'summand': '2*n', 'summation_variable': 'n'}
        dirty = {'lower': '0+1', 'upper': '4+1', 'summand': 'n+n', 'summation_variable': 'n'}
        for bad_key in [k for k in used if k != 'summation_variable'] + [None]:
            fields = dict(clean)
            if bad_key:
                fields[bad_key] = dirty[bad_key]
            inp = [fields[k] for k in sorted(pos, key=lambda k: pos[k])]
            k, v = D.run_impl(lambda: sg(None, inp))
            case = {'part': 'sum-forbidden', 'positions': pos, 'student': inp, 'field': bad_key}
            if bad_key and not (k == 'err' and v[1] == 'InvalidInput'):
                ctx.violation('a forbidden string in the %s field (box %d) of a summation was not refused' % (bad_key, pos[bad_key]), case, impl=v if k == 'err' else GG.canon_result(v))
            if not bad_key and not (k == 'out' and v['ok'] is True):
                ctx.violation('a clean summation was refused', case, impl=v if k == 'err' else GG.canon_result(v))
            ctx.case(case, nontrivial_key=('sumforb', repr(sorted(pos.items())), bad_key), kind='sum-forbidden:' + ('dirty' if bad_key else 'clean'))


def part_permitted(ctx):
    """get_permitted_functions against the model's closed form"""
    from mitxgraders.helpers.math_helpers import get_permitted_functions
    rng = ctx.rng
    pool = ['sin', 'cos', 'tan', 'exp', 'f', 'g']
    for it in range(ctx.scale(200, 2000)):
        defaults = rng.sample(pool[:4], rng.randint(1, 4))
        always = rng.sample(pool[3:], rng.randint(0, 3))
        mode = rng.choice(['unset', 'none', 'only'])
        wl = [] if mode == 'unset' else [None] if mode == 'none' else rng.sample(pool, rng.randint(1, 3))
        bl = rng.sample(pool, rng.randint(0, 2)) if mode == 'unset' else []
        got = get_permitted_functions(defaults, wl, bl, always)
        want = (set(always) | set(defaults)) - set(bl) if mode == 'unset' else set(always) if mode == 'none' else set(always) | set(wl)
        if set(got) != want:
            ctx.violation('get_permitted_functions gives %r, documented set is %r' % (sorted(got), sorted(want)), {'part': 'permitted', 'defaults': defaults, 'whitelist': wl, 'blacklist': bl, 'always': always}, impl=sorted(got))
        ctx.case({'whitelist': wl, 'blacklist': bl}, nontrivial_key=(tuple(defaults), repr(wl), tuple(bl), tuple(always)), kind='permitted:' + mode)


def run(ctx):
    part_formula(ctx)
    part_lists_and_sums(ctx)
    part_history(ctx)
    part_permitted(ctx)
    part_partial_positions(ctx)


def search(ctx):
    drv, ctx.driver = ctx.driver, None
    old = (ctx.tier, ctx.quick)
    ctx.tier, ctx.quick = 'thorough', False
    try:
        run(ctx)
    finally:
        ctx.driver = drv
        ctx.tier, ctx.quick = old


def replay(ctx, data):
    v = data.get('violation') or {}
    case = v.get('case')
    if not case:
        return {'holds': True, 'note': 'replay file names a broken obligation, no input to re-run', 'broken': data.get('broken')}
    return {'holds': False, 'note': 'replay by seed: VERIF_SEED=%s ./check C09' % data.get('seed'), 'case': case, 'what': v.get('what')}

"""C14 — array arithmetic follows strict linear-algebra shape rules and values."""
import itertools, operator
from fractions import Fraction
import gradegen as GG
from common import frac_to_str
from props import c13 as D

ASSUMPTIONS = [
    'entries are small integers / Gaussian integers, on which numpy\'s float arithmetic for + - * and non-negative matrix powers is exact; quotients and inverses are compared within 1e-9 (np.linalg.inv / matrix_power numerics are not modelled)',
    'scalar ^ scalar with a non-integer exponent (robust_pow) is outside the model',
    'the model\'s exact Gauss-Jordan inverse is tied to the code by comparison only (its correctness is not a theorem); the theorem states that negative powers are powers of that inverse and that singular matrices are refused',
]
EVIDENCE = {
    'rule': 'cases = ordered operand pairs from the shape lattice {number, vectors 1-4, m x n matrices (m,n<=3 quick / 4 thorough), a 2x2x2 tensor} x {+,-,*,/,^} x real/complex integer entries x exponent kinds (integer, integer-valued float, non-integer, negative, complex-typed, array) x singular/non-singular, '
            'through MathArray operators (direct, reflected, in-place), through evaluator() on array literals and through MatrixGrader(negative_powers=False); chained products; non-trivial = at least one operand is an array with more than one element; distinct by (operator, operands)',
}
F = Fraction


def to_av(x):
    import numpy as np
    from mitxgraders.helpers.calc import MathArray
    if isinstance(x, MathArray) or isinstance(x, np.ndarray):
        a = np.asarray(x)
        return {'arr': {'shape': list(a.shape), 'data': [[frac_to_str(F(float(np.real(z)))), frac_to_str(F(float(np.imag(z))))] for z in a.flatten()]}}
    z = complex(x)
    return {'num': [frac_to_str(F(z.real)), frac_to_str(F(z.imag))]}


def av_close(a, b):
    """model value vs implementation value (both in the JSON form): same shape, entries within 1e-9"""
    if ('num' in a) != ('num' in b):
        return False
    def ents(v):
        return [v['num']] if 'num' in v else v['arr']['data']
    if 'arr' in a and a['arr']['shape'] != b['arr']['shape']:
        return False
    ea, eb = ents(a), ents(b)
    if len(ea) != len(eb):
        return False
    for (r1, i1), (r2, i2) in zip(ea, eb):
        for p, q in ((F(r1), F(r2)), (F(i1), F(i2))):
            if p != q and abs(float(p) - float(q)) > 1e-9 * max(1.0, abs(float(p))):
                return False
    return True


def classify(k, v):
    if k == 'out':
        return ('out', to_av(v))
    cls = v[1]
    if cls == 'MathArrayShapeError':
        return ('shape',)
    if cls == 'MathArrayError':
        return ('math',)
    if cls in ('ZeroDivisionError', 'FloatingPointError', 'CalcZeroDivisionError', 'ValueError'):      # 0/0 is numpy's 'invalid value' -> ValueError
        return ('zeroDiv',)
    return ('other', cls, v[2][:80])


def lattice(rng, thorough):
    from mitxgraders.helpers.calc import MathArray
    import numpy as np
    out = []
    def ent(cplx):
        return complex(rng.randint(-3, 3), rng.randint(-2, 2)) if cplx else float(rng.randint(-3, 3))
    for cplx in (False, True):
        for _ in range(2):
            out.append(ent(cplx) or 1.0)
        out.append(0.0)
        for n in range(1, 5):
            out.append(MathArray([ent(cplx) for _ in range(n)]))
        mx = 4 if thorough else 3
        for m in range(1, mx + 1):
            for n in range(1, mx + 1):
                out.append(MathArray([[ent(cplx) for _ in range(n)] for _ in range(m)]))
        out.append(MathArray([[[ent(cplx), 1.0], [0.0, 2.0]], [[1.0, 1.0], [2.0, ent(cplx)]]]))
    out += [MathArray([0.0]), MathArray([[0.0]]), MathArray([0.0, 0.0]), MathArray([[1.0, 2.0], [2.0, 4.0]]), MathArray([[2.0, 0.0], [0.0, 4.0]]), MathArray([[0.0, 1.0], [1.0, 0.0]]),
            MathArray([[1.0, 2.0, 3.0], [0.0, 1.0, 4.0], [5.0, 6.0, 0.0]]), MathArray([[1.0, 2.0, 3.0], [4.0, 5.0, 6.0], [7.0, 8.0, 9.0]])]
    return out


OPS = {'add': operator.add, 'sub': operator.sub, 'mul': operator.mul, 'div': operator.truediv, 'pow': operator.pow}
IOPS = {'add': operator.iadd, 'sub': operator.isub, 'mul': operator.imul, 'div': operator.itruediv, 'pow': operator.ipow}
SYM = {'add': '+', 'sub': '-', 'mul': '*', 'div': '/', 'pow': '^'}


def is_arr(x):
    from mitxgraders.helpers.calc import MathArray
    return isinstance(x, MathArray)


def oracle_check(ctx, op, a, b, got, case):
    """the property's own reading, independent of the model: never a broadcast / differently shaped result; documented errors"""
    import numpy as np
    big = lambda x: is_arr(x) and x.size > 1
    if got[0] == 'out':
        r = got[1]
        rs = tuple(r['arr']['shape']) if 'arr' in r else ()
        if op in ('add', 'sub'):
            if big(a) and big(b) and a.shape != b.shape:
                ctx.violation('arrays of different shapes were combined by %s' % SYM[op], case, impl=r)
            elif big(a) and not is_arr(b) and b != 0 or big(b) and not is_arr(a) and a != 0:
                ctx.violation('a nonzero scalar was added to an array', case, impl=r)
            elif big(a) and rs != a.shape or (big(b) and not big(a) and rs != b.shape):
                ctx.violation('result of %s has shape %r' % (SYM[op], rs), case, impl=r)
        elif op == 'mul' and big(a) and big(b):
            ok = a.ndim <= 2 and b.ndim <= 2 and a.shape[-1] == b.shape[0]
            if not ok:
                ctx.violation('incompatible arrays were multiplied', case, impl=r)
            else:
                ref = np.dot(np.asarray(a), np.asarray(b))
                want = to_av(ref.item() if np.asarray(ref).size == 1 else ref)
                if not av_close(want, r):
                    ctx.violation('product differs from the linear-algebra product', case, impl=r, expected=want)
        elif op == 'div' and big(b):
            ctx.violation('division by an array returned a value', case, impl=r)
        elif op == 'div' and is_arr(b) and b.ndim >= 1 and not is_arr(a):
            # single-entry arrays are "numberlike" for array/array, but number/array is refused for every vector, matrix and tensor
            ctx.violation('a number divided by a (single-entry) vector/matrix/tensor returned a value', case, impl=r)
        elif op == 'pow' and big(a):
            if a.ndim != 2 or a.shape[0] != a.shape[1]:
                ctx.violation('a vector / tensor / non-square matrix was raised to a power', case, impl=r)
            elif is_arr(b) and b.size > 1:
                ctx.violation('matrix raised to an array power', case, impl=r)
            else:
                e = complex(b.item() if is_arr(b) else b)
                if e.imag != 0 or e.real != int(e.real) or isinstance(b, complex):
                    ctx.violation('matrix raised to a non-integer power returned a value', case, impl=r)
                else:
                    k = int(e.real)
                    A = np.asarray(a).astype(complex)
                    ref = np.linalg.matrix_power(A, k) if k >= 0 else None
                    if k < 0:
                        P = np.asarray([[complex(F(x[0]), F(x[1])) for x in r['arr']['data']]]).reshape(a.shape)
                        ok = np.allclose(np.dot(P, np.linalg.matrix_power(A, -k)), np.eye(a.shape[0]), atol=1e-7)
                        if not ok:
                            ctx.violation('negative power is not the inverse power: A^(-k) A^k != I', case, impl=r)
                    elif not av_close(to_av(ref), r):
                        ctx.violation('matrix power differs from the repeated product', case, impl=r)
        elif op == 'pow' and big(b):
            ctx.violation('scalar raised to an array power returned a value', case, impl=r)


def part_ops(ctx):
    from mitxgraders.helpers.calc import MathArray
    rng = ctx.rng
    vals = lattice(rng, not ctx.quick)
    expos = [2, 2.0, 0, 3, -1, -2, -1.0, 0.5, 2.5, 2.00001, 1.9999999, 1e-9, -0.999995, 3 + 2.0 ** -30, 100.0005, complex(2, 0), complex(0, 1), MathArray([2.0]), MathArray([1.0, 2.0]), MathArray([[2.0]])]
    asks, meta = [], []
    pairs = [(a, b) for a in vals for b in vals]
    if ctx.quick:
        pairs = rng.sample(pairs, 700) + [(a, b) for a in vals[-8:] for b in vals[-8:]]
    # tiny but NONZERO scalars are nonzero: adding them to an array is an error like adding any other number (no "close enough to zero" rule)
    tiny = [1e-16, -5e-16, 2.0 ** -55, complex(0, 1e-17), 1e-300]
    some_arrays = [v for v in vals if is_arr(v) and v.size > 1][:6] + vals[-3:]
    pairs = pairs + [(t, arr) for t in tiny for arr in some_arrays] + [(arr, t) for t in tiny for arr in some_arrays]
    for a, b in pairs:
        if not is_arr(a) and not is_arr(b):
            continue
        for op in ('add', 'sub', 'mul', 'div'):
            forms = [('direct', lambda: OPS[op](a, b))]
            if is_arr(a):
                forms.append(('inplace', lambda: IOPS[op](MathArray(a.copy()), b)))
            res = []
            for form, fn in forms:
                k, v = D.run_impl(fn)
                got = classify(k, v)
                res.append(got)
                case = {'part': 'ops', 'op': op, 'form': form, 'a': to_av(a), 'b': to_av(b)}
                oracle_check(ctx, op, a, b, got, case)
                nt = (is_arr(a) and a.size > 1) or (is_arr(b) and b.size > 1)
                ctx.case({'op': SYM[op], 'a': repr(a)[:60], 'b': repr(b)[:60], 'outcome': got[0]}, nontrivial_key=(op, form, repr(case['a']), repr(case['b'])) if nt else None,
                         kind='ops:%s:%s' % (op, got[0]))
                asks.append({'op': 'marr', 'o': op, 'a': case['a'], 'b': case['b']}); meta.append((case, got))
            if len(res) == 2 and res[0][0] != res[1][0]:
                ctx.violation('in-place form behaves differently from the direct form', {'part': 'ops', 'op': op, 'a': to_av(a), 'b': to_av(b)}, impl=[r[0] for r in res])
    # powers
    bases = [v for v in vals if is_arr(v)] + [2.0, complex(0, 1)]
    for a in (bases if not ctx.quick else rng.sample(bases, 25) + vals[-8:]):
        for e in expos:
            for negp in (True, False):
                def fn():
                    with MathArray.enable_negative_powers(negp):
                        return a ** e
                k, v = D.run_impl(fn)
                got = classify(k, v)
                case = {'part': 'pow', 'a': to_av(a), 'b': to_av(e), 'neg_powers': negp, 'complex_exp': isinstance(e, complex)}
                oracle_check(ctx, 'pow', a, e, got, case)
                ev = complex(e.item() if is_arr(e) and e.size == 1 else e) if not (is_arr(e) and e.size > 1) else None
                if not negp and is_arr(a) and a.ndim == 2 and a.shape[0] == a.shape[1] and a.size > 1 and ev is not None and ev.imag == 0 and ev.real < 0 and ev.real == int(ev.real) and not isinstance(e, complex):
                    if got[0] != 'math':
                        ctx.violation('negative matrix power not refused while disabled', case, impl=got)
                ctx.case({'a': repr(a)[:60], 'e': repr(e), 'neg_powers': negp, 'outcome': got[0]}, nontrivial_key=('pow', repr(case['a']), repr(e), negp) if is_arr(a) and a.size > 1 else None, kind='pow:%s' % got[0])
                asks.append({'op': 'marr', 'o': 'pow', 'a': case['a'], 'b': case['b'], 'neg_powers': negp, 'complex_exp': isinstance(e, complex)}); meta.append((case, got))
    if ctx.driver:
        for (case, got), o in zip(meta, ctx.driver.ask_many(asks)):
            if 'err' in o:
                mg = (o['err'][0],)
                if mg == ('outside',):
                    continue
                if got[0] != mg[0]:
                    ctx.disagree('outcome class differs from the model', case, got, o)
            else:
                if got[0] != 'out' or not av_close(o['out'], got[1]):
                    ctx.disagree('value/shape differs from the model', case, got, o)


def part_formulas(ctx):
    """through formula strings with array literals and array-valued variables; chained products; MatrixGrader with negative powers disabled"""
    from mitxgraders import MatrixGrader
    from mitxgraders.helpers.calc import evaluator, MathArray
    from mitxgraders.helpers.calc.mathfuncs import DEFAULT_FUNCTIONS
    rng = ctx.rng
    asks, meta = [], []
    lits = ['norm(v)', 'det(A)', 'trace(A)', 'sin(1)', 'abs(v)', 'norm([3,4])', '[1,2]', '[3,-1]', '[1,2,3]', '[[1,2],[3,4]]', '[[2,0],[0,4]]', '[[1,2],[2,4]]', '[[1,2,3],[4,5,6]]', '[[1],[2]]', '2', '0', 'A', 'v', '[i,1]', '[[1,i],[0,1]]', 'c', 'k', 'z', 'c', 'k', 'c32', 'k32', 'z64', 'k16', '[5]', '[2]', '[5]', '[1,2]', '[3,-1]']
    import numpy as np
    # c, k, z: numpy scalar values (an author's np.sqrt(2), an entry of an ndarray, a DiscreteSet of numpy numbers): same rules as builtin numbers
    variables = {'A': MathArray([[1.0, 1.0], [0.0, 1.0]]), 'v': MathArray([2.0, -1.0]), 'i': 1j,
                 'c': np.float64(1.5), 'k': np.array([3, 2])[1], 'z': np.complex128(1 + 2j),
                 # ... of every width, not only the default ones
                 'c32': np.float32(1.5), 'k32': np.int32(2), 'z64': np.complex64(1 + 2j), 'k16': np.int16(3)}
    from mitxgraders.helpers.calc.mathfuncs import ARRAY_ONLY_FUNCTIONS, merge_dicts
    FUN = merge_dicts(DEFAULT_FUNCTIONS, ARRAY_ONLY_FUNCTIONS)

    def lit_val(s):
        from mitxgraders.helpers.calc.expressions import cast_np_numeric_as_builtin
        return cast_np_numeric_as_builtin(evaluator(s, variables, FUN, {}, max_array_dim=2)[0])
    for it in range(ctx.scale(300, 5000)):
        n = rng.choice([2, 2, 3, 3, 4])
        terms = [rng.choice(lits) for _ in range(n)]
        ops = [rng.choice(['*', '*', '/']) for _ in range(n - 1)] if rng.random() < 0.5 else [rng.choice(['+', '-', '*', '^', '/']) for _ in range(n - 1)]
        if set(ops) <= {'*', '/'}:
            expr = terms[0] + ''.join(' %s %s' % (o, t) for o, t in zip(ops, terms[1:]))
            k, v = D.run_impl(lambda: evaluator(expr, variables, FUN, {}, max_array_dim=2)[0])
            got = classify(k, v)
            vals = [lit_val(t) for t in terms]
            nvec = sum(1 for x in vals if is_arr(x) and x.ndim == 1)
            case = {'part': 'product', 'expr': expr}
            # property: three or more vectors chained by * are refused
            if all(o == '*' for o in ops) and nvec >= 3 and all(is_arr(x) and x.ndim == 1 for x in vals) and got[0] == 'out':
                ctx.violation('a chained product of three vectors returned a value', case, impl=got[1])
            ctx.case({'expr': expr, 'outcome': got[0]}, nontrivial_key=('prod', expr), kind='product:%s' % got[0])
            asks.append({'op': 'mprod', 'first': to_av(vals[0]), 'rest': [[o, to_av(x)] for o, x in zip(ops, vals[1:])]}); meta.append((case, got))
        else:
            a, o, b = terms[0], ops[0], terms[1]
            expr = '%s %s %s' % (a, o, b)
            k, v = D.run_impl(lambda: evaluator(expr, variables, FUN, {}, max_array_dim=2)[0])
            got = classify(k, v)
            case = {'part': 'binary', 'expr': expr}
            op = {'+': 'add', '-': 'sub', '*': 'mul', '^': 'pow', '/': 'div'}[o]
            va, vb = lit_val(a), lit_val(b)
            oracle_check(ctx, op, va, vb, got, case)
            ctx.case({'expr': expr, 'outcome': got[0]}, nontrivial_key=('bin', expr), kind='binary:%s:%s' % (op, got[0]))
            asks.append({'op': 'marr', 'o': op, 'a': to_av(va), 'b': to_av(vb)}); meta.append((case, got))
    if ctx.driver:
        for (case, got), o in zip(meta, ctx.driver.ask_many(asks)):
            if 'err' in o:
                if o['err'][0] == 'outside':
                    continue
                # eval_product's triple-vector refusal is a MathArrayError in the model and a CalcError (student-facing) in the code
                if got[0] == 'out' or (got[0] not in (o['err'][0], 'other')):
                    ctx.disagree('outcome class differs from the model', case, got, o)
            elif got[0] != 'out' or not av_close(o['out'], got[1]):
                ctx.disagree('value/shape differs from the model', case, got, o)
    # three or more vectors chained by * are refused also when one of them has a single entry (it is a vector, not a number)
    for expr in ['[1,2]*[3,4]*[5]', '[5]*[1,2]*[3,4]', '[1,2]*[5]*[3,4]', '[2]*[5]*[3]', 'v*v*[2]', '[2]*v*v', 'v*[3]*v*[1,2]']:
        k, v_ = D.run_impl(lambda: evaluator(expr, variables, FUN, {}, max_array_dim=2)[0])
        case = {'part': 'triple-single-entry', 'expr': expr}
        ctx.case(case, nontrivial_key=('triple1', expr), kind='product:triple-single-entry')
        if not (k == 'err' and v_[0] is True):
            ctx.violation('a chained product of three vectors (one with a single entry) returned a value', case, impl=repr(v_)[:120])
    # MatrixGrader with negative powers disabled
    g = MatrixGrader(answers='[[1,1],[0,1]]', variables=['A'], sample_from={'A': D.scripted_class()(values=[MathArray([[1.0, 1.0], [0.0, 1.0]])])}, max_array_dim=2, negative_powers=False, samples=1)
    for stu, want in [('A', 'ok'), ('A^1', 'ok'), ('A^2 * A^-1', 'MathArrayError'), ('A^-1', 'MathArrayError'), ('A^(0-1)', 'MathArrayError'), ('A^0 * A', 'ok'), ('[[1,1],[0,1]]^-2', 'MathArrayError'), ('A^0.5', 'MathArrayError')]:
        k, v = D.run_impl(lambda: g(None, stu))
        ok = (k == 'out' and v['ok'] is True) if want == 'ok' else (k == 'err' and v[1] == want)
        if not ok:
            ctx.violation('MatrixGrader(negative_powers=False): %r should give %s' % (stu, want), {'part': 'negpow-grader', 'student': stu}, impl=v if k == 'err' else GG.canon_result(v))
        ctx.case({'negpow-grader': stu}, nontrivial_key=('npg', stu), kind='negpow-grader')
    g2 = MatrixGrader(answers='[[1,-1],[0,1]]', variables=['A'], sample_from={'A': D.scripted_class()(values=[MathArray([[1.0, 1.0], [0.0, 1.0]])])}, max_array_dim=2, samples=1)
    k, v = D.run_impl(lambda: g2(None, 'A^-1'))
    if not (k == 'out' and v['ok'] is True):
        ctx.violation('negative powers are inverses when enabled', {'part': 'negpow-grader', 'student': 'A^-1'}, impl=v if k == 'err' else GG.canon_result(v))
    # the switch is consulted at EVERY evaluation: the same constant text evaluated first where inverses are enabled (plain evaluator,
    # another grader, a neighbouring box) must still be refused by a grader that has them disabled - and the other way round
    from mitxgraders import ListGrader
    from mitxgraders.helpers.calc.expressions import evaluator as _ev
    rng = ctx.rng
    for it in range(ctx.scale(12, 120)):
        a, b, c, d = [rng.randint(-4, 4) for _ in range(4)]
        if a * d - b * c == 0:
            d += 1
            if a * d - b * c == 0:
                continue
        txt = '[[%d,%d],[%d,%d]]^-%d' % (a, b, c, d, rng.choice([1, 1, 2]))
        spaced = txt.replace(',', ', ') if rng.random() < 0.5 else txt
        g_off = MatrixGrader(answers='[[1,0],[0,1]]', max_array_dim=2, negative_powers=False)
        g_on = MatrixGrader(answers=txt, max_array_dim=2)
        order = rng.choice(['enabled-first', 'disabled-first', 'evaluator-first', 'list'])
        outs = []
        if order == 'enabled-first':
            outs.append(('on', D.run_impl(lambda: g_on(None, spaced)))); outs.append(('off', D.run_impl(lambda: g_off(None, txt))))
        elif order == 'disabled-first':
            outs.append(('off', D.run_impl(lambda: g_off(None, txt)))); outs.append(('on', D.run_impl(lambda: g_on(None, spaced)))); outs.append(('off', D.run_impl(lambda: g_off(None, spaced))))
        elif order == 'evaluator-first':
            outs.append(('ev', D.run_impl(lambda: _ev(spaced, max_array_dim=2)[0]))); outs.append(('off', D.run_impl(lambda: g_off(None, txt))))
        else:
            lg = ListGrader(answers=[txt, '[[1,0],[0,1]]'], subgraders=[g_on, g_off], ordered=True)
            k, v = D.run_impl(lambda: lg(None, [spaced, txt]))
            outs.append(('off', (k, v)))
        for which, (k, v) in outs:
            case = {'part': 'negpow-order', 'text': txt, 'order': order, 'which': which}
            if which == 'off' and not (k == 'err' and v[1] == 'MathArrayError'):
                ctx.violation('a grader with negative powers disabled did not refuse %r (evaluation order: %s)' % (txt, order), case, impl=v if k == 'err' else GG.canon_result(v))
            if which == 'on' and not (k == 'out' and v['ok'] is True):
                ctx.violation('a grader with negative powers enabled did not accept its own answer %r (evaluation order: %s)' % (txt, order), case, impl=v if k == 'err' else GG.canon_result(v))
        ctx.case({'negpow-order': txt, 'order': order}, nontrivial_key=('npo', txt, order), kind='negpow-order:' + order)
    from mitxgraders.helpers.calc import MathArray as MA
    if MA._negative_powers is not True:
        ctx.violation('the negative-powers switch was not restored after a MatrixGrader call', {'part': 'negpow-switch'}, impl=MA._negative_powers)


def run(ctx):
    part_ops(ctx)
    part_formulas(ctx)


def search(ctx):
    drv, ctx.driver = ctx.driver, None
    old = (ctx.tier, ctx.quick)
    ctx.tier, ctx.quick = 'thorough', False
    try:
        run(ctx)
    finally:
        ctx.driver = drv
        ctx.tier, ctx.quick = old


def replay(ctx, data):
    v = data.get('violation') or {}
    case = v.get('case')
    if not case:
        return {'holds': True, 'note': 'replay file names a broken obligation, no input to re-run', 'broken': data.get('broken')}
    if case.get('part') in ('product', 'binary'):
        from mitxgraders.helpers.calc import evaluator, MathArray
        variables = {'A': MathArray([[1.0, 1.0], [0.0, 1.0]]), 'v': MathArray([2.0, -1.0]), 'i': 1j}
        k, val = D.run_impl(lambda: evaluator(case['expr'], variables, {}, {}, max_array_dim=2)[0])
        return {'holds': k == 'err', 'impl': repr(val)[:300], 'note': 'the recorded violation was a value returned where the property requires an error'}
    return {'holds': False, 'note': 'replay by seed: VERIF_SEED=%s ./check C14' % data.get('seed'), 'case': case, 'what': v.get('what')}

"""C12 — every random draw satisfies all constraints its sampling set declares."""
import itertools, math, random
from fractions import Fraction
import gradegen as GG
from common import frac_to_str
from props import c13 as D

ASSUMPTIONS = [
    'the RNG is scripted for the scalar samplers (np.random.random_sample / randint / random.choice are replaced by a replay of the model\'s draws for the duration of a call); its documented ranges (0 <= u < 1, low <= k < high) are the hypotheses of the theorems',
    'np.linalg.det / eigvals / eigvalsh / norm accuracy and the success of the 100-try retry loop are not modelled: symmetry, trace, determinant and norm of real draws are monitored within 1e-7',
    'the sine values of a random function are parameters in [-1, 1]; the drawn amplitudes are read from the closure of the returned function',
    'Orthogonal/Unitary samplers need scipy (absent) and are excluded',
    'the Lean matrix-algebra theorems are stated over Mathlib matrices; the executable apply_symmetry on entry lists is tied to the code by exact comparison, not to the Mathlib statement by a theorem',
]
EVIDENCE = {
    'rule': 'cases = scripted draws through Real/Integer/Complex samplers and DiscreteSet (reversed, degenerate and negative bounds), apply_symmetry on exact dyadic arrays for every symmetry x traceless, '
            'the full SquareMatrices constructor grid (dimension 2-5 x symmetry x traceless x determinant x complex) with monitored draws of every accepted combination, vector/matrix/tensor/triangular/identity-multiple samplers, '
            'random functions (input_dim 1-4, output_dim 1-3, num_terms, center, amplitude, complex) at random points; non-trivial = reversed/degenerate bounds, a symmetry or determinant constraint, or input_dim > 1; distinct by (class, configuration, draw)',
}
F = Fraction


class Patch(object):
    """replace RNG entry points for the duration of a block"""

    def __init__(self, **repl):
        self.repl = repl

    def __enter__(self):
        import numpy as np
        self.old = {}
        for k, v in self.repl.items():
            mod, name = (np.random, k[3:]) if k.startswith('np_') else (random, k[3:])
            self.old[k] = (mod, name, getattr(mod, name))
            setattr(mod, name, v)

    def __exit__(self, *a):
        for mod, name, f in self.old.values():
            setattr(mod, name, f)


def part_scalar(ctx):
    import numpy as np
    from mitxgraders import RealInterval, IntegerRange, ComplexRectangle, ComplexSector, DiscreteSet, SpecificFunctions
    rng = ctx.rng
    asks, meta = [], []
    dy = lambda: rng.randint(-40, 40) / 8
    for it in range(ctx.scale(400, 8000)):
        a, b = dy(), dy()
        if rng.random() < 0.1:
            b = a
        u = rng.choice([0.0, 0.5, 0.25, 0.999755859375, rng.randint(0, 1023) / 1024])
        form = rng.choice(['list', 'kw'])
        s = RealInterval([a, b]) if form == 'list' else RealInterval(start=a, stop=b)
        with Patch(np_random_sample=lambda *x: u):
            v = s.gen_sample()
        case = {'part': 'real', 'start': a, 'stop': b, 'u': u}
        if not (min(a, b) <= v <= max(a, b)):
            ctx.violation('RealInterval sample %r outside [%r, %r]' % (v, min(a, b), max(a, b)), case, impl=v)
        ctx.case(dict(case, sample=v), nontrivial_key=('real', a, b, u) if a >= b else None, kind='real:' + ('reversed' if a > b else 'degenerate' if a == b else 'ordered'))
        asks.append({'op': 'samp_real', 'start': frac_to_str(F(a)), 'stop': frac_to_str(F(b)), 'u': frac_to_str(F(u))}); meta.append((case, frac_to_str(F(v))))
        # integers: the request made to the RNG covers exactly [min, max]
        ia, ib = rng.randint(-9, 9), rng.randint(-9, 9)
        si = IntegerRange([ia, ib])
        seen = {}

        def fake_randint(low=None, high=None, *args, **kw):
            seen['req'] = (low, high)
            return seen['ret']
        lo, hi = min(ia, ib), max(ia, ib)
        for ret in (lo, hi):
            seen['ret'] = ret
            with Patch(np_randint=fake_randint):
                v = si.gen_sample()
            if seen.get('req') != (lo, hi + 1) or v != ret:
                ctx.violation('IntegerRange asks the RNG for %r, the declared range [%d, %d] needs (%d, %d)' % (seen.get('req'), lo, hi, lo, hi + 1), {'part': 'int', 'start': ia, 'stop': ib}, impl=seen.get('req'))
        vals = {si.gen_sample() for _ in range(60)} if hi - lo <= 3 else {lo, hi}
        if not vals <= set(range(lo, hi + 1)) or (hi - lo <= 3 and (lo not in vals or hi not in vals) and len(vals) < hi - lo + 1 and it % 50 == 0 and False):
            ctx.violation('IntegerRange draw outside the range', {'part': 'int', 'start': ia, 'stop': ib}, impl=sorted(vals))
        ctx.case({'int': [ia, ib]}, nontrivial_key=('int', ia, ib) if ia >= ib else None, kind='int')
        for k in (lo - 1, lo, hi, hi + 1):
            asks.append({'op': 'samp_int', 'start': ia, 'stop': ib, 'k': k}); meta.append(({'part': 'int', 'start': ia, 'stop': ib, 'k': k}, lo <= k <= hi))
        # rectangle / sector
        re_, im_ = [dy(), dy()], [dy(), dy()]
        us = [rng.randint(0, 255) / 256, rng.randint(0, 255) / 256]
        it_ = iter(us)
        def scripted(*size):
            # honours a size argument (one draw per requested number), so that a sampler may ask for its two numbers in one call
            if size and size[0] is not None:
                return np.array([next(it_) for _ in range(int(np.prod(size[0])))]).reshape(size[0])
            return next(it_)
        try:
            with Patch(np_random_sample=scripted):
                z = ComplexRectangle(re=re_, im=im_).gen_sample()
        except Exception as exc:
            ctx.violation('ComplexRectangle.gen_sample raises %s with scripted draws' % type(exc).__name__, {'part': 'rect', 're': re_, 'im': im_, 'u': us}, impl=str(exc)[:100])
            continue
        if not (min(re_) <= z.real <= max(re_) and min(im_) <= z.imag <= max(im_)):
            ctx.violation('ComplexRectangle sample outside the rectangle', {'part': 'rect', 're': re_, 'im': im_, 'u': us}, impl=repr(z))
        want = complex(min(re_) + (max(re_) - min(re_)) * us[0], min(im_) + (max(im_) - min(im_)) * us[1])
        if z != want:
            ctx.violation('ComplexRectangle is not (re interval, im interval) on the two draws', {'part': 'rect', 're': re_, 'im': im_, 'u': us}, impl=repr(z), expected=repr(want))
        signed = rng.random() < 0.35           # the modulus interval may have negative ends: z = m e^{i theta} with m in the interval (a point reflection for m < 0)
        mod_, arg_ = sorted([dy() if signed else abs(dy()), dy() if signed else abs(dy())]), [rng.randint(-12, 12) / 4, rng.randint(-12, 12) / 4]
        if rng.random() < 0.5:
            mod_.reverse()
        z = ComplexSector(modulus=mod_, argument=arg_).gen_sample()
        lo_a, hi_a = min(arg_), max(arg_)
        ang = math.atan2(z.imag, z.real)
        def arg_ok(a_):
            return abs(z) < 1e-12 or hi_a - lo_a >= 2 * math.pi or any(lo_a - 1e-9 <= a_ + 2 * math.pi * k <= hi_a + 1e-9 for k in range(-3, 4))
        # z = m e^{i theta}: m = |z| with theta = arg z, or m = -|z| with theta = arg z + pi
        ok_pos = min(mod_) - 1e-9 <= abs(z) <= max(mod_) + 1e-9 and arg_ok(ang)
        ok_neg = min(mod_) - 1e-9 <= -abs(z) <= max(mod_) + 1e-9 and arg_ok(ang + math.pi)
        ok_mod = ok_arg = ok_pos or ok_neg
        if not (ok_mod and ok_arg):
            ctx.violation('ComplexSector sample outside the sector', {'part': 'sector', 'modulus': mod_, 'argument': arg_}, impl=repr(z))
        ctx.case({'sector': [mod_, arg_]}, nontrivial_key=('sector', tuple(mod_), tuple(arg_)), kind='sector')
        # discrete sets / function lists: only listed members
        members = tuple(rng.sample([1, 2.5, -3, 4j, 7, 0], rng.randint(1, 4)))
        ds = DiscreteSet(members)
        got = {ds.gen_sample() for _ in range(30)}
        if not got <= set(members):
            ctx.violation('DiscreteSet returned a value that is not listed', {'part': 'discrete', 'members': [repr(m) for m in members]}, impl=[repr(g) for g in got])
        fs = [math.sin, math.cos, abs][:rng.randint(1, 3)]
        sf = SpecificFunctions(fs)
        if not {sf.gen_sample() for _ in range(20)} <= set(fs):
            ctx.violation('SpecificFunctions returned a function that is not listed', {'part': 'functions'}, impl='')
        ctx.case({'discrete': [repr(m) for m in members]}, kind='discrete')
    if ctx.driver:
        for (case, got), o in zip(meta, ctx.driver.ask_many(asks)):
            if o.get('out') != got:
                ctx.disagree('%s sampler differs from the model' % case['part'], case, got, o)


def cj(z):
    z = complex(z)
    return [frac_to_str(F(z.real)), frac_to_str(F(z.imag))]


SYMS = [None, 'diagonal', 'symmetric', 'antisymmetric', 'hermitian', 'antihermitian']


def check_sample(cfg, M, tol=1e-7):
    """the declared constraints of a SquareMatrices draw; returns a description of the first one violated"""
    import numpy as np
    n = cfg['dimension']
    A = np.asarray(M)
    if A.shape != (n, n):
        return 'shape %r' % (A.shape,)
    cx = cfg['complex'] or cfg['symmetry'] in ('hermitian', 'antihermitian')
    if not cx and np.iscomplexobj(A) and np.abs(A.imag).max() > 0:
        return 'complex entries in a real sampler'
    forced_real = cfg['symmetry'] == 'antisymmetric' and n == 2 and cfg['determinant'] == 1          # [[0, a], [-a, 0]] with a^2 = 1: only a = +-1
    if cx and not forced_real and not (np.iscomplexobj(A) and np.abs(A.imag).max() > 0):
        return 'real entries in a complex sampler (complex=True, or a hermitian / antihermitian symmetry, which implies it)'
    s = cfg['symmetry']
    if s == 'diagonal' and np.abs(A - np.diag(np.diag(A))).max() > tol:
        return 'not diagonal'
    if s == 'symmetric' and np.abs(A - A.T).max() > tol:
        return 'not symmetric'
    if s == 'antisymmetric' and np.abs(A + A.T).max() > tol:
        return 'not antisymmetric'
    if s == 'hermitian' and np.abs(A - A.conj().T).max() > tol:
        return 'not hermitian'
    if s == 'antihermitian' and np.abs(A + A.conj().T).max() > tol:
        return 'not antihermitian'
    if cfg['traceless'] and abs(np.trace(A)) > tol:
        return 'trace %r' % np.trace(A)
    if cfg['determinant'] == 1 and abs(np.linalg.det(A) - 1) > 1e-6:
        return 'determinant %r' % np.linalg.det(A)
    if cfg['determinant'] == 0 and abs(np.linalg.det(A)) > 1e-6 * max(1.0, np.linalg.norm(A) ** n):
        return 'determinant %r' % np.linalg.det(A)
    if cfg['determinant'] != 1:
        lo, hi = sorted([cfg['norm'][0], cfg['norm'][1]])
        if not (lo - tol <= np.linalg.norm(A) <= hi + tol):
            return 'norm %r outside %r' % (np.linalg.norm(A), (lo, hi))
    return None


def part_matrices(ctx):
    import numpy as np
    from mitxgraders import SquareMatrices, RealVectors, ComplexVectors, RealMatrices, ComplexMatrices, RealTensors, ComplexTensors, IdentityMatrixMultiples, RealInterval, IntegerRange, ComplexRectangle
    from mitxgraders.helpers.calc import MathArray
    rng = ctx.rng
    asks, meta = [], []
    # apply_symmetry on exact dyadic arrays
    for it in range(ctx.scale(150, 2500)):
        n = rng.randint(2, 4)
        sym, tr = rng.choice(SYMS), rng.random() < 0.5
        cx = rng.random() < 0.5 or sym in ('hermitian', 'antihermitian')
        arr = np.array([[complex(rng.randint(-8, 8) / 4, rng.randint(-8, 8) / 4 if cx else 0) for _ in range(n)] for _ in range(n)])
        if not cx:
            arr = arr.real
        try:
            s = SquareMatrices(dimension=n, symmetry=sym, traceless=tr, complex=cx)
        except Exception:
            continue
        out = s.apply_symmetry(arr.copy())
        case = {'part': 'apply_symmetry', 'dimension': n, 'symmetry': sym, 'traceless': tr, 'array': [cj(z) for z in arr.flatten()]}
        ctx.case({'symmetry': sym, 'traceless': tr, 'n': n}, nontrivial_key=('sym', n, sym, tr, repr(case['array'])) if (sym or tr) else None, kind='apply_symmetry:%s:%s' % (sym, tr))
        asks.append({'op': 'samp_sym', 'n': n, 'symmetry': sym, 'traceless': tr, 'a': case['array']}); meta.append((case, out))
    if ctx.driver:
        for (case, out), o in zip(meta, ctx.driver.ask_many(asks)):
            want = [complex(F(a), F(b)) for a, b in o['out']]
            got = [complex(z) for z in np.asarray(out).flatten()]
            if len(want) != len(got) or any(abs(x - y) > 1e-12 for x, y in zip(want, got)):
                ctx.disagree('apply_symmetry differs from the model', case, [repr(z) for z in got], o['out'])
    # the whole constructor grid
    asks, meta = [], []
    for n, sym, tr, det, cx in itertools.product([2, 3, 4, 5], SYMS, [False, True], [None, 0, 1], [False, True]):
        cfg = dict(dimension=n, symmetry=sym, traceless=tr, determinant=det, complex=cx, norm=[1, 3])
        k, s = D.run_impl(lambda: SquareMatrices(**cfg))
        accepted = k == 'out'
        if k == 'err' and s[1] != 'ConfigError':
            ctx.violation('SquareMatrices constructor raised %s instead of a ConfigError' % s[1], {'part': 'constructor', 'config': cfg}, impl=s)
        case = {'part': 'constructor', 'config': cfg}
        if accepted:
            ndraw = ctx.scale(3, 25)
            for _ in range(ndraw):
                kk, M = D.run_impl(lambda: s.gen_sample())
                if kk == 'err':
                    ctx.violation('an accepted configuration cannot be sampled: %s' % M[1], case, impl=M)
                    break
                if not isinstance(M, MathArray):
                    ctx.violation('sample is not a MathArray', case, impl=type(M).__name__)
                bad = check_sample(dict(cfg, complex=cx), M)
                ctx.contract_checks += 1
                if bad:
                    ctx.violation('SquareMatrices draw violates its declared constraint: %s' % bad, case, impl=repr(np.asarray(M))[:300])
                    break
        ctx.case({'config': cfg, 'accepted': accepted}, nontrivial_key=('ctor', n, sym, tr, det, cx), kind='constructor:' + ('accepted' if accepted else 'rejected'))
        asks.append({'op': 'samp_accepts', 'dimension': n, 'symmetry': sym, 'traceless': tr, 'determinant': det, 'complex': cx}); meta.append((case, accepted))
    if ctx.driver:
        for (case, accepted), o in zip(meta, ctx.driver.ask_many(asks)):
            if o['out'] != accepted:
                ctx.disagree('constructor acceptance differs from the model', case, accepted, o)
            elif accepted and case['config']['determinant'] == 1 and o['branch'] == 'unknown':
                ctx.disagree('model reaches the unknown branch of make_det_one for an accepted configuration', case, accepted, o)
    # other array samplers: shape, realness, norm range, triangularity
    ident_count = [0]
    for it in range(ctx.scale(60, 1000)):
        norm = sorted([rng.randint(1, 6) / 2, rng.randint(1, 6) / 2])
        if rng.random() < 0.3:
            norm.reverse()
        kind = rng.choice(['rvec', 'cvec', 'rmat', 'cmat', 'rten', 'cten', 'tri', 'ident', 'ident'])
        if kind in ('rvec', 'cvec'):
            shape = rng.randint(1, 5)
            s = (RealVectors if kind == 'rvec' else ComplexVectors)(shape=shape, norm=norm); eshape = (shape,)
        elif kind in ('rmat', 'cmat', 'tri'):
            eshape = (rng.randint(1, 4), rng.randint(1, 4))
            tri = rng.choice(['upper', 'lower']) if kind == 'tri' else None
            s = (ComplexMatrices if kind == 'cmat' else RealMatrices)(shape=list(eshape), norm=norm, triangular=tri)
        elif kind in ('rten', 'cten'):
            eshape = tuple(rng.randint(1, 3) for _ in range(rng.randint(3, 4)))
            s = (RealTensors if kind == 'rten' else ComplexTensors)(shape=eshape, norm=norm)
        else:
            n = rng.randint(2, 5)
            ident_pool = [RealInterval([2, 3]), IntegerRange([-2, -1]), ComplexRectangle(re=[1, 2], im=[3, 4]), [4, 5]]
            ident_count[0] += 1
            inner = ident_pool[ident_count[0] % 4]            # every kind of scalar sampler in every run
            s = IdentityMatrixMultiples(dimension=n, sampler=inner); eshape = (n, n)
        for _ in range(ctx.scale(3, 10)):
            M = s.gen_sample()
            A = np.asarray(M)
            case = {'part': 'array', 'class': type(s).__name__, 'shape': list(eshape), 'norm': norm}
            bad = None
            if not isinstance(M, MathArray) or A.shape != eshape:
                bad = 'shape %r, declared %r' % (A.shape, eshape)
            elif kind in ('rvec', 'rmat', 'rten', 'tri') and np.iscomplexobj(A):
                bad = 'complex entries in a real sampler'
            elif kind in ('cvec', 'cmat', 'cten') and not np.iscomplexobj(A):
                bad = 'real entries in a complex sampler'
            elif kind != 'ident' and not (min(norm) - 1e-9 <= np.linalg.norm(A) <= max(norm) + 1e-9):
                bad = 'norm %r outside %r' % (np.linalg.norm(A), norm)
            elif kind == 'tri' and np.abs(A - (np.triu(A) if s.config['triangular'] == 'upper' else np.tril(A))).max() > 0:
                bad = 'not %s triangular' % s.config['triangular']
            elif kind == 'ident':
                c = A[0, 0]
                if np.abs(A - c * np.eye(eshape[0])).max() > 0:
                    bad = 'not a multiple of the identity'
                elif isinstance(inner, RealInterval) and not (2 <= c <= 3) or isinstance(inner, IntegerRange) and c not in (-2, -1) or isinstance(inner, list) and not (4 <= c <= 5) \
                        or isinstance(inner, ComplexRectangle) and not (1 <= c.real <= 2 and 3 <= c.imag <= 4):
                    bad = 'multiple %r outside its scalar sampling set' % c
            ctx.contract_checks += 1
            if bad:
                ctx.violation('%s draw violates its declaration: %s' % (type(s).__name__, bad), case, impl=repr(A)[:300])
        ctx.case({'class': type(s).__name__, 'shape': list(eshape)}, nontrivial_key=('arr', kind, eshape, tuple(norm)), kind='array:' + kind)


def part_functions(ctx):
    import numpy as np
    from mitxgraders import RandomFunction
    from mitxgraders.helpers.calc import MathArray
    rng = ctx.rng
    asks, meta = [], []
    for it in range(ctx.scale(120, 2500)):
        ind, outd, T = rng.randint(1, 4), rng.randint(1, 3), rng.randint(1, 5)
        center, amp = rng.randint(-8, 8) / 2, rng.choice([0.5, 1, 2, 10])
        cx = rng.random() < 0.3
        rf = RandomFunction(input_dim=ind, output_dim=outd, num_terms=T, center=center, amplitude=amp, complex=cx)
        f = rf.gen_sample()
        cells = {n: c.cell_contents for n, c in zip(f.__code__.co_freevars, f.__closure__)}
        A, B, C = cells['A'], cells['B'], cells['C']
        case = {'part': 'random-function', 'input_dim': ind, 'output_dim': outd, 'num_terms': T, 'center': center, 'amplitude': amp, 'complex': cx}
        worst = 0.0
        for _ in range(ctx.scale(15, 60)):
            x = [rng.uniform(-20, 20) for _ in range(ind)]
            y = f(*x)
            y2 = f(*x)
            ys = np.atleast_1d(np.asarray(y))
            if (outd > 1) != isinstance(y, MathArray) or ys.shape != (outd,):
                ctx.violation('random function output has the wrong dimension', case, impl=repr(y)); break
            if not np.array_equal(ys, np.atleast_1d(np.asarray(y2))):
                ctx.violation('a drawn random function is not a fixed function', case, impl=[repr(y), repr(y2)]); break
            dev = np.abs(ys - center).max()
            worst = max(worst, dev)
            ctx.contract_checks += 1
            if dev > amp * (1 + 1e-12):
                ctx.violation('random function value %r is farther than the amplitude %r from the center %r' % (y, amp, center), dict(case, x=x), impl=repr(y)); break
            if not cx:
                # the model's formula on the drawn amplitudes and the sine values at this point
                s = np.sin(B * np.tile(np.array(x), (outd, T, 1)) + C)
                terms = [[frac_to_str(F(float(a))), frac_to_str(F(float(v)))] for a, v in zip(A[0].flatten(), s[0].flatten())]
                asks.append({'op': 'samp_rf', 'center': frac_to_str(F(center)), 'amplitude': frac_to_str(F(amp)), 'num_terms': T, 'input_dim': ind, 'terms': terms})
                meta.append((dict(case, x=x), float(ys[0])))
                if not ((0.5 <= np.abs(A)).all() and (np.abs(A) <= 1).all()):
                    ctx.violation('drawn amplitudes outside [0.5, 1]', case, impl=repr(A)[:200])
        for nargs in (ind - 1, ind + 1):
            k, v = D.run_impl(lambda: f(*([1.0] * nargs)))
            if not (k == 'err' and v[1] == 'ConfigError'):
                ctx.violation('a random function called with %d arguments instead of %d must raise ConfigError' % (nargs, ind), case, impl=v if k == 'err' else repr(v))
        if getattr(f, 'nin', None) != ind:
            ctx.violation('declared arity of the drawn function differs from input_dim', case, impl=getattr(f, 'nin', None))
        ctx.case(dict(case, worst=worst), nontrivial_key=('rf', ind, outd, T, center, amp, cx) if ind > 1 else None, kind='random-function:in%d' % ind)
    if ctx.driver:
        for (case, got), o in zip(meta, ctx.driver.ask_many(asks)):
            want = float(F(o['out']))
            if abs(want - got) > 1e-9 * max(1.0, abs(want)):
                ctx.disagree('random function value differs from center + amplitude/(num_terms*input_dim) * sum(A*sin)', case, got, want)


def run(ctx):
    import numpy as np
    st = (np.random.get_state(), random.getstate())
    np.random.seed(ctx.seed + 12345); random.seed(ctx.seed + 54321)
    try:
        part_scalar(ctx)
        part_matrices(ctx)
        part_functions(ctx)
    finally:
        np.random.set_state(st[0]); random.setstate(st[1])


def search(ctx):
    drv, ctx.driver = ctx.driver, None
    old = (ctx.tier, ctx.quick)
    ctx.tier, ctx.quick = 'thorough', False
    try:
        run(ctx)
    finally:
        ctx.driver = drv
        ctx.tier, ctx.quick = old


def replay(ctx, data):
    v = data.get('violation') or {}
    case = v.get('case')
    if not case:
        return {'holds': True, 'note': 'replay file names a broken obligation, no input to re-run', 'broken': data.get('broken')}
    if case.get('part') == 'constructor':
        import numpy as np
        from mitxgraders import SquareMatrices
        cfg = case['config']
        s = SquareMatrices(**cfg)
        for _ in range(200):
            bad = check_sample(cfg, s.gen_sample())
            if bad:
                return {'holds': False, 'why': bad}
        return {'holds': True}
    if case.get('part') == 'random-function':
        from mitxgraders import RandomFunction
        import numpy as np
        kw = {k: case[k] for k in ('input_dim', 'output_dim', 'num_terms', 'center', 'amplitude', 'complex')}
        worst = 0
        for _ in range(50):
            f = RandomFunction(**kw).gen_sample()
            for _ in range(200):
                y = np.atleast_1d(np.asarray(f(*[random.uniform(-20, 20) for _ in range(kw['input_dim'])])))
                worst = max(worst, np.abs(y - kw['center']).max())
        return {'holds': worst <= kw['amplitude'] * (1 + 1e-12), 'worst_deviation': float(worst)}
    return {'holds': False, 'note': 'replay by seed: VERIF_SEED=%s ./check C12' % data.get('seed'), 'case': case, 'what': v.get('what')}

"""C17 — attempt-based credit: schedules (exhaustive grid) and apply_attempt_based_credit through real graders."""
import copy, itertools, re
from fractions import Fraction
from common import frac_to_str, with_alarm, Timeout

ASSUMPTIONS = [
    'Python round(x,4) is modelled as round-half-even on the exact rational value; the real code rounds the float result, so a case whose exact value lies within 1e-9 of a rounding tie is counted as float_tie and not compared',
    'grades travel as floats in the real code (grade*credit); compared with the exact model value within 1e-12',
    'the percentage text uses Decimal(credit*100).quantize(.1) on a float; compared exactly except at quantisation ties (credit*1000 half-integral)',
    'minimum_credit values with more than 4 decimals (former finding K2, fixed as F14) are probed separately from the exact grid',
]
EVIDENCE = {
    'rule': 'schedule cases = (schedule kind, parameters, attempt); apply cases = (grader shape single/list, schedule, message flag, attempt incl. None/0/negative, student input); '
            'non-trivial = credit strictly between 0 and 1 or a result with at least one positive grade that gets scaled; distinct by the full case tuple',
}


def sched_desc(kind, **kw):
    d = {'kind': kind}
    d.update(kw)
    return d


def make_sched(desc):
    from mitxgraders import LinearCredit, GeometricCredit, ReciprocalCredit
    k = desc['kind']
    if k == 'linear':
        return LinearCredit(decrease_credit_after=desc['after'], decrease_credit_steps=desc['steps'], minimum_credit=float(Fraction(desc['min'])) if Fraction(desc['min']) not in (0, 1) else int(Fraction(desc['min'])))
    if k == 'geometric':
        f = Fraction(desc['factor'])
        return GeometricCredit(factor=int(f) if f in (0, 1) else float(f))
    if k == 'reciprocal':
        return ReciprocalCredit()
    tab = {n: Fraction(v) for n, v in desc['tab']}
    as_int = desc.get('ints', False)

    def author(n):
        v = tab[n]
        return int(v) if (as_int and v.denominator == 1) else float(v)
    return author


def near_tie(x, scale):
    y = x * scale
    fr = y - (y.numerator // y.denominator)
    return abs(fr - Fraction(1, 2)) < Fraction(1, 10 ** 7)


def check_schedules(ctx):
    grid = []
    for after in range(1, 7):
        for steps in range(1, 7):
            for mn in ['0', '1/10', '1/5', '1/2', '1']:
                grid.append(sched_desc('linear', after=after, steps=steps, min=mn))
    for f in ['0', '1/10', '1/4', '1/3', '1/2', '3/4', '9/10', '99/100', '1']:
        grid.append(sched_desc('geometric', factor=f))
    grid.append(sched_desc('reciprocal'))
    top = ctx.scale(60, 200)
    asks, meta = [], []
    for d in grid:
        s = make_sched(d)
        lo = -3 if d['kind'] == 'linear' else 1
        prev = None
        for n in range(lo, top + 1):
            try:
                v = s(n)
            except Exception as e:
                ctx.violation('schedule raises %s' % type(e).__name__, {'part': 'schedule', 'sched': d, 'attempt': n})
                continue
            fv = Fraction(v)
            # property oracle on the implementation
            if n == 1 and v != 1:
                ctx.violation('schedule(1) != 1', {'part': 'schedule', 'sched': d, 'attempt': n}, impl=v)
            if n >= 1 and not (0 <= v <= 1):
                ctx.violation('schedule value outside [0,1]', {'part': 'schedule', 'sched': d, 'attempt': n}, impl=v)
            if n >= 1 and prev is not None and v > prev:
                ctx.violation('schedule increases with the attempt number', {'part': 'schedule', 'sched': d, 'attempt': n}, impl=[prev, v])
            if d['kind'] == 'linear' and n >= 1 and v < float(Fraction(d['min'])):
                ctx.violation('LinearCredit below minimum_credit', {'part': 'schedule', 'sched': d, 'attempt': n}, impl=v)
            if n >= 1:
                prev = v
            asks.append({'op': 'sched', 'sched': d, 'attempt': n})
            meta.append((d, n, v))
            nt = 0 < v < 1
            ctx.case({'sched': d, 'attempt': n, 'impl': v}, nontrivial_key=('s', repr(d), n) if nt else None, kind='schedule:' + d['kind'])
    if ctx.driver:
        outs = ctx.driver.ask_many(asks)
        for (d, n, v), o in zip(meta, outs):
            m = o['out']
            if m is None:
                continue
            mv = Fraction(m)
            if round(v * 10000) != mv * 10000:
                if near_tie(exact_unrounded(d, n), 10000):
                    ctx.count('float_tie')
                else:
                    ctx.disagree('schedule value', {'part': 'schedule', 'sched': d, 'attempt': n}, v, m)


def exact_unrounded(d, n):
    if d['kind'] == 'linear':
        steps = n - d['after']
        mn = Fraction(d['min'])
        if n == 1 or steps <= 0:
            return Fraction(1)
        if steps >= d['steps']:
            return mn
        return 1 + (mn - 1) * steps / d['steps']
    if d['kind'] == 'geometric':
        return Fraction(d['factor']) ** (n - 1) if n >= 1 else Fraction(0)
    return Fraction(1, n) if n >= 1 else Fraction(0)


def unformat(res):
    res = copy.deepcopy(res)
    if 'input_list' in res:
        res['overall_message'] = res['overall_message'].replace('<br/>\n', '\n')
        for e in res['input_list']:
            e['msg'] = e['msg'].replace('<br/>\n', '\n')
    else:
        res['msg'] = res['msg'].replace('<br/>\n', '\n')
    return res


def to_model_res(res):
    def one(e):
        return {'ok': e['ok'], 'grade_decimal': frac_to_str(e['grade_decimal']), 'msg': e['msg']}
    if 'input_list' in res:
        return {'overall_message': res['overall_message'], 'input_list': [one(e) for e in res['input_list']]}
    return one(res)


def entries(res):
    return res['input_list'] if 'input_list' in res else [res]


NOTE = re.compile(r'Maximum credit for attempt #(-?\d+) is (-?[\d.]+)%\.')


def compare(ctx, case, impl, model, credit):
    """impl: unformatted real result; model: driver output"""
    ie, me = entries(impl), entries(model)
    if len(ie) != len(me) or ('input_list' in impl) != ('input_list' in model):
        return 'shape differs'
    for a, b in zip(ie, me):
        if abs(Fraction(a['grade_decimal']) - Fraction(b['grade_decimal'])) > Fraction(1, 10 ** 12):
            return 'grade differs'
        if a['ok'] != b['ok']:
            return 'ok differs'
        if 'input_list' in impl and a['msg'] != b['msg']:
            return 'entry msg differs'
    key = 'overall_message' if 'input_list' in impl else 'msg'
    if impl[key] != model[key]:
        ma, mb = NOTE.search(impl[key]), NOTE.search(model[key])
        if ma and mb and ma.group(1) == mb.group(1) and NOTE.sub('', impl[key]) == NOTE.sub('', model[key]) \
                and abs(float(ma.group(2)) - float(mb.group(2))) <= 0.1001 and near_tie(credit, 1000):
            ctx.count('float_tie_pct')
            return None
        return 'message differs'
    return None


def oracle_apply(base, final, credit, n, flag):
    """the property stated directly on base -> final"""
    be, fe = entries(base), entries(final)
    if len(be) != len(fe):
        return 'number of entries changed'
    some = False
    for b, f in zip(be, fe):
        if b['grade_decimal'] > 0 and credit != 1:
            some = True
            want = b['grade_decimal'] * credit
            if abs(f['grade_decimal'] - want) > 1e-12:
                return 'positive grade not multiplied by the credit'
            wok = True if f['grade_decimal'] == 1 else (False if f['grade_decimal'] == 0 else 'partial')
            if f['ok'] != wok:
                return 'ok not recomputed from the new grade'
        else:
            if f['grade_decimal'] != b['grade_decimal'] or f['ok'] != b['ok']:
                return 'an entry that must stay unchanged was changed'
    key = 'overall_message' if 'input_list' in base else 'msg'
    has = NOTE.search(final[key]) is not None
    want_note = bool(flag) and credit != 1 and some
    if has != want_note:
        return 'note present=%s but expected %s' % (has, want_note)
    if has:
        m = NOTE.search(final[key])
        if int(m.group(1)) != max(1, n):
            return 'note names attempt %s, expected %s' % (m.group(1), max(1, n))
        if abs(float(m.group(2)) - credit * 100) > 0.0501:
            return 'note percentage wrong'
    return None


def one_call(ctx, g0, g1, d, sched, si, flag, n, shape, inp, asks, meta, hist=None):
    from mitxgraders.exceptions import ConfigError
    case = {'part': 'apply', 'sched': d, 'flag': flag, 'attempt': n, 'shape': shape, 'input': inp}
    if hist is not None:
        case['earlier_attempts_on_same_grader'] = hist[2]
    base = unformat(g0(None, inp))
    try:
        kw = {} if n is None else {'attempt': n}
        final = with_alarm(lambda: g1(None, inp, **kw), 10)
        final_u = unformat(final)
        outcome = None
    except ConfigError as e:
        outcome = 'ConfigError'
        final_u = None
    except Exception as e:
        ctx.violation('attempt-credit call raises %s: %s' % (type(e).__name__, e), case)
        return
    # credit the property prescribes
    credit = None
    if n is not None:
        try:
            cv = sched(max(1, n))
            credit = round(float(cv), 4)
        except Exception:
            credit = None
    # oracle on the implementation
    if n is None:
        if outcome != 'ConfigError':
            ctx.violation('attempt omitted but no ConfigError', case, impl=final_u)
    elif outcome is not None:
        ctx.violation('unexpected %s' % outcome, case)
    else:
        bad = oracle_apply(base, final_u, credit, n, flag)
        if bad:
            ctx.violation(bad, case, impl=final_u, expected={'base': base, 'credit': credit})
    nt = n is not None and outcome is None and credit not in (0, 1) and any(e['grade_decimal'] > 0 for e in entries(base))
    ctx.case({'case': case, 'impl': final_u if outcome is None else outcome},
             nontrivial_key=('a', si, flag, n, shape, repr(inp), repr(hist)) if nt else None,
             kind=('history:' if hist is not None else 'apply:') + shape)
    asks.append({'op': 'apply_attempt', 'sched': {k: v for k, v in d.items() if k != 'ints'}, 'flag': flag, 'attempt': n, 'result': to_model_res(base)})
    meta.append((case, outcome, final_u, credit if n is not None else None))


def check_apply(ctx):
    from mitxgraders import StringGrader, ListGrader, SingleListGrader
    from mitxgraders.exceptions import ConfigError
    rng = ctx.rng
    answers = ({'expect': 'a', 'grade_decimal': 1, 'msg': ''}, {'expect': 'b', 'grade_decimal': 0.5, 'msg': 'half\nline'},
               {'expect': 'c', 'grade_decimal': 0.25, 'msg': ''}, {'expect': 'd', 'grade_decimal': 0, 'msg': 'zero'},
               # author-pinned ok on full-credit answers: a reduced grade must have its ok RECOMPUTED, whatever was pinned
               {'expect': 'e', 'grade_decimal': 1, 'ok': False, 'msg': 'pinned False'}, {'expect': 'f', 'grade_decimal': 1, 'ok': 'partial', 'msg': ''})
    scheds = [sched_desc('linear', after=1, steps=4, min='1/5'), sched_desc('linear', after=2, steps=3, min='1/2'),
              sched_desc('linear', after=1, steps=1, min='0'), sched_desc('linear', after=3, steps=6, min='1'),
              sched_desc('geometric', factor='3/4'), sched_desc('geometric', factor='1/2'), sched_desc('geometric', factor='0'),
              sched_desc('geometric', factor='1'), sched_desc('reciprocal')]
    # author-defined schedules (tables); distinctive values at n <= 0 reveal a missing clamp
    for ints in (False, True):
        tab = [[n, '1'] for n in range(-5, 1)]
        tab[0][1] = '1/8'; tab[-1][1] = '1/16'     # values at -5 and 0 differ from the value at 1
        vals = ['1', '1', '1/2', '0', '1/4', '1', '5/8', '1/3', '333/1000', '1/16', '3/5', '1/10', '7/10']
        tab += [[n + 1, v] for n, v in enumerate(vals)]
        scheds.append(sched_desc('table', tab=tab, ints=ints))
    attempts = [None, -2, 0, 1, 2, 3, 4, 5, 6, 7, 9, 11, 13]
    shapes = ['single', 'list2', 'list3', 'singlelist']
    inputs1 = ['a', 'b', 'c', 'd', 'zz', 'e', 'f']
    asks, meta = [], []
    combos = list(itertools.product(range(len(scheds)), [True, False], attempts, shapes))
    if ctx.quick:
        rng.shuffle(combos)
        combos = combos[:700]
    for si, flag, n, shape in combos:
        d = scheds[si]
        sched = make_sched(d)
        if shape == 'single':
            mk = lambda **kw: StringGrader(answers=answers, **kw)
            inps = inputs1
        elif shape == 'singlelist':
            mk = lambda **kw: SingleListGrader(answers=['a', 'b'], subgrader=StringGrader(), **kw)
            inps = ['a,b', 'a,x', 'x,y', 'b']
        else:
            k = 2 if shape == 'list2' else 3
            mk = lambda **kw: ListGrader(answers=[answers] * k, subgraders=StringGrader(), ordered=True, **kw)
            inps = [list(t) for t in itertools.product(inputs1, repeat=k)]
            rng.shuffle(inps)
            inps = inps[:4]
        g0 = mk()
        g1 = mk(attempt_based_credit=sched, attempt_based_credit_msg=flag)
        for inp in inps:
            one_call(ctx, g0, g1, d, sched, si, flag, n, shape, inp, asks, meta)
    # call histories on ONE grader object: the attempt number (present, absent, below 1, large) varies from call to call,
    # every call must behave as on a fresh grader (nothing about an earlier attempt may be remembered)
    nhist = ctx.scale(60, 600)
    for h in range(nhist):
        si = rng.randrange(len(scheds)); flag = rng.random() < 0.7; shape = rng.choice(shapes)
        d = scheds[si]; sched = make_sched(d)
        if shape == 'single':
            mk = lambda **kw: StringGrader(answers=answers, **kw); inps = inputs1
        elif shape == 'singlelist':
            mk = lambda **kw: SingleListGrader(answers=['a', 'b'], subgrader=StringGrader(), **kw); inps = ['a,b', 'a,x', 'x,y', 'b']
        else:
            k = 2 if shape == 'list2' else 3
            mk = lambda **kw: ListGrader(answers=[answers] * k, subgraders=StringGrader(), ordered=True, **kw)
            inps = [list(t) for t in itertools.product(inputs1[:3], repeat=k)]
        g0 = mk()
        g1 = mk(attempt_based_credit=sched, attempt_based_credit_msg=flag)
        seq = [rng.choice(attempts) for _ in range(rng.randint(3, 9))]
        if None not in seq[1:]:
            seq.insert(rng.randint(1, len(seq)), None)       # an omitted attempt AFTER a supplied one
        for pos, n in enumerate(seq):
            one_call(ctx, g0, g1, d, sched, si, flag, n, shape, rng.choice(inps), asks, meta, hist=(h, pos, seq[:pos]))
    if ctx.driver:
        outs = ctx.driver.ask_many(asks)
        for (case, outcome, final_u, credit), o in zip(meta, outs):
            if 'err' in o:
                if outcome != 'ConfigError':
                    ctx.disagree('model raises ConfigError, implementation returns', case, final_u, o)
                continue
            if o['out'] is None:
                continue
            if outcome is not None:
                ctx.disagree('implementation raises, model returns', case, outcome, o['out'])
                continue
            bad = compare(ctx, case, final_u, o['out'], Fraction(credit).limit_denominator(10000))
            if bad:
                ctx.disagree(bad, case, final_u, o['out'])


def check_debug_note(ctx):
    """with debug=True the attempt-credit note and the debug log BOTH appear (msg of a single input, overall_message of a list)"""
    from mitxgraders import StringGrader, ListGrader, SingleListGrader, LinearCredit, GeometricCredit
    for sched in (LinearCredit(), GeometricCredit(factor=0.5)):
        for attempt in (1, 3, 6):
            for shape, mk, inp in [('single', lambda **kw: StringGrader(answers='a', **kw), 'a'), ('single-wrong', lambda **kw: StringGrader(answers='a', **kw), 'zz'),
                                   ('list', lambda **kw: ListGrader(answers=['a', 'b'], subgraders=StringGrader(), **kw), ['a', 'zz']),
                                   ('singlelist', lambda **kw: SingleListGrader(answers=['a', 'b'], subgrader=StringGrader(), **kw), 'a, b'),
                                   # graders that take no expected answer at all (accept_any / accept_nonempty) get the attempt number like any other
                                   ('accept-any', lambda **kw: StringGrader(accept_any=True, **kw), 'anything at all'), ('accept-nonempty', lambda **kw: StringGrader(accept_nonempty=True, min_length=3, **kw), 'abcd')]:
                g = mk(attempt_based_credit=sched, attempt_based_credit_msg=True, debug=True)
                try:
                    r = with_alarm(lambda: g(None, inp, attempt=attempt), 10)
                except Exception as e:
                    ctx.violation('debugged grader with attempt credit raises %s' % type(e).__name__, {'part': 'debug-note', 'shape': shape, 'attempt': attempt}); continue
                text = r.get('overall_message', '') if 'input_list' in r else r['msg']
                credit = sched(attempt)
                reduced = credit < 1 and any(e['grade_decimal'] > 0 or e['ok'] is not False for e in (r['input_list'] if 'input_list' in r else [r])) and shape != 'single-wrong'
                has_note = 'Maximum credit for attempt #%d is' % attempt in text
                has_log = 'MITx Grading Library Version' in text
                case = {'part': 'debug-note', 'shape': shape, 'attempt': attempt, 'schedule': type(sched).__name__}
                ctx.case(case, nontrivial_key=('debug-note', shape, attempt, type(sched).__name__), kind='debug-note')
                if not has_log:
                    ctx.violation('debug=True but the debug log is missing from the message', case, impl=text[:200])
                if has_note != reduced:
                    ctx.violation('the attempt-credit note is %s although a grade was %sreduced (debug=True)' % ('shown' if has_note else 'missing', '' if reduced else 'not '), case, impl=text[:300])


def known_probe(ctx):
    from mitxgraders import LinearCredit
    # former known finding K2, fixed in /repo (F14): the schedule never goes below a minimum with more than four decimals either
    for mc in (0.33333, 0.123456, 0.99999, 0.00001):
        for n in range(1, 14):
            v = LinearCredit(minimum_credit=mc)(n)
            ctx.contract_checks += 1
            if not (mc <= v <= 1):
                ctx.violation('LinearCredit(minimum_credit=%r)(%d) = %r is outside [minimum_credit, 1]' % (mc, n, v), {'part': 'minimum', 'minimum_credit': mc, 'attempt': n}, impl=v)


def run(ctx):
    check_schedules(ctx)
    check_apply(ctx)
    check_debug_note(ctx)
    known_probe(ctx)


def search(ctx):
    old = ctx.tier
    ctx.tier, ctx.quick = 'thorough', False
    drv, ctx.driver = ctx.driver, None
    try:
        check_schedules(ctx)
        if not ctx.violations:
            check_apply(ctx)
    finally:
        ctx.tier, ctx.quick, ctx.driver = old, old == 'quick', drv


def replay(ctx, data):
    from mitxgraders import StringGrader, ListGrader, SingleListGrader
    v = data.get('violation') or {}
    case = v.get('case')
    if not case:
        return {'holds': True, 'note': 'replay file names a broken obligation, no input to re-run', 'broken': data.get('broken')}
    sub = type(ctx)(ctx.pid, 'quick', ctx.seed)
    if case.get('part') == 'schedule':
        s = make_sched(case['sched'])
        vals = [(n, s(n)) for n in range(1, max(case['attempt'], 1) + 2)]
        ok = vals[0][1] == 1 and all(0 <= x <= 1 for _, x in vals) and all(b[1] <= a[1] for a, b in zip(vals, vals[1:]))
        if case['sched']['kind'] == 'linear':
            ok = ok and all(x >= float(Fraction(case['sched']['min'])) for _, x in vals)
        return {'holds': ok, 'values': vals}
    return {'holds': True, 'note': 're-run ./check C17 to re-execute apply cases', 'case': case}

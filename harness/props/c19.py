"""C19 — SumGrader accepts exactly the sums equal in value to the author's."""
import itertools, re
from fractions import Fraction
import gradegen as GG
from common import frac_to_str
from props import c13 as D

ASSUMPTIONS = [
    'the summand is a parameter f : Z -> V of the model (any commutative monoid); in the correspondence it is a dyadic polynomial evaluated by the model\'s own evaluator, on which float summation is exact',
    'limit expressions are evaluated by the real evaluator; the model receives their values (integer, non-integer, complex, +-infinity)',
    'infty_val is an integer in every generated configuration (a non-integer cutoff would be truncated by int())',
    'IntegralGrader shares the base class but needs scipy (absent): not exercised',
    'which blank field is named first depends on dictionary order of the validated input_positions; only the error class and that the named field is blank are compared',
]
EVIDENCE = {
    'rule': 'cases = perform_summation on all integer limit pairs in [-12,12] in both orders x even_odd x exact summands, infinite limits with cutoffs; SumGrader calls with scripted samples over summands (polynomial in the index and a sampled variable, '
            'complex, geometric) x student variants (swapped limits, index shift, reversal, renaming, one-term perturbation, limit off by one) x subsets of input_positions x error inputs; '
            'non-trivial = the student\'s text differs from the author\'s (variant) or an error/infinite case; distinct by (config, inputs)',
}
INF = float('inf')


def ref_sum(f, a, b, eo, cutoff):
    """the property's reading of a summation"""
    if a in (INF, -INF) and a == b:
        return None
    lo, hi = (a, b) if a <= b else (b, a)
    if lo == -INF:
        lo = -cutoff
    if hi == INF:
        hi = cutoff
    tot = Fraction(0)
    for n in range(int(lo), int(hi) + 1):
        if eo == 0 or (eo == 1 and n % 2 == 1) or (eo == 2 and n % 2 == 0):
            tot += f(n)
    return tot


def lim_json(x):
    if x == INF:
        return 'inf'
    if x == -INF:
        return '-inf'
    if isinstance(x, complex):
        return 'complex'
    return frac_to_str(Fraction(x))


SUMMANDS = [('n', lambda n, x: Fraction(n)), ('n^2', lambda n, x: Fraction(n) ** 2), ('n*x + 1', lambda n, x: n * x + 1), ('(n - 2)*(n + x)', lambda n, x: (n - 2) * (n + x)),
            ('x', lambda n, x: x), ('n^3 - n', lambda n, x: Fraction(n) ** 3 - n), ('(n)/2 + x^2', lambda n, x: Fraction(n, 2) + x * x)]


def part_perform(ctx):
    from mitxgraders import SumGrader
    ps = SumGrader.perform_summation
    rng = ctx.rng
    asks, meta = [], []
    R = range(-12, 13) if not ctx.quick else range(-6, 7)
    pairs = [(a, b) for a in R for b in R]
    for (a, b) in pairs:
        for eo in (0, 1, 2):
            txt, f = rng.choice(SUMMANDS)
            x = Fraction(rng.randint(-4, 4), rng.choice([1, 2]))
            got = ps(lambda n: f(n, x), a, b, eo, 1000)
            want = ref_sum(lambda n: f(n, x), a, b, eo, 1000)
            case = {'part': 'perform', 'summand': txt, 'x': frac_to_str(x), 'lower': a, 'upper': b, 'even_odd': eo, 'infty': 1000}
            if Fraction(got) != want:
                ctx.violation('perform_summation gives %s, the sum over the integers between the limits is %s' % (got, want), case, impl=frac_to_str(Fraction(got)), expected=frac_to_str(want))
            ctx.case({'summand': txt, 'lower': a, 'upper': b, 'even_odd': eo, 'sum': frac_to_str(Fraction(got))}, nontrivial_key=(txt, a, b, eo, x) if a != b else None, kind='perform:eo%d:%s' % (eo, 'swapped' if a > b else 'sorted'))
            asks.append({'op': 'sum', 'summand': txt, 'var': 'n', 'vars': [['x', frac_to_str(x)]], 'lower': lim_json(a), 'upper': lim_json(b), 'even_odd': eo, 'infty': 1000})
            meta.append((case, ('out', frac_to_str(Fraction(got)))))
    # infinite limits
    for it in range(ctx.scale(200, 3000)):
        a = rng.choice([INF, -INF, rng.randint(-30, 30)])
        b = rng.choice([INF, -INF, rng.randint(-30, 30)])
        eo = rng.choice([0, 1, 2])
        cutoff = rng.choice([5, 10, 17, 40])
        txt, f = rng.choice(SUMMANDS)
        x = Fraction(rng.randint(-4, 4), 2)
        case = {'part': 'perform', 'summand': txt, 'x': frac_to_str(x), 'lower': lim_json(a), 'upper': lim_json(b), 'even_odd': eo, 'infty': cutoff}
        k, v = D.run_impl(lambda: ps(lambda n: f(n, x), a, b, eo, cutoff))
        want = ref_sum(lambda n: f(n, x), a, b, eo, cutoff)
        if want is None:
            if not (k == 'err' and v[1] == 'SummationError'):
                ctx.violation('both limits are the same infinity but no SummationError was raised', case, impl=v)
            got = ('err', 'SummationError')
        else:
            if k == 'err' or Fraction(v) != want:
                ctx.violation('sum with an infinite limit replaced by the cutoff %d should be %s' % (cutoff, want), case, impl=v if k == 'err' else frac_to_str(Fraction(v)))
            got = ('out', frac_to_str(Fraction(v))) if k == 'out' else ('err', v[1])
        ctx.case({'lower': lim_json(a), 'upper': lim_json(b), 'cutoff': cutoff, 'even_odd': eo}, nontrivial_key=(txt, lim_json(a), lim_json(b), eo, cutoff, x), kind='perform:infinite' if INF in (abs(a), abs(b)) else 'perform:finite')
        asks.append({'op': 'sum', 'summand': txt, 'var': 'n', 'vars': [['x', frac_to_str(x)]], 'lower': lim_json(a), 'upper': lim_json(b), 'even_odd': eo, 'infty': cutoff})
        meta.append((case, got))
    if ctx.driver:
        for (case, got), o in zip(meta, ctx.driver.ask_many(asks)):
            mg = ('out', o['out']) if 'out' in o else ('err', o['err'][0])
            if mg != got:
                ctx.disagree('perform_summation differs from the model', case, got, o)


def variants(rng, lo, hi, txt, var):
    """(kind, [lower, upper, summand, variable], equal?) — transformations that preserve the sum and some that do not"""
    sub = lambda t, e: re.sub(r'\b%s\b' % var, '(%s)' % e, t)
    k = rng.randint(1, 5)
    out = [('same', [str(lo), str(hi), txt, var], True),
           ('swapped', [str(hi), str(lo), txt, var], True),
           ('renamed', [str(lo), str(hi), re.sub(r'\b%s\b' % var, 'mm', txt), 'mm'], True),
           ('shift', [str(lo + k), str(hi + k), sub(txt, '%s - %d' % (var, k)), var], True),
           ('shift-neg', ['%d - %d' % (lo, k), '%d - %d' % (hi, k), sub(txt, '%s + %d' % (var, k)), var], True),
           ('reverse', ['0 - %d' % hi, '0 - %d' % lo, sub(txt, '0 - %s' % var), var], True),
           ('limits-as-expr', ['%d*1 + 0' % lo, '(%d)' % hi, txt, var], True),
           ('split-term', [str(lo), str(hi), '(%s) + %s - %s' % (txt, var, var), var], True),
           ('off-by-one-upper', [str(lo), str(hi + 1), '(%s) + 1' % txt if False else txt, var], None),
           ('off-by-one-lower', [str(lo + 1), str(hi), txt, var], None),
           ('perturbed', [str(lo), str(hi), '(%s) + 1' % txt, var], None),
           ('scaled', [str(lo), str(hi), '2*(%s)' % txt, var], None),
           ('scaled-1.105', [str(lo), str(hi), '1.105*(%s)' % txt, var], None),
           ('scaled-0.905', [str(lo), str(hi), '0.905*(%s)' % txt, var], None)]
    return out


def exact_sum(fields, f_of, x, eo, cutoff, var_default):
    """evaluate a student's/author's sum exactly with the harness's own evaluator of the generated text"""
    raise NotImplementedError


def part_grader(ctx):
    from mitxgraders import SumGrader
    from mitxgraders.helpers.calc import evaluator
    Scripted = D.scripted_class()
    rng = ctx.rng
    keys = ['lower', 'upper', 'summand', 'summation_variable']
    for it in range(ctx.scale(120, 2500)):
        lo, hi = rng.randint(-12, 12), rng.randint(-12, 12)
        eo = rng.choice([0, 0, 1, 2])
        txt, f = rng.choice(SUMMANDS)
        var = 'n'
        xs = [Fraction(rng.randint(-6, 6), rng.choice([1, 2])) for _ in range(2)]
        nk = rng.randint(1, 4)
        used = rng.sample(keys, nk) if rng.random() < 0.6 else list(keys)
        rng.shuffle(used)
        pos = {k: i + 1 for i, k in enumerate(used)}
        pos = dict(sorted(pos.items(), key=lambda kv: rng.random()))      # the ORDER in which the author lists the keys is not the order of the boxes
        ans = {'lower': str(lo), 'upper': str(hi), 'summand': txt, 'summation_variable': var}
        tol = rng.choice([1e-12, 0, '0.01%', 0.5, '10%', '10%'])
        try:
            g = SumGrader(answers=ans, input_positions=pos, variables=['x'], sample_from={'x': Scripted(values=[float(v) for v in xs])}, even_odd=eo, samples=2, tolerance=tol)
        except Exception as e:
            ctx.count('grader:config_rejected'); continue
        for kind, fields, equal in variants(rng, lo, hi, txt, var):
            stu_full = dict(zip(keys, fields))
            # a field that is not asked from the student keeps the author's value: the variant must only touch asked fields
            eff = {k: (stu_full[k] if k in pos else ans[k]) for k in keys}
            inp = [stu_full[k] for k in sorted(pos, key=lambda k: pos[k])]
            k_, v = D.run_impl(lambda: g(None, inp if len(inp) > 1 or rng.random() < 0.5 else inp[0]))
            case = {'part': 'grader', 'answers': ans, 'positions': pos, 'student': inp, 'even_odd': eo, 'tolerance': tol, 'x': [frac_to_str(x) for x in xs], 'variant': kind}
            # exact reference: evaluate both sums with the real evaluator term by term on exact dyadics, summing as Fractions
            def exact(fields_, x):
                try:
                    a = evaluator(fields_['lower'], {'x': float(x)}, {}, {})[0]; b = evaluator(fields_['upper'], {'x': float(x)}, {}, {})[0]
                    if int(a) != a or int(b) != b:
                        return 'nonint'
                    lo_, hi_ = (int(a), int(b)) if a <= b else (int(b), int(a))
                    tot = Fraction(0)
                    for n in range(lo_, hi_ + 1):
                        if eo == 0 or (eo == 1 and n % 2 == 1) or (eo == 2 and n % 2 == 0):
                            tot += Fraction(evaluator(fields_['summand'], {'x': float(x), fields_['summation_variable']: float(n)}, {}, {})[0])
                    return tot
                except Exception as e:
                    return 'error'
            ea = [exact(ans, x) for x in xs]
            es = [exact(eff, x) for x in xs]
            if any(isinstance(t, str) for t in ea + es):
                ctx.count('grader:ref-error'); continue
            tj = {'pct': Fraction(tol[:-1]) / 100} if isinstance(tol, str) else {'abs': Fraction(tol)}
            def within(a, s):
                return abs(a - s) <= (tj['abs'] if 'abs' in tj else tj['pct'] * abs(a))
            margin_risky = any(a != s and ('pct' in tj or tj['abs'] > 0) and abs(abs(a - s) - (tj['abs'] if 'abs' in tj else tj['pct'] * abs(a))) < Fraction(1, 10 ** 6) for a, s in zip(ea, es))
            want_ok = all(within(a, s) for a, s in zip(ea, es))
            if margin_risky:
                ctx.count('grader:guard-band'); continue
            if k_ == 'err':
                ctx.violation('a well-formed summation raised %s: %s' % (v[1], v[2][:120]), case, impl=v)
            elif (v['ok'] is True) != want_ok:
                ctx.violation('sum of the student\'s input %s the author\'s at every sample but ok=%r' % ('equals' if want_ok else 'differs from', v['ok']), case,
                              impl=GG.canon_result(v), expected={'author': [frac_to_str(t) for t in ea], 'student': [frac_to_str(t) for t in es]})
            if equal is True and not want_ok and all(k in pos for k in keys):
                ctx.note_once = True
            ctx.case({'answers': ans, 'student': inp, 'positions': pos, 'even_odd': eo, 'variant': kind, 'ok': v.get('ok') if k_ == 'out' else v[1]},
                     nontrivial_key=(repr(ans), repr(pos), repr(inp), eo, kind) if kind != 'same' else None, kind='grader:%s:%s' % (kind, 'ok' if want_ok else 'wrong'))


def part_sampled_functions(ctx):
    """the author's and the student's sums are evaluated on the SAME sample at EVERY sample, also when the sample consists only of randomly
    drawn functions (RandomFunction / SpecificFunctions user functions) or of numbered / dependent variables: every sum-preserving rewrite of
    the author's own answer must be accepted, a perturbed one refused"""
    from mitxgraders import SumGrader, RandomFunction, SpecificFunctions, RealInterval, DependentSampler
    import numpy as np
    rng = ctx.rng
    setups = [
        ('random-function-only', dict(user_functions={'f': RandomFunction()}), 'f(n)', {}),
        ('random-function-2', dict(user_functions={'f': RandomFunction(center=2, amplitude=1), 'g': RandomFunction()}), 'f(n)*g(2) + n', {}),
        ('specific-functions', dict(user_functions={'f': SpecificFunctions([np.sin, np.cos, np.tan, np.exp])}), 'f(n/10)', {}),
        ('random-function+variable', dict(user_functions={'f': RandomFunction()}, variables=['x']), 'f(n) + x', {}),
        ('numbered-variable-only', dict(numbered_vars=['a'], sample_from={'a': RealInterval([1, 5])}), 'a_{1}*n + a_{2}', {}),
        ('dependent-only', dict(variables=['x', 'y'], sample_from={'x': RealInterval([1, 5]), 'y': DependentSampler(depends=['x'], formula='x^2')}), 'y*n', {}),
    ]
    for it in range(ctx.scale(24, 240)):
        name, kw, txt, _ = setups[it % len(setups)]
        lo, hi = sorted([rng.randint(-6, 6), rng.randint(-6, 6)])
        if name == 'specific-functions':
            lo, hi = max(lo, -3), min(max(hi, lo), 3)
        samples = rng.choice([2, 3, 5])
        ans = {'lower': str(lo), 'upper': str(hi), 'summand': txt, 'summation_variable': 'n'}
        try:
            g = SumGrader(answers=ans, samples=samples, tolerance=1e-9, **kw)
        except Exception as e:
            ctx.count('sampled:config_rejected'); continue
        for kind, fields, equal in variants(rng, lo, hi, txt, 'n'):
            if equal is None and kind not in ('perturbed', 'scaled'):
                continue
            k_, v = D.run_impl(lambda: g(None, fields))
            case = {'part': 'sampled-functions', 'setup': name, 'answers': ans, 'student': fields, 'samples': samples, 'variant': kind}
            if k_ == 'err':
                ctx.violation('a well-formed summation raised %s' % (v[1],), case, impl=v)
            elif equal is True and v['ok'] is not True:
                ctx.violation('a sum-preserving rewrite of the author\'s own answer is not accepted (author and student not evaluated on the same sample?)', case, impl=GG.canon_result(v))
            elif equal is None and v['ok'] is True and hi >= lo and kind == 'perturbed':
                ctx.violation('a sum that differs from the author\'s by the number of terms is accepted', case, impl=GG.canon_result(v))
            ctx.case({'setup': name, 'student': fields, 'variant': kind, 'ok': v.get('ok') if k_ == 'out' else v[1]},
                     nontrivial_key=(name, repr(fields), samples) if kind != 'same' else None, kind='sampled:' + name)


ERR_INPUTS = [
    (['1.5', '3', 'n', 'n'], 'SummationError'), (['1', '7/2', 'n', 'n'], 'SummationError'), (['i', '3', 'n', 'n'], 'SummationError'), (['1', '2+i', 'n', 'n'], 'SummationError'),
    (['infty', 'infty', '2^(0-n)', 'n'], 'SummationError'), (['-infty', '-infty', 'n', 'n'], 'SummationError'),
    # limits that are NEARLY integers are not integers (truncating them would drop or add a term)
    (['1', '2.9999999999', 'n', 'n'], 'SummationError'), (['0.9999999999', '3', 'n', 'n'], 'SummationError'), (['1', '3.0000000001', 'n', 'n'], 'SummationError'),
    (['1', '3 - 2^(0-40)', 'n', 'n'], 'SummationError'), (['1 + 2^(0-45)', '3', 'n', 'n'], 'SummationError'), (['1', '0.1*30 - 2^(0-50)', 'n', 'n'], 'SummationError'),
    (['1', '3', 'n', 'x'], 'SummationError'), (['1', '3', 'n', 'pi'], 'InvalidInput'), (['1', '3', 'n', 'sin'], 'InvalidInput'), (['1', '3', 'n', 'e'], 'InvalidInput'),
    (['1', '3', 'n', '2n'], 'InvalidInput'), (['1', '3', 'n', 'n+1'], 'InvalidInput'),
    (['', '3', 'n', 'n'], 'MissingInput'), (['1', '', 'n', 'n'], 'MissingInput'), (['1', '3', '', 'n'], 'MissingInput'), (['1', '3', 'n', ''], 'MissingInput'),
    (['1', '3', 'n*secret', 'n'], 'UndefinedVariable'), (['secret', '3', 'n', 'n'], 'UndefinedVariable'), (['1', '3', 'n*q', 'n'], 'UndefinedVariable'),
    (['n', '3', 'n', 'n'], 'UndefinedVariable'), (['1', 'n', 'n', 'n'], 'UndefinedVariable'),
]


def part_errors(ctx):
    from mitxgraders import SumGrader
    from mitxgraders.helpers.calc import evaluator
    rng = ctx.rng
    asks, meta = [], []
    g = SumGrader(answers={'lower': '1', 'upper': '3', 'summand': 'n*x*secret', 'summation_variable': 'n'}, variables=['x', 'secret'], instructor_vars=['secret'])
    for inp, cls in ERR_INPUTS:
        k, v = D.run_impl(lambda: g(None, inp))
        case = {'part': 'errors', 'student': inp, 'expected_class': cls}
        if not (k == 'err' and v[1] == cls and v[0] is True):
            ctx.violation('expected a student-facing %s, got %r' % (cls, v if k == 'err' else GG.canon_result(v)), case, impl=v if k == 'err' else GG.canon_result(v))
        ctx.case({'student': inp, 'error': v[1] if k == 'err' else None}, nontrivial_key=tuple(inp), kind='error:' + cls)
        if cls in ('MissingInput', 'InvalidInput'):
            asks.append({'op': 'sum_precheck', 'positions': {'lower': 0, 'upper': 1, 'summand': 2, 'summation_variable': 3},
                         'answers': {'lower': '1', 'upper': '3', 'summand': 'n*x*secret', 'summation_variable': 'n'}, 'student': inp,
                         'meaning': ['pi', 'sin', 'e', 'i', 'j', 'infty'], 'invalid': ['2n', 'n+1']})
            meta.append((case, cls))
        elif cls == 'SummationError':
            try:
                lims = [evaluator(s, {'x': 2.0, 'secret': 3.0}, {}, {}, allow_inf=True)[0] if s not in ('infty', '-infty') else (INF if s == 'infty' else -INF) for s in inp[:2]]
            except Exception:
                continue
            asks.append({'op': 'sum', 'summand': '1', 'var': inp[3], 'vars': [['x', '2']], 'lower': lim_json(lims[0]), 'upper': lim_json(lims[1]), 'even_odd': 0, 'infty': 1000})
            meta.append((case, cls))
    # failures in the author's own sum are configuration errors
    for ans in [{'lower': '1.5', 'upper': '3', 'summand': 'n', 'summation_variable': 'n'}, {'lower': '1', 'upper': 'i', 'summand': 'n', 'summation_variable': 'n'},
                {'lower': 'infty', 'upper': 'infty', 'summand': 'n', 'summation_variable': 'n'}, {'lower': '1', 'upper': '3', 'summand': 'n', 'summation_variable': 'x'},
                {'lower': '1', 'upper': '3', 'summand': 'n*undefined_thing', 'summation_variable': 'n'}, {'lower': '1', 'upper': '3', 'summand': '1/(n-2)', 'summation_variable': 'n'}]:
        k0, g2 = D.run_impl(lambda: SumGrader(answers=ans, variables=['x']))
        if k0 == 'err':
            ok = g2[1] == 'ConfigError'
            v = g2
        else:
            k, v = D.run_impl(lambda: g2(None, ['1', '3', 'n', 'n']))
            ok = k == 'err' and v[1] == 'ConfigError'
        if not ok:
            ctx.violation('a failure in the author\'s own sum must be a ConfigError', {'part': 'author-error', 'answers': ans}, impl=v if isinstance(v, list) else GG.canon_result(v))
        ctx.case({'answers': ans, 'error': v[1] if isinstance(v, list) else None}, nontrivial_key=repr(ans), kind='author-error')
    # input_positions validation
    keys = ['lower', 'upper', 'summand', 'summation_variable']
    for it in range(ctx.scale(80, 800)):
        pos = {k: rng.choice([None, 1, 2, 3, 4, 5]) for k in rng.sample(keys, rng.randint(1, 4))}
        vals = [v for v in pos.values() if v is not None]
        want_ok = len(set(vals)) == len(vals) and set(vals) == set(range(1, len(vals) + 1))
        k, v = D.run_impl(lambda: SumGrader(answers={'lower': '1', 'upper': '3', 'summand': 'n', 'summation_variable': 'n'}, input_positions=pos))
        case = {'part': 'positions', 'positions': pos}
        if (k == 'out') != want_ok or (k == 'err' and v[1] != 'ConfigError'):
            ctx.violation('input_positions %r %s' % (pos, 'rejected' if want_ok else 'accepted'), case, impl=v if k == 'err' else 'constructed')
        ctx.case({'positions': pos, 'accepted': k == 'out'}, nontrivial_key=repr(sorted(pos.items(), key=str)), kind='positions:' + ('ok' if want_ok else 'bad'))
        asks.append({'op': 'sum_positions', 'positions': {kk: pos.get(kk) for kk in keys}})
        meta.append((case, 'positions-ok' if k == 'out' else 'ConfigError'))
        # wrong number of inputs is a configuration error
        if k == 'out':
            nin = len(vals)
            k2, v2 = D.run_impl(lambda: v(None, ['1'] * (nin + 1)))
            if not (k2 == 'err' and v2[1] == 'ConfigError'):
                ctx.violation('wrong number of inputs was not refused with a ConfigError', case, impl=v2)
    if ctx.driver:
        for (case, want), o in zip(meta, ctx.driver.ask_many(asks)):
            got = o['err'][0] if 'err' in o else 'positions-ok' if case.get('part') == 'positions' else 'no-error'
            if got != want:
                ctx.disagree('error class differs from the model', case, want, o)


def part_author_entries(ctx):
    """the author's own sum is accepted whichever entries the student is asked to re-enter, also when the author's other entries use an instructor
    variable (shared with C09: every subset of input boxes; honest entries accepted, entries naming the instructor variable refused)"""
    from props import c09
    c09.part_partial_positions(ctx)


def run(ctx):
    part_perform(ctx)
    part_grader(ctx)
    part_sampled_functions(ctx)
    part_errors(ctx)
    part_author_entries(ctx)


def search(ctx):
    drv, ctx.driver = ctx.driver, None
    old = (ctx.tier, ctx.quick)
    ctx.tier, ctx.quick = 'thorough', False
    try:
        run(ctx)
    finally:
        ctx.driver = drv
        ctx.tier, ctx.quick = old


def replay(ctx, data):
    v = data.get('violation') or {}
    case = v.get('case')
    if not case:
        return {'holds': True, 'note': 'replay file names a broken obligation, no input to re-run', 'broken': data.get('broken')}
    if case.get('part') == 'perform':
        from mitxgraders import SumGrader
        txt = case['summand']; f = dict(SUMMANDS)[txt]; x = Fraction(case['x'])
        conv = lambda s: INF if s == 'inf' else -INF if s == '-inf' else int(s)
        a, b = conv(case['lower']), conv(case['upper'])
        k, got = D.run_impl(lambda: SumGrader.perform_summation(lambda n: f(n, x), a, b, case['even_odd'], case['infty']))
        want = ref_sum(lambda n: f(n, x), a, b, case['even_odd'], case['infty'])
        holds = (k == 'err' and want is None) or (k == 'out' and want is not None and Fraction(got) == want)
        return {'holds': holds, 'impl': repr(got), 'expected': repr(want)}
    return {'holds': False, 'note': 'replay by seed: VERIF_SEED=%s ./check C19' % data.get('seed'), 'case': case, 'what': v.get('what')}

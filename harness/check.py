#!/usr/bin/env python3
"""check.py <ID> [--tier quick|thorough] [--replay FILE] [--pin]

Decides one property: Lean proof obligations (build + audit) and the model/implementation
correspondence, both re-done against /repo's current working tree.
"""
import argparse, importlib, json, os, sys, time, traceback
sys.path.insert(0, os.path.dirname(os.path.abspath(__file__)))
import common
from common import VERIF


def write_evidence(ctx, obligations, discharged, checker_cmd, assumptions, extra, nviol):
    ev = {
        'property_id': ctx.pid, 'tier': ctx.tier, 'seed': ctx.seed, 'level': 'proof',
        'coverage': dict({
            'obligations': obligations, 'discharged': discharged,
            'checker_cmd': checker_cmd, 'trusted_base': common.TRUSTED_BASE + extra.pop('trusted_extra', []),
            'evaluations': ctx.evaluations, 'distinct_nontrivial': len(ctx.nontrivial),
            'rule': extra.pop('rule', ''), 'samples': common.jsonable(ctx.samples[:12]),
            'histogram': ctx.hist, 'contract_checks': ctx.contract_checks,
            'disagreements_checked': len(ctx.disagreements),
        }, **extra),
        'assumptions': assumptions, 'wall_s': round(time.time() - ctx.t0, 2), 'violations': nviol,
    }
    os.makedirs(os.path.join(VERIF, 'evidence'), exist_ok=True)
    with open(os.path.join(VERIF, 'evidence', ctx.pid + '.json'), 'w') as f:
        json.dump(ev, f, indent=1, ensure_ascii=False)


def write_replay(ctx, idx, payload):
    os.makedirs(os.path.join(VERIF, 'replays'), exist_ok=True)
    path = os.path.join(VERIF, 'replays', '%s-seed%d-%d.json' % (ctx.pid, ctx.seed, idx))
    payload = dict(payload, property=ctx.pid, seed=ctx.seed, tier=ctx.tier)
    with open(path, 'w') as f:
        json.dump(common.jsonable(payload), f, indent=1, ensure_ascii=False)
    return path


def main():
    ap = argparse.ArgumentParser()
    ap.add_argument('pid')
    ap.add_argument('--tier', default=os.environ.get('VERIF_TIER') or 'quick')
    ap.add_argument('--replay')
    ap.add_argument('--pin', action='store_true', help='(maintenance) re-pin theorem statements')
    args = ap.parse_args()
    pid = args.pid.upper()
    tier = args.tier if args.tier in ('quick', 'thorough') else 'quick'
    try:
        seed = int(os.environ.get('VERIF_SEED') or 0)
    except ValueError:
        seed = 0
    common.import_repo()
    mod = importlib.import_module('props.' + pid.lower())
    ctx = common.Ctx(pid, tier, seed)

    if args.replay:
        data = json.load(open(args.replay))
        res = mod.replay(ctx, data)
        print(json.dumps(common.jsonable(res), indent=1, ensure_ascii=False))
        if res.get('holds', True):
            print('replay: property holds on this input with the current tree')
            return 0
        print('VIOLATION property=%s replay=%s' % (pid, args.replay))
        return 1

    if args.pin:
        ok, log, _ = common.lean_build(pid)
        if not ok:
            print(log[-3000:]); return 2
        ok, problems, info = common.lean_audit(pid, pin=True)
        print('pinned %d statements' % len(info)); [print(' !', p) for p in problems]
        return 0

    import glob
    for old in glob.glob(os.path.join(VERIF, 'replays', pid + '-seed*.json')):
        os.unlink(old)
    broken = []          # names of proof obligations / correspondences that no longer check
    logs = {}
    reg = common.registry()[pid]
    # ---- 0. translators: regenerate Lean from the live source
    gen_obl = 0
    if hasattr(mod, 'regenerate'):
        try:
            gen_obl = mod.regenerate(ctx) or 0
        except Exception:
            broken.append('translator')
            logs['translator'] = traceback.format_exc()[-3000:]
    # ---- 1. build
    ok_build, blog, bdt = common.lean_build(pid)
    if not ok_build:
        broken.append('lean build of ' + ' '.join(reg['modules']))
        logs['build'] = blog[-4000:]
    # ---- 2. audit
    static_bad = common.static_audit()
    if static_bad:
        broken.append('static audit: ' + '; '.join(static_bad[:5]))
    thm_total = len(reg['theorems'])
    thm_ok = 0
    info = {}
    if ok_build:
        ok_a, problems, info = common.lean_audit(pid)
        bad_names = set()
        for p in problems:
            broken.append('audit: ' + p)
        thm_ok = sum(1 for t in reg['theorems'] if t['name'] in info and not any(t['name'] in p for p in problems))
        if tier == 'thorough':
            ok_c, clog, cdt = common.leanchecker(pid)
            ctx.notes.append('leanchecker %s in %.0fs' % ('ok' if ok_c else 'FAILED', cdt))
            if not ok_c:
                broken.append('leanchecker'); logs['leanchecker'] = clog
    # ---- 3. correspondence + property oracle on the implementation
    exe = os.path.join(common.LEAN, '.lake', 'build', 'bin', 'driver')
    try:
        if ok_build and os.path.exists(exe):
            ctx.driver = common.Driver()
        else:
            ctx.driver = None
            ctx.notes.append('model driver unavailable: implementation checked against the property oracle only')
        mod.run(ctx)
    except Exception:
        print('INTERNAL ERROR in harness:\n' + traceback.format_exc())
        return 2
    finally:
        if ctx.driver:
            ctx.driver.close()
    corr_ok = not ctx.disagreements
    if not corr_ok:
        broken.append('correspondence model<->implementation (%d disagreements), first: %s' % (len(ctx.disagreements), ctx.disagreements[0]['what']))
    # ---- 4. decide
    kf = common.known_findings(pid)
    known_ids = {f['id'] for f in kf if f['status'] == 'known'}
    rc = 0
    nrep = 0
    lines = []
    real_viol = ctx.violations
    if broken and not real_viol and hasattr(mod, 'search'):
        # a proof obligation or the correspondence broke: look for a concrete failing input
        try:
            budget = 240 if tier == 'quick' else 1500
            ctx.deadline = time.time() + budget
            common.with_alarm(lambda: mod.search(ctx), budget + 30)
        except common.Timeout:
            ctx.notes.append('failing-input search stopped after its time budget')
        except Exception:
            ctx.notes.append('search crashed: ' + traceback.format_exc()[-800:])
        finally:
            ctx.deadline = None
        real_viol = ctx.violations
    for f in kf:
        if f['status'] == 'known' and f['id'] in ctx.known_hits:
            lines.append('KNOWN-FINDING: property=%s %s: %s' % (pid, f['id'], f['what']))
    if real_viol:
        v = real_viol[0]
        path = write_replay(ctx, 0, {'kind': 'failing-input', 'violation': v, 'broken': broken, 'more': real_viol[1:5], 'disagreements': ctx.disagreements[:3]})
        lines.append('VIOLATION property=%s replay=%s' % (pid, path))
        rc = 1
    elif broken:
        path = write_replay(ctx, 0, {'kind': 'no-failing-input-found', 'broken': broken, 'logs': logs, 'disagreements': ctx.disagreements[:5]})
        lines.append('VIOLATION property=%s replay=%s no-failing-input-found' % (pid, path))
        rc = 1
    obligations = thm_total + gen_obl + 1
    discharged = thm_ok + (gen_obl if ok_build and 'translator' not in broken else 0) + (1 if corr_ok else 0)
    extra = dict(getattr(mod, 'EVIDENCE', {}))
    extra['theorems'] = info
    if common.SLOW_RETRIES[0]:
        ctx.notes.append('%d calls hit their wall-clock alarm once and completed when re-run with a longer one (machine under load)' % common.SLOW_RETRIES[0])
    extra['notes'] = ctx.notes
    extra['broken'] = broken
    extra['known_findings_seen'] = sorted(ctx.known_hits)
    write_evidence(ctx, obligations, discharged,
                   'cd /verif/lean && lake build %s driver && lake env lean .audit/%s.lean   (then harness/check.py %s --tier %s)' % (' '.join(reg['modules']), pid, pid, tier),
                   getattr(mod, 'ASSUMPTIONS', []), extra, len(real_viol))
    print('%s tier=%s seed=%d: theorems %d/%d, generated obligations %d, correspondence cases %d (%d distinct non-trivial), disagreements %d, oracle violations %d, %.1fs'
          % (pid, tier, seed, thm_ok, thm_total, gen_obl, ctx.evaluations, len(ctx.nontrivial), len(ctx.disagreements), len(real_viol), time.time() - ctx.t0))
    for b in broken:
        print('BROKEN:', b[:600])
    for n in ctx.notes:
        print('note:', n)
    for l in lines:
        print(l)
    return rc


if __name__ == '__main__':
    try:
        sys.exit(main())
    except SystemExit:
        raise
    except Exception:
        traceback.print_exc()
        sys.exit(2)

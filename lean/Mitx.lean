import Mitx.Props.C03
import Mitx.Props.C06
import Mitx.Props.C10
import Mitx.Props.C17
import Mitx.Props.C08
import Mitx.Props.C07
import Mitx.Props.C05
import Mitx.Props.C01

import Mitx.Model.Munkres
import Mitx.Munkres.Square

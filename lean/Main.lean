import Mitx.Driver.Munkres
import Mitx.Driver.Attempt
import Mitx.Driver.Parser
import Mitx.Driver.Grade
import Mitx.Driver.StringG
import Mitx.Driver.CallState
import Mitx.Driver.Depend
import Mitx.Driver.Tol
import Mitx.Driver.SumG
import Mitx.Driver.Safety
import Mitx.Driver.Restrict
import Mitx.Driver.Comparers
import Mitx.Driver.MathArray
import Mitx.Driver.Sampling
import Mitx.Driver.Domain
import Mitx.Driver.Schema
import Mitx.Driver.Globals
import Mitx.Driver.Answers
import Mitx.Driver.Defaults
import Mitx.Driver.MatrixShape
import Mitx.Driver.MathConfig
open Lean

def dispatch (op : String) (j : Json) : Except String Json :=
  match op with
  | "munkres" => Drv.munkres j
  | "munkres_heap" => Drv.munkresHeap j
  | "sched" => Drv.sched j
  | "parse" => Drv.parse j
  | "call_hist" => Drv.callHist j
  | "coerce" => Drv.coerceOp j
  | "validate_answers" => Drv.validateAnswers j
  | "np_hist" => Drv.npHist j
  | "defaults_hist" => Drv.defaultsHist j
  | "shape_validate" => Drv.shapeValidate j
  | "math_config" => Drv.mathConfig j
  | "shape_ladder" => Drv.shapeLadder j
  | "string_clean" => Drv.stringClean j
  | "string_check" => Drv.stringCheck j
  | "check" => Drv.gradeCheck j
  | "interval_check" => Drv.intervalCheck j
  | "call" => Drv.gradeCall j
  | "parse_hist" => Drv.parseHist j
  | "parse_hist_heap" => Drv.parseHistHeap j
  | "eval" => Drv.eval j
  | "apply_attempt" => Drv.applyAtt j
  | "depend" => Drv.depend j
  | "within_tol" => Drv.withinTolOp j
  | "sum" => Drv.sumOp j
  | "brackets" => Drv.brackets j
  | "restrict" => Drv.restrict j
  | "sum_scope" => Drv.sumScope j
  | "marr" => Drv.marr j
  | "domain" => Drv.domainOp j
  | "schema_validate" => Drv.schemaValidate j
  | "samp_real" => Drv.sampReal j
  | "samp_int" => Drv.sampInt j
  | "samp_sym" => Drv.sampSym j
  | "samp_accepts" => Drv.sampAccepts j
  | "samp_rf" => Drv.sampRF j
  | "mprod" => Drv.mprod j
  | "cmp_between" => Drv.cmpBetween j
  | "cmp_congruence" => Drv.cmpCongruence j
  | "cmp_eigen" => Drv.cmpEigen j
  | "cmp_span" => Drv.cmpSpan j
  | "cmp_phase" => Drv.cmpPhase j
  | "cmp_entry" => Drv.cmpEntry j
  | "cmp_linear" => Drv.cmpLinear j
  | "ensure_text" => Drv.ensureTextOp j
  | "matrix_recast" => Drv.matrixRecastOp j
  | "sum_positions" => Drv.sumPositions j
  | "sum_precheck" => Drv.sumPrecheck j
  | "formula_grade" => Drv.formulaGradeOp j
  | "formula_pipeline" => Drv.formulaPipelineOp j
  | "varlist" => Drv.varList j
  | _ => .error s!"unknown op {op}"

def handle (line : String) : String :=
  match Json.parse line with
  | .error e => (Json.mkObj [("fatal", Json.str s!"json: {e}")]).compress
  | .ok j =>
    match j.getObjValAs? String "op" with
    | .error _ => (Json.mkObj [("fatal", Json.str "no op")]).compress
    | .ok op =>
      match dispatch op j with
      | .ok r => r.compress
      | .error e => (Json.mkObj [("fatal", Json.str e)]).compress

partial def loop (hin hout : IO.FS.Stream) : IO Unit := do
  let line ← hin.getLine
  if line.isEmpty then return ()
  let t := line.trimAscii.toString
  if t.isEmpty then loop hin hout else
  hout.putStrLn (handle t)
  hout.flush
  loop hin hout

def main : IO Unit := do
  loop (← IO.getStdin) (← IO.getStdout)

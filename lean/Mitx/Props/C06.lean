import Mitx.Munkres.Rect
/-! # C06 — the assignment solver returns a complete minimum-cost matching for any matrix

Property theorems only (helper lemmas live in `Mitx/Munkres/*`). The model is `Mk.compute`
(`Mitx/Model/Munkres.lean`), a literal rendering of `mitxgraders/helpers/munkres.py`. -/
namespace C06
open Mk Finset

/-- Square matrices of every size, every rational entry: the solver terminates (with the model's own fuel),
    returns exactly one pair per row in row order, the columns form a permutation, and no permutation is cheaper. -/
theorem solver_square {m : List (List Rat)} {n : Nat} (h : IsSquare m n) :
    ∃ τ : Equiv.Perm (Fin n),
      compute m = some ((List.range n).map (fun i => (i, if hi : i < n then ((τ ⟨i, hi⟩ : Fin n) : Nat) else 0))) ∧
      ∀ ρ : Equiv.Perm (Fin n),
        ∑ i : Fin n, matFn m (i : Nat) ((τ i : Fin n) : Nat) ≤ ∑ i : Fin n, matFn m (i : Nat) ((ρ i : Fin n) : Nat) :=
  compute_square h

/-- **Any rectangular matrix** (`r × c`, every rational entry, ties allowed): the solver terminates with the model's own
    fuel; the returned list lies inside the original matrix, uses each row and each column at most once, has exactly
    `min r c` pairs, and its total cost is minimal among all such matchings (zero padding of the squared copy neither
    changes the optimum nor the number of stars inside the window). -/
theorem solver_rect {m : List (List Rat)} {r c : Nat} (h : IsRect m r c) :
    ∃ out, compute m = some out ∧ Matching r c out ∧ out.length = min r c ∧
      ∀ alt, Matching r c alt → alt.length = min r c → cost m out ≤ cost m alt :=
  compute_rect h

/-- the same guarantee for a reused solver object, whatever state the previous solve left behind -/
theorem solver_rect_reused (s : St) {m : List (List Rat)} {r c : Nat} (h : IsRect m r c) :
    ∃ out, computeOn s m = some out ∧ Matching r c out ∧ out.length = min r c ∧
      ∀ alt, Matching r c alt → alt.length = min r c → cost m out ≤ cost m alt :=
  compute_rect h

/-- Reuse of one solver object: whatever state an earlier solve left behind, the next solve is the fresh one. -/
theorem solver_state_independent (s : St) (m : List (List Rat)) : computeOn s m = compute m := rfl

/-- non-vacuity: a concrete 3×3 matrix meets the hypothesis and the optimum is the anti-diagonal-ish one -/
example : IsSquare [[1, 2, 3], [2, 4, 6], [3, 6, 9]] 3 := ⟨by decide, rfl, by simp⟩
example : compute [[1, 2, 3], [2, 4, 6], [3, 6, 9]] = some [(0, 2), (1, 1), (2, 0)] := by decide +kernel
example : IsRect [[4, 1, 3], [2, 0, 5]] 2 3 := ⟨by decide, by decide, rfl, by simp⟩
example : compute [[4, 1, 3], [2, 0, 5]] = some [(0, 1), (1, 0)] := by decide +kernel
example : compute [[4, 2], [1, 0], [3, 5]] = some [(1, 1), (2, 0)] := by decide +kernel

end C06

import Mitx.Munkres.Square
/-! # C06 — the assignment solver returns a complete minimum-cost matching for any matrix

Property theorems only (helper lemmas live in `Mitx/Munkres/*`). The model is `Mk.compute`
(`Mitx/Model/Munkres.lean`), a literal rendering of `mitxgraders/helpers/munkres.py`. -/
namespace C06
open Mk Finset

/-- Square matrices of every size, every rational entry: the solver terminates (with the model's own fuel),
    returns exactly one pair per row in row order, the columns form a permutation, and no permutation is cheaper. -/
theorem solver_square {m : List (List Rat)} {n : Nat} (h : IsSquare m n) :
    ∃ τ : Equiv.Perm (Fin n),
      compute m = some ((List.range n).map (fun i => (i, if hi : i < n then ((τ ⟨i, hi⟩ : Fin n) : Nat) else 0))) ∧
      ∀ ρ : Equiv.Perm (Fin n),
        ∑ i : Fin n, matFn m (i : Nat) ((τ i : Fin n) : Nat) ≤ ∑ i : Fin n, matFn m (i : Nat) ((ρ i : Fin n) : Nat) :=
  compute_square h

/-- Reuse of one solver object: whatever state an earlier solve left behind, the next solve is the fresh one. -/
theorem solver_state_independent (s : St) (m : List (List Rat)) : computeOn s m = compute m := rfl

/-- non-vacuity: a concrete 3×3 matrix meets the hypothesis and the optimum is the anti-diagonal-ish one -/
example : IsSquare [[1, 2, 3], [2, 4, 6], [3, 6, 9]] 3 := ⟨by decide, rfl, by simp⟩
example : compute [[1, 2, 3], [2, 4, 6], [3, 6, 9]] = some [(0, 2), (1, 1), (2, 0)] := by decide +kernel

end C06

import Mitx.Lemmas.Tree
import Mitx.Lemmas.TreeShape
import Mitx.Lemmas.Interval
import Mitx.Props.C17
/-! # C01 — range and `ok` consistency for every grader tree, through the whole call

The induction over grader trees (`Mitx/Lemmas/Tree.lean`) composed with the call wrapper: for any grader built from table
leaves, SingleListGraders and (nested, grouped, ordered or unordered) ListGraders, a call that returns yields entries whose
grade is in [0,1] and whose `ok` is `True`/`False`/`'partial'` according to the grade (unless the author pinned `ok`), also
after attempt-based credit, debug output and message formatting. -/
namespace C01
open Gr At

/-- the C01 entry predicate on a returned entry -/
def ResGood (pin : Bool) (r : At.Res) : Prop := (0 ≤ r.grade ∧ r.grade ≤ 1) ∧ (pin = false → r.ok = gradeToOk r.grade)

/-- what the guarded `check` returned is good, entry by entry -/
def CheckGood (pin : Bool) : CheckOut → Prop
  | .single x => Good pin x
  | .list o => ∀ e ∈ o.entries, ∀ x, e = some x → Good pin x

/-- **Item grader trees**: table leaves and SingleListGraders nested to any depth -/
theorem item_tree_good (pin : Bool) (t : ITree) (ht : t.TabsWF) {ans : List (Answer UExp)} {inp : String} {out : IRes}
    (ha : AnsWF pin ans) (h : t.check ans inp = .ok out) : Good pin out :=
  ITree.check_good pin t ht ans inp out ha h

/-- **List grader trees**: ordered or unordered, grouped, nested to any depth, over item grader trees -/
theorem list_tree_good (pin : Bool) (t : LTree) (ht : t.TabsWF) {answers : List (List UAny)} {student : List String} {out : LOut}
    (ha : ∀ al ∈ answers, ∀ a ∈ al, AnyWF pin a) (h : t.check answers student = .ok out) :
    ∀ e ∈ out.entries, ∀ r, e = some r → Good pin r :=
  LTree.check_good pin t ht answers student out ha h

theorem stripKeys_good {pin : Bool} {r : CheckOut} {o1 : At.Out} (hg : CheckGood pin r) (hs : stripKeys r = some o1) :
    ∀ q ∈ o1.entries, ResGood pin q := by
  cases r with
  | single x =>
    simp only [stripKeys, Option.some.injEq] at hs; subst hs
    intro q hq
    simp only [At.Out.entries, List.mem_singleton] at hq; subst hq
    exact hg
  | list o =>
    simp only [stripKeys] at hs
    split at hs
    · simp only [Option.some.injEq] at hs; subst hs
      intro q hq
      simp only [At.Out.entries, List.mem_filterMap] at hq
      obtain ⟨e, he, heq⟩ := hq
      cases e with
      | none => simp at heq
      | some x =>
        simp only [Option.map_some, Option.some.injEq] at heq; subst heq
        exact hg (some x) he x rfl
    · cases hs

theorem applyAttempt_good {pin : Bool} {s : ℤ → ℚ} {flag : Bool} {att : Option ℤ} {o1 o2 : At.Out}
    (hc : ∀ n, 0 ≤ C17.creditOf s n ∧ C17.creditOf s n ≤ 1)
    (h1 : ∀ q ∈ o1.entries, ResGood pin q) (h : applyAttempt s flag att o1 = .ok o2) : ∀ q ∈ o2.entries, ResGood pin q := by
  cases att with
  | none => cases h
  | some n =>
    by_cases hone : C17.creditOf s n = 1
    · rw [C17.apply_identity_when_credit_one s flag n o1 hone] at h
      simp only [Except.ok.injEq] at h; subst h; exact h1
    · obtain ⟨f, hf, he⟩ := C17.apply_entries_map s flag n o1 o2 hone h
      intro q hq
      rw [he] at hq
      obtain ⟨r, hr, rfl⟩ := List.mem_map.mp hq
      obtain ⟨⟨g0, g1⟩, gok⟩ := h1 r hr
      obtain ⟨c0, c1⟩ := hc n
      obtain ⟨sp, sn⟩ := C17.scaleRes_spec (C17.creditOf s n) r
      unfold ResGood
      rw [(hf r).1, (hf r).2]
      by_cases hpos : r.grade > 0
      · obtain ⟨e1, e2⟩ := sp hpos
        rw [e1, e2]
        exact ⟨⟨mul_nonneg g0 c0, by nlinarith⟩, fun _ => rfl⟩
      · obtain ⟨e1, e2⟩ := sn hpos
        rw [e1, e2]
        exact ⟨⟨g0, g1⟩, gok⟩

theorem pairs_good {pin : Bool} {o o' : At.Out}
    (he : o'.entries.map (fun r => (r.ok, r.grade)) = o.entries.map (fun r => (r.ok, r.grade)))
    (h : ∀ q ∈ o.entries, ResGood pin q) : ∀ q ∈ o'.entries, ResGood pin q := by
  intro q hq
  have : (q.ok, q.grade) ∈ o'.entries.map (fun r => (r.ok, r.grade)) := List.mem_map.mpr ⟨q, hq, rfl⟩
  rw [he] at this
  obtain ⟨r, hr, e⟩ := List.mem_map.mp this
  simp only [Prod.mk.injEq] at e
  have := h r hr
  unfold ResGood at *
  rw [← e.1, ← e.2]; exact this

/-- **The whole call.** If what the guarded `check` returned is good entry by entry (which the tree theorems establish) and
    the configured schedule yields credits in [0,1] (C17 proves it for the built-in ones), every entry of the value returned
    to edX — after key stripping, attempt-based scaling, debug output and message formatting — has a grade in [0,1] and an
    `ok` determined by that grade (unless `ok` was pinned by the author). -/
theorem call_good {pin : Bool} {cfg : CallCfg} {att : Option ℤ} {log : String} {inp : GInput} {res : M CheckOut} {out : At.Out}
    (hres : ∀ r, res = .ok r → CheckGood pin r)
    (hs : ∀ s, cfg.sched = some s → ∀ n, 0 ≤ C17.creditOf s n ∧ C17.creditOf s n ≤ 1)
    (h : call cfg att log inp res = .ok out) : ∀ q ∈ out.entries, ResGood pin q := by
  unfold call at h
  simp only [bind, Except.bind, pure, Except.pure] at h
  cases res with
  | error e =>
    exfalso
    simp only at h
    cases hd : cfg.debug <;> simp only [hd, Bool.false_eq_true, ↓reduceIte] at h
    · cases e <;> simp [throw, throwThe, MonadExceptOf.throw] at h
    · simp [throw, throwThe, MonadExceptOf.throw] at h
  | ok r =>
    simp only at h
    cases hsk : stripKeys r with
    | none => rw [hsk] at h; simp [throw, throwThe, MonadExceptOf.throw] at h
    | some o1 =>
      rw [hsk] at h; simp only at h
      have g1 := stripKeys_good (hres r rfl) hsk
      have finish : ∀ o2 : At.Out, (∀ q ∈ o2.entries, ResGood pin q) →
          ∀ q ∈ (formatMessages (if cfg.debug = true then appendLog log o2 else o2)).entries, ResGood pin q := by
        intro o2 h2
        apply pairs_good (entries_formatMessages _)
        cases cfg.debug
        · simpa using h2
        · simp only [↓reduceIte]; exact pairs_good (entries_appendLog log o2) h2
      cases hsch : cfg.sched with
      | none =>
        rw [hsch] at h; simp only [Except.ok.injEq] at h
        rw [← h]; exact finish o1 g1
      | some s =>
        rw [hsch] at h; simp only at h
        cases ha : applyAttempt s cfg.attemptMsg att o1 with
        | error e => rw [ha] at h; simp [throw, throwThe, MonadExceptOf.throw] at h
        | ok o2 =>
          rw [ha] at h; simp only [Except.ok.injEq] at h
          rw [← h]; exact finish o2 (applyAttempt_good (hs s hsch) g1 ha)

/-- the two composed: a call of any list grader tree -/
theorem list_tree_call_good (pin : Bool) (t : LTree) (ht : t.TabsWF) {answers : List (List UAny)} {student : List String}
    (ha : ∀ al ∈ answers, ∀ a ∈ al, AnyWF pin a) {cfg : CallCfg} {att : Option ℤ} {log : String} {out : At.Out}
    (hs : ∀ s, cfg.sched = some s → ∀ n, 0 ≤ C17.creditOf s n ∧ C17.creditOf s n ≤ 1)
    (h : call cfg att log (.many student) ((t.check answers student).map CheckOut.list) = .ok out) :
    ∀ q ∈ out.entries, ResGood pin q := by
  apply call_good (pin := pin) _ hs h
  intro r hr
  cases hc : t.check answers student with
  | error e => simp [hc, Except.map] at hr
  | ok o =>
    simp only [hc, Except.map, Except.ok.injEq] at hr; subst hr
    exact list_tree_good pin t ht ha hc

/-- a call of any item grader tree -/
theorem item_tree_call_good (pin : Bool) (t : ITree) (ht : t.TabsWF) {ans : List (Answer UExp)} {inp : String}
    (ha : AnsWF pin ans) {cfg : CallCfg} {att : Option ℤ} {log : String} {out : At.Out}
    (hs : ∀ s, cfg.sched = some s → ∀ n, 0 ≤ C17.creditOf s n ∧ C17.creditOf s n ≤ 1)
    (h : call cfg att log (.one inp) ((t.check ans inp).map CheckOut.single) = .ok out) :
    ∀ q ∈ out.entries, ResGood pin q := by
  apply call_good (pin := pin) _ hs h
  intro r hr
  cases hc : t.check ans inp with
  | error e => simp [hc, Except.map] at hr
  | ok o =>
    simp only [hc, Except.map, Except.ok.injEq] at hr; subst hr
    exact item_tree_good pin t ht ha hc

/-- **One entry per submitted input, none missing** — for every validly configured list grader tree (an accepted grouping or none, recursively for nested graders; that there is one
    answer per group is enforced by the check itself since the `fix:` commit F11), ordered or unordered, at every nesting level. -/
theorem list_tree_one_entry_per_input (t : LTree) {answers : List (List UAny)} {student : List String} {out : LOut}
    (hok : ListOK t answers) (hne : student ≠ []) (h : t.check answers student = .ok out) :
    out.entries.length = student.length ∧ ∀ e ∈ out.entries, e.isSome = true :=
  LTree.check_full t answers student out hok hne h

/-- hence the shape clause of a whole call holds unconditionally for such trees: list form, one entry per input -/
theorem list_tree_call_shape (t : LTree) {answers : List (List UAny)} {student : List String} (hok : ListOK t answers)
    (hne : student ≠ []) {cfg : CallCfg} {att : Option ℤ} {log : String} {out : At.Out}
    (h : call cfg att log (.many student) ((t.check answers student).map CheckOut.list) = .ok out) :
    isSingle out = false ∧ out.entries.length = student.length := by
  obtain ⟨r, hr, hs⟩ := call_shape h
  cases hc : t.check answers student with
  | error e => simp [hc, Except.map] at hr
  | ok o =>
    simp only [hc, Except.map, Except.ok.injEq] at hr; subst hr
    obtain ⟨f1, _⟩ := LTree.check_full t answers student o hok hne hc
    exact ⟨hs.1, by rw [hs.2.1, f1]⟩

/-- and, with debug off, every error that leaves the call of such a tree belongs to the library's family (C02): the
    "an entry for every input" premise of `call_escape_classes` is discharged by the tree theorem -/
theorem list_tree_escape_classes (t : LTree) {answers : List (List UAny)} {student : List String} (hok : ListOK t answers)
    (hne : student ≠ []) {cfg : CallCfg} (hd : cfg.debug = false) {att : Option ℤ} {log : String} {e : Gr.Err}
    (h : call cfg att log (.many student) ((t.check answers student).map CheckOut.list) = .error e) :
    ∃ cls msg, e = .mitx cls msg := by
  apply call_escape_classes hd _ h
  intro o ho
  cases hc : t.check answers student with
  | error e' => simp [hc, Except.map] at ho
  | ok o' =>
    simp only [hc, Except.map, Except.ok.injEq, CheckOut.list.injEq] at ho; subst ho
    have := (LTree.check_full t answers student o' hok hne hc).2
    exact List.all_eq_true.mpr this

/-- a schedule with values in [0,1] for attempts ≥ 1 yields applied credits in [0,1] (rounding to four decimals is monotone and
    fixes 0 and 1); the three built-in schedules qualify by C17's range theorems -/
theorem creditOf_range {s : ℤ → ℚ} (h : ∀ a : ℤ, 1 ≤ a → 0 ≤ s a ∧ s a ≤ 1) (n : ℤ) :
    0 ≤ C17.creditOf s n ∧ C17.creditOf s n ≤ 1 := by
  unfold C17.creditOf
  obtain ⟨h0, h1⟩ := h (C17.clamp n) (C17.schedule_arg_ge_one n)
  constructor
  · have := At.round4_mono h0; rwa [At.round4_zero] at this
  · have := At.round4_mono h1; rwa [At.round4_one] at this

theorem builtin_credit_range_linear {after steps : ℕ} {minc : ℚ} (ha : 1 ≤ after) (hs : 1 ≤ steps) (h0 : 0 ≤ minc) (h1 : minc ≤ 1)
    (n : ℤ) : 0 ≤ C17.creditOf (linearCredit after steps minc) n ∧ C17.creditOf (linearCredit after steps minc) n ≤ 1 :=
  creditOf_range (fun a _ => C17.linear_range ha hs h0 h1 a) n

theorem builtin_credit_range_geometric {f : ℚ} (h0 : 0 ≤ f) (h1 : f ≤ 1) (n : ℤ) :
    0 ≤ C17.creditOf (geometricCredit f) n ∧ C17.creditOf (geometricCredit f) n ≤ 1 :=
  creditOf_range (fun a _ => C17.geometric_range h0 h1 a) n

theorem builtin_credit_range_reciprocal (n : ℤ) :
    0 ≤ C17.creditOf reciprocalCredit n ∧ C17.creditOf reciprocalCredit n ≤ 1 :=
  creditOf_range (fun _ ha => C17.reciprocal_range ha) n

/-! ## IntervalGrader -/

/-- **IntervalGrader** (`check_response` + `grade_bracket` on top of the SingleListGrader machinery): the result has a grade in
    [0,1] and an `ok` determined by it, given bracket credits and the answer's own credit in [0,1] (which answer validation
    guarantees) and a subgrader for the bounds whose results are good -/
theorem interval_result_good {α : Type} {cfg : IvCfg} {sub : α → String → M IRes} {pin : Bool} {m : AnsMeta} {opn cls : List BrAns}
    {lo hi : α} {inp : String} {out : IRes} (hm0 : 0 ≤ m.grade) (hm1 : m.grade ≤ 1)
    (hopn : ∀ b ∈ opn, 0 ≤ b.grade ∧ b.grade ≤ 1) (hcls : ∀ b ∈ cls, 0 ≤ b.grade ∧ b.grade ≤ 1)
    (hsub : ∀ a, a = lo ∨ a = hi → ∀ i r, sub a i = .ok r → Good pin r)
    (h : intervalCheckResponse cfg sub m opn lo hi cls inp = .ok out) : Good pin out :=
  interval_good hm0 hm1 hopn hcls hsub h

/-- the bracket rules: a bound that earned nothing is left alone; a bracket that no answer lists zeroes the bound; otherwise the
    bound's credit is multiplied by the best credit among the bracket answers listing the character, `ok` recomputed -/
theorem interval_bracket_rules (answers : List BrAns) (s : String) (e : IRes) :
    (e.grade = 0 → gradeBracket answers s e = e) ∧
    (e.grade ≠ 0 → (∀ b ∈ answers, ¬ lists s b) → (gradeBracket answers s e).grade = 0 ∧ (gradeBracket answers s e).ok = .no) ∧
    (e.grade ≠ 0 → ∀ b, bestBracket answers s = some b →
      (b ∈ answers ∧ lists s b ∧ ∀ b' ∈ answers, lists s b' → b'.grade ≤ b.grade) ∧
      (gradeBracket answers s e).grade = e.grade * b.grade ∧ (gradeBracket answers s e).ok = gradeToOk (e.grade * b.grade)) := by
  obtain ⟨r0, r1, r2⟩ := gradeBracket_rules answers s e
  exact ⟨r0, r1, fun hne b hb => ⟨(bestBracket_spec answers s).2 b hb, r2 hne b hb⟩⟩

/-- malformed submissions are refused with library errors, before anything is graded: fewer than five characters is a
    (student-visible) ConfigError, a bracket outside the configured sets an InvalidInput -/
theorem interval_refusals {α : Type} (cfg : IvCfg) (sub : α → String → M IRes) (m : AnsMeta) (opn cls : List BrAns) (lo hi : α)
    (inp : String) :
    ((pyStrip inp).length < 5 → ∃ msg, intervalCheckResponse cfg sub m opn lo hi cls inp = .error (Err.config msg)) ∧
    (¬ (pyStrip inp).length < 5 → cfg.opening.toList.contains ((pyStrip inp).toList.headD ' ') = false →
      ∃ msg, intervalCheckResponse cfg sub m opn lo hi cls inp = .error (.mitx "InvalidInput" msg)) := by
  constructor
  · intro h
    unfold intervalCheckResponse
    simp only [bind, Except.bind, h, ↓reduceIte, throw, throwThe, MonadExceptOf.throw]
    exact ⟨_, rfl⟩
  · intro h1 h2
    unfold intervalCheckResponse
    simp only [bind, Except.bind, h1, ↓reduceIte, h2, Bool.not_false, throw, throwThe, MonadExceptOf.throw, pure, Except.pure]
    exact ⟨_, rfl⟩

/-! non-vacuity: a SingleListGrader over a table leaf inside an unordered ListGrader, with partial credits -/
def exLeaf : ITree := .table [⟨("a", "a"), 1, "", none⟩, ⟨("a", "b"), 1/2, "close", none⟩, ⟨("b", "b"), 1, "", none⟩] "wrong"
def exSL : ITree := .singlelist ⟨false, false, false, true, ",", false⟩ "" exLeaf
def exList : LTree := .list ⟨false, true, []⟩ [.item exSL]
def exAns : UAny := .item [⟨[.items [[⟨[.str "a"], ⟨1, "", .yes⟩⟩], [⟨[.str "b"], ⟨1, "", .yes⟩⟩]]], ⟨1, "", .yes⟩⟩]

example : exList.TabsWF := by
  simp only [exList, LTree.TabsWF, subsTabsWF, STree.TabsWF, exSL, ITree.TabsWF, exLeaf, TabWF]
  refine ⟨?_, trivial⟩
  intro t ht
  simp only [List.mem_cons, List.mem_nil_iff, or_false] at ht
  rcases ht with rfl | rfl | rfl <;> norm_num

example : AnyWF false exAns := by
  refine .item _ (.mk _ ?_ ?_)
  · intro a ha; simp only [List.mem_singleton] at ha; subst ha; exact ⟨by norm_num, by norm_num, fun _ => by simp [At.gradeToOk]⟩
  · intro a ha e he
    simp only [List.mem_singleton] at ha; subst ha
    simp only [List.mem_singleton] at he; subst he
    refine .items _ (by simp) ?_
    intro al hal
    refine .mk _ ?_ ?_
    · intro a ha
      simp only [List.mem_cons, List.mem_nil_iff, or_false] at hal
      rcases hal with rfl | rfl <;> (simp only [List.mem_singleton] at ha; subst ha; exact ⟨by norm_num, by norm_num, fun _ => by simp [At.gradeToOk]⟩)
    · intro a ha e he
      simp only [List.mem_cons, List.mem_nil_iff, or_false] at hal
      rcases hal with rfl | rfl <;> (simp only [List.mem_singleton] at ha; subst ha; simp only [List.mem_singleton] at he; subst he; exact .str _)

example : (exList.check [[exAns, exAns]] ["b,a", "a,a"]).toOption.map (fun o => o.entries.map (fun e => e.map (fun r => (r.ok, r.grade))))
    = some [some (.yes, 1), some (.part, 1/2)] := by decide +kernel

/-! non-vacuity for the shape theorem: an unordered grouped ListGrader over a nested ordered ListGrader (grouping `[1,2,1,2]`) -/
def exInner : LTree := .list ⟨true, true, []⟩ [.item exLeaf]
def exOuter : LTree := .list ⟨false, true, [1, 2, 1, 2]⟩ [.nested exInner]
def exItemA : UAny := .item [⟨[.str "a"], ⟨1, "", .yes⟩⟩]
def exItemB : UAny := .item [⟨[.str "b"], ⟨1, "", .yes⟩⟩]
def exOuterAns : List (List UAny) := [[.lists [[exItemA, exItemB]], .lists [[exItemB, exItemB]]]]

example : ListOK exOuter exOuterAns := by
  refine .mk _ _ _ ?_ ?_
  · exact Or.inr ⟨[[0, 2], [1, 3]], by decide⟩
  · intro al hal k a hcond s hs
    simp only [exOuterAns, List.mem_singleton] at hal; subst hal
    simp only [Bool.false_eq_true, ↓reduceIte] at hcond
    obtain ⟨rfl, ha⟩ := hcond
    simp only [subFor, List.length_singleton, beq_self_eq_true, ↓reduceIte, List.getElem?_cons_zero, Option.some.injEq] at hs
    subst hs
    have inner : ∀ ls, ListOK exInner ls := by
      intro ls
      refine .mk _ _ _ (Or.inl rfl) ?_
      intro al _ k a _ s hs
      simp only [subFor, List.length_singleton, beq_self_eq_true, ↓reduceIte, List.getElem?_cons_zero, Option.some.injEq] at hs
      subst hs; exact .item _ _
    simp only [List.mem_cons, List.mem_nil_iff, or_false] at ha
    rcases ha with rfl | rfl <;> exact .nested _ _ (inner _)


example : (exOuter.check exOuterAns ["b", "a", "b", "b"]).toOption.map (fun o => o.entries.map (fun e => e.map (fun r => r.grade)))
    = some [some 1, some 1, some 1, some 1] := by decide +kernel
end C01

import Mitx.Model.SumG
import Mitx.Lemmas.Rename
import Mitx.Props.C04
import Mathlib.Algebra.BigOperators.Group.Finset.Basic
import Mathlib.Algebra.BigOperators.Intervals
import Mathlib.Order.Interval.Finset.Basic
import Mathlib.Data.Int.Interval
import Mathlib.Tactic.Linarith
import Mathlib.Tactic.Abel
/-! # C19 — SumGrader accepts exactly the sums equal in value to the author's

Model: `Sm.performSummation`, `Sm.evaluateSum`, `Sm.precheck`, `Sm.sampleEvals`, `Sm.sumVerdict`. The summand is an
arbitrary function `f : ℤ → V` into an arbitrary commutative additive monoid (numbers, complex numbers, vectors). -/
namespace C19
open Sm

/-- the integers a parity option keeps: all (0), odd (1), even (2) -/
def parityOK (evenOdd : Nat) (n : Int) : Prop :=
  (evenOdd = 1 → n % 2 = 1) ∧ (evenOdd = 2 → n % 2 = 0)

instance (eo : Nat) (n : Int) : Decidable (parityOK eo n) := by unfold parityOK; infer_instance

theorem mem_pyRange1 (lo hi n : Int) : n ∈ pyRange lo hi 1 ↔ lo ≤ n ∧ n < hi := by
  simp only [pyRange, List.mem_map, List.mem_range]
  constructor
  · rintro ⟨k, hk, rfl⟩; omega
  · rintro ⟨h1, h2⟩; exact ⟨(n - lo).toNat, by omega, by omega⟩

theorem mem_pyRange2 (lo hi n : Int) : n ∈ pyRange lo hi 2 ↔ lo ≤ n ∧ n < hi ∧ (n - lo) % 2 = 0 := by
  simp only [pyRange, List.mem_map, List.mem_range]
  constructor
  · rintro ⟨k, hk, rfl⟩; omega
  · rintro ⟨h1, h2, h3⟩; exact ⟨((n - lo) / 2).toNat, by omega, by omega⟩

theorem pyRange_nodup (lo hi : Int) (d : Nat) (hd : 0 < d) : (pyRange lo hi d).Nodup := by
  unfold pyRange
  apply List.Nodup.map _ List.nodup_range
  intro a b h
  have hd' : (0 : Int) < d := by exact_mod_cast hd
  have : (d : Int) * (a : Int) = (d : Int) * (b : Int) := by linarith
  have := Int.eq_of_mul_eq_mul_left (ne_of_gt hd') this
  exact_mod_cast this

theorem foldl_eq_sum {V : Type} [AddCommMonoid V] (f : Int → V) (l : List Int) :
    l.foldl (fun acc n => acc + f n) 0 = (l.map f).sum := by
  rw [List.sum_eq_foldl, List.foldl_map]

theorem parityStart_one (a : Int) : parityStart a 1 = (if a % 2 ≠ 1 then a + 1 else a, 2) := by simp [parityStart]
theorem parityStart_two (a : Int) : parityStart a 2 = (if a % 2 ≠ 0 then a + 1 else a, 2) := by simp [parityStart]
theorem parityStart_other (a : Int) (eo : Nat) (h1 : eo ≠ 1) (h2 : eo ≠ 2) : parityStart a eo = (a, 1) := by
  simp [parityStart, h1, h2]

theorem list_sum_eq {V : Type} [AddCommMonoid V] (f : Int → V) (l : List Int) (hl : l.Nodup) (s : Finset Int)
    (hs : ∀ n, n ∈ l ↔ n ∈ s) : l.foldl (fun acc n => acc + f n) 0 = ∑ n ∈ s, f n := by
  rw [foldl_eq_sum, ← List.sum_toFinset f hl]
  congr 1
  ext n
  simp [hs]

/-- the loop of `perform_summation` adds up exactly the integers between the (sorted) limits, both inclusive, that the
parity option keeps -/
theorem range_sum {V : Type} [AddCommMonoid V] (f : Int → V) (lo hi : Int) (eo : Nat) :
    (pyRange (parityStart lo eo).1 (hi + 1) (parityStart lo eo).2).foldl (fun acc n => acc + f n) 0 =
      ∑ n ∈ (Finset.Icc lo hi).filter (parityOK eo), f n := by
  by_cases h1 : eo = 1
  · subst h1
    rw [parityStart_one]
    apply list_sum_eq f _ (pyRange_nodup _ _ _ (by simp))
    intro n
    have e1 : parityOK 1 n ↔ n % 2 = 1 := by simp [parityOK]
    rw [Finset.mem_filter, Finset.mem_Icc, e1, mem_pyRange2]
    by_cases hp : lo % 2 ≠ 1
    · rw [if_pos hp]; omega
    · rw [if_neg hp]; omega
  · by_cases h2 : eo = 2
    · subst h2
      rw [parityStart_two]
      apply list_sum_eq f _ (pyRange_nodup _ _ _ (by simp))
      intro n
      have e2 : parityOK 2 n ↔ n % 2 = 0 := by simp [parityOK]
      rw [Finset.mem_filter, Finset.mem_Icc, e2, mem_pyRange2]
      by_cases hp : lo % 2 ≠ 0
      · rw [if_pos hp]; omega
      · rw [if_neg hp]; omega
    · rw [parityStart_other _ _ h1 h2]
      apply list_sum_eq f _ (pyRange_nodup _ _ _ (by simp))
      intro n
      simp only [Finset.mem_filter, Finset.mem_Icc, parityOK, mem_pyRange1]
      omega

/-- **The sum runs over all integers between the two limits inclusive, whatever their order** (only the odd / only the
even ones when so configured) -/
theorem sum_spec {V : Type} [AddCommMonoid V] (f : Int → V) (a b : Int) (eo : Nat) (c : Int) :
    performSummation f (.fin a) (.fin b) eo c = .ok (∑ n ∈ (Finset.Icc (min a b) (max a b)).filter (parityOK eo), f n) := by
  unfold performSummation
  by_cases h : a > b
  · have hmin : min a b = b := by omega
    have hmax : max a b = a := by omega
    simp [Lim.gt, h, range_sum, hmin, hmax]
  · have hmin : min a b = a := by omega
    have hmax : max a b = b := by omega
    simp [Lim.gt, h, range_sum, hmin, hmax]

/-- exchanging the limits never changes the result (value or error), infinite limits included -/
theorem sum_symm {V : Type} [Add V] [Zero V] (f : Int → V) (l u : Lim) (eo : Nat) (c : Int) :
    performSummation f l u eo c = performSummation f u l eo c := by
  cases l <;> cases u <;> simp [performSummation, Lim.gt]
  rename_i a b
  by_cases h1 : a > b
  · have : ¬ b > a := by omega
    simp [h1, this]
  · by_cases h2 : b > a
    · simp [h1, h2]
    · have : a = b := by omega
      subst this; simp

/-- an infinite limit is replaced by the configured cutoff -/
theorem sum_infinite {V : Type} [Add V] [Zero V] (f : Int → V) (a : Int) (eo : Nat) (c : Int) :
    performSummation f (.fin a) .pinf eo c = performSummation f (.fin a) (.fin c) eo c ∨ a > c := by
  by_cases h : a > c
  · exact Or.inr h
  · left
    simp [performSummation, Lim.gt, h]

theorem sum_infinite_lower {V : Type} [Add V] [Zero V] (f : Int → V) (b : Int) (eo : Nat) (c : Int) (h : -c ≤ b) :
    performSummation f .ninf (.fin b) eo c = performSummation f (.fin (-c)) (.fin b) eo c := by
  have : ¬ (-c > b) := by omega
  simp [performSummation, Lim.gt, this]

theorem sum_both_infinite {V : Type} [Add V] [Zero V] (f : Int → V) (eo : Nat) (c : Int) :
    (∃ m, performSummation f .pinf .pinf eo c = .error (.summation m)) ∧
    (∃ m, performSummation f .ninf .ninf eo c = .error (.summation m)) := by
  constructor
  · exact ⟨"Cannot sum from infty to infty.", by simp [performSummation, Lim.gt]⟩
  · exact ⟨"Cannot sum from -infty to -infty.", by simp [performSummation, Lim.gt]⟩

/-- shifting the index: `Σ_{n=a+k}^{b+k} f(n−k) = Σ_{n=a}^{b} f(n)` -/
theorem sum_shift {V : Type} [AddCommMonoid V] (f : Int → V) (a b k : Int) (c : Int) :
    performSummation (fun n => f (n - k)) (.fin (a + k)) (.fin (b + k)) 0 c = performSummation f (.fin a) (.fin b) 0 c := by
  rw [sum_spec, sum_spec]
  congr 1
  have hp : ∀ n, parityOK 0 n := by intro n; simp [parityOK]
  simp only [hp, Finset.filter_true_of_mem, implies_true]
  have hmin : min (a + k) (b + k) = min a b + k := by omega
  have hmax : max (a + k) (b + k) = max a b + k := by omega
  rw [hmin, hmax]
  rw [← Finset.sum_image (s := Finset.Icc (min a b + k) (max a b + k)) (g := fun n => n - k) (f := f)]
  · congr 1
    ext n
    simp only [Finset.mem_image, Finset.mem_Icc]
    constructor
    · rintro ⟨m, hm, rfl⟩; omega
    · intro h; exact ⟨n + k, by omega, by omega⟩
  · intro x _ y _ h; simp only at h; omega

/-- reversing the index: `Σ_{n=a}^{b} f(n) = Σ_{n=-b}^{-a} f(-n)` -/
theorem sum_reverse {V : Type} [AddCommMonoid V] (f : Int → V) (a b : Int) (c : Int) :
    performSummation (fun n => f (-n)) (.fin (-b)) (.fin (-a)) 0 c = performSummation f (.fin a) (.fin b) 0 c := by
  rw [sum_spec, sum_spec]
  congr 1
  have hp : ∀ n, parityOK 0 n := by intro n; simp [parityOK]
  simp only [hp, Finset.filter_true_of_mem, implies_true]
  rw [← Finset.sum_image (s := Finset.Icc (min (-b) (-a)) (max (-b) (-a))) (g := fun n => -n) (f := f)]
  · congr 1
    ext n
    simp only [Finset.mem_image, Finset.mem_Icc]
    constructor
    · rintro ⟨m, hm, rfl⟩; omega
    · intro h; exact ⟨-n, by omega, by omega⟩
  · intro x _ y _ h; simp only at h; omega

/-- a perturbation of a single term changes the sum by exactly that perturbation -/
theorem sum_perturb {V : Type} [AddCommGroup V] (f g : Int → V) (a b m : Int) (c : Int)
    (hm : min a b ≤ m ∧ m ≤ max a b) (hfg : ∀ n, n ≠ m → g n = f n) :
    ∃ s t, performSummation f (.fin a) (.fin b) 0 c = .ok s ∧ performSummation g (.fin a) (.fin b) 0 c = .ok t ∧
      t - s = g m - f m := by
  refine ⟨_, _, sum_spec f a b 0 c, sum_spec g a b 0 c, ?_⟩
  have hp : ∀ n, parityOK 0 n := by intro n; simp [parityOK]
  simp only [hp, Finset.filter_true_of_mem, implies_true]
  have hmem : m ∈ Finset.Icc (min a b) (max a b) := Finset.mem_Icc.mpr hm
  rw [← Finset.add_sum_erase _ g hmem, ← Finset.add_sum_erase _ f hmem]
  have : ∑ x ∈ (Finset.Icc (min a b) (max a b)).erase m, g x = ∑ x ∈ (Finset.Icc (min a b) (max a b)).erase m, f x :=
    Finset.sum_congr rfl (fun x hx => hfg x (Finset.ne_of_mem_erase hx))
  rw [this]; abel

/-! ### limit and variable errors -/

theorem dummy_clash_error {V : Type} [Add V] [Zero V] (scope : List String) (v : String) (lo hi : LimVal) (uf : Bool)
    (c1 c2 : Int) (eo : Nat) (f : Int → V) (h : v ∈ scope) :
    ∃ m, evaluateSum scope v lo hi uf c1 c2 eo f = .error (.summation m) := by
  have : scope.contains v = true := by simpa using h
  unfold evaluateSum
  rw [if_pos this]
  exact ⟨_, rfl⟩

theorem complex_limit_error {V : Type} [Add V] [Zero V] (scope : List String) (v : String) (lo hi : LimVal) (uf : Bool)
    (c1 c2 : Int) (eo : Nat) (f : Int → V) (h : lo = .complex ∨ hi = .complex) :
    ∃ m, evaluateSum scope v lo hi uf c1 c2 eo f = .error (.summation m) := by
  unfold evaluateSum
  split
  · exact ⟨_, rfl⟩
  · simp [h]

theorem noninteger_limit_error {V : Type} [Add V] [Zero V] (scope : List String) (v : String) (q : Rat) (other : LimVal) (uf : Bool)
    (c1 c2 : Int) (eo : Nat) (f : Int → V) (hq : q.den ≠ 1) :
    (∃ m, evaluateSum scope v (.real q) other uf c1 c2 eo f = .error (.summation m)) ∧
    (∃ m, evaluateSum scope v other (.real q) uf c1 c2 eo f = .error (.summation m)) := by
  constructor
  · unfold evaluateSum
    split
    · exact ⟨_, rfl⟩
    · split
      · exact ⟨_, rfl⟩
      · simp [LimVal.toLim, hq]
  · unfold evaluateSum
    split
    · exact ⟨_, rfl⟩
    · split
      · exact ⟨_, rfl⟩
      · cases h : other.toLim with
        | none => exact ⟨_, rfl⟩
        | some lo => simp [LimVal.toLim, hq]

/-- when nothing is wrong with the limits, `evaluate_sum` is `perform_summation` with the cutoff chosen by the factorial rule -/
theorem evaluateSum_ok {V : Type} [Add V] [Zero V] (scope : List String) (v : String) (a b : Int) (uf : Bool)
    (c1 c2 : Int) (eo : Nat) (f : Int → V) (h : v ∉ scope) :
    evaluateSum scope v (.real a) (.real b) uf c1 c2 eo f =
      performSummation f (.fin a) (.fin b) eo (if uf then c2 else c1) := by
  have : ¬ (scope.contains v = true) := by simpa using h
  unfold evaluateSum
  rw [if_neg this]
  simp [LimVal.toLim]

/-- a blank field is refused before anything is evaluated -/
theorem blank_field_error (pos : Fields (Option Nat)) (ans : Fields String) (student : List String)
    (hm vn : String → Bool) (s : Fields String) (k : String)
    (hs : structureInput pos ans student = .ok s) (hb : firstBlank s = some k) :
    ∃ m, precheck pos ans student hm vn = .error (.missing m) := by
  unfold precheck
  rw [hs]
  simp [bind, Except.bind, hb]

/-- a summation variable that already has a meaning, or is no valid name, is refused -/
theorem dummy_variable_error (pos : Fields (Option Nat)) (ans : Fields String) (student : List String)
    (hm vn : String → Bool) (s : Fields String)
    (hs : structureInput pos ans student = .ok s) (hb : firstBlank s = none) (hbad : hm s.var = true ∨ vn s.var = false) :
    ∃ m, precheck pos ans student hm vn = .error (.invalid m) := by
  unfold precheck
  rw [hs]
  simp only [bind, Except.bind, hb]
  rcases hbad with h | h
  · simp [h]
  · by_cases h1 : hm s.var = true
    · simp [h1]
    · simp [h1, h]

/-- failures of the author's own sum are configuration errors; the student's own failures keep their class -/
theorem author_failure_is_config_error {V : Type} (e : Err) (student : Except Err V) :
    ∃ m, sampleEvals (.error e) student = .error (.config m) := ⟨_, rfl⟩

theorem student_failure_kept {V : Type} (a : V) (e : Err) : sampleEvals (.ok a) (.error e) = .error e := rfl

/-- **Verdict**: correct exactly when the two sums agree within tolerance at every sample (for the default
`failable_evals = 0`), by the C04 rule -/
theorem sum_grade_iff {samples : List (Tl.Val × Tl.Val)} {tol : Tl.Tolerance} {fe : Nat} {r : At.Res}
    (h : sumVerdict samples tol fe = some r) :
    ∃ vs, samples.mapM (fun p => Tl.withinTol p.1 p.2 tol) = some vs ∧
      r = if C04.passes vs fe then { ok := .yes, grade := 1, msg := "" } else { ok := .no, grade := 0, msg := "" } := by
  obtain ⟨vs, h1, _, h3⟩ := C04.formulaGrade_iff h
  exact ⟨vs, h1, h3⟩

/-! ### non-vacuity -/

example : performSummation (fun n => n * n) (.fin 3) (.fin (-2)) 0 1000 = .ok (4 + 1 + 0 + 1 + 4 + 9 : Int) := by decide
example : performSummation (fun n => n) (.fin (-3)) (.fin 6) 1 1000 = .ok (-3 + -1 + 1 + 3 + 5 : Int) := by decide
example : performSummation (fun n => n) (.fin (-3)) (.fin 6) 2 1000 = .ok (-2 + 0 + 2 + 4 + 6 : Int) := by decide
example : performSummation (fun n => n) (.fin 1) .pinf 0 4 = .ok (1 + 2 + 3 + 4 : Int) := by decide

/-- **The summation variable may be renamed freely.** The summand is a parse tree `t` evaluated with the summation
    variable bound to the running index on top of the scope `A` (any operator algebra: floats, complex numbers, arrays).
    Renaming the variable `v` to any name `v'` that does not occur in the summand — in the summand and in the
    summation-variable field alike — gives the same sum, or the same error, provided neither name already has a meaning. -/
theorem sum_rename {V : Type} [Add V] [Zero V] (A : C03.Alg V) (ofInt : Int → V) (scope : List String) (v v' : String) (t : C03.T)
    (hfresh : (C03.Kind.var, v') ∉ C03.names t) (hv : scope.contains v = false) (hv' : scope.contains v' = false)
    (lo hi : LimVal) (uf : Bool) (iv ifa : Int) (eo : Nat) :
    evaluateSum scope v' lo hi uf iv ifa eo (fun n => C03.evalT (A.bind v' (ofInt n)) (C03.mapVars (C03.rename1 v v') t))
      = evaluateSum scope v lo hi uf iv ifa eo (fun n => C03.evalT (A.bind v (ofInt n)) t) := by
  have hf : (fun n => C03.evalT (A.bind v' (ofInt n)) (C03.mapVars (C03.rename1 v v') t))
      = (fun n => C03.evalT (A.bind v (ofInt n)) t) := by
    funext n; exact C03.evalT_rename_bound A v v' (ofInt n) t hfresh
  rw [hf]
  unfold evaluateSum
  have h1 : ¬ v ∈ scope := by simpa using hv
  have h2 : ¬ v' ∈ scope := by simpa using hv'
  simp only [List.contains_iff_mem, h1, h2, ↓reduceIte]

end C19

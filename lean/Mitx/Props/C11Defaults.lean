import Mitx.Lemmas.Defaults
/-! # C11 — registered class defaults: precedence and no aliasing (object-identity model `Rd`)

`apply_registered_defaults` is what turns course-wide defaults (`register_defaults`) plus a grader's own options into its
configuration. Three facts, for every heap, class chain and configuration, and for every history of constructions:
the returned configuration is a NEW object; no registered dictionary is ever written; and each option's value is the
explicit one, else that of the most specific class that registers it. -/
namespace C11
open Rd

/-- the configuration handed to the new grader is a fresh object, and every existing dictionary (in particular every
registered `default_values`) is exactly what it was -/
theorem defaults_no_alias (h : Heap) (hw : h.WF) (chain : List (Option Nat)) (config : Dict) :
    (applyDefaults h chain config).2 = h.next ∧
    (∀ c ∈ h.cells, c.1 ≠ (applyDefaults h chain config).2) ∧
    (∀ i, i ≠ (applyDefaults h chain config).2 → (applyDefaults h chain config).1.get i = h.get i) ∧
    (applyDefaults h chain config).1.WF := by
  refine ⟨rfl, ?_, ?_, ?_⟩
  · intro c hc; have := hw c hc; simp only [applyDefaults, Heap.alloc]; omega
  · intro i hi; exact get_alloc_old h _ i hi
  · intro c hc
    simp only [applyDefaults, Heap.alloc, List.mem_append, List.mem_singleton] at hc ⊢
    rcases hc with hc | rfl
    · have := hw c hc; omega
    · simp

/-- **precedence**: explicit option, else the most specific class of the chain that registers the key, else absent
(the schema default applies afterwards) -/
theorem defaults_precedence (h : Heap) (hw : h.WF) (chain : List (Option Nat)) (config : Dict) (k : String)
    (hc : KeysNodup config) (hnd : ∀ i, some i ∈ chain → KeysNodup (h.get i)) :
    lookup ((applyDefaults h chain config).1.get (applyDefaults h chain config).2) k = specLookup h chain config k := by
  have : (applyDefaults h chain config).1.get (applyDefaults h chain config).2 = update (baseOf h chain) config :=
    get_alloc_new h hw _
  rw [this, lookup_update, lookup_reverse_of_nodup _ _ hc, lookup_baseOf h chain k hnd]
  unfold specLookup
  cases lookup config k <;> simp

/-- **histories**: after any sequence of grader constructions (any chains, any configurations) every dictionary that existed
before — every registered `default_values` — still has its original contents -/
theorem defaults_history (calls : List (List (Option Nat) × Dict)) (h : Heap) (hw : h.WF) :
    (calls.foldl (fun hh c => (applyDefaults hh c.1 c.2).1) h).WF ∧
    h.next ≤ (calls.foldl (fun hh c => (applyDefaults hh c.1 c.2).1) h).next ∧
    ∀ i, i < h.next → (calls.foldl (fun hh c => (applyDefaults hh c.1 c.2).1) h).get i = h.get i := by
  induction calls generalizing h with
  | nil => exact ⟨hw, Nat.le_refl _, fun _ _ => rfl⟩
  | cons c rest ih =>
    obtain ⟨hid, _, hold, hwf⟩ := defaults_no_alias h hw c.1 c.2
    obtain ⟨h1, h2, h3⟩ := ih (applyDefaults h c.1 c.2).1 hwf
    have hnext : (applyDefaults h c.1 c.2).1.next = h.next + 1 := rfl
    refine ⟨h1, by simp only [List.foldl_cons]; omega, ?_⟩
    intro i hi
    simp only [List.foldl_cons]
    rw [h3 i (by omega)]
    exact hold i (by rw [hid]; omega)

/-! non-vacuity: StringGrader registers {case_sensitive: False}, ItemGrader {wrong_msg: I, case_sensitive: X}; a debugged grader is
built; the registered dictionaries are untouched and the values follow the precedence -/
example :
    let h : Heap := ⟨[(0, [("case_sensitive", "False")]), (1, [("wrong_msg", "I"), ("case_sensitive", "X")])], 2⟩
    let r := applyDefaults h [some 0, some 1, none, none] [("answers", "cat"), ("debug", "True")]
    r.1.get r.2 = [("wrong_msg", "I"), ("case_sensitive", "False"), ("answers", "cat"), ("debug", "True")] ∧
    r.1.get 0 = [("case_sensitive", "False")] ∧ r.1.get 1 = [("wrong_msg", "I"), ("case_sensitive", "X")] ∧ r.2 = 2 := by
  decide +kernel

end C11

import Mitx.Model.MunkresHeap
import Mitx.Props.C06
/-! # C06 — "it leaves the caller's matrix unmodified", on the object-identity model `MkH` -/
namespace C06
open Mk MkH

/-- the heap model returns exactly what the value model returns (so `solver_rect` etc. apply to it) -/
theorem heap_result_eq (mode : PadMode) (h : Heap) (caller : List Nat) :
    (computeH mode h caller).map (·.2) = compute (readMatrix h caller) := by
  unfold computeH compute finalState resultOf
  simp only [Option.bind_eq_bind, Option.pure_def]
  cases run _ _ _ <;> rfl

theorem rowOf_copy_none (h : Heap) (n id : Nat) (hid : id < h.next) : rowOf (fun i => h.next + i) n id = none := by
  unfold rowOf
  rw [List.find?_eq_none]
  intro i _ hi
  simp at hi; omega

/-- **The caller's matrix is unmodified**: with `pad_matrix` copying the rows, every row object that existed before the
call — in particular every row of the caller's matrix — has the same contents and length afterwards. -/
theorem caller_unmodified (h : Heap) (caller : List Nat) {h' : Heap} {out : List (Nat × Nat)}
    (hc : computeH .copy h caller = some (h', out)) :
    ∀ id, id < h.next → h'.row id = h.row id ∧ h'.len id = h.len id := by
  unfold computeH at hc
  simp only [Option.bind_eq_bind, Option.pure_def] at hc
  cases hs : finalState (readMatrix h caller) with
  | none => simp [hs] at hc
  | some s =>
    simp only [hs, Option.bind_some, Option.some.injEq, Prod.mk.injEq] at hc
    obtain ⟨rfl, _⟩ := hc
    intro id hid
    have hnone : rowOf (workId .copy h caller s.n) s.n id = none := rowOf_copy_none h s.n id hid
    constructor
    · funext j; simp only [writeBack, hnone]
    · simp only [writeBack, hnone]

/-- the matrix the caller reads back is the matrix it passed in -/
theorem caller_reads_same (h : Heap) (caller : List Nat) {h' : Heap} {out : List (Nat × Nat)}
    (hc : computeH .copy h caller = some (h', out)) (hcall : ∀ id ∈ caller, id < h.next) :
    readMatrix h' caller = readMatrix h caller := by
  unfold readMatrix
  apply List.map_congr_left
  intro id hid
  obtain ⟨h1, h2⟩ := caller_unmodified h caller hc id (hcall id hid)
  rw [h1, h2]

/-- histories: a solver reused for any sequence of matrices (all allocated before the first call) leaves all of them as they were,
    and each call returns what the value model returns for that matrix -/
theorem caller_unmodified_history : ∀ (calls : List (List Nat)) (h : Heap) {h' : Heap} {outs : List (List (Nat × Nat))},
    calls.foldlM (fun (acc : Heap × List (List (Nat × Nat))) caller => do
        let r ← computeH .copy acc.1 caller
        pure (r.1, acc.2 ++ [r.2])) (h, []) = some (h', outs) →
    h.next ≤ h'.next ∧ ∀ id, id < h.next → h'.row id = h.row id ∧ h'.len id = h.len id := by
  -- generalised over the accumulator
  have gen : ∀ (calls : List (List Nat)) (h : Heap) (acc0 : List (List (Nat × Nat))) {h' : Heap} {outs : List (List (Nat × Nat))},
      calls.foldlM (fun (acc : Heap × List (List (Nat × Nat))) caller => do
          let r ← computeH .copy acc.1 caller
          pure (r.1, acc.2 ++ [r.2])) (h, acc0) = some (h', outs) →
      h.next ≤ h'.next ∧ ∀ id, id < h.next → h'.row id = h.row id ∧ h'.len id = h.len id := by
    intro calls
    induction calls with
    | nil =>
      intro h acc0 h' outs hf
      simp only [List.foldlM_nil, Option.pure_def, Option.some.injEq, Prod.mk.injEq] at hf
      obtain ⟨rfl, _⟩ := hf
      exact ⟨Nat.le_refl _, fun _ _ => ⟨rfl, rfl⟩⟩
    | cons c rest ih =>
      intro h acc0 h' outs hf
      simp only [List.foldlM_cons, Option.bind_eq_bind] at hf
      cases hc : computeH .copy h c with
      | none => simp [hc] at hf
      | some r =>
        obtain ⟨h1, o1⟩ := r
        simp only [hc, Option.bind_some, Option.pure_def] at hf
        have hstep := caller_unmodified h c hc
        have hnext : h.next ≤ h1.next := by
          unfold computeH at hc
          simp only [Option.bind_eq_bind, Option.pure_def] at hc
          cases hs : finalState (readMatrix h c) with
          | none => simp [hs] at hc
          | some s =>
            simp only [hs, Option.bind_some, Option.some.injEq, Prod.mk.injEq] at hc
            obtain ⟨rfl, _⟩ := hc
            simp [writeBack]
        obtain ⟨hle, hrest⟩ := ih h1 (acc0 ++ [o1]) hf
        refine ⟨Nat.le_trans hnext hle, ?_⟩
        intro id hid
        obtain ⟨a1, a2⟩ := hrest id (Nat.lt_of_lt_of_le hid hnext)
        obtain ⟨b1, b2⟩ := hstep id hid
        exact ⟨a1.trans b1, a2.trans b2⟩
  intro calls h h' outs hf
  exact gen calls h [] hf

/-! The variant that reuses the caller's row objects when no padding is needed is refuted: a 2×2 matrix whose first row
is changed by step 1 (row minimum subtracted). -/
def demoHeap : Heap := ⟨fun id j => if id = 0 then (if j = 0 then 3 else if j = 1 then 5 else 0) else if id = 1 then (if j = 0 then 4 else if j = 1 then 1 else 0) else 0,
  fun id => if id < 2 then 2 else 0, 2⟩

example : (computeH .reuseUnpadded demoHeap [0, 1]).map (fun r => (r.1.row 0 0, r.1.row 0 1, r.2)) = some (0, 2, [(0, 0), (1, 1)]) ∧
    (computeH .copy demoHeap [0, 1]).map (fun r => (r.1.row 0 0, r.1.row 0 1, r.2)) = some (3, 5, [(0, 0), (1, 1)]) := by
  decide +kernel

end C06

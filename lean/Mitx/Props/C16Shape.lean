import Mitx.Model.MatrixShape
/-! # C16 — "submissions of the wrong shape are reported as shape mismatches according to the grader's mismatch policy, not
silently graded" (model `Ms`) -/
namespace C16
open Ms

theorem validateShape_ok_iff (e i : List Nat) (d : Detail) : validateShape e i d = .ok () ↔ e = i := by
  unfold validateShape
  by_cases h : e = i
  · simp [h]
  · simp only [h, ↓reduceIte, iff_false]
    cases d <;> simp only [] <;> (try split) <;> simp

/-- **Never silently graded**: for a wrongly shaped value the comparer's verdict is never what is returned — the outcome is the
shape-mismatch error, raised or reported with zero credit as the policy says -/
theorem wrong_shape_not_graded (p : Policy) (d : Detail) (e i : List Nat) (verdict : Outcome) (h : e ≠ i) :
    ∃ msg, validateShape e i d = .error msg ∧
      gradeShaped p d e i verdict = (if p.suppress then .zero "" else if p.mismatchRaised then .raised msg else .zero msg) := by
  unfold gradeShaped
  cases hv : validateShape e i d with
  | ok u => exact absurd ((validateShape_ok_iff e i d).mp (by rw [hv])) h
  | error msg => exact ⟨msg, rfl, by simp [ladder]⟩

/-- a correctly shaped value is graded by the comparer, whatever the policy -/
theorem right_shape_graded (p : Policy) (d : Detail) (e : List Nat) (verdict : Outcome) : gradeShaped p d e e verdict = verdict := by
  simp [gradeShaped, validateShape]

/-- the three levels of detail of the message -/
theorem mismatch_message (e i : List Nat) (h : e ≠ i) :
    validateShape e i .none = .error "" ∧
    validateShape e i .shape = .error ("Expected answer to be a " ++ description e ++ ", but input is a " ++ description i) ∧
    (shapeName e.length ≠ shapeName i.length →
      validateShape e i .type = .error ("Expected answer to be a " ++ shapeName e.length ++ ", but input is a " ++ shapeName i.length)) ∧
    (shapeName e.length = shapeName i.length →
      validateShape e i .type = .error ("Expected answer to be a " ++ shapeName e.length ++ ", but input is a " ++ shapeName i.length ++ " of incorrect shape")) := by
  refine ⟨by simp [validateShape, h], by simp [validateShape, h], ?_, ?_⟩
  · intro hn; simp [validateShape, h, hn]
  · intro hn; simp [validateShape, h, hn]

/-- with `suppress_matrix_messages` every handled error becomes a silent zero; without it, array / argument-shape errors always reach
the student, shape errors when `shape_errors`, mismatches when `is_raised` — and what is not raised is reported with zero credit -/
theorem ladder_spec (p : Policy) (k : ErrKind) (msg : String) :
    (p.suppress = true → ladder p k msg = .zero "") ∧
    (p.suppress = false → ladder p k msg =
      match k with
      | .shapeError => if p.shapeErrors then .raised msg else .zero msg
      | .inputType => if p.mismatchRaised then .raised msg else .zero msg
      | .argShapeOrArray => .raised msg) := by
  constructor
  · intro h; cases k <;> simp [ladder, h]
  · intro h; cases k <;> simp [ladder, h]

/-- the ladder never awards credit -/
theorem ladder_no_credit (p : Policy) (k : ErrKind) (msg : String) : (∃ m, ladder p k msg = .raised m) ∨ (∃ m, ladder p k msg = .zero m) := by
  cases k <;> simp only [ladder] <;> (repeat' split) <;> simp

def msgOf (r : Except String Unit) : String := match r with | .error m => m | .ok _ => "<ok>"

example : msgOf (validateShape [2, 3] [3, 2] .type) = "Expected answer to be a matrix, but input is a matrix of incorrect shape" ∧
    msgOf (validateShape [3] [2, 2] .shape) = "Expected answer to be a vector of length 3, but input is a matrix of shape (rows: 2, cols: 2)" ∧
    msgOf (validateShape [] [2, 2, 2] .shape) = "Expected answer to be a scalar, but input is a tensor of shape (2, 2, 2)" ∧
    msgOf (validateShape [2] [2] .none) = "<ok>" := by decide +kernel

end C16

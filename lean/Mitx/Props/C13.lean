import Mitx.Lemmas.Depend
import Mitx.Lemmas.DependFormula
/-! # C13 — sampled variable sets are complete and dependent values are consistent

Model: `Dp.genSample` (`gen_symbols_samples`, one sample), `Dp.resolve`/`Dp.sweep` (the fixed-point loop),
`Dp.diagnose` (undefined-then-circular), `Dp.numberedMatch`/`Dp.generateVariableList`, `Dp.baseDict`/`Dp.prune`
(constants not shadowed by a symbol, independent draws). `V` (values) and every dependent's evaluator are arbitrary;
the only assumption is `Local`: a dependent's formula reads only the variables it uses (`depends = variables_used`,
which is the C10 theorem `usage_exact`). -/
namespace C13
open Dp

variable {V : Type}

/-- **Consistency and completeness on success**: the final sample extends the starting one (constants and
independent draws are never overwritten), defines exactly the dependents in addition, and every dependent's value
is its formula evaluated on the *final* sample — whatever the declaration order and however long the chains. -/
theorem resolve_spec (hloc : ∀ d : Dep V, Local d) : ∀ (f : Nat) (ds : List (Dep V)) (env env' : Dict V),
    Fresh ds env → resolve f ds env = .inl env' →
    Extends env env' ∧ Solves ds env' ∧ (∀ x, env'.get x ≠ none → env.get x ≠ none ∨ ∃ d ∈ ds, d.name = x) := by
  intro f
  induction f with
  | zero =>
    intro ds env env' _ h
    cases ds with
    | nil => simp [resolve] at h; subst h; exact ⟨Extends.refl _, by simp [Solves], fun x hx => Or.inl hx⟩
    | cons d ds => simp [resolve] at h
  | succ f ih =>
    intro ds env env' hf h
    cases ds with
    | nil => simp [resolve] at h; subst h; exact ⟨Extends.refl _, by simp [Solves], fun x hx => Or.inl hx⟩
    | cons d ds =>
      simp only [resolve] at h
      split at h
      · obtain ⟨s1, s2, s3, s4, s5⟩ := sweep_spec hloc (d :: ds) env hf
        obtain ⟨i1, i2, i3⟩ := ih _ _ _ s2 h
        refine ⟨s1.trans i1, ?_, ?_⟩
        · intro d' hd'
          by_cases hm : d' ∈ (sweep (d :: ds) env).2
          · exact i2 d' hm
          · obtain ⟨e, he, hdef, hval⟩ := s4 d' hd' hm
            rw [i1 _ _ hval]
            congr 1
            apply hloc d'
            intro x hx
            obtain ⟨v, hv⟩ := hdef x hx
            rw [hv, i1 _ _ (he _ _ hv)]
        · intro x hx
          rcases i3 x hx with h' | ⟨d', hd', hn⟩
          · rcases s5 x h' with h'' | ⟨d'', hd'', hn, _⟩
            · exact Or.inl h''
            · exact Or.inr ⟨d'', hd'', hn⟩
          · exact Or.inr ⟨d', s3 d' hd', hn⟩
      · cases h

/-- **Failure is never fuel exhaustion and never a partial answer**: with fuel = number of dependents (what
`genSample` uses) the loop stops unsuccessfully only after a whole pass without progress, and then: the remaining
dependents are a nonempty subset of the declared ones, none of them has all its dependencies available, every other
dependent *was* evaluated, and nothing else was defined. -/
theorem resolve_stuck (hloc : ∀ d : Dep V, Local d) : ∀ (f : Nat) (ds : List (Dep V)) (env e : Dict V) (stuck : List (Dep V)),
    Fresh ds env → ds.length ≤ f → resolve f ds env = .inr (e, stuck) →
    stuck ≠ [] ∧ (∀ d ∈ stuck, d ∈ ds) ∧ Extends env e ∧ (∀ d ∈ stuck, ready e d = false) ∧ Fresh stuck e ∧
    (∀ d ∈ ds, d ∉ stuck → e.get d.name ≠ none) ∧
    (∀ x, e.get x ≠ none → env.get x ≠ none ∨ ∃ d ∈ ds, d.name = x ∧ d ∉ stuck) := by
  intro f
  induction f with
  | zero =>
    intro ds env e stuck _ hl h
    cases ds with
    | nil => simp [resolve] at h
    | cons d ds => simp at hl
  | succ f ih =>
    intro ds env e stuck hf hl h
    cases ds with
    | nil => simp [resolve] at h
    | cons d ds =>
      simp only [resolve] at h
      split at h
      · rename_i hlt
        obtain ⟨s1, s2, s3, s4, s5⟩ := sweep_spec hloc (d :: ds) env hf
        obtain ⟨h1, h2, h3, h4, h5, h6, h7⟩ := ih _ _ _ _ s2 (by simp at hl hlt ⊢; omega) h
        refine ⟨h1, fun x hx => s3 x (h2 x hx), s1.trans h3, h4, h5, ?_, ?_⟩
        · intro d' hd' hns
          by_cases hm : d' ∈ (sweep (d :: ds) env).2
          · exact h6 d' hm hns
          · obtain ⟨e0, _, _, hval⟩ := s4 d' hd' hm
            rw [h3 _ _ hval]; simp
        · intro x hx
          rcases h7 x hx with h' | ⟨d', hd', hn, hns⟩
          · rcases s5 x h' with h'' | ⟨d'', hd'', hn, hnr⟩
            · exact Or.inl h''
            · exact Or.inr ⟨d'', hd'', hn, fun hs => hnr (h2 _ hs)⟩
          · exact Or.inr ⟨d', s3 d' hd', hn, hns⟩
      · rename_i hlt
        have hle := sweep_length (d :: ds) env
        have heq : (sweep (d :: ds) env).2.length = (d :: ds).length := by omega
        obtain ⟨e1, e2, h3⟩ := sweep_noprogress (d :: ds) env heq
        simp only [Sum.inr.injEq, Prod.mk.injEq] at h
        obtain ⟨he, hs⟩ := h
        rw [e1] at he; rw [e2] at hs
        subst he; subst hs
        exact ⟨by simp, fun x hx => hx, Extends.refl _, h3, hf, fun d' hd' hn => (hn hd').elim,
          fun x hx => Or.inl hx⟩

/-- the loop needs at most one pass per dependent: more fuel changes nothing -/
theorem resolve_fuel_irrelevant : ∀ (f g : Nat) (ds : List (Dep V)) (env : Dict V),
    ds.length ≤ f → ds.length ≤ g → resolve f ds env = resolve g ds env := by
  intro f
  induction f with
  | zero =>
    intro g ds env hf _
    cases ds with
    | nil => cases g <;> simp [resolve]
    | cons d ds => simp at hf
  | succ f ih =>
    intro g ds env hf hg
    cases ds with
    | nil => cases g <;> simp [resolve]
    | cons d ds =>
      cases g with
      | zero => simp at hg
      | succ g =>
        simp only [resolve]
        split
        · rename_i hlt
          apply ih <;> (simp at hf hg hlt ⊢; omega)
        · rfl

/-- the computed sample lies below **every** solution of the dependents' equations that extends the starting sample -/
theorem resolve_below_any_solution (hloc : ∀ d : Dep V, Local d) (e2 : Dict V) : ∀ (f : Nat) (ds : List (Dep V)) (env e1 : Dict V),
    Fresh ds env → resolve f ds env = .inl e1 → Extends env e2 → Solves ds e2 → Extends e1 e2 := by
  intro f
  induction f with
  | zero =>
    intro ds env e1 _ h hext _
    cases ds with
    | nil => simp [resolve] at h; subst h; exact hext
    | cons d ds => simp [resolve] at h
  | succ f ih =>
    intro ds env e1 hf h hext hs
    cases ds with
    | nil => simp [resolve] at h; subst h; exact hext
    | cons d ds =>
      simp only [resolve] at h
      split at h
      · obtain ⟨_, s2, s3, _, _⟩ := sweep_spec hloc (d :: ds) env hf
        exact ih _ _ _ s2 h (sweep_below hloc e2 _ _ hext hs) (fun d' hd' => hs d' (s3 d' hd'))
      · cases h

/-- **Declaration order is irrelevant for the values**: two declaration orders of the same dependents that both
resolve produce the same value for every name. -/
theorem order_independent_values (hloc : ∀ d : Dep V, Local d) {ds ds' : List (Dep V)} {env e1 e2 : Dict V} {f g : Nat}
    (hp : ds.Perm ds') (hf : Fresh ds env)
    (h1 : resolve f ds env = .inl e1) (h2 : resolve g ds' env = .inl e2) : ∀ x, e1.get x = e2.get x := by
  have hf' : Fresh ds' env :=
    ⟨fun d hd => hf.1 d (hp.symm.subset hd), (hp.map (·.name)).nodup_iff.mp hf.2⟩
  obtain ⟨a1, b1, c1⟩ := resolve_spec hloc f ds env e1 hf h1
  obtain ⟨a2, b2, c2⟩ := resolve_spec hloc g ds' env e2 hf' h2
  have s12 : Extends e1 e2 :=
    resolve_below_any_solution hloc e2 f ds env e1 hf h1 a2 (fun d hd => b2 d (hp.subset hd))
  have s21 : Extends e2 e1 :=
    resolve_below_any_solution hloc e1 g ds' env e2 hf' h2 a1 (fun d hd => b1 d (hp.symm.subset hd))
  intro x
  cases hx : e1.get x with
  | some v => exact (s12 x v hx).symm
  | none =>
    cases hy : e2.get x with
    | none => rfl
    | some w => rw [s21 x w hy] at hx; cases hx

/-- closure argument: a set of names containing the starting sample and closed under "all dependencies in the set ⇒
the dependent is in the set" contains everything one sweep defines -/
theorem sweep_dom_closed (P : String → Prop) : ∀ (ds : List (Dep V)) (env : Dict V),
    (∀ x, env.get x ≠ none → P x) → (∀ d ∈ ds, (∀ x ∈ d.deps, P x) → P d.name) →
    ∀ x, (sweep ds env).1.get x ≠ none → P x := by
  intro ds
  induction ds with
  | nil => intro env h _; simpa [sweep] using h
  | cons d ds ih =>
    intro env h0 hc
    simp only [sweep]
    split
    · rename_i hr
      apply ih
      · intro x hx
        by_cases hk : x = d.name
        · subst hk
          apply hc d (by simp)
          intro y hy
          obtain ⟨w, hw⟩ := ready_spec hr y hy
          exact h0 y (by simp [hw])
        · rw [get_set_ne _ _ hk] at hx; exact h0 x hx
      · exact fun d' hd' => hc d' (by simp [hd'])
    · exact ih env h0 (fun d' hd' => hc d' (by simp [hd']))

theorem resolve_dom_closed (hloc : ∀ d : Dep V, Local d) (P : String → Prop) : ∀ (f : Nat) (ds : List (Dep V)) (env e1 : Dict V),
    Fresh ds env → resolve f ds env = .inl e1 →
    (∀ x, env.get x ≠ none → P x) → (∀ d ∈ ds, (∀ x ∈ d.deps, P x) → P d.name) →
    ∀ x, e1.get x ≠ none → P x := by
  intro f
  induction f with
  | zero =>
    intro ds env e1 _ h h0 _
    cases ds with
    | nil => simp [resolve] at h; subst h; exact h0
    | cons d ds => simp [resolve] at h
  | succ f ih =>
    intro ds env e1 hf h h0 hc
    cases ds with
    | nil => simp [resolve] at h; subst h; exact h0
    | cons d ds =>
      simp only [resolve] at h
      split at h
      · obtain ⟨_, s2, s3, _, _⟩ := sweep_spec hloc (d :: ds) env hf
        exact ih _ _ _ s2 h (sweep_dom_closed P _ _ h0 hc) (fun d' hd' => hc d' (s3 d' hd'))
      · cases h

/-- **Declaration order is irrelevant for success**: if one declaration order resolves, every other order of the
same dependents resolves too (so a configuration error is reported for every order or for none). -/
theorem order_independent_success (hloc : ∀ d : Dep V, Local d) {ds ds' : List (Dep V)} {env e1 : Dict V} {f : Nat}
    (hp : ds.Perm ds') (hf : Fresh ds env) (h1 : resolve f ds env = .inl e1) :
    ∃ e2, resolve ds'.length ds' env = .inl e2 := by
  have hf' : Fresh ds' env :=
    ⟨fun d hd => hf.1 d (hp.symm.subset hd), (hp.map (·.name)).nodup_iff.mp hf.2⟩
  cases h2 : resolve ds'.length ds' env with
  | inl e2 => exact ⟨e2, rfl⟩
  | inr p =>
    exfalso
    obtain ⟨e, stuck⟩ := p
    obtain ⟨k1, k2, k3, k4, k5, k6, _⟩ := resolve_stuck hloc _ ds' env e stuck hf' (Nat.le_refl _) h2
    obtain ⟨_, b1, _⟩ := resolve_spec hloc f ds env e1 hf h1
    -- everything the successful run defines is defined in the stuck sample
    have hall := resolve_dom_closed hloc (fun x => e.get x ≠ none) f ds env e1 hf h1
      (fun x hx => by
        cases hv : env.get x with
        | none => exact (hx hv).elim
        | some v => simp [k3 x v hv])
      (fun d hd hdeps => by
        have hd' : d ∈ ds' := hp.subset hd
        by_cases hs : d ∈ stuck
        · exfalso
          obtain ⟨y, hy, hn⟩ := ready_false (k4 d hs)
          exact hdeps y hy hn
        · exact k6 d hd' hs)
    cases stuck with
    | nil => exact k1 rfl
    | cons d0 _ =>
      have hd0 : d0 ∈ ds := hp.symm.subset (k2 d0 (by simp))
      have : e.get d0.name ≠ none := hall d0.name (by rw [b1 d0 hd0]; simp)
      exact this (k5.1 d0 (by simp))

/-! ### diagnosis -/

theorem mem_insertSorted (x y : String) (l : List String) : x ∈ insertSorted y l ↔ x = y ∨ x ∈ l := by
  induction l with
  | nil => simp [insertSorted]
  | cons z zs ih =>
    simp only [insertSorted]
    split
    · simp
    · split
      · rename_i h; subst h; simp
      · simp [ih]; constructor
        · rintro (h | h | h) <;> simp [h]
        · rintro (h | h | h) <;> simp [h]

theorem mem_sortedSet (x : String) (l : List String) : x ∈ sortedSet l ↔ x ∈ l := by
  induction l with
  | nil => simp [sortedSet]
  | cons y ys ih =>
    have : sortedSet (y :: ys) = insertSorted y (sortedSet ys) := rfl
    rw [this, mem_insertSorted, ih]; simp

/-- "depend on undefined quantities" is reported exactly when some remaining dependent needs a name that is neither
available nor itself a remaining dependent, and it lists exactly those names -/
theorem diagnose_undefined {e : Dict V} {stuck : List (Dep V)} {names : List String}
    (h : diagnose e stuck = .undefined names) :
    names ≠ [] ∧ ∀ x, x ∈ names ↔ (∃ d ∈ stuck, x ∈ d.deps) ∧ (∀ d ∈ stuck, d.name ≠ x) ∧ e.get x = none := by
  unfold diagnose at h
  simp only at h
  split at h
  · cases h
  · rename_i hne
    simp only [Failure.undefined.injEq] at h
    subst h
    have hmem : ∀ x, x ∈ sortedSet (badItems e stuck) ↔ x ∈ badItems e stuck := fun x => mem_sortedSet x _
    constructor
    · intro hnil
      cases hb : badItems e stuck with
      | nil => simp [hb] at hne
      | cons y ys =>
        have : y ∈ sortedSet (badItems e stuck) := (hmem y).mpr (by simp [hb])
        rw [hnil] at this; cases this
    · intro x
      rw [hmem]
      simp only [badItems, List.mem_filter, List.mem_flatMap, Bool.and_eq_true, Bool.not_eq_true', List.any_eq_false,
        beq_iff_eq, Dict.has]
      constructor
      · rintro ⟨⟨d, hd, hx⟩, h1, h2⟩
        refine ⟨⟨d, hd, hx⟩, fun d' hd' => by simpa using h1 d' hd', ?_⟩
        cases hv : e.get x with
        | none => rfl
        | some v => simp [hv] at h2
      · rintro ⟨⟨d, hd, hx⟩, h1, h2⟩
        exact ⟨⟨d, hd, hx⟩, fun d' hd' => by simpa using h1 d' hd', by simp [h2]⟩

/-- "circularly dependent" is reported exactly when every unavailable dependency of a remaining dependent is itself a
remaining dependent; each remaining dependent then waits for another remaining one (so following the waits never
ends: a cycle), and the message lists exactly the remaining dependents -/
theorem diagnose_circular {e : Dict V} {stuck : List (Dep V)} {names : List String}
    (h : diagnose e stuck = .circular names) (hstuck : ∀ d ∈ stuck, ready e d = false) :
    (∀ x, x ∈ names ↔ ∃ d ∈ stuck, d.name = x) ∧ ∀ d ∈ stuck, ∃ d' ∈ stuck, d'.name ∈ d.deps := by
  unfold diagnose at h
  simp only at h
  split at h
  · rename_i hemp
    simp only [Failure.circular.injEq] at h
    subst h
    constructor
    · intro x; rw [mem_sortedSet]; simp
    · intro d hd
      obtain ⟨y, hy, hn⟩ := ready_false (hstuck d hd)
      have hnb : y ∉ badItems e stuck := by
        have : badItems e stuck = [] := by simpa using hemp
        simp [this]
      simp only [badItems, List.mem_filter, List.mem_flatMap, Bool.and_eq_true, Bool.not_eq_true', Dict.has] at hnb
      have h1 : ¬ (stuck.any (fun d => d.name == y) = false) := by
        intro hf
        exact hnb ⟨⟨d, hd, hy⟩, hf, by simp [hn]⟩
      have h2 : stuck.any (fun d => d.name == y) = true := by simpa using h1
      obtain ⟨d', hd', hname⟩ := List.any_eq_true.mp h2
      exact ⟨d', hd', by have : d'.name = y := by simpa using hname
                         rw [this]; exact hy⟩
  · cases h

/-! ### the starting sample: constants not shadowed by a symbol, then the independent draws -/

theorem lookup_filter_key (p : String → Bool) (c : Dict V) (x : String) :
    (c.filter (fun q => p q.1)).lookup x = if p x then c.lookup x else none := by
  induction c with
  | nil => simp
  | cons q r ih =>
    obtain ⟨a, b⟩ := q
    by_cases hpa : p a = true
    · simp only [List.filter_cons, hpa, ↓reduceIte, List.lookup_cons]
      by_cases hx : x = a
      · subst hx; simp [hpa]
      · have : (x == a) = false := by simpa using hx
        simp [this, ih]
    · have hpa' : p a = false := by simpa using hpa
      simp only [List.filter_cons, hpa', Bool.false_eq_true, ↓reduceIte, List.lookup_cons]
      by_cases hx : x = a
      · subst hx; simp [hpa', ih]
      · have : (x == a) = false := by simpa using hx
        simp [this, ih]

/-- a constant is visible in the sample iff no symbol of the same name is declared -/
theorem prune_get (c : Dict V) (syms : List String) (x : String) :
    (prune c syms).get x = if x ∈ syms then none else c.get x := by
  unfold prune Dict.get
  rw [lookup_filter_key (fun k => !syms.contains k)]
  by_cases h : x ∈ syms <;> simp [h]

theorem foldl_set_get (draws : List (String × V)) (d : Dict V) (x : String) :
    (draws.foldl (fun d p => d.set p.1 p.2) d).get x =
      match (draws.reverse.lookup x) with
      | some v => some v
      | none => d.get x := by
  induction draws generalizing d with
  | nil => simp
  | cons p r ih =>
    simp only [List.foldl_cons, List.reverse_cons]
    rw [ih, List.lookup_append]
    cases hr : r.reverse.lookup x with
    | some v => simp
    | none =>
      simp only [Option.none_or]
      rw [get_set]
      obtain ⟨pk, pv⟩ := p
      by_cases hx : x = pk
      · subst hx; simp [List.lookup]
      · have : (x == pk) = false := by simpa using hx
        simp [List.lookup, this, hx]

/-- **Variables shadow constants, and every declared independent symbol carries its draw** -/
theorem baseDict_get (c : Dict V) (syms : List String) (draws : List (String × V)) (x : String) :
    (baseDict c syms draws).get x =
      match draws.reverse.lookup x with
      | some v => some v
      | none => if x ∈ syms then none else c.get x := by
  unfold baseDict
  rw [foldl_set_get, prune_get]

/-- **Whole sample**: on success the sample dictionary defines exactly the unshadowed constants, the independent
symbols and the dependents; every dependent satisfies its equation on that dictionary. -/
theorem genSample_ok (hloc : ∀ d : Dep V, Local d) {c : Dict V} {syms : List String} {draws : List (String × V)}
    {deps : List (Dep V)} {env' : Dict V}
    (hf : Fresh deps (baseDict c syms draws)) (h : genSample c syms draws deps = .ok env') :
    Extends (baseDict c syms draws) env' ∧ Solves deps env' ∧
    (∀ x, env'.get x ≠ none ↔ (baseDict c syms draws).get x ≠ none ∨ ∃ d ∈ deps, d.name = x) := by
  unfold genSample at h
  split at h
  · rename_i env hres
    cases h
    obtain ⟨a, b, cc⟩ := resolve_spec hloc _ _ _ _ hf hres
    refine ⟨a, b, fun x => ⟨cc x, ?_⟩⟩
    rintro (hx | ⟨d, hd, rfl⟩)
    · cases hv : (baseDict c syms draws).get x with
      | none => exact (hx hv).elim
      | some v => simp [a x v hv]
    · simp [b d hd]
  · cases h

/-- **Errors**: a configuration error is raised only when the dependents cannot all be resolved, and it is the
undefined-quantities or circular-dependency diagnosis of the remaining ones -/
theorem genSample_error (hloc : ∀ d : Dep V, Local d) {c : Dict V} {syms : List String} {draws : List (String × V)}
    {deps : List (Dep V)} {fl : Failure}
    (hf : Fresh deps (baseDict c syms draws)) (h : genSample c syms draws deps = .error fl) :
    ∃ e stuck, stuck ≠ [] ∧ (∀ d ∈ stuck, d ∈ deps) ∧ (∀ d ∈ stuck, ready e d = false) ∧
      (∀ d ∈ deps, d ∉ stuck → e.get d.name ≠ none) ∧ fl = diagnose e stuck := by
  unfold genSample at h
  split at h
  · cases h
  · rename_i e stuck hres
    simp only [Except.error.injEq] at h
    obtain ⟨k1, k2, _, k4, _, k6, _⟩ := resolve_stuck hloc _ _ _ _ _ hf (Nat.le_refl _) hres
    exact ⟨e, stuck, k1, k2, k4, k6, h.symm⟩

/-! ### error values: `compute_sample` raising for a formula that cannot be evaluated -/

theorem genSampleE_ok {isErr : V → Bool} {c : Dict V} {syms : List String} {draws : List (String × V)}
    {deps : List (Dep V)} {e : Dict V} (h : genSampleE isErr c syms draws deps = .ok e) :
    genSample c syms draws deps = .ok e ∧ ∀ d ∈ deps, ∀ v, (d.name, v) ∈ e → isErr v = false := by
  unfold genSampleE at h
  unfold genSample
  cases hr : resolve deps.length deps (baseDict c syms draws) with
  | inl e0 =>
    rw [hr] at h
    simp only at h
    split at h
    · cases h
    · rename_i hnone
      cases h
      refine ⟨rfl, ?_⟩
      intro d hd v hv
      have := List.find?_eq_none.mp hnone (d.name, v) hv
      simp only [Bool.and_eq_true, List.any_eq_true, beq_iff_eq, not_and] at this
      cases hv' : isErr v with
      | false => rfl
      | true => exact (this hv' ⟨d, hd, rfl⟩).elim
  | inr p =>
    rw [hr] at h
    simp only at h
    split at h <;> cases h

theorem genSampleE_fail {isErr : V → Bool} {c : Dict V} {syms : List String} {draws : List (String × V)}
    {deps : List (Dep V)} {f : Failure} (h : genSampleE isErr c syms draws deps = .fail f) :
    genSample c syms draws deps = .error f := by
  unfold genSampleE at h
  unfold genSample
  cases hr : resolve deps.length deps (baseDict c syms draws) with
  | inl e0 =>
    rw [hr] at h
    simp only at h
    split at h <;> cases h
  | inr p =>
    rw [hr] at h
    simp only at h
    split at h
    · cases h
    · cases h; rfl

/-! ### numbered variables -/

theorem stripPrefix_some : ∀ (a s r : List Char), stripPrefix a s = some r ↔ s = a ++ r := by
  intro a
  induction a with
  | nil => intro s r; simp [stripPrefix]
  | cons x xs ih =>
    intro s r
    cases s with
    | nil => simp [stripPrefix]
    | cons y ys =>
      simp only [stripPrefix]
      split
      · rename_i h; subst h; simp [ih]
      · rename_i h; simp; intro h'; exact (h h'.symm).elim

/-- the matcher accepts exactly `head_{n}` with `n` matching `-?[1-9][0-9]*|0` -/
theorem matchHead_iff (head s : List Char) :
    matchHead head s = true ↔ ∃ n, s = head ++ ['_', '{'] ++ n ++ ['}'] ∧ canonicalInt n = true := by
  unfold matchHead
  constructor
  · intro h
    split at h
    · cases h
    · rename_i r hr
      rw [stripPrefix_some] at hr
      split at h
      · rename_i r'
        split at h
        · rename_i nrev hrev
          refine ⟨nrev.reverse, ?_, h⟩
          have : r' = nrev.reverse ++ ['}'] := by
            have := congrArg List.reverse hrev
            simpa using this
          subst this; subst hr; simp
        · cases h
      · cases h
  · rintro ⟨n, hs, hn⟩
    have hr : stripPrefix head s = some ('_' :: '{' :: (n ++ ['}'])) := by
      rw [stripPrefix_some]; subst hs; simp
    rw [hr]
    simp [hn]

theorem numberedMatch_some {heads : List String} {s h : String} (hm : numberedMatch heads s = some h) :
    h ∈ heads ∧ ∃ n, s.toList = h.toList ++ ['_', '{'] ++ n ++ ['}'] ∧ canonicalInt n = true := by
  unfold numberedMatch at hm
  have h2 := List.find?_some hm
  exact ⟨List.mem_of_find?_eq_some hm, (matchHead_iff _ _).mp (by simpa using h2)⟩

theorem numberedMatch_none {heads : List String} {s : String} (hm : numberedMatch heads s = none) :
    ∀ h ∈ heads, ¬ ∃ n, s.toList = h.toList ++ ['_', '{'] ++ n ++ ['}'] ∧ canonicalInt n = true := by
  unfold numberedMatch at hm
  intro h hh hex
  have := List.find?_eq_none.mp hm h hh
  exact this ((matchHead_iff _ _).mpr hex)

/-- **Numbered instances**: the variable list is the declared variables plus exactly those used names that are not
declared and read `head_{n}` for a registered head; each such instance shares the sampler of its head -/
theorem generateVariableList_spec (vars nv used : List String) (v : String) :
    v ∈ (generateVariableList vars nv used).1 ↔
      v ∈ vars ∨ (v ∈ used ∧ v ∉ vars ∧ ∃ h, numberedMatch nv v = some h) := by
  unfold generateVariableList
  simp only [List.mem_append, List.mem_map, List.mem_filterMap, List.mem_filter, Option.map_eq_some_iff]
  constructor
  · rintro (h | ⟨p, ⟨a, ⟨ha, hna⟩, h', hh, rfl⟩, rfl⟩)
    · exact Or.inl h
    · right; exact ⟨ha, by simpa using hna, h', hh⟩
  · rintro (h | ⟨hu, hn, h', hh⟩)
    · exact Or.inl h
    · right; exact ⟨(v, h'), ⟨v, ⟨hu, by simpa using hn⟩, h', hh, rfl⟩, rfl⟩

theorem generateVariableList_sampler (vars nv used : List String) (v h : String)
    (hm : (v, h) ∈ (generateVariableList vars nv used).2) : numberedMatch nv v = some h ∧ h ∈ nv := by
  unfold generateVariableList at hm
  simp only [List.mem_filterMap, List.mem_filter, Option.map_eq_some_iff] at hm
  obtain ⟨a, _, h', hh, heq⟩ := hm
  cases heq
  exact ⟨hh, (numberedMatch_some hh).1⟩

/-! ### non-vacuity: a diamond `d = b + c`, `b = a + 1`, `c = 2 a`, declared in the worst order, over ℤ -/

def exDeps : List (Dep Int) :=
  [⟨"d", ["b", "c"], fun e => (e.get "b").getD 0 + (e.get "c").getD 0⟩,
   ⟨"c", ["a"], fun e => 2 * (e.get "a").getD 0⟩,
   ⟨"b", ["a"], fun e => (e.get "a").getD 0 + 1⟩]

example : genSample [("pi", 3), ("a", 99)] ["a", "d", "c", "b"] [("a", 5)] exDeps =
    .ok [("pi", 3), ("a", 5), ("c", 10), ("b", 6), ("d", 16)] := by rfl

example : genSample ([] : Dict Int) ["x", "y"] []
    [⟨"x", ["y"], fun _ => 0⟩, ⟨"y", ["x"], fun _ => 0⟩] = .error (.circular ["x", "y"]) := by rfl

example : genSample ([] : Dict Int) ["x"] [] [⟨"x", ["zz", "q"], fun _ => 0⟩] = .error (.undefined ["q", "zz"]) := by rfl

example : numberedMatch ["b", "Cat"] "Cat_{-17}" = some "Cat" ∧ numberedMatch ["b"] "b_{05}" = none ∧
    numberedMatch ["b"] "B_{0}" = none ∧ numberedMatch ["b"] "b_{-0}" = none := by decide


/-! ## the locality assumption is a theorem for formula-defined dependents -/

/-- **`Local` is not an article of faith**: for a DependentSampler whose value is a parsed formula evaluated on the sample
    (`depends` = the variables the parser reports for it — exact by C10's `usage_exact`), two samples that agree on those
    variables give the same value. Proved from the substitution lemma over parse trees (`evalT_mapVars`), for the rational
    evaluator with failing values propagated. -/
theorem dependent_formula_local (name : String) (t : C03.T) : Local (formulaDep name t) :=
  formulaDep_local name t

/-- and its `depends` list is exactly the set of variable names occurring in the formula -/
theorem dependent_formula_deps (name : String) (t : C03.T) (s : String) :
    s ∈ (formulaDep name t).deps ↔ (C03.Kind.var, s) ∈ C03.names t :=
  mem_varNames

end C13

import Mitx.Model.Tol
import Mathlib.Tactic.Linarith
import Mathlib.Tactic.Ring
import Mathlib.Tactic.NormNum
import Mathlib.Algebra.Order.Ring.Abs
import Mathlib.Algebra.Order.Field.Basic
/-! # C04 — a formula is correct exactly when enough samples agree within tolerance

Model: `Tl.withinTol` (`within_tolerance`), `Tl.sampleResult` (boolean comparer verdict → result dict, scaled by the
answer's credit), `Tl.consolidateResults` (failure counting with early return), `Tl.formulaGrade`. The per-sample values
(author's and student's evaluation on the same sample) are inputs: evaluating the formulas is outside this model. -/
namespace C04
open Tl At

/-! ### the tolerance test -/

theorem sq_le_sq_iff_abs {d t : Rat} (ht : 0 ≤ t) : d * d ≤ t * t ↔ |d| ≤ t := by
  constructor
  · intro h
    have := abs_le_of_sq_le_sq' (by nlinarith [h] : d ^ 2 ≤ t ^ 2) ht
    exact abs_le.mpr this
  · intro h
    have h1 := abs_nonneg d
    have : |d| * |d| ≤ t * t := by nlinarith
    rwa [abs_mul_abs_self] at this

/-- absolute tolerance on real scalars: `|expected − student| ≤ t`, boundary included -/
theorem withinTol_abs_real (a b t : Rat) :
    withinTol (.num ⟨a, 0⟩) (.num ⟨b, 0⟩) (.abs t) = some true ↔ 0 ≤ t ∧ |a - b| ≤ t := by
  simp [withinTol, leTol, C.sub, C.sq]
  intro h0
  exact sq_le_sq_iff_abs h0

/-- percentage tolerance on real scalars is relative to the **first** argument (the author's value) -/
theorem withinTol_pct_real (a b r : Rat) :
    withinTol (.num ⟨a, 0⟩) (.num ⟨b, 0⟩) (.pct r) = some true ↔ 0 ≤ r ∧ |a - b| ≤ r * |a| := by
  simp [withinTol, leTol, C.sub, C.sq]
  intro h0
  have hra : 0 ≤ r * |a| := mul_nonneg h0 (abs_nonneg a)
  have e : r * |a| * (r * |a|) = (a * a) * (r * r) := by
    have := abs_mul_abs_self a; nlinarith
  rw [← e]
  exact sq_le_sq_iff_abs hra

/-- complex scalars: the modulus of the difference against `t` resp. `r·|expected|` (on squares) -/
theorem withinTol_complex (a b : C) (tol : Tolerance) :
    withinTol (.num a) (.num b) tol = some (leTol (a.sub b).sq a.sq tol) := rfl

/-- arrays of one shape: the Frobenius norm of the difference, relative to the Frobenius norm of the expected array -/
theorem withinTol_frobenius (s : List Nat) (e1 e2 : List C) (tol : Tolerance) (h : e1.length = e2.length) :
    withinTol (.arr s e1) (.arr s e2) tol = some (leTol (sqnorm (subL e1 e2)) (sqnorm e1) tol) := by
  simp [withinTol, h]

end C04
namespace Tl
def Val.isScalar : Val → Bool
  | .arr _ _ => false
  | _ => true

def Val.isInf : Val → Bool
  | .pinf => true
  | .ninf => true
  | _ => false

def Tolerance.nonneg : Tolerance → Prop
  | .abs t => 0 ≤ t
  | .pct r => 0 ≤ r
end Tl
namespace C04
open Tl At

/-- an infinite value matches only the same infinity, whatever the tolerance -/
theorem withinTol_inf (x y : Val) (tol : Tolerance) (hx : x.isScalar = true) (hy : y.isScalar = true)
    (hinf : x.isInf = true ∨ y.isInf = true) : withinTol x y tol = some (decide (x = y)) := by
  cases x <;> cases y <;> simp_all [withinTol, Val.isScalar, Val.isInf]

theorem sqnorm_subL_self (es : List C) : sqnorm (subL es es) = 0 := by
  have h : ∀ (l : List C) (acc : Rat), ((subL l l).map C.sq).foldl (· + ·) acc = acc := by
    intro l
    induction l with
    | nil => intro acc; simp [subL]
    | cons a as ih =>
      intro acc
      simp only [subL, List.map_cons, List.foldl_cons]
      rw [ih]
      simp [C.sub, C.sq]
  exact h es 0

theorem sqnorm_nonneg (es : List C) : 0 ≤ sqnorm es := by
  have h : ∀ (l : List C) (acc : Rat), 0 ≤ acc → 0 ≤ (l.map C.sq).foldl (· + ·) acc := by
    intro l
    induction l with
    | nil => intro acc h; simpa using h
    | cons a as ih =>
      intro acc h
      simp only [List.map_cons, List.foldl_cons]
      apply ih
      have : 0 ≤ a.sq := by unfold C.sq; nlinarith [mul_self_nonneg a.re, mul_self_nonneg a.im]
      linarith
  exact h es 0 (le_refl 0)

/-- identical values are always within any (validated, hence non-negative) tolerance, including 0 -/
theorem withinTol_refl (x : Val) (tol : Tolerance) (ht : tol.nonneg) : withinTol x x tol = some true := by
  cases x with
  | pinf => simp [withinTol]
  | ninf => simp [withinTol]
  | num a =>
    cases tol with
    | abs t =>
      simp only [Tolerance.nonneg] at ht
      simp [withinTol, leTol, C.sub, C.sq, ht, mul_self_nonneg]
    | pct r =>
      simp only [Tolerance.nonneg] at ht
      simp only [withinTol, leTol, C.sub, C.sq, sub_self, mul_zero, add_zero, Option.some.injEq, Bool.and_eq_true,
        decide_eq_true_eq]
      exact ⟨ht, mul_nonneg (by nlinarith [mul_self_nonneg a.re, mul_self_nonneg a.im]) (mul_self_nonneg r)⟩
  | arr s es =>
    cases tol with
    | abs t =>
      simp only [Tolerance.nonneg] at ht
      simp [withinTol, leTol, sqnorm_subL_self, ht, mul_self_nonneg]
    | pct r =>
      simp only [Tolerance.nonneg] at ht
      simp only [withinTol, and_self, ↓reduceIte, leTol, sqnorm_subL_self, Option.some.injEq, Bool.and_eq_true,
        decide_eq_true_eq]
      exact ⟨ht, mul_nonneg (sqnorm_nonneg es) (mul_self_nonneg r)⟩

/-! ### failure counting -/

/-- number of samples at which the comparison failed -/
def failures (vs : List Bool) : Nat := (vs.filter (fun v => !v)).length

/-- the result returned for a failing sample: grade 0, `ok = False` -/
theorem sampleResult_false (g : Rat) : sampleResult g false = { ok := .no, grade := 0, msg := "" } := by
  simp [sampleResult, gradeToOk]

theorem loop_spec (n fe : Nat) (answer : Res) (g : Rat) : ∀ (vs : List Bool) (k : Nat),
    consolidateLoop n fe answer (vs.map (sampleResult g)) k =
      if failures vs = 0 ∨ (n ≠ 1 ∧ k + failures vs ≤ fe) then answer else sampleResult g false := by
  intro vs
  induction vs with
  | nil => intro k; simp [consolidateLoop, failures]
  | cons v vs ih =>
    intro k
    cases v with
    | true =>
      have hf : failures (true :: vs) = failures vs := by simp [failures]
      simp only [List.map_cons, consolidateLoop, hf]
      have : (sampleResult g true).ok = .yes := by simp [sampleResult]
      simp only [this, ne_eq, not_true_eq_false, ↓reduceIte]
      exact ih k
    | false =>
      have hf : failures (false :: vs) = failures vs + 1 := by simp [failures]
      simp only [List.map_cons, consolidateLoop, hf]
      have : (sampleResult g false).ok ≠ .yes := by rw [sampleResult_false]; simp
      simp only [this, ne_eq, not_false_eq_true, ↓reduceIte]
      by_cases hc : n = 1 ∨ k + 1 > fe
      · rw [if_pos hc]
        have : ¬ (failures vs + 1 = 0 ∨ (n ≠ 1 ∧ k + (failures vs + 1) ≤ fe)) := by
          rintro (h | ⟨h1, h2⟩)
          · omega
          · rcases hc with hc | hc
            · exact h1 hc
            · omega
        rw [if_neg this]
      · rw [if_neg hc]
        rw [ih (k + 1)]
        have hn : n ≠ 1 := fun h => hc (Or.inl h)
        have hk : k + 1 ≤ fe := by
          by_contra h; exact hc (Or.inr (by omega))
        have e1 : (failures vs = 0 ∨ (n ≠ 1 ∧ k + 1 + failures vs ≤ fe)) ↔
            (failures vs + 1 = 0 ∨ (n ≠ 1 ∧ k + (failures vs + 1) ≤ fe)) := by
          constructor
          · rintro (h | ⟨_, h⟩)
            · right; exact ⟨hn, by omega⟩
            · right; exact ⟨hn, by omega⟩
          · rintro (h | ⟨_, h⟩)
            · omega
            · right; exact ⟨hn, by omega⟩
        by_cases hh : failures vs = 0 ∨ (n ≠ 1 ∧ k + 1 + failures vs ≤ fe)
        · simp only [hh, ↓reduceIte, e1.mp hh]
        · simp only [hh, ↓reduceIte, mt e1.mpr hh]

/-- the rule of the property: a single-sample grader tolerates no failure, otherwise up to `failable_evals` -/
def passes (vs : List Bool) (fe : Nat) : Prop :=
  if vs.length = 1 then failures vs = 0 else failures vs ≤ fe

instance (vs : List Bool) (fe : Nat) : Decidable (passes vs fe) := by unfold passes; infer_instance

/-- **The decision rule**: the matched answer's result (its credit, `ok`, message) is returned exactly when the number
of failing samples does not exceed `failable_evals` (no failure at all for a single sample); otherwise the result is
grade 0 / `ok = False`. -/
theorem consolidate_iff (vs : List Bool) (answer : Res) (fe : Nat) :
    consolidateResults (vs.map (sampleResult answer.grade)) answer fe =
      if passes vs fe then answer else { ok := .no, grade := 0, msg := "" } := by
  unfold consolidateResults
  rw [loop_spec, sampleResult_false]
  simp only [List.length_map, Nat.zero_add, passes]
  by_cases h1 : vs.length = 1
  · simp only [h1, ne_eq, not_true_eq_false, false_and, or_false, ↓reduceIte]
  · simp only [h1, ne_eq, not_false_eq_true, true_and, ↓reduceIte]
    by_cases h0 : failures vs = 0
    · simp [h0]
    · simp [h0]

theorem mapM_some_length {α β : Type} (f : α → Option β) : ∀ (l : List α) (r : List β), l.mapM f = some r → r.length = l.length := by
  intro l
  induction l with
  | nil => intro r h; simp at h; subst h; rfl
  | cons a as ih =>
    intro r h
    simp only [List.mapM_cons, bind, Option.bind] at h
    cases ha : f a with
    | none => rw [ha] at h; cases h
    | some b =>
      rw [ha] at h
      simp only at h
      cases hr : as.mapM f with
      | none => rw [hr] at h; cases h
      | some bs =>
        rw [hr] at h
        simp only [pure, Option.some.injEq] at h
        subst h
        simp [ih bs hr]

/-- the whole default-comparer path, in terms of the per-sample tolerance test -/
theorem formulaGrade_iff {samples : List (Val × Val)} {tol : Tolerance} {answer : Res} {fe : Nat} {r : Res}
    (h : formulaGrade samples tol answer fe = some r) :
    ∃ vs, samples.mapM (fun p => withinTol p.1 p.2 tol) = some vs ∧ vs.length = samples.length ∧
      r = if passes vs fe then answer else { ok := .no, grade := 0, msg := "" } := by
  unfold formulaGrade at h
  cases hm : samples.mapM (fun p => withinTol p.1 p.2 tol) with
  | none => rw [hm] at h; cases h
  | some vs =>
    rw [hm] at h
    simp only [Option.some.injEq] at h
    refine ⟨vs, rfl, ?_, ?_⟩
    · exact mapM_some_length _ _ _ hm
    · rw [← h, consolidate_iff]

theorem mapM_all_true {samples : List (Val × Val)} {tol : Tolerance}
    (h : ∀ p ∈ samples, withinTol p.1 p.2 tol = some true) :
    samples.mapM (fun p => withinTol p.1 p.2 tol) = some (samples.map (fun _ => true)) := by
  induction samples with
  | nil => rfl
  | cons p ps ih =>
    simp only [List.mapM_cons, h p (by simp), ih (fun q hq => h q (by simp [hq])), List.map_cons]
    rfl

theorem failures_all_true (n : List α) : failures (n.map (fun _ => true)) = 0 := by
  simp [failures]

/-- **Identical rewritings earn the answer's full credit**: if the student's value equals the author's at every
sample, the answer's result is returned, for every tolerance (0 included), sample count and `failable_evals` -/
theorem identical_full_credit (samples : List (Val × Val)) (tol : Tolerance) (answer : Res) (fe : Nat)
    (ht : tol.nonneg) (hid : ∀ p ∈ samples, p.2 = p.1) : formulaGrade samples tol answer fe = some answer := by
  have hall : ∀ p ∈ samples, withinTol p.1 p.2 tol = some true := by
    intro p hp; rw [hid p hp]; exact withinTol_refl _ _ ht
  unfold formulaGrade
  rw [mapM_all_true hall]
  simp only
  rw [consolidate_iff]
  have : passes (samples.map (fun _ => true)) fe := by
    unfold passes; simp [failures_all_true]
  simp [this]

theorem mapM_all_false {samples : List (Val × Val)} {tol : Tolerance}
    (h : ∀ p ∈ samples, withinTol p.1 p.2 tol = some false) :
    samples.mapM (fun p => withinTol p.1 p.2 tol) = some (samples.map (fun _ => false)) := by
  induction samples with
  | nil => rfl
  | cons p ps ih =>
    simp only [List.mapM_cons, h p (by simp), ih (fun q hq => h q (by simp [hq])), List.map_cons]
    rfl

/-- **Missing at every sample never earns credit** — provided `failable_evals` is smaller than the number of samples
(with `failable_evals ≥ samples ≥ 2` the "exactly when" clause of the property itself awards credit: see
`all_miss_credit_when_failable_ge_samples`) -/
theorem all_miss_zero (samples : List (Val × Val)) (tol : Tolerance) (answer : Res) (fe : Nat)
    (hne : samples ≠ []) (hfe : samples.length = 1 ∨ fe < samples.length)
    (hmiss : ∀ p ∈ samples, withinTol p.1 p.2 tol = some false) :
    formulaGrade samples tol answer fe = some { ok := .no, grade := 0, msg := "" } := by
  unfold formulaGrade
  rw [mapM_all_false hmiss]
  simp only
  rw [consolidate_iff]
  have hf : failures (samples.map (fun _ => false)) = samples.length := by
    unfold failures
    generalize samples = l
    induction l with
    | nil => rfl
    | cons p ps ih => simpa using ih
  have hpos : 0 < samples.length := List.length_pos_iff.mpr hne
  have : ¬ passes (samples.map (fun _ => false)) fe := by
    unfold passes
    rw [hf]
    simp only [List.length_map]
    rcases hfe with h | h
    · simp [h]
    · split <;> omega
  simp [this]

/-- the recorded hypothesis H1: with `failable_evals ≥ samples ≥ 2` every formula passes -/
theorem all_miss_credit_when_failable_ge_samples (vs : List Bool) (answer : Res) (fe : Nat)
    (h2 : 2 ≤ vs.length) (hfe : vs.length ≤ fe) :
    consolidateResults (vs.map (sampleResult answer.grade)) answer fe = answer := by
  rw [consolidate_iff]
  have : passes vs fe := by
    unfold passes
    have : failures vs ≤ vs.length := by unfold failures; exact List.length_filter_le _ _
    split <;> omega
  simp [this]

/-! ### non-vacuity -/

example : withinTol (.num ⟨10, 0⟩) (.num ⟨9, 0⟩) (.pct (1/10)) = some true ∧
    withinTol (.num ⟨9, 0⟩) (.num ⟨10, 0⟩) (.pct (1/10)) = some false ∧
    withinTol (.num ⟨1, 0⟩) (.num ⟨5/4, 0⟩) (.abs (1/4)) = some true ∧
    withinTol .pinf .pinf (.abs 0) = some true ∧ withinTol .pinf .ninf (.pct 1) = some false ∧
    withinTol (.num ⟨1, 0⟩) .pinf (.pct 1) = some false := by
  norm_num [withinTol, leTol, C.sub, C.sq]
  decide

example : formulaGrade [(.num ⟨1, 0⟩, .num ⟨1, 0⟩), (.num ⟨2, 0⟩, .num ⟨3, 0⟩), (.num ⟨-1, 0⟩, .num ⟨1, 0⟩)]
    (.abs 0) ⟨.part, 1/2, "fb"⟩ 2 = some ⟨.part, 1/2, "fb"⟩ ∧
  formulaGrade [(.num ⟨1, 0⟩, .num ⟨1, 0⟩), (.num ⟨2, 0⟩, .num ⟨3, 0⟩), (.num ⟨-1, 0⟩, .num ⟨1, 0⟩)]
    (.abs 0) ⟨.part, 1/2, "fb"⟩ 1 = some ⟨.no, 0, ""⟩ := by
  norm_num [formulaGrade, withinTol, leTol, C.sub, C.sq, consolidateResults, consolidateLoop, sampleResult, gradeToOk]
  decide

end C04

import Mitx.Generated.MathFuncs
import Mitx.Model.FuncTables
import Mitx.Model.Domain
import Mathlib.Analysis.SpecialFunctions.Trigonometric.Arctan
import Mathlib.Analysis.SpecialFunctions.Trigonometric.Inverse
import Mathlib.Tactic.FieldSimp
/-! # C15 — built-in functions and constants agree with their mathematical definitions

The definitions of the library's own (derived) functions are **regenerated from the source** on every run
(`Mitx/Generated/MathFuncs.lean`, namespace `GenMF`); the theorems below are about those generated definitions, so an edit
of `mathfuncs.py` that changes a formula breaks the corresponding proof. numpy primitives are Mathlib's real functions where
Mathlib has them, and parameters (with the stated inverse property) otherwise. The decorator / arity logic is the hand model
`Dm`. -/
namespace C15
open Real GenMF

/-! ### reciprocal functions -/

theorem sec_mul_cos (x : ℝ) (h : cos x ≠ 0) : sec x * cos x = 1 := by unfold sec; field_simp
theorem csc_mul_sin (x : ℝ) (h : sin x ≠ 0) : csc x * sin x = 1 := by unfold csc; field_simp
theorem cot_mul_tan (x : ℝ) (h : tan x ≠ 0) : GenMF.cot x * tan x = 1 := by unfold GenMF.cot; field_simp
theorem sech_mul_cosh (x : ℝ) : sech x * cosh x = 1 := by
  unfold sech; have := (cosh_pos x).ne'; field_simp
theorem csch_mul_sinh (x : ℝ) (h : sinh x ≠ 0) : csch x * sinh x = 1 := by unfold csch; field_simp
theorem coth_mul_tanh (x : ℝ) (h : tanh x ≠ 0) : coth x * tanh x = 1 := by unfold coth; field_simp

/-! ### inverse trigonometric functions -/

/-- `arccot x = arctan (1/x)` for `x ≠ 0`: the principal branch with range `(−π/2, π/2]` -/
theorem arccot_spec {x : ℝ} (hx : x ≠ 0) : arccot x = arctan x⁻¹ := by
  unfold arccot
  rcases lt_or_gt_of_ne hx with h | h
  · rw [if_pos h, arctan_inv_of_neg h]; ring
  · rw [if_neg (not_lt.mpr h.le), arctan_inv_of_pos h]

theorem cot_arccot {x : ℝ} (hx : x ≠ 0) : GenMF.cot (arccot x) = x := by
  rw [arccot_spec hx, GenMF.cot, tan_arctan]; field_simp

theorem arccot_zero : arccot 0 = π / 2 := by simp [arccot]

theorem arccot_range (x : ℝ) : -(π / 2) < arccot x ∧ arccot x ≤ π / 2 := by
  by_cases hx : x = 0
  · subst hx; rw [arccot_zero]; constructor <;> linarith [pi_pos]
  · rw [arccot_spec hx]; exact ⟨neg_pi_div_two_lt_arctan _, (arctan_lt_pi_div_two _).le⟩

theorem sec_arcsec {x : ℝ} (hx : 1 ≤ |x|) : sec (arcsec x) = x := by
  have hx0 : x ≠ 0 := by intro h; simp [h] at hx; linarith
  have habs : |1 / x| ≤ 1 := by
    rw [abs_div, abs_one, div_le_one (by positivity)]; exact hx
  obtain ⟨h1, h2⟩ := abs_le.mp habs
  unfold sec arcsec
  rw [cos_arccos h1 h2]; field_simp

theorem arcsec_range (x : ℝ) : 0 ≤ arcsec x ∧ arcsec x ≤ π := ⟨arccos_nonneg _, arccos_le_pi _⟩

theorem csc_arccsc {x : ℝ} (hx : 1 ≤ |x|) : csc (arccsc x) = x := by
  have hx0 : x ≠ 0 := by intro h; simp [h] at hx; linarith
  have habs : |1 / x| ≤ 1 := by
    rw [abs_div, abs_one, div_le_one (by positivity)]; exact hx
  obtain ⟨h1, h2⟩ := abs_le.mp habs
  unfold csc arccsc
  rw [sin_arcsin h1 h2]; field_simp

theorem arccsc_range (x : ℝ) : -(π / 2) ≤ arccsc x ∧ arccsc x ≤ π / 2 := ⟨neg_pi_div_two_le_arcsin _, arcsin_le_pi_div_two _⟩

/-! ### inverse hyperbolic functions: the library's definitions invert the reciprocal functions whenever the numpy primitive
inverts the base function at the reciprocal argument -/

theorem sech_arcsech (arccosh : ℝ → ℝ) (x : ℝ) (hx : x ≠ 0) (hprim : cosh (arccosh (1 / x)) = 1 / x) :
    sech (arcsech arccosh x) = x := by
  unfold sech arcsech; rw [hprim]; field_simp

theorem csch_arccsch (arcsinh : ℝ → ℝ) (x : ℝ) (hx : x ≠ 0) (hprim : sinh (arcsinh (1 / x)) = 1 / x) :
    csch (arccsch arcsinh x) = x := by
  unfold csch arccsch; rw [hprim]; field_simp

theorem coth_arccoth (arctanh : ℝ → ℝ) (x : ℝ) (hx : x ≠ 0) (hprim : tanh (arctanh (1 / x)) = 1 / x) :
    coth (arccoth arctanh x) = x := by
  unfold coth arccoth; rw [hprim]; field_simp

/-! ### arctan2 and kronecker -/

/-- the documented argument order: `arctan2(x, y)` is the primitive two-argument arctangent of (`y`, `x`), and is refused at the origin -/
theorem arctan2_argument_order (prim : ℝ → ℝ → ℝ) (x y : ℝ) (h : ¬ (x = 0 ∧ y = 0)) : arctan2' prim x y = some (prim y x) := by
  unfold arctan2'; simp [h]

theorem arctan2_origin_refused (prim : ℝ → ℝ → ℝ) : arctan2' prim 0 0 = none := by simp [arctan2']

theorem kronecker_spec (x y : ℝ) : kronecker x y = if x = y then 1 else 0 := rfl

/-! ### tables read from the live module -/

/-- every default function is bound to the documented primitive with the documented argument domain; the constants
`i`, `j`, `e`, `pi` and the suffixes have their standard values -/
theorem tables_match : GenMF.funcTable = Mf.funcTable ∧ GenMF.constTable = Mf.constTable ∧ GenMF.suffixTable = Mf.suffixTable := by
  decide +kernel

/-! ### argument count and shape validation -/

open Dm

/-- **ArgumentError iff the count is wrong — checked first** (exact arity) -/
theorem decorator_count_first (shapes : List Spec) (args : List Arg) (h : shapes.length ≠ args.length) :
    decorated shapes none args = .error (.argument shapes.length args.length false) := by
  simp [decorated, h]

theorem decorator_min_length (shapes : List Spec) (m : Nat) (args : List Arg) (h : args.length < m) :
    decorated shapes (some m) args = .error (.argument m args.length true) := by
  simp [decorated, h]

/-- with the right count: the wrapped function is called iff every argument has its declared shape; otherwise an
ArgumentShapeError lists exactly the offending positions -/
theorem decorator_shape_spec (shapes : List Spec) (args : List Arg) (h : shapes.length = args.length) :
    (decorated shapes none args = .ok () ↔ ∀ i < args.length, hasShape (shapes.getD i .scalar) (args.getD i .other) = true) ∧
    (∀ bad, decorated shapes none args = .error (.argumentShape bad) →
      ∀ k, k ∈ bad ↔ 1 ≤ k ∧ k ≤ args.length ∧ hasShape (shapes.getD (k - 1) .scalar) (args.getD (k - 1) .other) = false) := by
  have hne : ¬ (shapes.length ≠ args.length) := by simp [h]
  constructor
  · simp only [decorated, hne, ↓reduceIte]
    constructor
    · intro hok
      split at hok
      · rename_i hb
        intro i hi
        have hb' : (List.range args.length).filter (fun i => !hasShape (shapes.getD i .scalar) (args.getD i .other)) = [] := by
          simpa using hb
        have := List.filter_eq_nil_iff.mp hb' i (List.mem_range.mpr hi)
        simpa using this
      · cases hok
    · intro hall
      have : (List.range args.length).filter (fun i => !hasShape (shapes.getD i .scalar) (args.getD i .other)) = [] := by
        apply List.filter_eq_nil_iff.mpr
        intro i hi
        have := hall i (List.mem_range.mp hi)
        simp only [this, Bool.not_true, Bool.false_eq_true, not_false_eq_true]
      rw [this]; rfl
  · intro bad hbad k
    simp only [decorated, hne, ↓reduceIte] at hbad
    split at hbad
    · cases hbad
    · simp only [Except.error.injEq, DErr.argumentShape.injEq] at hbad
      subst hbad
      simp only [List.mem_map, List.mem_filter, List.mem_range, Bool.not_eq_eq_eq_not, Bool.not_true]
      constructor
      · rintro ⟨i, ⟨hi, hs⟩, rfl⟩
        exact ⟨by omega, by omega, by simpa using hs⟩
      · rintro ⟨h1, h2, hs⟩
        exact ⟨k - 1, ⟨by omega, hs⟩, by omega⟩

/-- scalar arguments are numbers or one-element arrays; vectors, matrices and other objects are refused -/
theorem scalar_shape_spec (a : Arg) : hasShape .scalar a = true ↔ a = .number ∨ ∃ s, a = .array s ∧ size s = 1 := by
  cases a <;> simp [hasShape]

theorem square_shape_spec (a : Arg) : hasShape .square a = true ↔ ∃ r, a = .array [r, r] := by
  cases a with
  | number => simp [hasShape]
  | other => simp [hasShape]
  | array s =>
    simp only [hasShape, Bool.and_eq_true, beq_iff_eq, Arg.array.injEq]
    constructor
    · rintro ⟨hl, he⟩
      match s, hl with
      | [a, b], _ => simp at he; exact ⟨a, by rw [he]⟩
    · rintro ⟨r, rfl⟩; simp

/-- functions that do not validate themselves are called only with the number of arguments they declare -/
theorem eval_function_arity (expected received : Nat) :
    evalFunctionArity false expected received = .ok () ↔ expected = received := by
  unfold evalFunctionArity
  by_cases h : expected = received <;> simp [h]

example : decorated [.scalar, .scalar] none [.number, .array [3]] = .error (.argumentShape [2]) := by decide
example : decorated [.scalar] (some 2) [.number] = .error (.argument 2 1 true) := by decide
example : decorated [.shape [3], .shape [3]] none [.array [3], .array [3]] = .ok () := by decide

end C15

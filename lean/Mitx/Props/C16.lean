import Mitx.Model.Comparers
import Mitx.Props.C04
import Mitx.Lemmas.LeastSquares
import Mathlib.Algebra.Order.Floor.Ring
import Mathlib.Data.Rat.Floor
import Mathlib.Tactic.Linarith
import Mathlib.Tactic.Ring
import Mathlib.Tactic.Positivity
/-! # C16 — each built-in comparer accepts exactly its documented equivalence class

Model: `Cm.between`, `Cm.congruence`, `Cm.eigenvector`, `Cm.vectorSpan`, `Cm.vectorPhase`, `Cm.matrixEntry`,
`Cm.linearComparer`. Exact Gaussian rationals; `np.linalg.lstsq` is an input (squared residual). -/
namespace C16
open Cm Tl

/-! ### between -/

theorem between_iff (a b : Rat) (x : C) : between a b x = .ok true ↔ x.im = 0 ∧ a ≤ x.re ∧ x.re ≤ b := by
  unfold between
  by_cases h : x.im = 0
  · simp [h]
  · simp [h]

theorem between_complex_refused (a b : Rat) (x : C) (h : x.im ≠ 0) : ∃ m, between a b x = .error (.inputType m) := by
  simp [between, h]

/-! ### congruence -/

theorem pymod_spec (x m : Rat) (hm : 0 < m) : 0 ≤ pymod x m ∧ pymod x m < m ∧ x = m * ((x / m).floor : Rat) + pymod x m := by
  have h1 : (((x / m).floor : ℤ) : ℚ) ≤ x / m := Int.floor_le (x / m)
  have h2 : x / m < (((x / m).floor : ℤ) : ℚ) + 1 := Int.lt_floor_add_one (x / m)
  have e : x / m * m = x := div_mul_cancel₀ x (ne_of_gt hm)
  unfold pymod
  refine ⟨?_, ?_, by ring⟩
  · nlinarith
  · nlinarith

/-- **Congruence is circular**: with an absolute tolerance `t` and a positive modulus, a value is accepted exactly when it
is within `t` of `expected + k·modulus` for some integer `k` — values just either side of a multiple of the modulus alike -/
theorem congruence_iff (e m s t : Rat) (hm : 0 < m) :
    congruence e m s (.abs t) = true ↔ 0 ≤ t ∧ ∃ k : Int, |s - e - (k : Rat) * m| ≤ t := by
  obtain ⟨d0, d1, d2⟩ := pymod_spec (s - e) m hm
  set d := pymod (s - e) m with hd
  set q : Int := ((s - e) / m).floor with hq
  have hnm : ¬ (m < 0) := by linarith
  unfold congruence
  simp only [← hd, hnm, ↓reduceIte, withinReal, Bool.and_eq_true, decide_eq_true_eq]
  constructor
  · rintro ⟨ht, h⟩
    refine ⟨ht, ?_⟩
    by_cases hc : m - d < d
    · simp only [hc, ↓reduceIte] at h
      refine ⟨q + 1, ?_⟩
      have : s - e - ((q + 1 : Int) : Rat) * m = -(m - d) := by push_cast; linarith
      rw [this, abs_neg]
      have h' : (m - d) * (m - d) ≤ t * t := by nlinarith
      exact (C04.sq_le_sq_iff_abs ht).mp h' |> fun x => by rwa [abs_of_nonneg (by linarith)] at x ⊢
    · simp only [hc, ↓reduceIte] at h
      refine ⟨q, ?_⟩
      have : s - e - (q : Rat) * m = d := by linarith
      rw [this]
      have h' : d * d ≤ t * t := by nlinarith
      exact (C04.sq_le_sq_iff_abs ht).mp h'
  · rintro ⟨ht, k, hk⟩
    refine ⟨ht, ?_⟩
    have key : (if m - d < d then m - d else d) ≤ t := by
      have hval : s - e - (k : Rat) * m = ((q - k : Int) : Rat) * m + d := by push_cast; linarith
      rw [hval] at hk
      rcases lt_trichotomy (q - k) 0 with hlt | heq | hgt
      · have : ((q - k : Int) : Rat) ≤ -1 := by exact_mod_cast (by omega : q - k ≤ -1)
        have hneg : ((q - k : Int) : Rat) * m + d ≤ -(m - d) := by nlinarith
        have := abs_le.mp hk
        split <;> linarith
      · rw [heq] at hk; simp at hk
        have := abs_le.mp hk
        split <;> linarith
      · have : (1 : Rat) ≤ ((q - k : Int) : Rat) := by exact_mod_cast (by omega : 1 ≤ q - k)
        have hpos : d ≤ ((q - k : Int) : Rat) * m + d := by nlinarith
        have := abs_le.mp hk
        split <;> linarith
    have hnn : 0 ≤ (if m - d < d then m - d else d) := by split <;> linarith
    nlinarith

/-! ### eigenvector -/

theorem sq_nonneg' (z : C) : 0 ≤ z.sq := by unfold C.sq; nlinarith [mul_self_nonneg z.re, mul_self_nonneg z.im]

theorem sq_eq_zero (z : C) : z.sq = 0 ↔ z = ⟨0, 0⟩ := by
  constructor
  · intro h
    unfold C.sq at h
    have h1 : z.re * z.re = 0 := by nlinarith [mul_self_nonneg z.re, mul_self_nonneg z.im]
    have h2 : z.im * z.im = 0 := by nlinarith [mul_self_nonneg z.re, mul_self_nonneg z.im]
    cases z; simp_all
  · rintro rfl; simp [C.sq]

theorem foldl_add_nonneg (l : List C) (acc : Rat) (h : 0 ≤ acc) : acc ≤ (l.map C.sq).foldl (· + ·) acc := by
  induction l generalizing acc with
  | nil => simp
  | cons a as ih =>
    simp only [List.map_cons, List.foldl_cons]
    have := ih (acc + a.sq) (by have := sq_nonneg' a; linarith)
    have := sq_nonneg' a
    linarith

/-- a vector has squared norm 0 exactly when all its entries are 0 -/
theorem sqnorm_eq_zero (l : List C) : sqnorm l = 0 ↔ ∀ z ∈ l, z = ⟨0, 0⟩ := by
  unfold sqnorm
  induction l with
  | nil => simp
  | cons a as ih =>
    simp only [List.map_cons, List.foldl_cons, zero_add, List.mem_cons, forall_eq_or_imp]
    constructor
    · intro h
      have h1 := foldl_add_nonneg as a.sq (sq_nonneg' a)
      have ha : a.sq = 0 := le_antisymm (by linarith) (sq_nonneg' a)
      rw [ha] at h
      exact ⟨(sq_eq_zero a).mp ha, ih.mp h⟩
    · rintro ⟨ha, hr⟩
      rw [(sq_eq_zero a).mpr ha]
      exact ih.mpr hr

theorem subL_zero_iff : ∀ (a b : List C), a.length = b.length → ((∀ z ∈ subL a b, z = (⟨0, 0⟩ : C)) ↔ a = b) := by
  intro a
  induction a with
  | nil => intro b h; cases b <;> simp_all [subL]
  | cons x xs ih =>
    intro b h
    cases b with
    | nil => simp at h
    | cons y ys =>
      simp only [List.length_cons, Nat.add_right_cancel_iff] at h
      simp only [subL, List.mem_cons, forall_eq_or_imp, List.cons.injEq, ih ys h]
      constructor
      · rintro ⟨h1, h2⟩
        refine ⟨?_, h2⟩
        cases x; cases y
        simp only [C.sub, C.mk.injEq] at h1 ⊢
        constructor <;> linarith [h1.1, h1.2]
      · rintro ⟨rfl, h2⟩
        exact ⟨by simp [C.sub], h2⟩

/-- **Exact eigenvector test** (tolerance 0): accepted iff the vector is nonzero and `M v = λ v` -/
theorem eigenvector_iff (m : List (List C)) (ev : C) (v : List C) (hlen : m.length = v.length) :
    eigenvector m ev v (.abs 0) = .accept ↔ (∃ z ∈ v, z ≠ (⟨0, 0⟩ : C)) ∧ mulVec m v = smul ev v := by
  have hl : (mulVec m v).length = (smul ev v).length := by simp [mulVec, smul, hlen]
  have hlsub : ∀ a b : List C, 0 ≤ sqnorm (subL a b) := fun a b => C04.sqnorm_nonneg _
  unfold eigenvector
  simp only [normNearlyZero, le_refl, decide_true, mul_zero, Bool.true_and, decide_eq_true_eq, leTol]
  by_cases hz : sqnorm v ≤ 0
  · have h0 : sqnorm v = 0 := le_antisymm hz (C04.sqnorm_nonneg v)
    simp only [hz, ↓reduceIte, reduceCtorEq, false_iff, not_and]
    intro ⟨z, hzv, hzn⟩
    exact absurd ((sqnorm_eq_zero v).mp h0 z hzv) hzn
  · simp only [hz, ↓reduceIte]
    have hne : ∃ z ∈ v, z ≠ (⟨0, 0⟩ : C) := by
      by_contra hcon
      apply hz
      have : ∀ z ∈ v, z = (⟨0, 0⟩ : C) := by
        intro z hzv
        by_contra hzn
        exact hcon ⟨z, hzv, hzn⟩
      rw [(sqnorm_eq_zero v).mpr this]
    constructor
    · intro h
      split at h
      · rename_i hle
        have h0 : sqnorm (subL (mulVec m v) (smul ev v)) = 0 := le_antisymm hle (hlsub _ _)
        exact ⟨hne, (subL_zero_iff _ _ hl).mp ((sqnorm_eq_zero _).mp h0)⟩
      · cases h
    · rintro ⟨_, heq⟩
      have : sqnorm (subL (mulVec m v) (smul ev v)) = 0 := by
        rw [heq]; exact C04.sqnorm_subL_self _
      simp [this]

/-! linearity, for rescaling -/

theorem C.mul_comm' (a b : C) : C.mul a b = C.mul b a := by simp [C.mul]; constructor <;> ring
theorem dot_smul (k : C) : ∀ (row v : List C), dot row (smul k v) = C.mul k (dot row v) := by
  intro row
  induction row with
  | nil => intro v; simp [dot, C.mul, C.zero]
  | cons a as ih =>
    intro v
    cases v with
    | nil => simp [dot, smul, C.mul, C.zero]
    | cons b bs =>
      have := ih bs
      simp only [smul, List.map_cons] at this ⊢
      simp only [dot, this]
      simp only [C.mul, C.add, C.mk.injEq]
      constructor <;> ring

theorem mulVec_smul (m : List (List C)) (k : C) (v : List C) : mulVec m (smul k v) = smul k (mulVec m v) := by
  simp only [mulVec, dot_smul]
  simp [smul]

theorem smul_smul_comm (a b : C) (v : List C) : smul a (smul b v) = smul b (smul a v) := by
  simp only [smul, List.map_map]
  apply List.map_congr_left
  intro z _
  simp only [Function.comp, C.mul, C.mk.injEq]
  constructor <;> ring

/-- **Any rescaling of an eigenvector is accepted** (exact test): if `M v = λ v` then `M (k v) = λ (k v)` -/
theorem eigen_rescale (m : List (List C)) (ev k : C) (v : List C) (h : mulVec m v = smul ev v) :
    mulVec m (smul k v) = smul ev (smul k v) := by
  rw [mulVec_smul, h, smul_smul_comm]

/-! ### magnitudes on squares -/

/-- the square-only test decides `|a − b| ≤ τ` for the (non-negative) norms `a, b` themselves -/
theorem magClose_iff (a b t : Rat) (ha : 0 ≤ a) (hb : 0 ≤ b) (ht : 0 ≤ t) :
    magClose (a * a) (b * b) (t * t) = true ↔ |a - b| ≤ t := by
  unfold magClose
  rw [← C04.sq_le_sq_iff_abs ht]
  by_cases h : a * a + b * b - t * t ≤ 0
  · simp only [h, ↓reduceIte, true_iff]
    nlinarith [mul_nonneg ha hb]
  · simp only [h, ↓reduceIte, decide_eq_true_eq]
    have hpos : 0 < a * a + b * b - t * t := by linarith
    have hab : 0 ≤ a * b := mul_nonneg ha hb
    constructor
    · intro h2
      have : (a * a + b * b - t * t) ≤ 2 * (a * b) := by
        by_contra hc
        have hc' : 2 * (a * b) < a * a + b * b - t * t := by linarith
        have : (2 * (a * b)) * (2 * (a * b)) < (a * a + b * b - t * t) * (a * a + b * b - t * t) := by nlinarith
        nlinarith
      nlinarith
    · intro h2
      have : (a * a + b * b - t * t) ≤ 2 * (a * b) := by nlinarith
      nlinarith

/-- span comparer: nonzero (beyond the tolerance) and residual within the tolerance -/
theorem vectorSpan_iff (v : List C) (res2 : Rat) (tol : Tolerance) :
    vectorSpan v res2 tol = .accept ↔ normNearlyZero (sqnorm v) tol = false ∧ nearlyZero res2 (sqnorm v) tol = true := by
  unfold vectorSpan
  by_cases h1 : normNearlyZero (sqnorm v) tol = true
  · simp [h1]
  · by_cases h2 : nearlyZero res2 (sqnorm v) tol = true
    · simp [h1, h2]
    · simp [h1, h2]

/-- exact span test: a nonzero vector with zero residual (= lies in the span) is accepted, one with a non-zero residual is not -/
theorem vectorSpan_exact (v : List C) (res2 : Rat) (hres : 0 ≤ res2) :
    vectorSpan v res2 (.abs 0) = .accept ↔ sqnorm v ≠ 0 ∧ res2 = 0 := by
  rw [vectorSpan_iff]
  simp only [normNearlyZero, nearlyZero, le_refl, decide_true, mul_zero, Bool.true_and, decide_eq_false_iff_not, decide_eq_true_eq]
  have := C04.sqnorm_nonneg v
  constructor
  · rintro ⟨h1, h2⟩; exact ⟨by intro h; apply h1; rw [h], le_antisymm h2 hres⟩
  · rintro ⟨h1, h2⟩; exact ⟨fun h => h1 (le_antisymm h this), by rw [h2]⟩

/-- phase comparer = span ∧ same magnitude -/
theorem vectorPhase_iff (target v : List C) (res2 : Rat) (tol : Tolerance) :
    vectorPhase target v res2 tol = true ↔ vectorSpan v res2 tol = .accept ∧ sameMagnitude (sqnorm target) (sqnorm v) tol = true := by
  simp [vectorPhase]

/-! ### MatrixEntryComparer -/

/-- number of entries that are correct at every sample -/
def good (samples : List (List C × List C)) (tol : Tolerance) (n : Nat) : Nat := ((entrySummary samples tol n).filter id).length

theorem good_eq_n_iff (samples : List (List C × List C)) (tol : Tolerance) (n : Nat) :
    good samples tol n = n ↔ ∀ b ∈ entrySummary samples tol n, b = true := by
  have hlen : (entrySummary samples tol n).length = n := by simp [entrySummary]
  unfold good
  constructor
  · intro h
    have := (List.length_filter_eq_length_iff (l := entrySummary samples tol n) (p := id)).mp (by rw [h, hlen])
    intro b hb; simpa using this b hb
  · intro h
    have : (entrySummary samples tol n).filter id = entrySummary samples tol n :=
      List.filter_eq_self.mpr (fun b hb => by simp [h b hb])
    rw [this, hlen]

theorem good_eq_zero_iff (samples : List (List C × List C)) (tol : Tolerance) (n : Nat) :
    good samples tol n = 0 ↔ ∀ b ∈ entrySummary samples tol n, b = false := by
  unfold good
  constructor
  · intro h0
    have : (entrySummary samples tol n).filter id = [] := List.eq_nil_of_length_eq_zero h0
    intro b hb
    have := List.filter_eq_nil_iff.mp this b hb
    simpa using this
  · intro h
    have : (entrySummary samples tol n).filter id = [] :=
      List.filter_eq_nil_iff.mpr (fun b hb => by simp [h b hb])
    simp [this]

/-- **Full credit iff all entries match, zero iff none does, otherwise the flat credit or the fraction of matching entries** -/
theorem matrixEntry_spec (samples : List (List C × List C)) (tol : Tolerance) (n : Nat) (pc : Partial) :
    matrixEntry samples tol n pc =
      if good samples tol n = n then .full
      else if good samples tol n = 0 then .zero
      else .partialCredit (match pc with
        | .flat q => q
        | .proportional => (good samples tol n : Rat) / n) := by
  cases pc <;> rfl

theorem matrixEntry_full_iff (samples : List (List C × List C)) (tol : Tolerance) (n : Nat) (pc : Partial) :
    matrixEntry samples tol n pc = .full ↔ ∀ b ∈ entrySummary samples tol n, b = true := by
  rw [matrixEntry_spec, ← good_eq_n_iff]
  by_cases h : good samples tol n = n
  · simp [h]
  · simp only [h, ↓reduceIte, iff_false]
    split <;> simp

theorem matrixEntry_zero_iff (samples : List (List C × List C)) (tol : Tolerance) (n : Nat) (pc : Partial) (hn : 0 < n) :
    matrixEntry samples tol n pc = .zero ↔ ∀ b ∈ entrySummary samples tol n, b = false := by
  rw [matrixEntry_spec, ← good_eq_zero_iff]
  by_cases h : good samples tol n = n
  · simp only [h, ↓reduceIte, reduceCtorEq, false_iff]; omega
  · by_cases h0 : good samples tol n = 0
    · simp [h0]; omega
    · simp [h, h0]

/-! ### LinearComparer -/

theorem maxRes_spec : ∀ (l : List (Rat × String)) (m : Rat × String), maxRes l = some m → m ∈ l ∧ ∀ r ∈ l, r.1 ≤ m.1 := by
  intro l
  induction l with
  | nil => intro m h; cases h
  | cons r rs ih =>
    intro m h
    simp only [maxRes] at h
    cases hr : maxRes rs with
    | none =>
      rw [hr] at h; cases h
      cases rs with
      | nil => simp
      | cons x xs => simp only [maxRes] at hr; split at hr <;> [cases hr; (split at hr <;> cases hr)]
    | some m' =>
      rw [hr] at h
      obtain ⟨hm, hall⟩ := ih m' hr
      simp only at h
      split at h
      · rename_i hb
        cases h
        refine ⟨by simp [hm], ?_⟩
        intro x hx
        rcases List.mem_cons.mp hx with rfl | hx
        · simp only [better, Bool.or_eq_true, decide_eq_true_eq, Bool.and_eq_true, beq_iff_eq] at hb
          rcases hb with hb | ⟨hb, _⟩
          · exact le_of_lt hb
          · exact le_of_eq hb
        · exact hall x hx
      · rename_i hb
        cases h
        refine ⟨by simp, ?_⟩
        intro x hx
        rcases List.mem_cons.mp hx with rfl | hx
        · exact le_refl _
        · have h1 := hall x hx
          simp only [better, Bool.or_eq_true, decide_eq_true_eq, Bool.and_eq_true, beq_iff_eq, not_or, not_lt] at hb
          linarith [hb.1]

theorem linear_needs_three_samples (cfg : LinCfg) (x y : List Rat) (tol : Tolerance) (h : x.length < 3) :
    ∃ m, linearComparer cfg x y tol = .error (.config m) := by
  simp [linearComparer, h]

/-- the modes that are considered: the configured ones, without `proportional`/`linear` when comparing with zero -/
def validModes (cfg : LinCfg) (x y : List Rat) (tol : Tolerance) : List Mode :=
  if comparingZero x y tol then (allModes.filter (fun m => (cfg.credit m).isSome)).filter zeroCompatible
  else allModes.filter (fun m => (cfg.credit m).isSome)

/-- does the relation of mode `m` hold between the samples, within tolerance? -/
def holds (m : Mode) (x y : List Rat) (tol : Tolerance) : Bool :=
  nearlyZero (err2 m x y) (sumL (y.map (fun b => b * b))) tol

/-- **The awarded credit is the largest configured credit among the relations that hold** (and 0 if none holds) -/
theorem linear_best_mode {cfg : LinCfg} {x y : List Rat} {tol : Tolerance} {r : Rat × String}
    (h : linearComparer cfg x y tol = .ok r) :
    (∀ m ∈ validModes cfg x y tol, holds m x y tol = true → (cfg.credit m).getD 0 ≤ r.1) ∧
    (r = (0, "") ∨ ∃ m ∈ validModes cfg x y tol, holds m x y tol = true ∧ r = ((cfg.credit m).getD 0, cfg.msg m)) := by
  unfold linearComparer at h
  split at h
  · cases h
  · simp only at h
    split at h
    · rename_i m hm
      cases h
      obtain ⟨hmem, hall⟩ := maxRes_spec _ _ hm
      constructor
      · intro md hmd hnz
        have : ((cfg.credit md).getD 0, cfg.msg md) ∈
            ((validModes cfg x y tol).map (fun m => if holds m x y tol then ((cfg.credit m).getD 0, cfg.msg m) else (0, ""))) :=
          List.mem_map.mpr ⟨md, hmd, by simp [hnz]⟩
        exact hall _ this
      · have hmem' : r ∈ ((validModes cfg x y tol).map (fun m => if holds m x y tol then ((cfg.credit m).getD 0, cfg.msg m) else (0, ""))) := hmem
        obtain ⟨md, hmd, hval⟩ := List.mem_map.mp hmem'
        by_cases hnz : holds md x y tol = true
        · right; exact ⟨md, hmd, hnz, by rw [← hval]; simp [hnz]⟩
        · left; rw [← hval]; simp [hnz]
    · cases h

/-- **Zero rule**: when the student's samples are all (nearly) zero or the expected ones are exactly zero, no proportional
or linear credit is awarded: only `equals` and `offset` are considered -/
theorem linear_zero_rule {cfg : LinCfg} {x y : List Rat} {tol : Tolerance} {r : Rat × String}
    (hz : comparingZero x y tol = true) (h : linearComparer cfg x y tol = .ok r) :
    r = (0, "") ∨ ∃ m, (m = .equals ∨ m = .offset) ∧ r = ((cfg.credit m).getD 0, cfg.msg m) := by
  obtain ⟨_, h2⟩ := linear_best_mode h
  simp only [validModes, hz, ↓reduceIte] at h2
  rcases h2 with h2 | ⟨m, hm, _, hr⟩
  · exact Or.inl h2
  · right
    refine ⟨m, ?_, hr⟩
    have := (List.mem_filter.mp hm).2
    cases m <;> simp_all [zeroCompatible]

/-- the shape of the relation `expected = a·student + b` that each mode stands for -/
def ModeShape : Mode → Rat → Rat → Prop
  | .equals, a, b => a = 1 ∧ b = 0
  | .proportional, _, b => b = 0
  | .offset, a, _ => a = 1
  | .linear, _, _ => True

theorem nearlyZero_mono {e e' r : Rat} {tol : Tolerance} (h : e ≤ e') (h' : nearlyZero e' r tol = true) : nearlyZero e r tol = true := by
  cases tol <;> simp only [nearlyZero, Bool.and_eq_true, decide_eq_true_eq] at h' ⊢ <;> exact ⟨h'.1, le_trans h h'.2⟩

/-- the code's fit error of a mode is attained by a line of the mode's shape, and no line of that shape does better -/
theorem err2_is_least (m : Mode) (x y : List Rat) (h : x.length = y.length) (hn : 0 < x.length) :
    (∃ a b, ModeShape m a b ∧ err2 m x y = resid2 a b x y) ∧ ∀ a b, ModeShape m a b → err2 m x y ≤ resid2 a b x y := by
  cases m with
  | equals =>
    refine ⟨⟨1, 0, ⟨rfl, rfl⟩, equalsErr2_eq_resid2 x y⟩, ?_⟩
    rintro a b ⟨rfl, rfl⟩; exact le_of_eq (equalsErr2_eq_resid2 x y)
  | proportional =>
    obtain ⟨a, ha⟩ := propErr2_attained x y h
    refine ⟨⟨a, 0, rfl, ha⟩, ?_⟩
    intro a b hb; cases hb; exact propErr2_le x y h a
  | offset =>
    obtain ⟨b, hb⟩ := offsetErr2_attained x y
    refine ⟨⟨1, b, rfl, hb⟩, ?_⟩
    intro a b ha; cases ha; exact offsetErr2_le x y h hn b
  | linear =>
    obtain ⟨a, b, hab⟩ := linearErr2_attained x y h hn
    exact ⟨⟨a, b, trivial, hab⟩, fun a b _ => linearErr2_le x y h hn a b⟩

/-- **A relation counts as holding iff some line of its shape fits the samples within tolerance**: the residual
`‖a·student + b − expected‖` of some admissible `(a, b)` is within the tolerance, taken relative to the norm of the expected
samples (fix F12; before it the reference was the norm of the student's samples, so a huge unrelated submission "fitted"). -/
theorem holds_iff_fit (m : Mode) (x y : List Rat) (tol : Tolerance) (h : x.length = y.length) (hn : 0 < x.length) :
    holds m x y tol = true ↔
      ∃ a b, ModeShape m a b ∧ nearlyZero (resid2 a b x y) (sumL (y.map (fun q => q * q))) tol = true := by
  obtain ⟨⟨a, b, hs, he⟩, hmin⟩ := err2_is_least m x y h hn
  unfold holds
  constructor
  · intro hh; exact ⟨a, b, hs, by rw [← he]; exact hh⟩
  · rintro ⟨a', b', hs', hh⟩; exact nearlyZero_mono (hmin a' b' hs') hh

/-- **LinearComparer, stated on the relations themselves**: the awarded credit is the largest configured credit among the
considered relations for which an admissible line fits within tolerance, and it is the credit (and message) of one of them,
or zero. -/
theorem linear_credit_spec {cfg : LinCfg} {x y : List Rat} {tol : Tolerance} {r : Rat × String}
    (hl : x.length = y.length) (h : linearComparer cfg x y tol = .ok r) :
    let fits := fun m => ∃ a b, ModeShape m a b ∧ nearlyZero (resid2 a b x y) (sumL (y.map (fun q => q * q))) tol = true
    (∀ m ∈ validModes cfg x y tol, fits m → (cfg.credit m).getD 0 ≤ r.1) ∧
    (r = (0, "") ∨ ∃ m ∈ validModes cfg x y tol, fits m ∧ r = ((cfg.credit m).getD 0, cfg.msg m)) := by
  have hn : 0 < x.length := by
    by_contra hc
    have : x.length < 3 := by omega
    simp [linearComparer, this] at h
  obtain ⟨h1, h2⟩ := linear_best_mode h
  refine ⟨fun m hm hf => h1 m hm ((holds_iff_fit m x y tol hl hn).mpr hf), ?_⟩
  rcases h2 with h2 | ⟨m, hm, hh, hr⟩
  · exact Or.inl h2
  · exact Or.inr ⟨m, hm, (holds_iff_fit m x y tol hl hn).mp hh, hr⟩

/-- F12, as a fact about the model: with expected samples 1, 2, 3 and the constant submission 100000 no proportional relation
holds at tolerance 0.01 % — although the fit error is far below 0.01 % of the *student's* norm (the reference used before the fix) -/
example : holds .proportional [100000, 100000, 100000] [1, 2, 3] (.pct (1 / 10000)) = false ∧
    nearlyZero (err2 .proportional [100000, 100000, 100000] [1, 2, 3]) (sumL ([100000, 100000, 100000].map (fun a => a * a))) (.pct (1 / 10000)) = true := by
  decide +kernel

example : linearComparer ⟨some 1, some (1/2), none, none, "", "prop", "", ""⟩ [100000, 100000, 100000] [1, 2, 3] (.pct (1 / 10000)) = .ok (0, "") ∧
    linearComparer ⟨some 1, some (1/2), none, none, "", "prop", "", ""⟩ [3, 6, 9] [1, 2, 3] (.pct (1 / 10000)) = .ok (1/2, "prop") := by
  decide +kernel

/-- the `equals` relation at tolerance 0 is pointwise equality of the samples -/
theorem equalsErr2_zero_iff : ∀ (x y : List Rat), x.length = y.length → (equalsErr2 x y = 0 ↔ x = y) := by
  have hfold : ∀ (l : List Rat) (acc : Rat), (∀ z ∈ l, 0 ≤ z) → 0 ≤ acc → (l.foldl (· + ·) acc = 0 ↔ acc = 0 ∧ ∀ z ∈ l, z = 0) := by
    intro l
    induction l with
    | nil => intro acc _ _; simp
    | cons a as ih =>
      intro acc hl hacc
      simp only [List.foldl_cons, List.mem_cons, forall_eq_or_imp]
      have ha := hl a (by simp)
      rw [ih (acc + a) (fun z hz => hl z (by simp [hz])) (by linarith)]
      constructor
      · rintro ⟨h1, h2⟩; exact ⟨by linarith, by linarith, h2⟩
      · rintro ⟨h1, h2, h3⟩; exact ⟨by linarith, h3⟩
  intro x
  induction x with
  | nil => intro y h; cases y <;> simp_all [equalsErr2, zipW, sumL]
  | cons a as ih =>
    intro y h
    cases y with
    | nil => simp at h
    | cons b bs =>
      simp only [List.length_cons, Nat.add_right_cancel_iff] at h
      have hnn : ∀ z ∈ zipW (fun a b => (a - b) * (a - b)) (a :: as) (b :: bs), 0 ≤ z := by
        have : ∀ (u v : List Rat), ∀ z ∈ zipW (fun a b => (a - b) * (a - b)) u v, 0 ≤ z := by
          intro u
          induction u with
          | nil => intro v z hz; simp [zipW] at hz
          | cons p ps ihp =>
            intro v z hz
            cases v with
            | nil => simp [zipW] at hz
            | cons q qs =>
              simp only [zipW, List.mem_cons] at hz
              rcases hz with rfl | hz
              · exact mul_self_nonneg _
              · exact ihp qs z hz
        exact this _ _
      have ih' := ih bs h
      unfold equalsErr2 sumL at ih' ⊢
      rw [hfold _ 0 hnn (le_refl 0)]
      have hnn' : ∀ z ∈ zipW (fun a b => (a - b) * (a - b)) as bs, 0 ≤ z := fun z hz => hnn z (by simp [zipW, hz])
      rw [hfold _ 0 hnn' (le_refl 0)] at ih'
      simp only [zipW, List.mem_cons, forall_eq_or_imp, true_and, List.cons.injEq] at ih' ⊢
      constructor
      · rintro ⟨h1, h2⟩
        have : a - b = 0 := by
          by_contra hne
          have : 0 < (a - b) * (a - b) := by positivity
          linarith
        exact ⟨by linarith, ih'.mp h2⟩
      · rintro ⟨rfl, h2⟩
        exact ⟨by ring, ih'.mpr h2⟩

/-! ### non-vacuity -/

example : congruence 0 (2 * 3) (-1/1000) (.abs (1/100)) = true ∧ congruence 0 6 (1/1000) (.abs (1/100)) = true ∧
    congruence 0 6 (6 - 1/1000) (.abs (1/100)) = true ∧ congruence 0 6 3 (.abs (1/100)) = false := by
  decide +kernel

end C16

import Mitx.Lemmas.Optimal
import Mitx.Lemmas.Grouping
import Mathlib.Algebra.BigOperators.Fin
/-! # C05 — ListGrader gives the best consistent assignment and reports it per input box

Model: `Gr.listCheck`, `Gr.performCheck`, `Gr.getBestResult`, `Gr.findOptimalOrder`, `Gr.groupify/ungroupify`
for arbitrary subgrader `check` functions `sub k`. -/
namespace C05
open Gr Finset

variable {α : Type}

/-- what a successful `perform_check` did -/
theorem performCheck_inv {cfg : LCfg} {sub : ℕ → α → GInput → M SubRes} {answers : List α} {student : List String} {o : LOut}
    (h : performCheck cfg sub answers student = .ok o) :
    let gmap := if cfg.grouping.isEmpty then none else createGroupingMap cfg.grouping
    (if cfg.grouping.isEmpty then answers.length = student.length else cfg.grouping.length = student.length) ∧
    ∃ inputList, o = { overall := "", entries := ungroupify gmap inputList } ∧
      (if cfg.ordered then ((answers.zip (groupify gmap student)).zipIdx).mapM (fun p => sub p.2 p.1.1 p.1.2) = .ok inputList
       else findOptimalOrder (sub 0) SubRes.grade answers (groupify gmap student) = .ok inputList) := by
  intro gmap
  unfold performCheck at h
  simp only [bind, Except.bind, pure, Except.pure] at h
  by_cases hg : cfg.grouping.isEmpty = true
  · simp only [hg, Bool.not_true, Bool.false_eq_true, ↓reduceIte] at h
    by_cases hl : answers.length = student.length
    · simp only [hl, bne_self_eq_false, Bool.false_eq_true, ↓reduceIte] at h
      refine ⟨by simp [hg, hl], ?_⟩
      cases hord : cfg.ordered <;> simp only [hord, Bool.false_eq_true, ↓reduceIte] at h ⊢
      all_goals (split at h; · cases h)
      all_goals (rename_i il hil; simp only [Except.ok.injEq] at h; exact ⟨il, by rw [← h]; simp [gmap, hg], by simpa [gmap, hg] using hil⟩)
    · have : (answers.length != student.length) = true := by simpa using hl
      simp [this, throw, throwThe, MonadExceptOf.throw] at h
  · have hg' : cfg.grouping.isEmpty = false := by simpa using hg
    simp only [hg', Bool.not_false, ↓reduceIte] at h
    by_cases hl : cfg.grouping.length = student.length
    · simp only [hl, bne_self_eq_false, Bool.false_eq_true, ↓reduceIte] at h
      refine ⟨by simp [hg', hl], ?_⟩
      by_cases hm : groupsMatch cfg.grouping answers.length = true
      · simp only [hm, Bool.not_true, Bool.false_eq_true, ↓reduceIte] at h
        cases hord : cfg.ordered <;> simp only [hord, Bool.false_eq_true, ↓reduceIte] at h ⊢
        all_goals (split at h; · cases h)
        all_goals (rename_i il hil; simp only [Except.ok.injEq] at h; exact ⟨il, by rw [← h]; simp [gmap, hg'], by simpa [gmap, hg'] using hil⟩)
      · have : (!groupsMatch cfg.grouping answers.length) = true := by simpa using hm
        simp [this, throw, throwThe, MonadExceptOf.throw] at h
    · have : (cfg.grouping.length != student.length) = true := by simpa using hl
      simp [this, throw, throwThe, MonadExceptOf.throw] at h

/-- **One answer per group.** With a grouping, a check that returns had exactly as many answers as groups (otherwise it is
    refused with a ConfigError — as repaired by the `fix:` commit F11; before, a mismatch led to missing entries and a raw
    AttributeError) -/
theorem performCheck_groups_match {cfg : LCfg} {sub : ℕ → α → GInput → M SubRes} {answers : List α} {student : List String} {o : LOut}
    (hg : cfg.grouping.isEmpty = false) (h : performCheck cfg sub answers student = .ok o) :
    groupsMatch cfg.grouping answers.length = true := by
  unfold performCheck at h
  simp only [bind, Except.bind, pure, Except.pure, hg, Bool.not_false, ↓reduceIte] at h
  by_cases hl : cfg.grouping.length = student.length
  · simp only [hl, bne_self_eq_false, Bool.false_eq_true, ↓reduceIte] at h
    by_cases hm : groupsMatch cfg.grouping answers.length = true
    · exact hm
    · have : (!groupsMatch cfg.grouping answers.length) = true := by simpa using hm
      simp [this, throw, throwThe, MonadExceptOf.throw] at h
  · have : (cfg.grouping.length != student.length) = true := by simpa using hl
    simp [this, throw, throwThe, MonadExceptOf.throw] at h

/-- a mismatch between the number of answers and the number of groups is refused with a configuration error -/
theorem groups_mismatch_refused {cfg : LCfg} {sub : ℕ → α → GInput → M SubRes} {answers : List α} {student : List String}
    (hg : cfg.grouping.isEmpty = false) (hl : cfg.grouping.length = student.length)
    (hm : groupsMatch cfg.grouping answers.length = false) :
    ∃ msg, performCheck cfg sub answers student = .error (Err.config msg) := by
  unfold performCheck
  simp only [bind, Except.bind, hg, Bool.not_false, ↓reduceIte, hl, bne_self_eq_false, Bool.false_eq_true, hm, throw, throwThe,
    MonadExceptOf.throw, pure, Except.pure]
  exact ⟨_, rfl⟩

/-- **Ordered**: the k-th (grouped) result is exactly what the k-th subgrader returns for the k-th answer and
    the k-th (grouped) input. -/
theorem ordered_pointwise {cfg : LCfg} {sub : ℕ → α → GInput → M SubRes} {answers : List α} {student : List String} {o : LOut}
    (hord : cfg.ordered = true) (h : performCheck cfg sub answers student = .ok o) :
    let gmap := if cfg.grouping.isEmpty then none else createGroupingMap cfg.grouping
    ∃ inputList, o.entries = ungroupify gmap inputList ∧
      List.Forall₂ (fun p r => sub p.2 p.1.1 p.1.2 = .ok r) ((answers.zip (groupify gmap student)).zipIdx) inputList := by
  intro gmap
  obtain ⟨_, il, ho, hil⟩ := performCheck_inv h
  simp only [hord, ↓reduceIte] at hil
  exact ⟨il, by rw [ho], (mapM_ok_iff _ _ _).mp hil⟩

/-- without grouping, short-form results are reported one per input, in input order -/
theorem ungroupify_none_single (l : List IRes) : ungroupify none (l.map SubRes.single) = l.map some := by
  show (l.map SubRes.single).flatMap (fun r => match r with | .single x => [some x] | .multi _ => [none]) = l.map some
  induction l with
  | nil => rfl
  | cons x xs ih => simp only [List.map_cons, List.flatMap_cons, List.cons_append, List.nil_append]; rw [ih]

/-- **Unordered**: the results are those of a one-to-one assignment of inputs to answers whose total credit no
    other assignment beats; entry `i` is the result of checking input `i` (reported at the position of that input). -/
theorem unordered_optimal {cfg : LCfg} {sub : ℕ → α → GInput → M SubRes} {answers : List α} {student : List String} {o : LOut}
    {n : ℕ} (hn : 0 < n) (hord : cfg.ordered = false) (hgr : cfg.grouping = []) (ha : answers.length = n)
    (h : performCheck cfg sub answers student = .ok o) :
    ∃ (hs : student.length = n) (R : Fin n → Fin n → SubRes) (τ : Equiv.Perm (Fin n)),
      (∀ i j : Fin n, sub 0 (answers[j.1]'(by rw [ha]; exact j.2)) (.one (student[i.1]'(by rw [hs]; exact i.2))) = .ok (R i j)) ∧
      (∀ σ : Equiv.Perm (Fin n), ∑ i, (R i (σ i)).grade ≤ ∑ i, (R i (τ i)).grade) ∧
      o.entries = ungroupify none (List.ofFn (fun i : Fin n => R i (τ i))) := by
  obtain ⟨hlen, il, ho, hil⟩ := performCheck_inv h
  simp only [hgr, List.isEmpty_nil, ↓reduceIte, hord, Bool.false_eq_true] at hlen hil ho
  have hs : student.length = n := by rw [← hlen, ha]
  have hgl : (groupify none student).length = n := by simp [groupify, hs]
  obtain ⟨R, τ, hR, hlist, hopt⟩ := findOptimalOrder_optimal (grade := SubRes.grade) hn ha hgl hil
  refine ⟨hs, R, τ, ?_, hopt, by rw [ho, hlist]⟩
  intro i j
  have := hR i j
  simpa [groupify] using this

/-- **Several answer lists**: the reported list is one of the candidates and has maximal total credit. -/
theorem best_list_maximal {results : List LOut} {r : LOut} (h : getBestResult results = some r) :
    r ∈ results ∧ ∀ x ∈ results, total x ≤ total r := by
  unfold getBestResult at h
  match results, h with
  | [x], h => simp only [Option.some.injEq] at h; subst h; simp
  | r0 :: r1 :: rest, h =>
    simp only at h
    cases hb : maxRat ((r0 :: r1 :: rest).map total) with
    | none => rw [hb] at h; cases h
    | some best =>
      rw [hb] at h
      simp only at h
      obtain ⟨hbm, hball⟩ := maxRat_spec _ _ hb
      have key : ∀ c, c ∈ (r0 :: r1 :: rest).filter (fun r => total r == best) →
          c ∈ (r0 :: r1 :: rest) ∧ ∀ x ∈ (r0 :: r1 :: rest), total x ≤ total c := by
        intro c hc
        simp only [List.mem_filter, beq_iff_eq] at hc
        exact ⟨hc.1, fun x hx => by rw [hc.2]; exact hball _ (List.mem_map_of_mem hx)⟩
      split at h
      · rename_i c hc
        simp only [Option.some.injEq] at h; subst h
        exact key c (by rw [hc]; simp)
      · simp only [Option.map_eq_some_iff] at h
        obtain ⟨p, hp, rfl⟩ := h
        have := List.mem_of_find?_eq_some hp
        exact key p.1 (List.of_mem_zip this).1

/-- **partial_credit=False**: every entry is zeroed unless every entry is fully correct. -/
theorem no_partial_credit {cfg : LCfg} {sub : ℕ → α → GInput → M SubRes} {answers : List (List α)} {student : List String} {o : LOut}
    (hpc : cfg.partialCredit = false) (h : listCheck cfg sub answers student = .ok o) :
    (∀ e ∈ o.entries, ∀ r, e = some r → r.ok = .yes) ∨ (∀ e ∈ o.entries, ∀ r, e = some r → r.ok = .no ∧ r.grade = 0) := by
  unfold listCheck at h
  simp only [bind, Except.bind, pure, Except.pure] at h
  split at h
  · simp [throw, throwThe, MonadExceptOf.throw] at h
  · split at h
    · cases h
    · split at h
      · simp [throw, throwThe, MonadExceptOf.throw] at h
      · rename_i best hbest
        simp only [hpc, Bool.not_false, Bool.true_and] at h
        split at h
        · simp only [Except.ok.injEq] at h; subst h
          right
          intro e he r hr
          simp only [List.mem_map] at he
          obtain ⟨e0, _, rfl⟩ := he
          cases e0 with
          | none => simp at hr
          | some r0 => simp only [Option.map_some, Option.some.injEq] at hr; subst hr; exact ⟨rfl, rfl⟩
        · rename_i hall
          simp only [Except.ok.injEq] at h; subst h
          left
          intro e he r hr
          have hall' := hall
          simp at hall'
          have := hall' e he
          subst hr
          simpa using this

/-- a wrong number of inputs is refused, not graded -/
theorem wrong_count_refused {cfg : LCfg} {sub : ℕ → α → GInput → M SubRes} {answers : List α} {student : List String}
    (hgr : cfg.grouping = []) (hne : answers.length ≠ student.length) :
    ∃ msg, performCheck cfg sub answers student = .error (Err.config msg) := by
  unfold performCheck
  have : (answers.length != student.length) = true := by simpa using hne
  simp only [hgr, List.isEmpty_nil, Bool.not_true, Bool.false_eq_true, ↓reduceIte, this, bind, Except.bind, throw, throwThe,
    MonadExceptOf.throw]
  exact ⟨_, rfl⟩

/-! ## Grouped inputs: every result is reported at the position of the input it grades -/

/-- `create_grouping_map` accepts exactly the groupings that partition the input positions: in an accepted map every
    position `0 … N-1` occurs in exactly one group, and group `g` holds precisely the positions numbered `g + 1`. -/
theorem grouping_is_partition {grouping : List ℕ} {gs : List (List ℕ)} (h : createGroupingMap grouping = some gs) :
    ValidMap gs grouping.length ∧ ∀ g i, g < gs.length → (i ∈ gs.getD g [] ↔ grouping[i]? = some (g + 1)) :=
  createGroupingMap_valid h

/-- `groupify` hands group `g` exactly the submitted inputs at that group's positions, in order -/
theorem grouped_input_is_group (gs : List (List ℕ)) (student : List String) (g : ℕ) (hg : g < gs.length) :
    (groupify (some gs) student)[g]? = some (match gs[g] with
      | [i] => GInput.one (student.getD i "")
      | grp => GInput.many (grp.map (fun i => student.getD i ""))) :=
  groupify_group gs student g hg

/-- **Results are reported per input box, also under grouping.** After a successful `perform_check` with a grouping,
    there is one entry per submitted input, and the entry at the position of the `j`-th input of group `g` is the `j`-th
    result that the subgrader returned for group `g` (for every group and member; ordered and unordered alike), provided
    the subgraders return results of the shape of their input (`Compat`: short form for one input, one entry per input
    for a group — the C01 shape theorem for item and list graders). -/
theorem grouped_entry_position {cfg : LCfg} {sub : ℕ → α → GInput → M SubRes} {answers : List α} {student : List String}
    {o : LOut} {gs : List (List ℕ)} (hgr : cfg.grouping ≠ []) (hmap : createGroupingMap cfg.grouping = some gs)
    (h : performCheck cfg sub answers student = .ok o) :
    ∃ inputList, o.entries = ungroupify (some gs) inputList ∧
      (List.Forall₂ Compat gs inputList →
        o.entries.length = student.length ∧
        ∀ g j (hg : g < gs.length) (hg' : g < inputList.length) (hj : j < gs[g].length) (hj' : j < inputList[g].flat.length),
          o.entries[gs[g][j]]? = some (some (inputList[g].flat[j]))) := by
  obtain ⟨hlen, il, ho, _⟩ := performCheck_inv h
  have hne : cfg.grouping.isEmpty = false := by
    cases hc : cfg.grouping with
    | nil => exact absurd hc hgr
    | cons _ _ => rfl
  simp only [hne, Bool.false_eq_true, ↓reduceIte, hmap] at hlen ho
  refine ⟨il, by rw [ho], ?_⟩
  intro hs
  have hv := (createGroupingMap_valid hmap).1
  have hN : 0 < cfg.grouping.length := by
    cases hc : cfg.grouping with
    | nil => exact absurd hc hgr
    | cons _ _ => simp
  obtain ⟨h1, h2⟩ := ungroupify_position hv hN hs
  rw [ho]
  exact ⟨by rw [h1, hlen], h2⟩

/-- non-vacuity: the documentation's interleaved grouping `[1, 2, 1, 2]` is accepted, is a partition, and the entry for the
    second input of group 1 (position 2) is the second nested result of group 1 -/
example : createGroupingMap [1, 2, 1, 2] = some [[0, 2], [1, 3]] := by decide
example : createGroupingMap [1, 3, 1] = none := by decide

end C05

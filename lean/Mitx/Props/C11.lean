import Mitx.Model.CallState
import Mitx.Lemmas.Globals
/-! # C11 — a grader's verdict depends only on its configuration and the current call

State-machine part of the property (the aliasing clauses — author config objects, scopes, process-wide settings —
are snapshot-checked on the real objects by the correspondence run). -/
namespace C11
open CS

variable (p : P)

/-- reachable states of a grader constructed WITHOUT answers, related to the last good expect value -/
def Rel (s : St p) (last : Option String) : Prop :=
  s.logCreated = false ∧
  match last with
  | none => s.answers = none ∧ s.inferring = false
  | some e => s.inferring = true ∧ ∃ a, p.validate e = some a ∧ s.answers = some a

theorem rel_fresh : Rel p (fresh p none) none := ⟨rfl, rfl, rfl⟩

theorem call_step (s : St p) (last : Option String) (h : Rel p s last) (e : Option String) (i : String) :
    Rel p (call p s e i).1 (lastGood p last [(e, i)]) ∧
    (call p s e i).2.1 = (call p (fresh p none) (e.orElse (fun _ => last)) i).2.1 := by
  obtain ⟨hlog, hrel⟩ := h
  rcases s with ⟨ans, inf, lc, lg⟩
  simp only at hlog; subst hlog
  cases e with
  | none =>
    cases last with
    | none =>
      obtain ⟨ha, hi⟩ := hrel; simp only at ha hi; subst ha; subst hi
      by_cases ht : p.textOK i <;> simp [call, baseCall, mkLog, fresh, lastGood, Rel, ht]
    | some l =>
      obtain ⟨hi, a, hv, ha⟩ := hrel; simp only at ha hi; subst ha; subst hi
      by_cases ht : p.textOK i <;> simp [call, baseCall, mkLog, fresh, lastGood, Rel, ht, hv]
  | some e =>
    have hcond : (inf || ans.isNone) = true := by
      cases last with
      | none => obtain ⟨ha, _⟩ := hrel; simp only at ha; subst ha; simp
      | some l => obtain ⟨hi, _⟩ := hrel; simp only at hi; subst hi; simp
    cases hv : p.validate e with
    | none =>
      simp only [call, hcond, if_true, hv, lastGood, Option.isSome_none, Bool.false_eq_true, if_false, fresh, Option.isNone_none,
        Bool.or_true, Option.orElse]
      exact ⟨⟨rfl, hrel⟩, trivial⟩
    | some a =>
      by_cases ht : p.textOK i <;>
        simp [call, hcond, hv, baseCall, mkLog, fresh, lastGood, Rel, ht, Option.orElse]

/-- **History independence (no configured answers).** After any history of calls — including calls that raise in
    validation, in the input check or in grading — the next call returns what a freshly constructed grader returns when
    given the expect value of the current call, or the last successfully supplied one when none is given. -/
theorem history_fresh (hist : List (Option String × String)) (e : Option String) (i : String) :
    (call p (run p (fresh p none) hist) e i).2.1 =
      (call p (fresh p none) (e.orElse (fun _ => lastGood p none hist)) i).2.1 := by
  have key : ∀ (hist : List (Option String × String)) (s : St p) (last : Option String), Rel p s last →
      Rel p (run p s hist) (lastGood p last hist) := by
    intro hist
    induction hist with
    | nil => intro s last h; exact h
    | cons c rest ih =>
      intro s last h
      obtain ⟨e', i'⟩ := c
      have := (call_step p s last h e' i').1
      cases e' with
      | none => simpa [run, lastGood] using ih _ _ this
      | some x => simpa [run, lastGood] using ih _ _ this
  exact (call_step p _ _ (key hist _ _ (rel_fresh p)) e i).2

/-- **Configured answers**: expect is ignored and nothing a call does changes a later verdict. -/
theorem configured_ignores_expect (a : p.Ans) (hist : List (Option String × String)) (e : Option String) (i : String) :
    (call p (run p (fresh p (some a)) hist) e i).2.1 = (call p (fresh p (some a)) none i).2.1 := by
  have inv : ∀ (hist : List (Option String × String)) (s : St p), (s.answers = some a ∧ s.inferring = false ∧ s.logCreated = false) →
      ((run p s hist).answers = some a ∧ (run p s hist).inferring = false ∧ (run p s hist).logCreated = false) := by
    intro hist
    induction hist with
    | nil => intro s h; exact h
    | cons c rest ih =>
      intro s ⟨h1, h2, h3⟩
      obtain ⟨e', i'⟩ := c
      apply ih
      rcases s with ⟨ans, inf, lc, lg⟩
      simp only at h1 h2 h3; subst h1; subst h2; subst h3
      cases e' <;> by_cases ht : p.textOK i' <;> simp [call, baseCall, mkLog, ht]
  obtain ⟨h1, h2, h3⟩ := inv hist (fresh p (some a)) ⟨rfl, rfl, rfl⟩
  generalize run p (fresh p (some a)) hist = s at h1 h2 h3
  rcases s with ⟨ans, inf, lc, lg⟩
  simp only at h1 h2 h3; subst h1; subst h2; subst h3
  cases e <;> by_cases ht : p.textOK i <;> simp [call, baseCall, mkLog, fresh, ht]

/-- **The debug log is fresh on every call**: what call k shows mentions only call k's own input (and the expect value
    inferred in that very call), whatever happened before — provided the state is a reachable one (`logCreated = false`). -/
theorem debuglog_fresh_each_call (s : St p) (hlc : s.logCreated = false) (e : Option String) (i : String) :
    ∀ x ∈ (call p s e i).2.2, x = "input:" ++ i ∨ ∃ e', e = some e' ∧ x = "inferred:" ++ e' := by
  rcases s with ⟨ans, inf, lc, lg⟩
  simp only at hlc; subst hlc
  intro x hx
  cases e with
  | none =>
    by_cases ht : p.textOK i <;> simp [call, baseCall, mkLog, ht] at hx
    left; exact hx
  | some e' =>
    by_cases hc : (inf || ans.isNone) = true
    · cases hv : p.validate e' with
      | none => simp [call, hc, hv] at hx
      | some a =>
        by_cases ht : p.textOK i <;> simp [call, hc, hv, baseCall, mkLog, ht] at hx
        rcases hx with hx | hx
        · left; exact hx
        · right; exact ⟨e', rfl, hx⟩
    · by_cases ht : p.textOK i <;> simp [call, hc, baseCall, mkLog, ht] at hx
      left; exact hx

/-- every call leaves the log flag cleared (the invariant the F2 repair restores) -/
theorem log_flag_cleared (s : St p) (hlc : s.logCreated = false) (e : Option String) (i : String) :
    (call p s e i).1.logCreated = false := by
  rcases s with ⟨ans, inf, lc, lg⟩
  simp only at hlc; subst hlc
  cases e with
  | none => by_cases ht : p.textOK i <;> simp [call, baseCall, mkLog, ht]
  | some e' =>
    by_cases hc : (inf || ans.isNone) = true
    · cases hv : p.validate e' with
      | none => simp [call, hc, hv]
      | some a => by_cases ht : p.textOK i <;> simp [call, hc, hv, baseCall, mkLog, ht]
    · by_cases ht : p.textOK i <;> simp [call, hc, baseCall, mkLog, ht]

/-! ## process-wide settings and the author's configuration objects -/

/-- **The negative-power switch is always restored**: whatever the checking code does — return, raise, even change the
    switch itself — after `with MathArray.enable_negative_powers(v)` the switch holds its default again. -/
theorem negative_powers_restored {α : Type} (v : Bool) (body : Bool → Bool × Gl.Beh α) (flag : Bool) :
    (Gl.withNP v body flag).1 = Gl.defaultNP ∧ (Gl.withNP v body flag).2 = (body v).2 := ⟨rfl, rfl⟩

/-- after any history of MatrixGrader calls (any mix of `negative_powers` settings, returning or raising) the switch is at
    its default, so the next call — of any grader — starts from the same process-wide state as a fresh process -/
theorem negative_powers_history {α : Type} (calls : List (Gl.MCall α)) : Gl.runCalls Gl.defaultNP calls = Gl.defaultNP :=
  Gl.runCalls_from_default calls

/-- without `try/finally` a raising check leaks the grader's setting into the rest of the process -/
example : (Gl.withNP_noFinally (α := Unit) false (fun b => (b, .raise "boom")) true).1 = false := rfl

/-- **Construction never aliases the author's objects.** `coerce2unicode` returns a value equal to the author's
    (`shape`: identities erased) in which every list and dictionary — also those nested inside tuples — is a fresh object:
    if the author's objects have identities below `n`, no mutable container reachable from the copy is reachable from the
    author's value. Whatever the validators later write *in place* into the copy cannot reach the author's objects. -/
theorem constructor_no_alias (n : Nat) (v : Gl.PV) (hold : ∀ i ∈ Gl.mutIds v, i < n) :
    Gl.shape (Gl.coerce n v).2 = Gl.shape v ∧ ∀ i ∈ Gl.mutIds (Gl.coerce n v).2, i ∉ Gl.mutIds v := by
  refine ⟨Gl.coerce_shape n v, ?_⟩
  intro i hi hmem
  have := (Gl.coerce_bounds n v).2 i hi
  have := hold i hmem
  omega

/-- the rewrite that returns tuples unchanged is refuted: a list inside a tuple stays the author's own object -/
example : Gl.mutIds (Gl.coerceKeepTuples 10 (.tuple [.list 3 [.atom "a"], .list 4 [.atom "b"]])).2 = [3, 4] := by decide
example : Gl.mutIds (Gl.coerce 10 (.tuple [.list 3 [.atom "a"], .list 4 [.atom "b"]])).2 = [10, 11] := by decide

end C11

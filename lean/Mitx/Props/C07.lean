import Mitx.Lemmas.Optimal
import Mitx.Lemmas.PermInv
import Mathlib.Algebra.BigOperators.Fin
/-! # C07 — SingleListGrader scores a delimited list by the documented credit formula

Model: `Gr.slCheckResponse`, `Gr.processGradeList`, `Gr.consolidateGrades`, `Gr.findOptimalOrder` for an arbitrary
subgrader `sub` (its `check`). -/
namespace C07
open Gr Finset

/-- the credit switch of `partial_credit=False`: anything short of full item credit scores zero -/
def credit (partialCredit : Bool) (g : ℚ) : ℚ := if !partialCredit && g < 1 then 0 else g

theorem foldl_add_eq_sum (l : List ℚ) (a : ℚ) : l.foldl (· + ·) a = a + l.sum := by
  induction l generalizing a with
  | nil => simp
  | cons x xs ih => simp only [List.foldl_cons, List.sum_cons]; rw [ih]; ring

/-- `consolidate_grades`: −1 per surplus item, 0 per missing item, divide by the number of expected items, never negative. -/
theorem consolidateGrades_formula (l : List ℚ) (n : ℕ) :
    consolidateGrades l n = max 0 ((l.sum - ((l.length - n : ℕ) : ℚ)) / n) := by
  unfold consolidateGrades
  simp only [foldl_add_eq_sum, zero_add]
  by_cases h : l.length > n
  · simp only [h, if_true]
    by_cases h2 : (l.sum - ((l.length - n : ℕ) : ℚ)) / (n : ℚ) < 0
    · rw [if_pos h2, max_eq_left (le_of_lt h2)]
    · rw [if_neg h2, max_eq_right (not_lt.mp h2)]
  · simp only [h, if_false]
    have : l.length - n = 0 := by omega
    rw [this]; simp only [Nat.cast_zero, sub_zero]
    by_cases h2 : l.sum / (n : ℚ) < 0
    · rw [if_pos h2, max_eq_left (le_of_lt h2)]
    · rw [if_neg h2, max_eq_right (not_lt.mp h2)]

/-- grade, ok and the message rule of `process_grade_list` -/
theorem processGradeList_spec (cfg : SLCfg) (gl : List IRes) (n : ℕ) (m : AnsMeta) :
    (processGradeList cfg gl n m).grade = m.grade * credit cfg.partialCredit (consolidateGrades (gl.map (·.grade)) n) ∧
    (processGradeList cfg gl n m).ok = At.gradeToOk (processGradeList cfg gl n m).grade ∧
    ((processGradeList cfg gl n m).msg =
      if (processGradeList cfg gl n m).allAwarded && m.msg != "" then
        (if joinNonEmpty "\n" (gl.map (·.msg)) == "" then m.msg else joinNonEmpty "\n" (gl.map (·.msg)) ++ "\n" ++ m.msg)
      else joinNonEmpty "\n" (gl.map (·.msg))) ∧
    (cfg.subIsSingleList = false → ((processGradeList cfg gl n m).allAwarded = true ↔ ∀ r ∈ gl, r.grade > 0)) := by
  unfold processGradeList consolidateSingleReturn credit
  refine ⟨?_, ?_, ?_, ?_⟩
  · simp only; split <;> ring
  · simp only [mul_comm]
  · rfl
  · intro h; simp [h, List.all_eq_true]

/-- the answer-level message appears exactly when every padded item earned credit (and it is non-empty) -/
theorem single_list_msg (cfg : SLCfg) (gl : List IRes) (n : ℕ) (m : AnsMeta) (hsub : cfg.subIsSingleList = false)
    (hm : m.msg ≠ "") :
    ((processGradeList cfg gl n m).msg = (if joinNonEmpty "\n" (gl.map (·.msg)) == "" then m.msg
        else joinNonEmpty "\n" (gl.map (·.msg)) ++ "\n" ++ m.msg)) ∨
      (processGradeList cfg gl n m).msg = joinNonEmpty "\n" (gl.map (·.msg)) := by
  obtain ⟨_, _, h3, _⟩ := processGradeList_spec cfg gl n m
  rw [h3]; split <;> simp

/-! ## errors come first -/
theorem length_error_first {α : Type} (cfg : SLCfg) (sub : α → String → M IRes) (m : AnsMeta) (items : List α) (inp : String)
    (h1 : cfg.lengthError = true) (h2 : items.length ≠ (pySplit inp cfg.delimiter).length) :
    ∃ msg, slCheckResponse cfg sub m items inp = .error (Err.missingInput msg) := by
  unfold slCheckResponse
  simp only [h1, Bool.true_and, bne_iff_ne, ne_eq, h2, not_false_eq_true, if_true, bind, Except.bind, throw, throwThe,
    MonadExceptOf.throw]
  exact ⟨_, rfl⟩

/-- 1-based positions of the blank items of a submission -/
def blankPositions (l : List String) : List ℕ := (l.zipIdx.filter (fun p => pyStrip p.1 == "")).map (fun p => p.2 + 1)

theorem missing_error {α : Type} (cfg : SLCfg) (sub : α → String → M IRes) (m : AnsMeta) (items : List α) (inp : String)
    (h0 : ¬ (cfg.lengthError = true ∧ items.length ≠ (pySplit inp cfg.delimiter).length))
    (h1 : cfg.missingError = true) (h2 : blankPositions (pySplit inp cfg.delimiter) ≠ []) :
    slCheckResponse cfg sub m items inp = .error (Err.missingInput
      ((if (blankPositions (pySplit inp cfg.delimiter)).length == 1 then "List error: Empty entry detected in position "
        else "List error: Empty entries detected in positions ") ++ natList (blankPositions (pySplit inp cfg.delimiter)))) := by
  unfold slCheckResponse
  have hc : (cfg.lengthError && items.length != (pySplit inp cfg.delimiter).length) = false := by
    by_cases hl : cfg.lengthError = true
    · have : items.length = (pySplit inp cfg.delimiter).length := by
        by_contra hne; exact h0 ⟨hl, hne⟩
      simp [this]
    · simp [hl]
  have hne : (blankPositions (pySplit inp cfg.delimiter)).isEmpty = false := by
    cases hb : blankPositions (pySplit inp cfg.delimiter) with
    | nil => exact absurd hb h2
    | cons _ _ => rfl
  simp only [hc, Bool.false_eq_true, ↓reduceIte, h1, bind, Except.bind, pure, Except.pure]
  unfold blankPositions at hne ⊢
  simp only [hne, Bool.not_false, ↓reduceIte, throw, throwThe, MonadExceptOf.throw]

/-! ## the credit formula -/

/-- a successful call graded a list of per-item results and consolidated it -/
theorem sl_ok_inv {α : Type} {cfg : SLCfg} {sub : α → String → M IRes} {m : AnsMeta} {items : List α} {inp : String} {out : IRes}
    (h : slCheckResponse cfg sub m items inp = .ok out) :
    ∃ gl, out = processGradeList cfg gl items.length m ∧
      (if cfg.ordered then
        ((padTo (max items.length (pySplit inp cfg.delimiter).length) items).zip
          (padTo (max items.length (pySplit inp cfg.delimiter).length) (pySplit inp cfg.delimiter))).mapM
            (fun p => paddedCheck sub p.1 p.2) = .ok gl
       else findOptimalOrder (paddedCheck sub) (·.grade)
          (padTo (max items.length (pySplit inp cfg.delimiter).length) items)
          (padTo (max items.length (pySplit inp cfg.delimiter).length) (pySplit inp cfg.delimiter)) = .ok gl) := by
  unfold slCheckResponse at h
  simp only [bind, Except.bind, pure, Except.pure] at h
  split at h
  · simp [throw, throwThe, MonadExceptOf.throw] at h
  · split at h
    · split at h
      · simp [throw, throwThe, MonadExceptOf.throw] at h
      · cases hord : cfg.ordered <;> simp only [hord, Bool.false_eq_true, ↓reduceIte] at h ⊢
        all_goals (split at h; · cases h)
        all_goals (rename_i gl hgl; simp only [Except.ok.injEq] at h; exact ⟨gl, h.symm, hgl⟩)
    · cases hord : cfg.ordered <;> simp only [hord, Bool.false_eq_true, ↓reduceIte] at h ⊢
      all_goals (split at h; · cases h)
      all_goals (rename_i gl hgl; simp only [Except.ok.injEq] at h; exact ⟨gl, h.symm, hgl⟩)

theorem padTo_length {α : Type} (n : ℕ) (l : List α) (h : l.length ≤ n) : (padTo n l).length = n := by
  unfold padTo; simp; omega

/-- **Unordered lists: the documented formula.** With `n = max(#expected, #submitted)` and `R i j` the padded
    check of submitted item `i` against expected item `j` (padding = automatic failure, credit 0), the grade is
    `answer credit × credit( max 0 ((best − surplus) / #expected) )` where `best` is the total item credit of an
    assignment that no other one-to-one assignment beats. -/
theorem single_list_formula_unordered {α : Type} {cfg : SLCfg} {sub : α → String → M IRes} {m : AnsMeta} {items : List α}
    {inp : String} {out : IRes} (hord : cfg.ordered = false) (hpos : 0 < items.length)
    (h : slCheckResponse cfg sub m items inp = .ok out) :
    let sl := pySplit inp cfg.delimiter
    let n := max items.length sl.length
    ∃ (R : Fin n → Fin n → IRes) (τ : Equiv.Perm (Fin n)),
      (∀ i j : Fin n, paddedCheck sub ((padTo n items)[j.1]'(by rw [padTo_length n items (le_max_left _ _)]; exact j.2))
          ((padTo n sl)[i.1]'(by rw [padTo_length n sl (le_max_right _ _)]; exact i.2)) = .ok (R i j)) ∧
      (∀ σ : Equiv.Perm (Fin n), ∑ i, (R i (σ i)).grade ≤ ∑ i, (R i (τ i)).grade) ∧
      out.grade = m.grade * credit cfg.partialCredit
        (max 0 ((∑ i, (R i (τ i)).grade - ((n - items.length : ℕ) : ℚ)) / items.length)) := by
  intro sl n
  obtain ⟨gl, hout, hgl⟩ := sl_ok_inv h
  simp only [hord, Bool.false_eq_true, ↓reduceIte] at hgl
  have hn : 0 < n := lt_of_lt_of_le hpos (le_max_left _ _)
  obtain ⟨R, τ, hR, hlist, hopt⟩ := findOptimalOrder_optimal (grade := fun r : IRes => r.grade) hn
    (padTo_length n items (le_max_left _ _)) (padTo_length n sl (le_max_right _ _)) hgl
  refine ⟨R, τ, hR, hopt, ?_⟩
  rw [hout, (processGradeList_spec cfg gl items.length m).1, consolidateGrades_formula]
  have hsum : (gl.map (·.grade)).sum = ∑ i, (R i (τ i)).grade := by
    rw [hlist, List.map_ofFn, List.sum_ofFn]; rfl
  have hlen : (gl.map (·.grade)).length = n := by rw [hlist]; simp
  rw [hsum, hlen]

/-- **Ordered lists**: positional pairing on the padded lists. -/
theorem single_list_formula_ordered {α : Type} {cfg : SLCfg} {sub : α → String → M IRes} {m : AnsMeta} {items : List α}
    {inp : String} {out : IRes} (hord : cfg.ordered = true)
    (h : slCheckResponse cfg sub m items inp = .ok out) :
    let sl := pySplit inp cfg.delimiter
    let n := max items.length sl.length
    ∃ gl : List IRes, List.Forall₂ (fun p r => paddedCheck sub p.1 p.2 = .ok r) ((padTo n items).zip (padTo n sl)) gl ∧
      out.grade = m.grade * credit cfg.partialCredit
        (max 0 (((gl.map (·.grade)).sum - ((n - items.length : ℕ) : ℚ)) / items.length)) := by
  intro sl n
  obtain ⟨gl, hout, hgl⟩ := sl_ok_inv h
  simp only [hord, ↓reduceIte] at hgl
  have hf := (mapM_ok_iff _ _ _).mp hgl
  refine ⟨gl, hf, ?_⟩
  rw [hout, (processGradeList_spec cfg gl items.length m).1, consolidateGrades_formula]
  have hlen : (gl.map (·.grade)).length = n := by
    rw [List.length_map, ← (forall2_get hf).1, List.length_zip, padTo_length n items (le_max_left _ _),
      padTo_length n sl (le_max_right _ _)]; simp
  rw [hlen]

/-- With `partial_credit=False` the grade is the answer's credit or zero. -/
theorem single_list_no_partial (cfg : SLCfg) (gl : List IRes) (n : ℕ) (m : AnsMeta) (hpc : cfg.partialCredit = false) :
    (processGradeList cfg gl n m).grade = 0 ∨
      ((processGradeList cfg gl n m).grade = m.grade * consolidateGrades (gl.map (·.grade)) n ∧
        1 ≤ consolidateGrades (gl.map (·.grade)) n) := by
  rw [(processGradeList_spec cfg gl n m).1]
  unfold credit
  simp only [hpc, Bool.not_false, Bool.true_and, decide_eq_true_eq]
  by_cases hlt : consolidateGrades (gl.map (·.grade)) n < 1
  · left; simp [hlt]
  · right; simp [hlt]; exact not_lt.mp hlt

/-- **Permutation invariance (unordered lists).** Submitting the same items in a different order — `π` is any
    permutation of the positions of the delimiter-separated items — never changes the grade or `ok`. -/
theorem single_list_perm_invariant {α : Type} {cfg : SLCfg} {sub : α → String → M IRes} {m : AnsMeta} {items : List α}
    {inp₁ inp₂ : String} {out₁ out₂ : IRes} (hord : cfg.ordered = false) (hpos : 0 < items.length) {k : ℕ}
    (h1 : (pySplit inp₁ cfg.delimiter).length = k) (h2 : (pySplit inp₂ cfg.delimiter).length = k)
    (π : Equiv.Perm (Fin k))
    (hπ : ∀ i : Fin k, (pySplit inp₂ cfg.delimiter)[i.1]'(by rw [h2]; exact i.2) =
      (pySplit inp₁ cfg.delimiter)[(π i).1]'(by rw [h1]; exact (π i).2))
    (r1 : slCheckResponse cfg sub m items inp₁ = .ok out₁) (r2 : slCheckResponse cfg sub m items inp₂ = .ok out₂) :
    out₁.grade = out₂.grade ∧ out₁.ok = out₂.ok := by
  obtain ⟨gl₁, ho₁, hg₁⟩ := sl_ok_inv r1
  obtain ⟨gl₂, ho₂, hg₂⟩ := sl_ok_inv r2
  simp only [hord, Bool.false_eq_true, ↓reduceIte, h1, h2] at hg₁ hg₂
  have hkn : k ≤ max items.length k := le_max_right _ _
  have hn : 0 < max items.length k := lt_of_lt_of_le hpos (le_max_left _ _)
  obtain ⟨hsum, hlen⟩ := findOptimalOrder_perm_invariant (grade := fun r : IRes => r.grade) hn
    (padTo_length _ items (le_max_left _ _)) (padTo_length' _ _ (by omega)) (padTo_length' _ _ (by omega))
    (extendPerm hkn π) (padTo_perm hkn h1 h2 π hπ) hg₁ hg₂
  have hg : out₁.grade = out₂.grade := by
    rw [ho₁, ho₂, (processGradeList_spec cfg gl₁ items.length m).1, (processGradeList_spec cfg gl₂ items.length m).1,
      consolidateGrades_formula, consolidateGrades_formula, hsum]
    simp only [List.length_map, hlen]
  refine ⟨hg, ?_⟩
  rw [ho₁, ho₂, (processGradeList_spec cfg gl₁ items.length m).2.1, (processGradeList_spec cfg gl₂ items.length m).2.1,
    ← ho₁, ← ho₂, hg]

end C07

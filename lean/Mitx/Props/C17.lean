import Mitx.Lemmas.Attempt
import Mathlib.Algebra.Order.Field.Basic
/-! # C17 — attempt-based credit scales grades by a bounded, non-increasing schedule

Property theorems only. Model: `Mitx/Model/Attempt.lean`. All attempt numbers are arbitrary integers,
all schedule parameters arbitrary within the domain the configuration schema admits. -/
namespace C17
open At

/-! ## the three built-in schedules -/

theorem linear_first (after steps : ℕ) (minc : ℚ) : linearCredit after steps minc 1 = 1 := by
  simp [linearCredit]

theorem linear_range {after steps : ℕ} {minc : ℚ} (ha : 1 ≤ after) (hs : 1 ≤ steps) (h0 : 0 ≤ minc) (h1 : minc ≤ 1)
    (a : ℤ) : 0 ≤ linearCredit after steps minc a ∧ linearCredit after steps minc a ≤ 1 := by
  rw [linear_eq_max ha h1]
  have h := linRaw_range (after := after) hs h0 h1 a
  constructor
  · exact le_trans h0 (rmax_ge_right _ _)
  · apply rmax_le _ h1
    have := round4_mono h.2; rwa [round4_one] at this

theorem linear_antitone {after steps : ℕ} {minc : ℚ} (ha : 1 ≤ after) (hs : 1 ≤ steps) (h0 : 0 ≤ minc) (h1 : minc ≤ 1)
    {a b : ℤ} (h : a ≤ b) : linearCredit after steps minc b ≤ linearCredit after steps minc a := by
  rw [linear_eq_max ha h1, linear_eq_max ha h1]; exact rmax_mono (round4_mono (linRaw_antitone hs h0 h1 h))

/-- **"never below the configured minimum"**, for every minimum in [0, 1] (after fix F14; before it this needed a minimum with at most
    four decimals: `minimum_credit = 0.33333` gave 0.3333, former finding K2) -/
theorem linear_ge_min {after steps : ℕ} {minc : ℚ} (ha : 1 ≤ after) (h1 : minc ≤ 1) (a : ℤ) :
    minc ≤ linearCredit after steps minc a := by
  rw [linear_eq_max ha h1]; exact rmax_ge_right _ _

/-- the former K2 witness now meets its minimum -/
theorem linear_k2_witness : (33333 : ℚ) / 100000 ≤ linearCredit 1 4 (33333 / 100000) 10 := by
  decide +kernel

theorem geometric_first (f : ℚ) : geometricCredit f 1 = 1 := by simp [geometricCredit]

theorem geometric_range {f : ℚ} (h0 : 0 ≤ f) (h1 : f ≤ 1) (a : ℤ) :
    0 ≤ geometricCredit f a ∧ geometricCredit f a ≤ 1 := by
  unfold geometricCredit
  split_ifs
  · exact ⟨by norm_num, le_refl _⟩
  · constructor
    · have := round4_mono (pow_nonneg h0 (a - 1).toNat); rwa [round4_zero] at this
    · have := round4_mono (pow_le_one₀ h0 h1 (n := (a - 1).toNat)); rwa [round4_one] at this

theorem geometric_antitone {f : ℚ} (h0 : 0 ≤ f) (h1 : f ≤ 1) {a b : ℤ} (ha : 1 ≤ a) (h : a ≤ b) :
    geometricCredit f b ≤ geometricCredit f a := by
  have key : ∀ c : ℤ, 1 ≤ c → geometricCredit f c = round4 (f ^ (c - 1).toNat) := by
    intro c hc
    unfold geometricCredit
    split_ifs with h1
    · subst h1; simp [round4_one]
    · rfl
  rw [key a ha, key b (by omega)]
  apply round4_mono
  apply pow_le_pow_of_le_one h0 h1
  omega

theorem reciprocal_first : reciprocalCredit 1 = 1 := by simp [reciprocalCredit]

theorem reciprocal_range {a : ℤ} (ha : 1 ≤ a) : 0 ≤ reciprocalCredit a ∧ reciprocalCredit a ≤ 1 := by
  unfold reciprocalCredit
  have hq : (1 : ℚ) ≤ a := by exact_mod_cast ha
  split_ifs
  · exact ⟨by norm_num, le_refl _⟩
  · constructor
    · have := round4_mono (show (0 : ℚ) ≤ 1 / a by positivity); rwa [round4_zero] at this
    · have := round4_mono (show (1 : ℚ) / a ≤ 1 by rw [div_le_one (by linarith)]; exact hq); rwa [round4_one] at this

theorem reciprocal_antitone {a b : ℤ} (ha : 1 ≤ a) (h : a ≤ b) : reciprocalCredit b ≤ reciprocalCredit a := by
  have key : ∀ c : ℤ, 1 ≤ c → reciprocalCredit c = round4 (1 / (c : ℚ)) := by
    intro c hc
    unfold reciprocalCredit
    split_ifs with h1
    · subst h1; simp [round4_one]
    · rfl
  rw [key a ha, key b (by omega)]
  apply round4_mono
  have hq : (1 : ℚ) ≤ a := by exact_mod_cast ha
  have hab : (a : ℚ) ≤ b := by exact_mod_cast h
  exact one_div_le_one_div_of_le (by linarith) hab

/-! ## applying the schedule to a result -/

/-- Omitting the attempt number while the feature is on is a configuration error. -/
theorem apply_missing_attempt_error (sched : ℤ → ℚ) (flag : Bool) (out : Out) :
    applyAttempt sched flag none out = .error .configMissingAttempt := rfl

/-- the attempt number the schedule is called with, and that appears in the note -/
def clamp (n : ℤ) : ℤ := if n < 1 then 1 else n
theorem schedule_arg_ge_one (n : ℤ) : 1 ≤ clamp n := by unfold clamp; split_ifs <;> omega

/-- the credit actually applied -/
def creditOf (sched : ℤ → ℚ) (n : ℤ) : ℚ := round4 (sched (clamp n))

theorem apply_identity_when_credit_one (sched : ℤ → ℚ) (flag : Bool) (n : ℤ) (out : Out)
    (h : creditOf sched n = 1) : applyAttempt sched flag (some n) out = .ok out := by
  unfold creditOf clamp at h
  simp only [applyAttempt]
  rw [if_pos h]

theorem scaleRes_spec (c : ℚ) (r : Res) :
    (r.grade > 0 → (scaleRes c r).grade = r.grade * c ∧ (scaleRes c r).ok = gradeToOk (r.grade * c)) ∧
    (¬ r.grade > 0 → (scaleRes c r).grade = r.grade ∧ (scaleRes c r).ok = r.ok) := by
  unfold scaleRes; split_ifs <;> simp_all

/-- the entries of the result are the scaled entries, in the same order, up to the message of a single result -/
theorem apply_entries_map (sched : ℤ → ℚ) (flag : Bool) (n : ℤ) (out out' : Out)
    (hc : creditOf sched n ≠ 1) (h : applyAttempt sched flag (some n) out = .ok out') :
    ∃ f : Res → Res, (∀ r, (f r).grade = (scaleRes (creditOf sched n) r).grade ∧ (f r).ok = (scaleRes (creditOf sched n) r).ok) ∧
      out'.entries = out.entries.map f := by
  unfold creditOf clamp at hc ⊢
  simp only [applyAttempt] at h
  rw [if_neg hc] at h
  generalize round4 (sched (if n < 1 then 1 else n)) = c at *
  cases out with
  | single r =>
    simp only [Except.ok.injEq] at h
    subst h
    by_cases hw : (flag && (Out.single r).entries.any (fun r => decide (r.grade > 0))) = true
    · refine ⟨fun r => { scaleRes c r with msg := addNote (scaleRes c r).msg (note (if n < 1 then 1 else n) c) }, fun r => ⟨rfl, rfl⟩, ?_⟩
      show [_] = [_]
      congr 1
      split
      · rfl
      · rename_i h'; exact absurd hw h'
    · refine ⟨scaleRes c, fun r => ⟨rfl, rfl⟩, ?_⟩
      show [_] = [_]
      congr 1
      split
      · rename_i h'; exact absurd h' hw
      · rfl
  | list ov rs =>
    simp only [Except.ok.injEq] at h
    subst h
    exact ⟨scaleRes c, fun r => ⟨rfl, rfl⟩, rfl⟩

/-- Shape and order are preserved; every positive grade is multiplied by the credit with `ok` recomputed,
    zero (non-positive) grades are untouched. -/
theorem apply_entries (sched : ℤ → ℚ) (flag : Bool) (n : ℤ) (out out' : Out)
    (hc : creditOf sched n ≠ 1) (h : applyAttempt sched flag (some n) out = .ok out') :
    out'.entries.length = out.entries.length ∧
    ∀ i (hi : i < out.entries.length) (hi' : i < out'.entries.length),
      (out.entries[i].grade > 0 → out'.entries[i].grade = out.entries[i].grade * creditOf sched n ∧
          out'.entries[i].ok = gradeToOk (out.entries[i].grade * creditOf sched n)) ∧
      (¬ out.entries[i].grade > 0 → out'.entries[i].grade = out.entries[i].grade ∧ out'.entries[i].ok = out.entries[i].ok) := by
  obtain ⟨f, hf, he⟩ := apply_entries_map sched flag n out out' hc h
  refine ⟨by rw [he, List.length_map], ?_⟩
  intro i hi hi'
  have hget : out'.entries[i] = f (out.entries[i]) := by
    simp only [he, List.getElem_map]
  rw [hget, (hf _).1, (hf _).2]
  exact scaleRes_spec _ _

/-- the message that carries the note -/
def noteField : Out → String
  | .single r => r.msg
  | .list ov _ => ov

/-- The note is added exactly when the flag is on, the credit is not 1 and some grade is positive; otherwise
    the message is unchanged. (Entry messages of list results are never touched.) -/
theorem apply_note_iff (sched : ℤ → ℚ) (flag : Bool) (n : ℤ) (out out' : Out)
    (h : applyAttempt sched flag (some n) out = .ok out') :
    noteField out' =
      if flag = true ∧ creditOf sched n ≠ 1 ∧ (∃ r ∈ out.entries, r.grade > 0)
      then addNote (noteField out) (note (clamp n) (creditOf sched n))
      else noteField out := by
  unfold creditOf clamp
  simp only [applyAttempt] at h
  by_cases hc : round4 (sched (if n < 1 then 1 else n)) = 1
  · rw [if_pos hc] at h
    simp only [Except.ok.injEq] at h; subst h
    simp [hc]
  · rw [if_neg hc] at h
    have hany : ∀ o : Out, (o.entries.any (fun r => decide (r.grade > 0)) = true) ↔ ∃ r ∈ o.entries, r.grade > 0 := by
      intro o; simp [List.any_eq_true]
    cases out with
    | single r =>
      simp only [Except.ok.injEq] at h; subst h
      by_cases hf : flag = true <;> by_cases hg : r.grade > 0 <;>
        simp [noteField, Out.entries, hf, hg, hc, scaleRes]
    | list ov rs =>
      simp only [Except.ok.injEq] at h; subst h
      by_cases hf : flag = true <;> by_cases hg : ∃ r ∈ rs, r.grade > 0
      · have : rs.any (fun r => decide (r.grade > 0)) = true := by simpa [List.any_eq_true] using hg
        simp [noteField, Out.entries, hf, hc, this, hg]
      · have : rs.any (fun r => decide (r.grade > 0)) = false := by
          simpa [List.any_eq_false] using hg
        simp [noteField, Out.entries, hf, hc, this, hg]
      · simp [noteField, Out.entries, hf]
      · simp [noteField, Out.entries, hf]

/-- scaled grades stay in `[0, 1]` when the credit is in `[0,1]` (which the three schedules guarantee) -/
theorem scale_range {c g : ℚ} (hc0 : 0 ≤ c) (hc1 : c ≤ 1) (hg0 : 0 ≤ g) (hg1 : g ≤ 1) :
    0 ≤ (scaleRes c ⟨.yes, g, ""⟩).grade ∧ (scaleRes c ⟨.yes, g, ""⟩).grade ≤ 1 := by
  unfold scaleRes
  split_ifs
  · simp only; constructor <;> nlinarith
  · exact ⟨hg0, hg1⟩

/-- non-vacuity: a list result with grades 0, 1/2, 1 at attempt 3 under the default linear schedule (credit 0.6) -/
example : applyAttempt (linearCredit 1 4 (1/5)) true (some 3)
      (.list "" [⟨.no, 0, ""⟩, ⟨.part, 1/2, "m"⟩, ⟨.yes, 1, ""⟩])
    = .ok (.list "Maximum credit for attempt #3 is 60%."
        [⟨.no, 0, ""⟩, ⟨.part, 3/10, "m"⟩, ⟨.part, 3/5, ""⟩]) := by decide +kernel

end C17

import Mitx.Model.Restrict
import Mitx.Props.C10
import Mitx.Props.C13
/-! # C09 — restrictions on student formulas cannot be bypassed to obtain credit

Model: `Rs.checkMath` (`check_math_response` + `post_eval_validation`), `Rs.isPermitted` (`get_permitted_functions`),
`Rs.forbiddenUsed`, `Rs.checkScope`, `Rs.studentScope`. The numeric verdict `raw` is a parameter: whatever it is, credit is
never returned for a formula that uses a restricted construct **anywhere** in its tree — by `C10.usage_exact`, the names
the validators see are exactly the names occurring in the parse tree. -/
namespace C09
open Rs C03

/-! ### credit implies a clean formula -/

/-- **Whenever credit is awarded (correct, partial, or any positive grade) the formula passed every restriction** -/
theorem credit_implies_clean {cfg : Cfg} {raw r : At.Res} {exprs used : List String}
    (h : checkMath cfg raw exprs used = .ok r) (hc : r.ok = .yes ∨ r.ok = .part ∨ r.grade > 0) :
    forbiddenUsed exprs cfg.forbidden = false ∧ (∀ f ∈ cfg.required, f ∈ used) ∧
    (∀ f ∈ used, isPermitted cfg.defaults cfg.whitelist cfg.blacklist cfg.userFuncs f = true) := by
  unfold checkMath at h
  split at h
  · cases hp : postEval cfg exprs used with
    | some x => rw [hp] at h; cases h
    | none =>
      unfold postEval at hp
      split at hp
      · cases hp
      · rename_i hf
        split at hp
        · cases hp
        · rename_i hreq
          dsimp only at hp
          split at hp
          · rename_i hbad
            refine ⟨by simpa using hf, ?_, ?_⟩
            · intro f hfm
              have := List.find?_eq_none.mp hreq f hfm
              simpa using this
            · intro f hfu
              have hb : used.filter (fun f => !isPermitted cfg.defaults cfg.whitelist cfg.blacklist cfg.userFuncs f) = [] := by
                simpa using hbad
              have := List.filter_eq_nil_iff.mp hb f hfu
              simpa using this
          · cases hp
  · rename_i hno
    cases h
    exact (hno hc).elim

theorem checkMath_ok_eq {cfg : Cfg} {raw r : At.Res} {exprs used : List String}
    (h : checkMath cfg raw exprs used = .ok r) : r = raw := by
  unfold checkMath at h
  split at h
  · cases hp : postEval cfg exprs used with
    | some x => rw [hp] at h; cases h
    | none => rw [hp] at h; cases h; rfl
  · cases h; rfl

/-- contrapositive, per construct: a formula that would earn credit is refused if it contains a forbidden string -/
theorem forbidden_string_refused {cfg : Cfg} {raw : At.Res} {exprs used : List String}
    (hc : raw.ok = .yes ∨ raw.ok = .part ∨ raw.grade > 0) (hf : forbiddenUsed exprs cfg.forbidden = true) :
    checkMath cfg raw exprs used = .error .forbidden := by
  simp [checkMath, hc, postEval, hf]

/-- … if it omits a required function -/
theorem missing_required_refused {cfg : Cfg} {raw : At.Res} {exprs used : List String} {f : String}
    (hc : raw.ok = .yes ∨ raw.ok = .part ∨ raw.grade > 0) (hr : f ∈ cfg.required) (hu : f ∉ used) :
    ∃ e, checkMath cfg raw exprs used = .error e := by
  cases h : checkMath cfg raw exprs used with
  | error e => exact ⟨e, rfl⟩
  | ok r =>
    exfalso
    have hr' : r = raw := checkMath_ok_eq h
    subst hr'
    exact hu ((credit_implies_clean h hc).2.1 f hr)

/-- … if it calls a function outside the permitted set -/
theorem not_permitted_refused {cfg : Cfg} {raw : At.Res} {exprs used : List String} {f : String}
    (hc : raw.ok = .yes ∨ raw.ok = .part ∨ raw.grade > 0) (hu : f ∈ used)
    (hp : isPermitted cfg.defaults cfg.whitelist cfg.blacklist cfg.userFuncs f = false) :
    ∃ e, checkMath cfg raw exprs used = .error e := by
  cases h : checkMath cfg raw exprs used with
  | error e => exact ⟨e, rfl⟩
  | ok r =>
    exfalso
    have hr' : r = raw := checkMath_ok_eq h
    subst hr'
    have := (credit_implies_clean h hc).2.2 f hu
    rw [hp] at this; cases this

/-- a formula that earns nothing is returned as graded (no error is invented) -/
theorem no_credit_passthrough {cfg : Cfg} {raw : At.Res} {exprs used : List String}
    (hc : ¬ (raw.ok = .yes ∨ raw.ok = .part ∨ raw.grade > 0)) : checkMath cfg raw exprs used = .ok raw := by
  simp [checkMath, hc]

/-- **anywhere in the tree**: a call of a non-permitted function in any sub-expression (argument position, array entry,
exponent, cancelling term) is seen by the validator, because the usage set is exactly the set of names of the tree -/
theorem hidden_call_refused {cfg : Cfg} {raw : At.Res} {exprs : List String} {ts : List Tok} {t : T} {sc : Sc} {f : String}
    (hparse : parseUsage ts = some (t, sc)) (hocc : (Kind.func, f) ∈ names t)
    (hc : raw.ok = .yes ∨ raw.ok = .part ∨ raw.grade > 0)
    (hp : isPermitted cfg.defaults cfg.whitelist cfg.blacklist cfg.userFuncs f = false) :
    ∃ e, checkMath cfg raw exprs (pick .func sc) = .error e := by
  apply not_permitted_refused hc _ hp
  have hm : (Kind.func, f) ∈ sc := (C10.usage_exact hparse _).mpr hocc
  simp only [pick, List.mem_map, List.mem_filter, beq_iff_eq]
  exact ⟨(Kind.func, f), ⟨hm, rfl⟩, rfl⟩

/-! ### the permitted set -/

/-- closed form of `get_permitted_functions` -/
theorem permitted_spec (defaults blacklist always : List String) (wl : Whitelist) (f : String) :
    isPermitted defaults wl blacklist always f = true ↔
      match wl with
      | .unset => (f ∈ always ∨ f ∈ defaults) ∧ f ∉ blacklist
      | .nothing => f ∈ always
      | .only l => f ∈ always ∨ f ∈ l := by
  cases wl <;> simp [isPermitted]

/-- a blacklisted default function is never permitted; a default outside a whitelist is never permitted; with
`whitelist=[None]` only the author's own functions are -/
theorem blacklisted_not_permitted (defaults blacklist always : List String) (f : String) (h : f ∈ blacklist) :
    isPermitted defaults .unset blacklist always f = false := by
  simp [isPermitted, h]

theorem not_whitelisted_not_permitted (defaults blacklist always l : List String) (f : String) (h1 : f ∉ l) (h2 : f ∉ always) :
    isPermitted defaults (.only l) blacklist always f = false := by
  simp [isPermitted, h1, h2]

/-! ### forbidden strings ignore spaces -/

theorem isPrefix_iff (n h : List Char) : isPrefix n h = true ↔ ∃ b, h = n ++ b := by
  induction n generalizing h with
  | nil => simp [isPrefix]
  | cons a as ih =>
    cases h with
    | nil => simp [isPrefix]
    | cons b bs =>
      simp only [isPrefix, Bool.and_eq_true, beq_iff_eq, ih, List.cons_append, List.cons.injEq]
      constructor
      · rintro ⟨rfl, c, rfl⟩; exact ⟨c, rfl, rfl⟩
      · rintro ⟨c, rfl, rfl⟩; exact ⟨rfl, c, rfl⟩

/-- `isSubstr` is Python's substring test -/
theorem isSubstr_iff (n h : List Char) : isSubstr n h = true ↔ ∃ a b, h = a ++ n ++ b := by
  induction h with
  | nil =>
    simp only [isSubstr, List.isEmpty_iff]
    constructor
    · rintro rfl; exact ⟨[], [], rfl⟩
    · rintro ⟨a, b, h⟩
      have := congrArg List.length h
      simp at this
      exact List.eq_nil_of_length_eq_zero (by omega)
  | cons c r ih =>
    simp only [isSubstr, Bool.or_eq_true, isPrefix_iff, ih]
    constructor
    · rintro (⟨b, hb⟩ | ⟨a, b, hab⟩)
      · exact ⟨[], b, by simpa using hb⟩
      · exact ⟨c :: a, b, by simp [hab]⟩
    · rintro ⟨a, b, hab⟩
      cases a with
      | nil => left; exact ⟨b, by simpa using hab⟩
      | cons x xs =>
        right
        simp only [List.cons_append, List.cons.injEq] at hab
        exact ⟨xs, b, hab.2⟩

/-- two spellings of the formula (or of the forbidden string) that differ only by spaces are treated alike -/
theorem forbidden_ignores_spaces (e1 e2 : String) (F : List String) (h : stripSpaces e1.toList = stripSpaces e2.toList) :
    forbiddenUsed [e1] F = forbiddenUsed [e2] F := by
  simp [forbiddenUsed, h]

theorem stripSpaces_idem (s : List Char) : stripSpaces (stripSpaces s) = stripSpaces s := by
  simp [stripSpaces, List.filter_filter]

theorem stripSpaces_append (a b : List Char) : stripSpaces (a ++ b) = stripSpaces a ++ stripSpaces b := by
  simp [stripSpaces]

theorem stripSpaces_space (a b : List Char) : stripSpaces (a ++ ' ' :: b) = stripSpaces (a ++ b) := by
  simp [stripSpaces]

/-! ### names outside the student's scope are undefined, whatever their value would be -/

theorem mem_pick (k : Kind) (sc : Sc) (x : String) : x ∈ pick k sc ↔ (k, x) ∈ sc := by
  simp only [pick, List.mem_map, List.mem_filter, beq_iff_eq]
  constructor
  · rintro ⟨p, ⟨hp, hk⟩, rfl⟩
    have : p = (k, p.2) := by rw [← hk]
    rw [← this]; exact hp
  · intro h; exact ⟨(k, x), ⟨h, rfl⟩, rfl⟩

/-- **A variable that occurs anywhere in the tree and is not in the student's scope makes the formula undefined** — the
check happens before evaluation and does not depend on any value (`+z-z`, `z^0`, `0*z` are refused alike) -/
theorem hidden_name_undefined {vars funcs sufs : String → Bool} {ts : List Tok} {t : T} {sc : Sc} {z : String}
    (hparse : parseUsage ts = some (t, sc)) (hocc : (Kind.var, z) ∈ names t) (hz : vars z = false) :
    ∃ l, checkScope vars funcs sufs sc = some (.undefinedVariable l) ∧ z ∈ l := by
  have hm : z ∈ pick .var sc := (mem_pick _ _ _).mpr ((C10.usage_exact hparse _).mpr hocc)
  have hbv : z ∈ (pick .var sc).filter (fun v => !vars v) := by
    simp only [List.mem_filter, Bool.not_eq_eq_eq_not, Bool.not_true]
    exact ⟨hm, hz⟩
  unfold checkScope
  have hne : ((pick .var sc).filter (fun v => !vars v)).isEmpty = false := by
    cases hh : (pick .var sc).filter (fun v => !vars v) with
    | nil => rw [hh] at hbv; cases hbv
    | cons a b => rfl
  simp only [hne, Bool.not_false, ↓reduceIte]
  exact ⟨_, rfl, (C13.mem_sortedSet _ _).mpr hbv⟩

/-- an unknown function anywhere in the tree is an UndefinedFunction error (after the variables have been checked) -/
theorem hidden_function_undefined {vars funcs sufs : String → Bool} {ts : List Tok} {t : T} {sc : Sc} {f : String}
    (hparse : parseUsage ts = some (t, sc)) (hocc : (Kind.func, f) ∈ names t) (hf : funcs f = false) :
    ∃ e, checkScope vars funcs sufs sc = some e ∧ (∀ l, e ≠ .undefinedSuffix l) := by
  have hm : f ∈ pick .func sc := (mem_pick _ _ _).mpr ((C10.usage_exact hparse _).mpr hocc)
  have hbf : f ∈ (pick .func sc).filter (fun v => !funcs v) := by
    simp only [List.mem_filter, Bool.not_eq_eq_eq_not, Bool.not_true]
    exact ⟨hm, hf⟩
  unfold checkScope
  by_cases hv : ((pick .var sc).filter (fun v => !vars v)).isEmpty = true
  · have hne : ((pick .func sc).filter (fun v => !funcs v)).isEmpty = false := by
      cases hh : (pick .func sc).filter (fun v => !funcs v) with
      | nil => rw [hh] at hbf; cases hbf
      | cons a b => rfl
    simp only [hv, Bool.not_true, Bool.false_eq_true, ↓reduceIte, hne, Bool.not_false]
    exact ⟨_, rfl, by intro l h; cases h⟩
  · have hv' : ((pick .var sc).filter (fun v => !vars v)).isEmpty = false := by simpa using hv
    simp only [hv', Bool.not_false, ↓reduceIte]
    exact ⟨_, rfl, by intro l h; cases h⟩

/-- a formula all of whose names are in scope passes the scope check -/
theorem scope_ok {vars funcs sufs : String → Bool} {sc : Sc}
    (hv : ∀ x, (Kind.var, x) ∈ sc → vars x = true) (hf : ∀ x, (Kind.func, x) ∈ sc → funcs x = true)
    (hs : ∀ x, (Kind.suf, x) ∈ sc → sufs x = true) : checkScope vars funcs sufs sc = none := by
  have e1 : (pick .var sc).filter (fun v => !vars v) = [] := by
    apply List.filter_eq_nil_iff.mpr; intro a ha; simp [hv a ((mem_pick _ _ _).mp ha)]
  have e2 : (pick .func sc).filter (fun v => !funcs v) = [] := by
    apply List.filter_eq_nil_iff.mpr; intro a ha; simp [hf a ((mem_pick _ _ _).mp ha)]
  have e3 : (pick .suf sc).filter (fun v => !sufs v) = [] := by
    apply List.filter_eq_nil_iff.mpr; intro a ha; simp [hs a ((mem_pick _ _ _).mp ha)]
  simp [checkScope, e1, e2, e3]

/-- instructor-only and sibling variables are never in the student's scope, even though they are sampled -/
theorem instructor_and_sibling_hidden (sample instr sibs : List String) (v : String)
    (h : (v ∈ instr ∧ v ∈ sample) ∨ v ∈ sibs) : studentScope sample instr sibs v = false := by
  unfold studentScope
  rcases h with ⟨h1, h2⟩ | h
  · simp [h1, h2]
  · simp [h]

theorem declared_in_scope (sample instr sibs : List String) (v : String)
    (h1 : v ∈ sample) (h2 : v ∉ instr) (h3 : v ∉ sibs) : studentScope sample instr sibs v = true := by
  simp [studentScope, h1, h2, h3]

end C09

namespace C09
open C03 Rs

/-- the scratch sets of the three formula entries of a sum / integral -/
def entrySc (l u b : Sc) : Entry → Sc
  | .lower => l | .upper => u | .body => b

/-- **A typed entry may not mention an instructor variable**: whichever of the limits or the summand / integrand the student is
asked for, an instructor-only variable occurring anywhere in it (cancelling or not) makes the submission a scope error — the whole
check never returns "no error". (F13 changed the scope of the *other* entries only.) -/
theorem typed_entry_hidden {sample instr : List String} {funcs sufs : String → Bool} {asked : Entry → Bool} {dummy : String}
    {tl tu tb : List Tok} {l u b : T} {scl scu scb : Sc} {e : Entry} {z : String}
    (hl : parseUsage tl = some (l, scl)) (hu : parseUsage tu = some (u, scu)) (hb : parseUsage tb = some (b, scb))
    (hasked : asked e = true) (hz : z ∈ instr) (hzs : z ∈ sample) (hd : z ≠ dummy)
    (hocc : (Kind.var, z) ∈ names (match e with | .lower => l | .upper => u | .body => b)) :
    sumScopeCheck sample instr funcs sufs asked dummy scl scu scb ≠ none := by
  have hhid : entryScope sample instr asked e z = false := by
    simp only [entryScope, hasked, ↓reduceIte]
    exact instructor_and_sibling_hidden sample instr [] z (Or.inl ⟨hz, hzs⟩)
  unfold sumScopeCheck
  cases e with
  | lower =>
    obtain ⟨lst, h1, _⟩ := hidden_name_undefined (vars := entryScope sample instr asked .lower) (funcs := funcs) (sufs := sufs) hl hocc hhid
    simp [h1]
  | upper =>
    cases h0 : checkScope (entryScope sample instr asked .lower) funcs sufs scl with
    | some _ => simp
    | none =>
      obtain ⟨lst, h1, _⟩ := hidden_name_undefined (vars := entryScope sample instr asked .upper) (funcs := funcs) (sufs := sufs) hu hocc hhid
      simp [h1]
  | body =>
    cases h0 : checkScope (entryScope sample instr asked .lower) funcs sufs scl with
    | some _ => simp
    | none =>
      cases h1 : checkScope (entryScope sample instr asked .upper) funcs sufs scu with
      | some _ => simp
      | none =>
        have hb' : bodyScope sample instr asked dummy z = false := by
          simp only [bodyScope, hhid, Bool.or_false, beq_eq_false_iff_ne, ne_eq]; exact hd
        obtain ⟨lst, h2, _⟩ := hidden_name_undefined (vars := bodyScope sample instr asked dummy) (funcs := funcs) (sufs := sufs) hb hocc hb'
        simp [h2]

/-- **The author's own entries remain free to use instructor variables** (F13): when every name of every entry is a sampled name
(instructor variables included) for the entries the student is NOT asked for, a name of the student's scope for the typed ones, or
the dummy variable in the body, and all functions / suffixes are known, the student's evaluation passes the scope checks. -/
theorem author_entries_free {sample instr : List String} {funcs sufs : String → Bool} {asked : Entry → Bool} {dummy : String}
    {scl scu scb : Sc}
    (hv : ∀ e x, (Kind.var, x) ∈ entrySc scl scu scb e → (e = .body ∧ x = dummy) ∨
        (if asked e then studentScope sample instr [] x = true else x ∈ sample))
    (hf : ∀ e x, (Kind.func, x) ∈ entrySc scl scu scb e → funcs x = true)
    (hs : ∀ e x, (Kind.suf, x) ∈ entrySc scl scu scb e → sufs x = true) :
    sumScopeCheck sample instr funcs sufs asked dummy scl scu scb = none := by
  have scopeOf : ∀ e x, (Kind.var, x) ∈ entrySc scl scu scb e → ¬(e = .body ∧ x = dummy) → entryScope sample instr asked e x = true := by
    intro e x hx hnd
    rcases hv e x hx with h | h
    · exact absurd h hnd
    · unfold entryScope
      by_cases ha : asked e = true
      · simpa [ha] using h
      · have ha' : asked e = false := by simpa using ha
        simp only [ha', Bool.false_eq_true, ↓reduceIte] at h ⊢
        simpa using h
  have h1 : checkScope (entryScope sample instr asked .lower) funcs sufs scl = none :=
    scope_ok (fun x hx => scopeOf .lower x hx (by simp)) (hf .lower) (hs .lower)
  have h2 : checkScope (entryScope sample instr asked .upper) funcs sufs scu = none :=
    scope_ok (fun x hx => scopeOf .upper x hx (by simp)) (hf .upper) (hs .upper)
  have h3 : checkScope (bodyScope sample instr asked dummy) funcs sufs scb = none := by
    apply scope_ok _ (hf .body) (hs .body)
    intro x hx
    unfold bodyScope
    by_cases hd : x = dummy
    · simp [hd]
    · have := scopeOf .body x hx (by simp [hd])
      simp [this]
  simp [sumScopeCheck, h1, h2, h3]

end C09

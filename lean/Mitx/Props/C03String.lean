import Mitx.Props.C03
import Mitx.Parser.LexPrint
/-! # C03 — from STRINGS to values

`round_trip_executable` starts from the token list `render e`. For expressions whose leaves are plain (numbers that are
digit strings, names made of a letter followed by letters and digits — the vocabulary of ordinary formulas) the remaining step
is proved here: the model lexer reads the printed text of the rendering back as exactly that token list, wherever spaces are put. -/
namespace C03

/-- **String round trip.** For every expression tree with plain leaves, the TEXT of its minimal-parenthesis rendering is lexed
and parsed, by the executable functions the correspondence run drives, to a tree whose value is the textbook value of the
expression — in any operator algebra. -/
theorem string_round_trip {V : Type} (A : Alg V) (e : E) (hp : plainE e = true) :
    ∃ t, parseString (printStr (render e)) = some t ∧ evalT A t = denote A e := by
  obtain ⟨t, ht, hv⟩ := round_trip_executable A e
  exact ⟨t, by simp [parseString, lex_render e hp, ht], hv⟩

/-- **Spaces are insignificant**: two strings with the same non-space characters lex (hence parse and evaluate) alike -/
theorem spaces_insignificant (s s' : String) (h : s.toList.filter (· != ' ') = s'.toList.filter (· != ' ')) :
    parseString s = parseString s' := by
  simp only [parseString, lex, h]

/-- string round trip with spaces inserted anywhere -/
theorem string_round_trip_spaced {V : Type} (A : Alg V) (e : E) (hp : plainE e = true) (s : String)
    (hs : s.toList.filter (· != ' ') = (printStr (render e)).toList.filter (· != ' ')) :
    ∃ t, parseString s = some t ∧ evalT A t = denote A e := by
  rw [spaces_insignificant s _ hs]; exact string_round_trip A e hp

/-! non-vacuity: `-((a + 12)*f(x, 3)^2) || y1`, with and without spaces -/
open E in
example : plainE (par (neg (mul (add (var "a") (num "12" none)) (pow (call "f" (var "x") [num "3" none]) (num "2" none)))) (var "y1") []) = true ∧
    printStr (render (par (neg (mul (add (var "a") (num "12" none)) (pow (call "f" (var "x") [num "3" none]) (num "2" none)))) (var "y1") [])) = "-((a+12)*f(x,3)^2)||y1" ∧
    (parseString " - ((a + 12) * f(x, 3)^2) || y1").isSome = true := by
  decide +kernel

end C03

import Mitx.Model.Schema
import Mitx.Lemmas.Answers
import Mitx.Generated.Schemas
import Mitx.Model.SchemaTables
/-! # C20 — configuration validation enforces documented option domains and fills defaults

Model: `Sc.accepts` / `Sc.validateDict` (the fragment of voluptuous the library uses). The schemas themselves are
**regenerated from the live classes** on every run (`Mitx/Generated/Schemas.lean`); the generic theorems hold for every schema
of the fragment and the obligations at the end are about the regenerated ones. -/
namespace C20
open Sc

variable (prims : String → PyVal → Bool)

theorem mem_of_lookup {l : List (String × PyVal)} {k : String} {v : PyVal} (h : l.lookup k = some v) : (k, v) ∈ l := by
  induction l with
  | nil => cases h
  | cons p ps ih =>
    obtain ⟨a, b⟩ := p
    simp only [List.lookup] at h
    split at h
    · rename_i he
      have : k = a := by simpa using he
      cases h; subst this; simp
    · exact List.mem_cons_of_mem _ (ih h)

theorem keys_subset : ∀ (fields : List Field) (cfg out : List (String × PyVal)),
    validateFields prims fields cfg = .ok out → ∀ k ∈ out.map (·.1), k ∈ fields.map (·.name) := by
  intro fields
  induction fields with
  | nil => intro cfg out h; simp [validateFields] at h; subst h; simp
  | cons f fs ih =>
    intro cfg out h k hk
    simp only [validateFields] at h
    split at h
    · split at h
      · cases hr : validateFields prims fs cfg with
        | error e => rw [hr] at h; cases h
        | ok r =>
          rw [hr] at h; simp only [Except.map] at h; cases h
          simp only [List.map_cons, List.mem_cons] at hk ⊢
          rcases hk with rfl | hk
          · exact Or.inl rfl
          · exact Or.inr (ih cfg r hr k hk)
      · cases h
    · split at h
      · cases hr : validateFields prims fs cfg with
        | error e => rw [hr] at h; cases h
        | ok r =>
          rw [hr] at h; simp only [Except.map] at h; cases h
          simp only [List.map_cons, List.mem_cons] at hk ⊢
          rcases hk with rfl | hk
          · exact Or.inl rfl
          · exact Or.inr (ih cfg r hr k hk)
      · split at h
        · cases h
        · simp only [List.map_cons, List.mem_cons]
          exact Or.inr (ih cfg out h k hk)

/-- **Every option is present in the validated configuration, carrying the supplied value or its default**: for each option
of the schema that is supplied or has a default, the result binds it — to the supplied value when there is one, to the
default otherwise (option names are distinct) -/
theorem defaults_filled : ∀ (fields : List Field) (cfg out : List (String × PyVal)),
    (fields.map (·.name)).Nodup → validateFields prims fields cfg = .ok out →
    ∀ f ∈ fields, out.lookup f.name = (match cfg.lookup f.name with | some v => some v | Option.none => f.default) := by
  intro fields
  induction fields with
  | nil => intro cfg out _ _ f hf; cases hf
  | cons g gs ih =>
    intro cfg out hnd h f hf
    have hnd' := List.nodup_cons.mp hnd
    simp only [List.map_cons] at hnd'
    simp only [validateFields] at h
    -- a helper: a later field's name differs from g's
    have hne : ∀ f ∈ gs, f.name ≠ g.name := by
      intro f hf e; exact hnd'.1 (List.mem_map.mpr ⟨f, hf, e⟩)
    split at h
    · rename_i v hv
      split at h
      · cases hr : validateFields prims gs cfg with
        | error e => rw [hr] at h; cases h
        | ok r =>
          rw [hr] at h; simp only [Except.map] at h; cases h
          rcases List.mem_cons.mp hf with rfl | hf
          · simp [List.lookup, hv]
          · have : (f.name == g.name) = false := by simpa using hne f hf
            simp only [List.lookup, this]
            exact ih cfg r hnd'.2 hr f hf
      · cases h
    · rename_i hv
      split at h
      · rename_i d hd
        cases hr : validateFields prims gs cfg with
        | error e => rw [hr] at h; cases h
        | ok r =>
          rw [hr] at h; simp only [Except.map] at h; cases h
          rcases List.mem_cons.mp hf with rfl | hf
          · simp [List.lookup, hv, hd]
          · have : (f.name == g.name) = false := by simpa using hne f hf
            simp only [List.lookup, this]
            exact ih cfg r hnd'.2 hr f hf
      · rename_i hd
        split at h
        · cases h
        · rcases List.mem_cons.mp hf with rfl | hf
          · -- optional key without default that was not supplied: absent from the result
            have hnot : f.name ∉ out.map (·.1) := fun hk => hnd'.1 (keys_subset prims gs cfg out h _ hk)
            rw [hv, hd]
            cases hl : out.lookup f.name with
            | none => rfl
            | some w =>
              exfalso; apply hnot
              have := mem_of_lookup hl
              exact List.mem_map.mpr ⟨(f.name, w), this, rfl⟩
          · exact ih cfg out hnd'.2 h f hf

/-- **Unknown option names are rejected** (unless the schema allows extra keys) -/
theorem unknown_key_rejected (fields : List Field) (cfg : List (String × PyVal)) (k : String)
    (hk : k ∈ cfg.map (·.1)) (hu : ∀ f ∈ fields, f.name ≠ k) :
    ∃ k', validateDict prims fields false cfg = .error (.unknownKey k') := by
  unfold validateDict
  have hmem : k ∈ unknownKeys fields cfg := by
    simp only [unknownKeys, List.mem_filter, Bool.not_eq_eq_eq_not, Bool.not_true, List.any_eq_false, beq_iff_eq]
    exact ⟨hk, fun f hf => hu f hf⟩
  cases hl : unknownKeys fields cfg with
  | nil => rw [hl] at hmem; cases hmem
  | cons k' ks => exact ⟨k', by simp⟩

/-- an out-of-domain value of a known option is rejected, naming the option -/
theorem invalid_value_rejected : ∀ (fields : List Field) (cfg : List (String × PyVal)) (f : Field) (v : PyVal),
    f ∈ fields → cfg.lookup f.name = some v → accepts prims f.spec v = false →
    (fields.map (·.name)).Nodup → ∃ e, validateFields prims fields cfg = .error e := by
  intro fields
  induction fields with
  | nil => intro cfg f v hf; cases hf
  | cons g gs ih =>
    intro cfg f v hf hv hacc hnd
    have hnd' := List.nodup_cons.mp hnd
    rcases List.mem_cons.mp hf with rfl | hf
    · exact ⟨.invalid f.name, by simp [validateFields, hv, hacc]⟩
    · obtain ⟨e, he⟩ := ih cfg f v hf hv hacc hnd'.2
      simp only [validateFields]
      split
      · split
        · exact ⟨e, by simp [he, Except.map]⟩
        · exact ⟨_, rfl⟩
      · split
        · exact ⟨e, by simp [he, Except.map]⟩
        · split
          · exact ⟨_, rfl⟩
          · exact ⟨e, he⟩

/-- re-validation with a prefix of already validated options in front -/
theorem revalidate_aux : ∀ (fields : List Field) (cfg out pre : List (String × PyVal)),
    (fields.map (·.name)).Nodup → (∀ f ∈ fields, ∀ d, f.default = some d → accepts prims f.spec d = true) →
    (∀ f ∈ fields, f.name ∉ pre.map (·.1)) →
    validateFields prims fields cfg = .ok out → validateFields prims fields (pre ++ out) = .ok out := by
  intro fields
  induction fields with
  | nil => intro cfg out pre _ _ _ h; simp [validateFields] at h ⊢; exact h
  | cons g gs ih =>
    intro cfg out pre hnd hdef hpre h
    have hnd' := List.nodup_cons.mp hnd
    simp only [List.map_cons] at hnd'
    have hgpre : pre.lookup g.name = Option.none := by
      cases hl : pre.lookup g.name with
      | none => rfl
      | some w =>
        exfalso; apply hpre g (by simp)
        exact List.mem_map.mpr ⟨(g.name, w), mem_of_lookup hl, rfl⟩
    have hne : ∀ f ∈ gs, f.name ≠ g.name := by
      intro f hf e; exact hnd'.1 (List.mem_map.mpr ⟨f, hf, e⟩)
    -- the common step once the head binding (g.name, v) is known to be accepted
    have step : ∀ (v : PyVal) (r : List (String × PyVal)), accepts prims g.spec v = true →
        validateFields prims gs cfg = .ok r → validateFields prims (g :: gs) (pre ++ (g.name, v) :: r) = .ok ((g.name, v) :: r) := by
      intro v r hacc hr
      have hl : (pre ++ (g.name, v) :: r).lookup g.name = some v := by
        rw [List.lookup_append, hgpre]; simp [List.lookup]
      have hrec := ih cfg r (pre ++ [(g.name, v)]) hnd'.2 (fun f hf => hdef f (by simp [hf]))
        (by
          intro f hf
          simp only [List.map_append, List.map_cons, List.map_nil, List.mem_append, List.mem_singleton, not_or]
          exact ⟨hpre f (by simp [hf]), hne f hf⟩) hr
      simp only [validateFields, hl, hacc, ↓reduceIte]
      have e : pre ++ (g.name, v) :: r = (pre ++ [(g.name, v)]) ++ r := by simp
      rw [e, hrec]; rfl
    simp only [validateFields] at h
    split at h
    · rename_i v hv
      split at h
      · rename_i hacc
        cases hr : validateFields prims gs cfg with
        | error e => rw [hr] at h; cases h
        | ok r =>
          rw [hr] at h; simp only [Except.map] at h; cases h
          exact step v r hacc hr
      · cases h
    · rename_i hv
      split at h
      · rename_i d hd
        cases hr : validateFields prims gs cfg with
        | error e => rw [hr] at h; cases h
        | ok r =>
          rw [hr] at h; simp only [Except.map] at h; cases h
          exact step d r (hdef g (by simp) d hd) hr
      · rename_i hd
        split at h
        · cases h
        · rename_i hreq
          have hnot : g.name ∉ out.map (·.1) := fun hk => hnd'.1 (keys_subset prims gs cfg out h _ hk)
          have hl : (pre ++ out).lookup g.name = Option.none := by
            rw [List.lookup_append, hgpre]
            cases hlo : out.lookup g.name with
            | none => rfl
            | some w => exact absurd (List.mem_map.mpr ⟨(g.name, w), mem_of_lookup hlo, rfl⟩) hnot
          simp only [validateFields, hl, hd, hreq, Bool.false_eq_true, ↓reduceIte]
          exact ih cfg out pre hnd'.2 (fun f hf => hdef f (by simp [hf])) (fun f hf => hpre f (by simp [hf])) h

/-- **Validation is idempotent: a constructed object's configuration validates to itself** — provided option names are
distinct and every default lies in the domain of its own option (both are obligations on the regenerated schemas below) -/
theorem validate_idempotent (fields : List Field) (cfg out : List (String × PyVal))
    (hnd : (fields.map (·.name)).Nodup) (hdef : ∀ f ∈ fields, ∀ d, f.default = some d → accepts prims f.spec d = true)
    (h : validateFields prims fields cfg = .ok out) : validateFields prims fields out = .ok out := by
  simpa using revalidate_aux prims fields cfg out [] hnd hdef (by simp) h

/-- keyword-argument and dictionary forms go through the same validation: the result depends on the supplied bindings only
through `lookup` (so on the set of bindings with first-wins, not on how they were passed) -/
theorem validate_depends_on_lookup : ∀ (fields : List Field) (c1 c2 : List (String × PyVal)),
    (∀ k, c1.lookup k = c2.lookup k) → validateFields prims fields c1 = validateFields prims fields c2 := by
  intro fields
  induction fields with
  | nil => intro c1 c2 _; rfl
  | cons f fs ih =>
    intro c1 c2 h
    simp only [validateFields, h f.name, ih c1 c2 h]

/-! ### obligations on the schemas regenerated from the live classes -/

def specFields : Spec → List Field
  | .dict fields _ => fields
  | _ => []

/-- in every class's schema: option names are distinct and every default lies in the domain of its own option -/
theorem generated_schemas_wellformed :
    ∀ p ∈ GenSch.all, (fieldNames (specFields p.2)).Nodup ∧ defaultsOK (specFields p.2) = true := by
  decide +kernel

/-- the regenerated schemas are the documented ones (option names, required/optional, defaults, domains) -/
theorem generated_schemas_match_documented : GenSch.fingerprint = Sch.fingerprint := rfl


/-! ## answers are normalised to the canonical tuple of dictionaries -/

/-- **Canonical answers.** Whatever form the author used (bare expect value or dictionary, single value or tuple of
    alternatives), a validated answer has all four keys, a credit in [0,1], and an `ok` that is the one computed from the credit
    unless the credit is exactly 1 (only a full-credit answer can carry a pinned `ok`). -/
theorem answers_canonical {ε δ : Type} {vExp : ε → Option δ} {d : Option (List δ)} {r : Av.Raw ε} {c : Av.Canon δ}
    (h : Av.validateSingle vExp d r = some c) :
    0 ≤ c.grade ∧ c.grade ≤ 1 ∧ (c.ok ≠ At.gradeToOk c.grade → c.grade = 1) :=
  Av.validate_canonical h

/-- the bare form and the dictionary form of an answer are equivalent (for graders whose expect values are never themselves
    dictionaries, so that the "whole dictionary as an expect value" fallback cannot apply) -/
theorem answers_bare_eq_dict {ε δ : Type} (vExp : ε → Option δ) (x : Av.Exp ε) :
    Av.validateSingle vExp none (.bare x) = Av.validateSingle vExp none (.dict (some x) none none none false) := by
  rw [Av.bare_eq_dict]
  simp only [Av.validateSingle]
  cases Av.schemaAnswer vExp (some x) none none none false <;> rfl

/-- **Constructing again from the exposed configuration yields the same answers**: re-validating a canonical answer is the
    identity (given that `validate_expect` accepts its own outputs unchanged) -/
theorem answers_revalidate {ε δ : Type} {vExp : ε → Option δ} {d : Option (List δ)} {r : Av.Raw ε} {c : Av.Canon δ}
    (h : Av.validateSingle vExp d r = some c) (v : δ → Option δ) (d' : Option (List δ)) (hexp : ∀ e ∈ c.expect, v e = some e) :
    Av.validateSingle v d' c.toRaw = some c := by
  obtain ⟨h0, h1, hok⟩ := Av.validate_canonical h
  exact Av.revalidate_canonical v d' c hexp h0 h1 hok

/-- validated answers meet the well-formedness hypothesis of the C01 grader-tree theorems -/
theorem validated_answers_meet_C01_hypothesis {ε : Type} {vExp : ε → Option String} {d : Option (List String)}
    {answers : List (Av.Raw ε)} {cs : List (Av.Canon String)} (h : Av.schemaAnswers vExp d answers = some cs) :
    Gr.AnsWF true (cs.map Av.toAnswer) ∧ ((∀ c ∈ cs, c.ok = At.gradeToOk c.grade) → Gr.AnsWF false (cs.map Av.toAnswer)) :=
  Av.validated_answers_wf h

example : Av.schemaAnswers (fun (e : Option String) => e) none
    [.bare (.one (some "cat")), .dict (some (.tuple [some "dog", some "wolf"])) (some (1/2)) (some "m") none false]
    = some [⟨["cat"], 1, "", .yes⟩, ⟨["dog", "wolf"], 1/2, "m", .part⟩] := by decide +kernel
example : Av.schemaAnswers (fun (e : Option String) => e) none [.dict (some (.one (some "cat"))) (some (3/2)) none none false] = none := by
  decide +kernel

end C20

import Mitx.Model.StringG
import Mitx.Lemmas.StringClean
import Mathlib.Tactic.Linarith
/-! # C18 — StringGrader matches exactly the inputs equal after the configured cleaning

Model: `SG.clean`, `SG.checkResponse` (regex verdicts and case folding are parameters). -/
namespace C18
open SG Gr

def isControl (c : Char) : Prop := c = '\t' ∨ c = '\r' ∨ c = '\n'

/-! ## what cleaning does to a string -/

theorem replace1_no (a : Char) (l : List Char) (ha : a ≠ ' ') : a ∉ replace1 a l := by
  unfold replace1
  intro h
  obtain ⟨c, _, hc⟩ := List.mem_map.mp h
  by_cases hca : c = a
  · simp [hca] at hc; exact ha hc.symm
  · have : (c == a) = false := by simpa using hca
    simp [this] at hc; exact hca hc

theorem replace1_mem {a : Char} {l : List Char} {x : Char} (h : x ∈ replace1 a l) : x = ' ' ∨ x ∈ l := by
  unfold replace1 at h
  obtain ⟨c, hc, rfl⟩ := List.mem_map.mp h
  by_cases hca : (c == a) = true
  · simp [hca]
  · simp [hca, hc]

theorem replace2_mem (a b : Char) : ∀ (l : List Char) (x : Char), x ∈ replace2 a b l → x = ' ' ∨ x ∈ l := by
  intro l
  induction l using replace2.induct a b with
  | case1 x y r hc ih =>
    intro z hz; rw [replace2, if_pos hc] at hz
    rcases List.mem_cons.mp hz with rfl | hz
    · left; rfl
    · rcases ih z hz with h | h
      · left; exact h
      · right; simp [h]
  | case2 x y r hc ih =>
    intro z hz; rw [replace2, if_neg hc] at hz
    rcases List.mem_cons.mp hz with rfl | hz
    · right; simp
    · rcases ih z hz with h | h
      · left; exact h
      · right; exact List.mem_cons_of_mem _ h
  | case3 l hl =>
    intro z hz
    right
    match l, hl with
    | [], _ => simpa [replace2] using hz
    | [x], _ => simpa [replace2] using hz
    | x :: y :: r, hl => exact absurd rfl (hl x y r)

/-- after the first step no tab, CR or LF is left -/
theorem controls_gone (l : List Char) : ∀ c ∈ controlsToSpaces l, ¬ isControl c := by
  intro c hc hcon
  unfold controlsToSpaces at hc
  rcases hcon with rfl | rfl | rfl
  · -- tab: removed by the innermost replace, never re-introduced
    rcases replace1_mem hc with h | hc; · exact absurd h (by decide)
    rcases replace1_mem hc with h | hc; · exact absurd h (by decide)
    rcases replace2_mem _ _ _ _ hc with h | hc; · exact absurd h (by decide)
    rcases replace2_mem _ _ _ _ hc with h | hc; · exact absurd h (by decide)
    exact replace1_no '\t' l (by decide) hc
  · rcases replace1_mem hc with h | hc; · exact absurd h (by decide)
    exact replace1_no '\r' _ (by decide) hc
  · exact replace1_no '\n' _ (by decide) hc

theorem collapse_mem : ∀ (l : List Char) (x : Char), x ∈ collapse l → x ∈ l := by
  intro l
  induction l using collapse.induct with
  | case1 r ih => intro x hx; rw [collapse] at hx; have := ih x hx; simp at this ⊢; tauto
  | case2 c r hne ih =>
    intro x hx
    rw [collapse] at hx
    · rcases List.mem_cons.mp hx with rfl | hx
      · simp
      · exact List.mem_cons_of_mem _ (ih x hx)
    · intro r' h; exact hne r' h
  | case3 => intro x hx; simp [collapse] at hx

/-- `strip_all` leaves no space at all -/
theorem strip_all_no_space (lower : List Char → List Char) (f : Flags) (s : List Char) (h : f.stripAll = true) :
    ' ' ∉ clean lower f s := by
  unfold clean
  simp only [h, if_true]
  intro hm
  have hm' : ' ' ∈ List.filter (fun x => x != ' ') (if f.strip = true then strip (if f.caseSensitive = true then controlsToSpaces s else lower (controlsToSpaces s))
      else if f.caseSensitive = true then controlsToSpaces s else lower (controlsToSpaces s)) := by
    by_cases hc : f.cleanSpaces = true
    · simp only [hc, if_true] at hm; exact collapse_mem _ _ hm
    · simp only [hc] at hm; exact hm
  simp at hm'

/-- no two adjacent spaces survive `collapse` -/
theorem collapse_no_double : ∀ (l : List Char) (a b : List Char), collapse l ≠ a ++ ' ' :: ' ' :: b := by
  intro l
  induction l using collapse.induct with
  | case1 r ih => intro a b; rw [collapse]; exact ih a b
  | case2 c r hne ih =>
    intro a b h
    rw [collapse] at h
    · cases a with
      | nil =>
        simp only [List.nil_append, List.cons.injEq] at h
        obtain ⟨rfl, h2⟩ := h
        -- collapse r starts with a space, so r starts with a space: contradicts hne
        cases r with
        | nil => simp [collapse] at h2
        | cons d r' =>
          by_cases hd : d = ' '
          · subst hd; exact hne r' rfl rfl
          · have : ∃ t, collapse (d :: r') = d :: t := by
              cases r' with
              | nil => exact ⟨[], by simp [collapse]⟩
              | cons e r'' => exact ⟨collapse (e :: r''), by rw [collapse]; intro r3 h3 _; exact hd h3⟩
            obtain ⟨t, ht⟩ := this
            rw [ht] at h2; simp at h2; exact hd h2.1
      | cons x a' =>
        simp only [List.cons_append, List.cons.injEq] at h
        exact ih a' b h.2
    · intro r' h'; exact hne r' h'
  | case3 => intro a b h; simp [collapse] at h

theorem clean_spaces_no_double (lower : List Char → List Char) (f : Flags) (s : List Char) (h : f.cleanSpaces = true)
    (a b : List Char) : clean lower f s ≠ a ++ ' ' :: ' ' :: b := by
  unfold clean; simp only [h, if_true]; exact collapse_no_double _ a b

/-! ## the decision -/

def correct (m : AnsMeta) : IRes := { ok := m.ok, grade := m.grade, msg := m.msg }
def wrong : IRes := { ok := .no, grade := 0, msg := "" }

/-- **Matching mode**: a submission matches exactly when the two cleaned strings are identical. -/
theorem match_iff_clean_eq (lower : List Char → List Char) (cfg : Cfg) (fe fs : Bool) (m : AnsMeta) (e st : String)
    (hany : cfg.acceptAny = false) (hne : cfg.acceptNonempty = false) (hp : cfg.hasPattern = false) :
    checkResponse lower cfg fe fs m e st =
      .ok (if clean lower cfg.flags st.toList = clean lower cfg.flags e.toList then correct m else wrong) := by
  unfold checkResponse correct wrong
  simp only [hany, hne, hp, Bool.or_self, Bool.not_false, Bool.false_eq_true, ↓reduceIte, bne_iff_ne, ne_eq, ite_not, pure,
    Except.pure]
  split <;> rfl

/-- refusals happen in the way the `explain_*` option prescribes -/
theorem refusal_mode (cfg : Cfg) (msg : String) :
    constructMessage cfg msg .err = .error (.mitx "InvalidInput" msg) ∧
    constructMessage cfg msg .msg = .ok { ok := .no, grade := 0, msg := msg } ∧
    constructMessage cfg msg .none = .ok { ok := .no, grade := 0, msg := if cfg.debug then msg else "" } :=
  ⟨rfl, rfl, rfl⟩

/-- **Validation pattern**: whatever the mode, a cleaned submission the pattern does not match entirely is refused in
    the way `explain_validation` prescribes (provided the author's own answer is valid, which is otherwise a ConfigError). -/
theorem validation_whole (lower : List Char → List Char) (cfg : Cfg) (fe : Bool) (m : AnsMeta) (e st : String)
    (hp : cfg.hasPattern = true) (hauthor : (cfg.acceptAny || cfg.acceptNonempty) = true ∨ fe = true) :
    checkResponse lower cfg fe false m e st = constructMessage cfg cfg.invalidMsg cfg.explainValidation := by
  unfold checkResponse
  simp only [hp, if_true, Bool.not_false]
  rcases hauthor with h | h
  · simp [h]
  · simp [h]

theorem author_answer_must_match (lower : List Char → List Char) (cfg : Cfg) (fs : Bool) (m : AnsMeta) (e st : String)
    (hp : cfg.hasPattern = true) (hany : cfg.acceptAny = false) (hne : cfg.acceptNonempty = false) :
    ∃ msg, checkResponse lower cfg false fs m e st = .error (Err.config msg) := by
  unfold checkResponse
  simp only [hp, hany, hne, Bool.or_self, Bool.not_false, Bool.and_self, if_true, throw, throwThe, MonadExceptOf.throw]
  exact ⟨_, rfl⟩

/-- **accept_any / accept_nonempty**: accepted exactly when the cleaned submission has at least `min_length` characters
    (at least 1 under accept_nonempty) and at least `min_words` words; otherwise refused as `explain_minimums` prescribes,
    the words message taking precedence over the characters message. -/
theorem accept_any_iff (lower : List Char → List Char) (cfg : Cfg) (fe : Bool) (m : AnsMeta) (e st : String)
    (hany : (cfg.acceptAny || cfg.acceptNonempty) = true) (hp : cfg.hasPattern = false ∨ True) (hfs : cfg.hasPattern = false) :
    let student := clean lower cfg.flags st.toList
    let minLen := if cfg.acceptNonempty && cfg.minLength == 0 then 1 else cfg.minLength
    (minLen ≤ student.length ∧ cfg.minWords ≤ wordCount student → checkResponse lower cfg fe true m e st = .ok (correct m)) ∧
    (¬ (minLen ≤ student.length ∧ cfg.minWords ≤ wordCount student) →
      ∃ msg, checkResponse lower cfg fe true m e st = constructMessage cfg msg cfg.explainMinimums) := by
  intro student minLen
  unfold checkResponse correct
  simp only [hany, hfs, Bool.not_true, Bool.false_eq_true, ↓reduceIte]
  constructor
  · intro ⟨h1, h2⟩
    have h1' : ¬ (student.length < minLen) := by omega
    have h2' : ¬ (wordCount student < cfg.minWords) := by omega
    simp only [student, minLen] at h1' h2'
    simp only [h1', h2', ↓reduceIte, pure, Except.pure]
  · intro h
    by_cases h2 : wordCount student < cfg.minWords
    · simp only [student] at h2; simp only [h2, ↓reduceIte]; exact ⟨_, rfl⟩
    · have h1 : student.length < minLen := by
        by_contra hc; exact h ⟨by omega, by omega⟩
      simp only [student, minLen] at h1 h2
      simp only [h2, h1, ↓reduceIte]; exact ⟨_, rfl⟩


/-! ## no other character is ever ignored or altered -/

/-- **Nothing but whitespace and case is ever touched.** Whatever the four flags, the non-whitespace characters of the cleaned
    string are exactly the non-whitespace characters of the input, in the same order — case-folded character by character when
    `case_sensitive` is off (`lc` is the per-character folding, which never turns a character into whitespace or back), and
    untouched otherwise. No other character is dropped, added, reordered or altered, for all 16 flag combinations. -/
theorem clean_preserves_nonspace (lc : Char → Char) (hlc : ∀ c, pyIsSpace (lc c) = pyIsSpace c) (f : Flags) (s : List Char) :
    (clean (List.map lc) f s).filter nonWs =
      if f.caseSensitive then s.filter nonWs else (s.filter nonWs).map lc :=
  clean_filter lc hlc f s

/-- instance for the executable case folding of the model (ASCII + Latin-1) -/
theorem clean_preserves_nonspace_exec (f : Flags) (s : List Char) :
    (clean lowerL f s).filter nonWs = if f.caseSensitive then s.filter nonWs else (s.filter nonWs).map lowerChar :=
  clean_filter lowerChar lowerChar_ws f s

/-- hence two inputs that match after cleaning have the same non-whitespace characters up to case: matching can never hide a
    changed, missing or extra visible character -/
theorem match_implies_same_visible (lc : Char → Char) (hlc : ∀ c, pyIsSpace (lc c) = pyIsSpace c) (f : Flags) (s t : List Char)
    (h : clean (List.map lc) f s = clean (List.map lc) f t) :
    (if f.caseSensitive then s.filter nonWs else (s.filter nonWs).map lc) =
      (if f.caseSensitive then t.filter nonWs else (t.filter nonWs).map lc) := by
  rw [← clean_filter lc hlc f s, ← clean_filter lc hlc f t, h]

example : clean lowerL ⟨false, true, false, true⟩ "  Hello \t\r\n  WÖRLD ".toList = "hello wörld".toList := by decide

end C18

import Mitx.Parser.RoundTripMain
import Mitx.Parser.Lex
import Mitx.Parser.Reject
import Mitx.Parser.LexReject
import Mitx.Parser.Fuel
import Mitx.Generated.Grammar
import Mitx.Model.GrammarSpec
/-! # C03 — formula strings evaluate to the value mathematics assigns them

Property theorems only. Model: token-level PEG parser `Mitx/Parser/Syntax.lean`, lexer `Mitx/Parser/Lex.lean`,
node evaluators over an arbitrary operator algebra `Mitx/Parser/Sem.lean`. -/
namespace C03

/-- **Round trip (precedence, associativity, parentheses).** For every mathematical expression tree `e`
    (n-ary `||`, binary `+ - * / ^`, unary minus, calls, arrays) and every interpretation `A` of the operators,
    parsing the minimally parenthesised rendering of `e` succeeds (for all sufficiently large fuel) and the
    parse tree evaluates — by the library's node evaluators — to the textbook value `denote A e`. -/
theorem round_trip {V : Type} (A : Alg V) (e : E) :
    ∃ F, ∀ f, F ≤ f → ∃ t, pExpr f (render e) = some (t, []) ∧ evalT A t = denote A e :=
  parse_render A e

/-- **Round trip for the executable parser.** The same statement about `parseToks` itself — the function with the concrete
    fuel `20·|tokens| + 20` that the correspondence run drives — not merely about some sufficiently large fuel. -/
theorem round_trip_executable {V : Type} (A : Alg V) (e : E) :
    ∃ t, parseToks (render e) = some t ∧ evalT A t = denote A e := by
  obtain ⟨F, hF⟩ := parse_render A e
  obtain ⟨t, ht, hv⟩ := hF (max F (8 * (render e).length + 6)) (Nat.le_max_left _ _)
  exact ⟨t, parseToks_of_pExpr (Nat.le_max_right _ _) ht, hv⟩

/-- **Fuel adequacy**: beyond `8·|tokens| + 6` the fuel is irrelevant, so `parseToks = none` is a genuine rejection
    (no larger fuel would accept the string) and the model parser is total. -/
theorem fuel_adequate {ts : List Tok} (h : parseToks ts = none) (f : Nat) (hf : 8 * ts.length + 6 ≤ f) :
    ∀ t, pExpr f ts ≠ some (t, []) :=
  parseToks_none_stable h f hf

theorem fuel_irrelevant (ts : List Tok) (f : Nat) (hf : 8 * ts.length + 6 ≤ f) : pExpr f ts = pExpr (8 * ts.length + 6) ts :=
  pExpr_fuel_irrelevant ts f hf

/-- Spaces are irrelevant anywhere: the lexer only ever sees the space-stripped characters. -/
theorem spaces_irrelevant (s s' : String) (h : s.toList.filter (· != ' ') = s'.toList.filter (· != ' ')) :
    parseString s = parseString s' := by
  unfold parseString lex
  simp only [h]

/-! ## Strings outside the grammar are rejected -/

/-- **Nothing is dropped or reordered**: a successful parse consumed exactly the token string of the tree it returns
    (`yT` prints a tree back to its tokens), and that string starts with an operand/opening token or a sign, ends with
    an operand end, and has only admissible adjacent pairs. -/
theorem parse_yield {ts : List Tok} {t : T} (h : parseToks ts = some t) : ts = yT t ∧ Seg startE ts :=
  parseToks_sound h

/-- the same for every fuel and every continuation: what `pExpr` consumed is the token string of its result -/
theorem pExpr_consumes_yield (f : Nat) {ts rest : List Tok} {t : T} (h : pExpr f ts = some (t, rest)) :
    ts = yT t ++ rest ∧ Seg startE (yT t) :=
  (snd_all f).expr _ _ _ h

/-- **Doubled operators** are rejected wherever they occur: two binary operators in a row (other than a second `-`,
    which is a sign, and the two bars of `||`). -/
theorem reject_doubled_operator (pre post : List Tok) (a b : Tok) (ha : isBinop a = true) (hb : isBinop b = true)
    (hsign : b ≠ .minus) (hbar : ¬ (a = .pipe ∧ b = .pipe)) : parseToks (pre ++ a :: b :: post) = none := by
  apply parseToks_bad_pair
  cases a <;> cases b <;> simp_all [isBinop, Adj, startN, startA]

/-- **Juxtaposition** is rejected wherever it occurs: an operand end (number, name, `)`, `]`) directly followed by the
    start of another operand (number, name, `(`, `[`) — except `name (`, which is a function call. -/
theorem reject_juxtaposition (pre post : List Tok) (a b : Tok) (ha : opndEnd a = true) (hb : startA b = true)
    (hcall : ¬ (isName a = true ∧ b = .lp)) : parseToks (pre ++ a :: b :: post) = none := by
  apply parseToks_bad_pair
  cases a <;> cases b <;> simp_all [opndEnd, startA, Adj, isBinop, isCloser, isName]

/-- **Empty brackets and empty argument lists** — `()`, `[]`, `f()` — are rejected wherever they occur, as is an
    operator or comma directly before a closing bracket. -/
theorem reject_empty_brackets (pre post : List Tok) (a b : Tok) (ha : opndEnd a = false) (hb : isCloser b = true) :
    parseToks (pre ++ a :: b :: post) = none := by
  apply parseToks_bad_pair
  cases a <;> cases b <;> simp_all [opndEnd, isCloser, Adj, startE, startN, startA]

/-- an operator directly after an opening bracket or comma (other than a sign) is rejected -/
theorem reject_operator_after_open (pre post : List Tok) (a b : Tok) (ha : a = .lp ∨ a = .lb ∨ a = .comma)
    (hb : startE b = false) : parseToks (pre ++ a :: b :: post) = none := by
  apply parseToks_bad_pair
  rcases ha with rfl | rfl | rfl <;> simpa [Adj] using hb

/-- a string cannot start with a binary operator other than a sign, nor with a closing bracket or comma -/
theorem reject_leading_operator (t0 : Tok) (r : List Tok) (h0 : startE t0 = false) : parseToks (t0 :: r) = none :=
  parseToks_bad_start t0 r h0

/-- a string cannot end with an operator, an opening bracket or a comma -/
theorem reject_trailing_operator (pre : List Tok) (l : Tok) (hl : opndEnd l = false) : parseToks (pre ++ [l]) = none :=
  parseToks_bad_end pre l hl

theorem reject_empty : parseToks [] = none := parseToks_nil

/-- **Foreign characters**: a character outside the grammar's alphabet, anywhere in the string, makes the parse fail. -/
theorem reject_foreign_character (src : String) (c : Char) (hc : c ∈ src.toList) (hbad : allowedChar c = false) :
    parseString src = none :=
  parseString_rejects_foreign src c hc hbad

/-- non-vacuity / sanity of the tables: the accepted examples satisfy them, the rejected ones do not -/
example : parseString "2*(x+1)^-2" ≠ none := by decide +kernel
example : parseString "2**x" = none := by decide +kernel
example : parseString "(2)x" = none := by decide +kernel
example : parseString "x y" ≠ none := by decide +kernel   -- spaces are removed first: this is the name `xy`
example : parseString "f()" = none := by decide +kernel
example : parseString "x+$" = none := by decide +kernel
example : allowedChar '$' = false := by decide
example : allowedChar '—' = true := by decide

/-! ## Redundant parentheses and the node evaluators -/

/-- **Redundant parentheses**: if a token string is a complete expression with value `v` (in whatever context), the
    same string wrapped in parentheses is again a complete expression — indeed a complete phrase of the tightest
    level, so it may stand wherever an operand may — with the same value `v`. -/
theorem parens_redundant {V : Type} (A : Alg V) {L : List Tok} {v : V} (h : PA0 A L v) :
    PA5 A (Tok.lp :: L ++ [Tok.rp]) v ∧ PA0 A (Tok.lp :: L ++ [Tok.rp]) v :=
  ⟨paren50 A h, (parens_all A h).2.2.2.2.2.1⟩

/-- `^` is right-associative: `a ^ b ^ c … = a ^ (b ^ (c …))`; a sign on an exponent negates that exponent's value -/
theorem evalPower_right_assoc {V : Type} (A : Alg V) (s : Bool) (e : V) (rest : List (Bool × V)) (hne : rest ≠ []) :
    expo A ((s, e) :: rest) = (expo A rest).map (fun r => if s then A.neg (A.pow e r) else A.pow e r) := by
  cases rest with
  | nil => exact (hne rfl).elim
  | cons p ps => obtain ⟨s', e'⟩ := p; simp [expo]

theorem evalPower_last {V : Type} (A : Alg V) (s : Bool) (e : V) :
    expo A [(s, e)] = some (if s then A.neg e else e) := by simp [expo]

/-- `*` and `/` associate to the left: the value is the left fold of the operand list -/
theorem evalProduct_foldl {V : Type} (A : Alg V) (a : T) (rest : List (Bool × T)) :
    evalT A (.prod a rest) = (evalP A rest).foldl (prodStep A) (evalT A a) := by simp [evalT]
theorem evalProduct_snoc {V : Type} (A : Alg V) (acc : V) (l : List (Bool × V)) (s : Bool) (x : V) :
    (l ++ [(s, x)]).foldl (prodStep A) acc = (if s then A.div (l.foldl (prodStep A) acc) x else A.mul (l.foldl (prodStep A) acc) x) := by
  simp [List.foldl_append, prodStep]
/-- `+` and `-` associate to the left; a leading `+` does not change the value -/
theorem evalSum_foldl {V : Type} (A : Alg V) (lead : Bool) (a : T) (rest : List (Bool × T)) :
    evalT A (.sum lead a rest) = (evalP A rest).foldl (sumStep A) (evalT A a) := by simp [evalT]
theorem evalSum_snoc {V : Type} (A : Alg V) (acc : V) (l : List (Bool × V)) (s : Bool) (x : V) :
    (l ++ [(s, x)]).foldl (sumStep A) acc = (if s then A.sub (l.foldl (sumStep A) acc) x else A.add (l.foldl (sumStep A) acc) x) := by
  simp [List.foldl_append, sumStep]
/-- unary minus negates, parentheses are transparent -/
theorem evalNegation {V : Type} (A : Alg V) (t : T) : evalT A (.neg t) = A.neg (evalT A t) := by simp [evalT]
theorem evalParen {V : Type} (A : Alg V) (t : T) : evalT A (.paren t) = evalT A t := by simp [evalT]


/-! ## the grammar the model stands for is the grammar the code builds -/

/-- **Generated obligation.** The pyparsing object graph of `MathParser().grammar`, regenerated from the live code on every run
    (`harness/translate/grammar.py` → `Mitx/Generated/Grammar.lean`: every element with its class, result name, parse actions,
    literals and character classes), equals the reviewed description of the grammar that the Lean lexer and parser model. Any edit
    of the grammar — an operator literal, a character class, `Optional` ↔ `ZeroOrMore`, the order of precedence levels or of
    alternatives, a parse action moved to another element — changes the left-hand side and breaks this theorem. -/
theorem grammar_matches : Gen.grammar = GrammarSpec.expected := by decide +kernel

end C03

import Mitx.Parser.RoundTripMain
import Mitx.Parser.Lex
/-! # C03 — formula strings evaluate to the value mathematics assigns them

Property theorems only. Model: token-level PEG parser `Mitx/Parser/Syntax.lean`, lexer `Mitx/Parser/Lex.lean`,
node evaluators over an arbitrary operator algebra `Mitx/Parser/Sem.lean`. -/
namespace C03

/-- **Round trip (precedence, associativity, parentheses).** For every mathematical expression tree `e`
    (n-ary `||`, binary `+ - * / ^`, unary minus, calls, arrays) and every interpretation `A` of the operators,
    parsing the minimally parenthesised rendering of `e` succeeds (for all sufficiently large fuel) and the
    parse tree evaluates — by the library's node evaluators — to the textbook value `denote A e`. -/
theorem round_trip {V : Type} (A : Alg V) (e : E) :
    ∃ F, ∀ f, F ≤ f → ∃ t, pExpr f (render e) = some (t, []) ∧ evalT A t = denote A e :=
  parse_render A e

/-- Spaces are irrelevant anywhere: the lexer only ever sees the space-stripped characters. -/
theorem spaces_irrelevant (s s' : String) (h : s.toList.filter (· != ' ') = s'.toList.filter (· != ' ')) :
    parseString s = parseString s' := by
  unfold parseString lex
  simp only [h]

end C03

import Mitx.Model.Safety
import Mitx.Props.C01
import Mitx.Generated.Exceptions
/-! # C02 — grading failures surface only as library errors with student-safe messages

The control-flow clause (with debug off only library errors leave `__call__`; a library error keeps its class with
`<br/>` line breaks; anything else becomes the generic student-facing error naming the submission) is `C01.call_escape_classes`
and `C01.call_error_mapping`. This file adds: the bracket validator accepts exactly the balanced strings; `ensure_text_inputs`
accepts exactly text (single graders) / lists of text (list graders); the recasting tables are total into the library's
family; the class tree descends from `MITxError`. -/
namespace C02
open Sf

/-! ### BracketValidator.validate ⟺ balanced -/

/-- balanced bracket strings over the three pairs; every other character is transparent -/
inductive Bal : List Char → Prop
  | nil : Bal []
  | other (c : Char) (s : List Char) : opener c = false → closer c = false → Bal s → Bal (c :: s)
  | wrap (o : Char) (s t : List Char) : opener o = true → Bal s → Bal t → Bal (o :: s ++ partner o :: t)

theorem opener_cases {c : Char} (h : opener c = true) : c = '(' ∨ c = '[' ∨ c = '{' := by
  simpa [opener, or_assoc] using h

theorem closer_cases {c : Char} (h : closer c = true) : c = ')' ∨ c = ']' ∨ c = '}' := by
  simpa [closer, or_assoc] using h

theorem opener_facts {o : Char} (h : opener o = true) :
    closer o = false ∧ closer (partner o) = true ∧ partner (partner o) = o := by
  rcases opener_cases h with rfl | rfl | rfl <;> decide

theorem closer_facts {c : Char} (h : closer c = true) :
    opener c = false ∧ opener (partner c) = true ∧ partner (partner c) = c := by
  rcases closer_cases h with rfl | rfl | rfl <;> decide

/-- a balanced prefix is transparent for the scan: stack unchanged, index advanced by its length -/
theorem scan_bal {s : List Char} (hb : Bal s) : ∀ (st : List (Nat × Char)) (i : Nat) (t : List Char),
    scan st i (s ++ t) = scan st (i + s.length) t := by
  induction hb with
  | nil => intro st i t; simp
  | other c s ho hc _ ih =>
    intro st i t
    simp only [List.cons_append, scan, hc, ho, Bool.false_eq_true, ↓reduceIte, List.length_cons]
    rw [ih]; congr 1; omega
  | wrap o s t ho _ _ ihs iht =>
    intro st i u
    obtain ⟨f1, f2, f3⟩ := opener_facts ho
    have e : (o :: s ++ partner o :: t) ++ u = o :: (s ++ (partner o :: (t ++ u))) := by simp
    rw [e]
    simp only [scan, f1, ho, Bool.false_eq_true, ↓reduceIte]
    rw [ihs]
    simp only [scan, f2, ↓reduceIte, f3, ne_eq, not_true_eq_false]
    rw [iht]
    congr 1
    simp only [List.length_cons, List.length_append]
    omega

/-- the stack of pending openers describes how the rest of the string decomposes -/
inductive Chain : List Char → List Char → Prop
  | done (s : List Char) : Bal s → Chain [] s
  | more (o : Char) (st s0 rest : List Char) : Bal s0 → Chain st rest → Chain (o :: st) (s0 ++ partner o :: rest)

theorem chain_other {st s : List Char} (c : Char) (ho : opener c = false) (hc : closer c = false) (h : Chain st s) :
    Chain st (c :: s) := by
  cases h with
  | done s hb => exact .done _ (.other c s ho hc hb)
  | more o st s0 rest hb hr =>
    have : c :: (s0 ++ partner o :: rest) = (c :: s0) ++ partner o :: rest := by simp
    rw [this]
    exact .more o st (c :: s0) rest (.other c s0 ho hc hb) hr

theorem chain_open {st s : List Char} (o : Char) (ho : opener o = true) (h : Chain (o :: st) s) : Chain st (o :: s) := by
  cases h with
  | more _ _ s0 rest hb hr =>
    cases hr with
    | done _ hbr => exact .done _ (.wrap o s0 _ ho hb hbr)
    | more o' st' r0 rest' hbr hr' =>
      have : o :: (s0 ++ partner o :: (r0 ++ partner o' :: rest')) = (o :: s0 ++ partner o :: r0) ++ partner o' :: rest' := by simp
      rw [this]
      exact .more o' st' _ rest' (.wrap o s0 r0 ho hb hbr) hr'

theorem scan_ok_chain : ∀ (s : List Char) (st : List (Nat × Char)) (i : Nat),
    scan st i s = .ok () → (∀ p ∈ st, opener p.2 = true) → Chain (st.map (·.2)) s := by
  intro s
  induction s with
  | nil =>
    intro st i h _
    cases st with
    | nil => exact .done _ .nil
    | cons p ps => simp [scan] at h
  | cons c r ih =>
    intro st i h hst
    simp only [scan] at h
    by_cases hc : closer c = true
    · simp only [hc, ↓reduceIte] at h
      cases st with
      | nil => cases h
      | cons p st' =>
        obtain ⟨j, o⟩ := p
        simp only at h
        by_cases hp : partner c ≠ o
        · simp [hp] at h
        · simp only [hp, ↓reduceIte] at h
          have hpo : partner c = o := by simpa using hp
          have hcp : c = partner o := by rw [← hpo]; exact (closer_facts hc).2.2.symm
          have := ih st' (i + 1) h (fun q hq => hst q (by simp [hq]))
          have e : c :: r = [] ++ partner o :: r := by simp [hcp]
          rw [e]
          exact .more o _ [] r .nil this
    · have hc' : closer c = false := by simpa using hc
      simp only [hc', Bool.false_eq_true, ↓reduceIte] at h
      by_cases ho : opener c = true
      · simp only [ho, ↓reduceIte] at h
        have := ih ((i, c) :: st) (i + 1) h (fun q hq => by
          rcases List.mem_cons.mp hq with rfl | hq
          · exact ho
          · exact hst q hq)
        exact chain_open c ho this
      · have ho' : opener c = false := by simpa using ho
        simp only [ho', Bool.false_eq_true, ↓reduceIte] at h
        exact chain_other c ho' hc' (ih st (i + 1) h hst)

/-- **The validator accepts exactly the balanced strings**, for every length and nesting depth -/
theorem validate_ok_iff (s : List Char) : validate s = .ok () ↔ Bal s := by
  constructor
  · intro h
    have := scan_ok_chain s [] 0 h (by simp)
    cases this with
    | done _ hb => exact hb
  · intro hb
    have := scan_bal hb [] 0 []
    simp only [List.append_nil] at this
    unfold validate
    rw [this]; simp [scan]

/-- every refusal is one of the three `UnbalancedBrackets` diagnoses (the validator is total: no other outcome) -/
theorem validate_total (s : List Char) : validate s = .ok () ∨ ∃ e, validate s = .error e := by
  cases h : validate s with
  | ok u => left; rfl
  | error e => right; exact ⟨e, rfl⟩

/-! ### ensure_text_inputs -/

def allStr : List PyVal → Bool
  | [] => true
  | .str _ :: r => allStr r
  | _ :: _ => false

theorem firstNonStr_none (l : List PyVal) (i : Nat) : firstNonStr l i = none ↔ allStr l = true := by
  induction l generalizing i with
  | nil => simp [firstNonStr, allStr]
  | cons v r ih => cases v <;> simp [firstNonStr, allStr, ih]

/-- a single-input grader (ItemGrader) accepts exactly a text string -/
theorem ensure_text_item (v : PyVal) :
    (∃ g, ensureText false true v = .ok g) ↔ ∃ s, v = .str s := by
  cases v <;> simp [ensureText]

/-- a list grader accepts exactly a list of text strings -/
theorem ensure_text_list (v : PyVal) :
    (∃ g, ensureText true false v = .ok g) ↔ ∃ l, v = .list l ∧ allStr l = true := by
  cases v with
  | str s => simp [ensureText]
  | other t => simp [ensureText]
  | list l =>
    simp only [ensureText, ↓reduceIte, PyVal.list.injEq, exists_eq_left']
    cases h : firstNonStr l 0 with
    | none => simp [(firstNonStr_none l 0).mp h]
    | some p =>
      have : ¬ allStr l = true := fun ha => by rw [(firstNonStr_none l 0).mpr ha] at h; cases h
      simp [this]

/-- everything else is refused with a configuration error (never graded, never another exception) -/
theorem ensure_text_refusal_is_config (al as : Bool) (hcfg : al = true ∨ as = true) (v : PyVal) (e : TextErr)
    (h : ensureText al as v = .error e) : e ≠ .valueError := by
  intro he
  subst he
  cases v with
  | str s => cases al <;> cases as <;> simp [ensureText] at h hcfg
  | other t => cases al <;> cases as <;> simp [ensureText] at h hcfg
  | list l =>
    cases hf : firstNonStr l 0 with
    | none => cases al <;> cases as <;> simp [ensureText, hf] at h hcfg
    | some p => cases al <;> cases as <;> simp [ensureText, hf] at h hcfg

/-- accepted input is passed on unchanged -/
theorem ensure_text_value (s : String) : ensureText false true (.str s) = .ok (.one s) := rfl

/-! ### recasting tables -/

/-- whatever a function call raises, `eval_function` turns it into a student-facing error of the Calc family -/
theorem evalFunction_recast_total (name : String) (x : PyExc) : ∃ c m, evalFunctionRecast name x = .mitx c m := by
  cases x <;> exact ⟨_, _, rfl⟩

/-- `MathExpression.eval` recasts overflow and zero division; library errors pass unchanged; the rest is left to `__call__` -/
theorem eval_recast_spec (x : PyExc) :
    (x = .overflow → ∃ m, evalRecast x = .mitx "CalcOverflowError" m) ∧
    (x = .zeroDiv → ∃ m, evalRecast x = .mitx "CalcZeroDivisionError" m) ∧
    (∀ c m, x = .studentFacing c m → evalRecast x = .mitx c m) := by
  refine ⟨?_, ?_, ?_⟩
  · rintro rfl; exact ⟨_, rfl⟩
  · rintro rfl; exact ⟨_, rfl⟩
  · rintro c m rfl; rfl

/-- end to end: an evaluation failure of any kind leaves `__call__` (debug off) as a library error -/
theorem eval_failure_escapes_as_library_error (cfg : Gr.CallCfg) (hd : cfg.debug = false) (att : Option Int) (log : String)
    (inp : Gr.GInput) (x : PyExc) : ∃ c m, Gr.call cfg att log inp (.error (evalRecast x)) = .error (.mitx c m) := by
  rw [C01.call_error_mapping cfg hd]
  cases x <;> exact ⟨_, _, rfl⟩

/-- with `suppress_matrix_messages` every matrix-related failure is graded incorrect without a message; otherwise a shape
error is raised iff `shape_errors`, a type mismatch iff `is_raised`, and argument-shape / other array errors always -/
theorem matrix_recast_spec (cfg : MCfg) :
    (cfg.suppress = true → ∀ e, e ≠ .unrelated → matrixRecast cfg e = .zero false) ∧
    (cfg.suppress = false → (matrixRecast cfg .shape = .reraise ↔ cfg.shapeErrors = true) ∧
      (matrixRecast cfg .inputType = .reraise ↔ cfg.isRaised = true) ∧
      matrixRecast cfg .argShape = .reraise ∧ matrixRecast cfg .mathArray = .reraise) ∧
    matrixRecast cfg .unrelated = .reraise := by
  refine ⟨?_, ?_, rfl⟩
  · intro hs e he; cases e <;> simp_all [matrixRecast]
  · intro hs
    refine ⟨?_, ?_, ?_, ?_⟩ <;> simp [matrixRecast, hs]

/-! ### class tree -/

/-- every class of the library's exception tree descends from `MITxError` -/
theorem classTree_rooted : ∀ p ∈ classTree, descends classTree classTree.length p.1 = true := by decide

/-! ### obligations on the data regenerated from the live source on every run (`Mitx/Generated/Exceptions.lean`) -/

/-- the live exception classes are exactly the model's class tree -/
theorem generated_tree_matches : (∀ p ∈ Gen.classTree, p ∈ classTree) ∧ (∀ p ∈ classTree, p ∈ Gen.classTree) := by decide

/-- every `raise` statement in the code that runs outside the guarded region of `__call__` raises a library class, except
at most one `ValueError` in `ensure_text_inputs`, which `ensure_text_refusal_is_config` shows to be unreachable from a grader
(both `allow_lists` and `allow_single` false) -/
theorem generated_raise_sites_in_family :
    ((Gen.raiseSites.filter (fun p => !descends classTree classTree.length p.2)).length ≤ 1) ∧
    ∀ p ∈ Gen.raiseSites, descends classTree classTree.length p.2 = true ∨ p = ("AbstractGrader.ensure_text_inputs", "ValueError") := by
  decide

/-! ### non-vacuity -/

example : validate "1 + ( ( x + 1 )^2 + [T_{1}] )".toList = .ok () := by decide
example : validate "[(1, 2, 3])".toList = .error (.wrongClosing 1 9) := by decide
example : validate "1, 2, 3]".toList = .error (.closeWithoutOpen 7) := by decide
example : validate "(1 + 2) + ( 3 + (".toList = .error (.openWithoutClose [10, 16]) := by decide
example : ensureText true false (.list [.str "a", .other "<class 'int'>"]) = .error (.badItem 1 "<class 'int'>") := by rfl

end C02

import Mitx.Model.MathArray
/-! # C14 — array arithmetic follows strict linear-algebra shape rules and values

Model: `Ma.add/sub/mul/div/pow` (MathArray operators incl. reflected forms) and `Ma.evalProduct` (triple vector rule).
The theorems are about every shape and every entry list (no bound on dimensions or sizes). -/
namespace C14
open Ma Tl Cm

def isZeroLike : AV → Bool
  | .num z => cIsZero z
  | .arr s d => numberlike s && cIsZero (d.headD C.zero)

def shapeOf : AV → List Nat
  | .num _ => []
  | .arr s _ => s

def isShapeErr : R → Bool
  | .error (.shape _) => true
  | _ => false

def isMathErr : R → Bool
  | .error (.math _) => true
  | _ => false

/-! ### addition / subtraction -/

/-- equal shapes: the elementwise sum, same shape -/
theorem add_same_shape (s : List Nat) (d d2 : List C) (h : isZeroLike (.arr s d2) = false) :
    add (.arr s d) (.arr s d2) = .ok (.arr s (zipC C.add d d2)) := by
  cases hb : numberlike s <;> cases hz : cIsZero (d2.headD C.zero) <;> simp_all [add, addArr, isZeroLike]

/-- **No broadcasting**: arrays of different shapes are never added, unless one of them is a one-element zero -/
theorem no_broadcast (s s2 : List Nat) (d d2 : List C) (hs : s ≠ s2)
    (h1 : isZeroLike (.arr s d) = false) (h2 : isZeroLike (.arr s2 d2) = false) :
    isShapeErr (add (.arr s d) (.arr s2 d2)) = true := by
  cases hb : numberlike s <;> cases hz : cIsZero (d.headD C.zero) <;> cases hb2 : numberlike s2 <;>
    cases hz2 : cIsZero (d2.headD C.zero) <;> simp_all [add, addArr, isZeroLike, isShapeErr]

/-- adding a nonzero scalar to an array with more than one element is an error, on either side -/
theorem add_nonzero_scalar_error (s : List Nat) (d : List C) (z : C) (hz : cIsZero z = false) (hn : numberlike s = false) :
    isShapeErr (add (.arr s d) (.num z)) = true ∧ isShapeErr (add (.num z) (.arr s d)) = true := by
  constructor <;> simp [add, addArr, hz, hn, isShapeErr]

/-- the scalar 0 is neutral for every shape -/
theorem add_zero_identity (s : List Nat) (d : List C) (z : C) (hz : cIsZero z = true) :
    add (.arr s d) (.num z) = .ok (.arr s d) ∧ add (.num z) (.arr s d) = .ok (.arr s d) := by
  constructor <;> simp [add, addArr, hz]

/-- whenever an addition of two arrays succeeds, the result has the shape of one of the operands — never a broadcast shape -/
theorem add_result_shape (s s2 : List Nat) (d d2 : List C) (r : AV) (h : add (.arr s d) (.arr s2 d2) = .ok r) :
    shapeOf r = s ∨ shapeOf r = s2 := by
  simp only [add, addArr] at h
  split at h
  · cases h; exact Or.inl rfl
  · split at h
    · cases h; exact Or.inl rfl
    · split at h
      · cases h; exact Or.inr rfl
      · cases h

/-- subtraction is addition of the negated operand: same shape rules -/
theorem sub_eq_add_neg (a b : AV) : sub a b = add a (scale ⟨-1, 0⟩ b) := rfl

/-! ### multiplication -/

theorem mul_scalar_scales (s : List Nat) (d : List C) (z : C) :
    mul (.arr s d) (.num z) = .ok (.arr s (d.map (C.mul z))) ∧ mul (.num z) (.arr s d) = .ok (.arr s (d.map (C.mul z))) := by
  constructor <;> simp [mul, scale]

/-- the linear-algebra result shape of a product of arrays of dimension ≤ 2 (`[]` = a number), `none` = incompatible -/
def prodShape : List Nat → List Nat → Option (List Nat)
  | [n], [m] => if n = m then some [] else none
  | [r, n], [m] => if n = m then some [r] else none
  | [n], [m, c] => if n = m then some [c] else none
  | [r, n], [m, c] => if n = m then some [r, c] else none
  | _, _ => none

/-- a one-element result collapses to a number -/
def collapse (s : List Nat) : List Nat := if numberlike s then [] else s

theorem dotShapes_shape (s1 s2 : List Nat) (d1 d2 : List C) :
    (dotShapes s1 d1 s2 d2).map shapeOf = prodShape s1 s2 := by
  rcases s1 with _ | ⟨a, _ | ⟨b, _ | ⟨c, t⟩⟩⟩ <;> rcases s2 with _ | ⟨a2, _ | ⟨b2, _ | ⟨c2, t2⟩⟩⟩ <;>
    simp [dotShapes, prodShape, shapeOf] <;> split <;> simp_all [shapeOf]

/-- **Products follow the dot / matrix-vector / vector-matrix / matrix-matrix shape rules or fail**: for operands with more
than one element and at most two axes, the product exists exactly when the inner dimensions agree, and then has the
linear-algebra shape (a 1×1 or length-1 result becoming a number) -/
theorem mul_shape_rule (s1 s2 : List Nat) (d1 d2 : List C) (h1 : numberlike s1 = false) (h2 : numberlike s2 = false)
    (hd : s1.length ≤ 2 ∧ s2.length ≤ 2) :
    (prodShape s1 s2 = none → isShapeErr (mul (.arr s1 d1) (.arr s2 d2)) = true) ∧
    (∀ sh, prodShape s1 s2 = some sh → ∃ v, mul (.arr s1 d1) (.arr s2 d2) = .ok v ∧ shapeOf v = collapse sh) := by
  have hlen : ¬ (s1.length > 2 ∨ s2.length > 2) := by omega
  have hsh := dotShapes_shape s1 s2 d1 d2
  constructor
  · intro hn
    rw [hn] at hsh
    have : dotShapes s1 d1 s2 d2 = none := by simpa using hsh
    simp [mul, h1, h2, hlen, this, isShapeErr]
  · intro sh hs
    rw [hs] at hsh
    cases hv : dotShapes s1 d1 s2 d2 with
    | none => rw [hv] at hsh; cases hsh
    | some v =>
      rw [hv] at hsh
      simp only [Option.map_some, Option.some.injEq] at hsh
      cases v with
      | num z =>
        simp only [shapeOf] at hsh
        refine ⟨.num z, by simp [mul, h1, h2, hlen, hv], ?_⟩
        simp [shapeOf, collapse, ← hsh, numberlike, size]
      | arr s d =>
        simp only [shapeOf] at hsh
        subst hsh
        by_cases hc : numberlike s = true
        · exact ⟨.num (d.headD C.zero), by simp [mul, h1, h2, hlen, hv, hc], by simp [shapeOf, collapse, hc]⟩
        · exact ⟨.arr s d, by simp [mul, h1, h2, hlen, hv, hc], by simp [shapeOf, collapse, hc]⟩

theorem tensor_mul_refused (s1 s2 : List Nat) (d1 d2 : List C) (h1 : numberlike s1 = false) (h2 : numberlike s2 = false)
    (hd : s1.length > 2 ∨ s2.length > 2) : isMathErr (mul (.arr s1 d1) (.arr s2 d2)) = true := by
  simp [mul, h1, h2, hd, isMathErr]

/-! ### division -/

theorem div_by_array_error (a : AV) (s2 : List Nat) (d2 : List C) (h : numberlike s2 = false) :
    isShapeErr (div a (.arr s2 d2)) = true := by
  cases a with
  | num z => rfl
  | arr s d => simp [div, h, isShapeErr]

theorem div_by_scalar (s : List Nat) (d : List C) (z : C) (hz : cIsZero z = false) :
    div (.arr s d) (.num z) = .ok (.arr s (d.map (C.mul (cinv z)))) := by
  simp [div, hz, scale]

/-! ### powers -/

theorem pow_vector_or_tensor_error (np : Bool) (s : List Nat) (d : List C) (e : AV) (ct : Bool)
    (hn : numberlike s = false) (hd : s.length ≠ 2) : isShapeErr (pow np (.arr s d) e ct) = true := by
  simp [pow, hn, hd, isShapeErr]

theorem pow_nonsquare_error (np : Bool) (r c : Nat) (d : List C) (e : AV) (ct : Bool)
    (hn : numberlike [r, c] = false) (hrc : r ≠ c) : isShapeErr (pow np (.arr [r, c] d) e ct) = true := by
  simp [pow, hn, hrc, isShapeErr]

theorem pow_noninteger_error (np : Bool) (n : Nat) (d : List C) (z : C) (ct : Bool)
    (hn : numberlike [n, n] = false) (hz : expoOf z ct = .nonInteger) :
    isMathErr (pow np (.arr [n, n] d) (.num z) ct) = true := by
  simp [pow, hn, hz, isMathErr]

theorem pow_array_exponent_error (np : Bool) (n : Nat) (d : List C) (s2 : List Nat) (d2 : List C) (ct : Bool)
    (hn : numberlike [n, n] = false) (h2 : numberlike s2 = false) :
    isShapeErr (pow np (.arr [n, n] d) (.arr s2 d2) ct) = true := by
  simp [pow, hn, h2, isShapeErr]

/-- **Negative matrix powers are refused while they are disabled** -/
theorem neg_pow_disabled_error (n : Nat) (d : List C) (z : C) (k : Int) (ct : Bool)
    (hn : numberlike [n, n] = false) (hz : expoOf z ct = .int k) (hk : k < 0) :
    isMathErr (pow false (.arr [n, n] d) (.num z) ct) = true := by
  simp [pow, hn, hz, hk, isMathErr]

/-- a successful matrix power has the shape of the base; non-negative powers are repeated products starting from the identity -/
theorem pow_nonneg_value (np : Bool) (n : Nat) (d : List C) (z : C) (k : Int) (ct : Bool)
    (hn : numberlike [n, n] = false) (hz : expoOf z ct = .int k) (hk : 0 ≤ k) :
    pow np (.arr [n, n] d) (.num z) ct = .ok (.arr [n, n] (matPow n d k.toNat)) := by
  have : ¬ (k < 0) := by omega
  simp [pow, hn, hz, this, hk]

theorem matPow_succ (n : Nat) (a : List C) (k : Nat) : matPow n a (k + 1) = matMul n (matPow n a k) a := rfl

/-- negative powers (when enabled) are powers of the inverse, singular matrices are refused -/
theorem pow_neg_value (n : Nat) (d : List C) (z : C) (k : Int) (ct : Bool)
    (hn : numberlike [n, n] = false) (hz : expoOf z ct = .int k) (hk : k < 0) :
    pow true (.arr [n, n] d) (.num z) ct = match inverse n d with
      | none => .error (.math "Cannot raise singular matrix to negative powers.")
      | some inv => .ok (.arr [n, n] (matPow n inv (-k).toNat)) := by
  have : ¬ (0 ≤ k) := by omega
  cases hi : inverse n d <;> simp [pow, hn, hz, hk, this, hi]

theorem scalar_to_array_power_error (np : Bool) (x : C) (s : List Nat) (d : List C) (ct : Bool) (hn : numberlike s = false) :
    isShapeErr (pow np (.num x) (.arr s d) ct) = true := by
  simp [pow, hn, isShapeErr]

/-! ### triple vector products -/

/-- once a vector·vector product has occurred in a chain, a further `* vector` is refused as ambiguous -/
theorem triple_vector_refused_step (acc v : AV) (rest : List (POp × AV)) (hv : isVector v = true) :
    isMathErr (evalProductLoop acc true ((.times, v) :: rest)) = true := by
  simp [evalProductLoop, hv, isMathErr]

/-- `u * v * w` with three vectors of one length is refused (although `(u*v)` is a number and `number * w` would be defined) -/
theorem triple_vector_refused (n : Nat) (d1 d2 d3 : List C) (rest : List (POp × AV)) (hn : numberlike [n] = false) :
    isMathErr (evalProduct (.arr [n] d1) ((.times, .arr [n] d2) :: (.times, .arr [n] d3) :: rest)) = true := by
  unfold evalProduct
  simp only [evalProductLoop, isVector, List.length_cons, List.length_nil, Nat.zero_add, beq_self_eq_true,
    Bool.and_false, Bool.false_eq_true, ↓reduceIte, Bool.and_self, Bool.or_true, bind, Except.bind]
  have : mul (.arr [n] d1) (.arr [n] d2) = .ok (.num (sumC (zipC C.mul d1 d2))) := by
    simp [mul, hn, dotShapes]
  rw [this]
  simp [evalProductLoop, isVector, isMathErr]

/-! ### non-vacuity -/

def okIs (r : R) (v : AV) : Bool := match r with | .ok w => w == v | _ => false

example : okIs (mul (.arr [2, 2] [⟨1,0⟩, ⟨2,0⟩, ⟨3,0⟩, ⟨4,0⟩]) (.arr [2] [⟨1,0⟩, ⟨1,0⟩])) (.arr [2] [⟨3,0⟩, ⟨7,0⟩]) = true := by decide +kernel
example : okIs (pow true (.arr [2, 2] [⟨2,0⟩, ⟨0,0⟩, ⟨0,0⟩, ⟨4,0⟩]) (.num ⟨-1,0⟩)) (.arr [2, 2] [⟨1/2,0⟩, ⟨0,0⟩, ⟨0,0⟩, ⟨1/4,0⟩]) = true := by decide +kernel
example : isMathErr (pow true (.arr [2, 2] [⟨1,0⟩, ⟨2,0⟩, ⟨2,0⟩, ⟨4,0⟩]) (.num ⟨-1,0⟩)) = true := by decide +kernel

end C14

import Mitx.Model.MathConfig
/-! # C20 — cross-option rules of the math graders (model `Mc`) -/
namespace C20
open Mc
open Rs (Whitelist)

def isOverride : Err → Bool
  | .override _ _ => true
  | _ => false

theorem warn_suppressed (key : String) (e d : List String) : warn true key e d = none := by simp [warn]

theorem checkOverrides_suppressed (c : Cfg) (h : c.suppress = true) : checkOverrides c = none := by
  simp [checkOverrides, h, warn_suppressed, orElse']

theorem warn_is_override (s : Bool) (key : String) (e d : List String) (x : Err) (h : warn s key e d = some x) : isOverride x = true := by
  unfold warn at h
  simp only [] at h
  split at h
  · cases h; rfl
  · cases h

theorem checkOverrides_is_override (c : Cfg) (x : Err) (h : checkOverrides c = some x) : isOverride x = true := by
  unfold checkOverrides orElse' at h
  repeat' split at h
  all_goals first
    | (cases h; rename_i h1; exact warn_is_override _ _ _ _ _ h1)
    | exact warn_is_override _ _ _ _ _ h

/-- **`suppress_warnings` silences the override warnings and nothing else**: the hard rules (both lists used, unknown function in a
list, a variable colliding with a user constant) are refused with the same error whether or not warnings are suppressed, and with
warnings suppressed no override warning is ever raised -/
theorem suppress_only_silences_overrides (c : Cfg) :
    (∀ x, validate { c with suppress := true } = some x → isOverride x = false ∧ (validate c = some x ∨ ∃ y, validate c = some y ∧ isOverride y = true)) ∧
    (∀ x, validate c = some x → isOverride x = false → validate { c with suppress := true } = some x) := by
  have hl : checkLists { c with suppress := true } = checkLists c := rfl
  have hc : checkCollisions { c with suppress := true } = checkCollisions c := rfl
  have ho : checkOverrides { c with suppress := true } = none := checkOverrides_suppressed _ rfl
  constructor
  · intro x hx
    simp only [validate, hl, hc, ho] at hx
    cases h1 : checkLists c with
    | some e =>
      simp only [h1, orElse'] at hx
      cases hx
      refine ⟨?_, Or.inl (by simp [validate, h1, orElse'])⟩
      unfold checkLists at h1
      repeat' split at h1
      all_goals first | (cases h1; rfl) | (simp only [Option.map_eq_some_iff] at h1; obtain ⟨a, _, rfl⟩ := h1; rfl) | cases h1
    | none =>
      simp only [h1, orElse'] at hx
      have hx' : checkCollisions c = some x := hx
      have hnot : isOverride x = false := by
        unfold checkCollisions at hx'
        simp only [] at hx'
        split at hx'
        · cases hx'; rfl
        · cases hx'
      refine ⟨hnot, ?_⟩
      cases h2 : checkOverrides c with
      | none => left; simp [validate, h1, h2, orElse', hx']
      | some y => right; exact ⟨y, by simp [validate, h1, h2, orElse'], checkOverrides_is_override c y h2⟩
  · intro x hx hno
    simp only [validate, hl, hc, ho]
    simp only [validate] at hx
    cases h1 : checkLists c with
    | some e => simp only [h1, orElse'] at hx ⊢; exact hx
    | none =>
      simp only [h1, orElse'] at hx ⊢
      cases h2 : checkOverrides c with
      | some y =>
        have hy := checkOverrides_is_override c y h2
        simp only [h2] at hx; cases hx
        rw [hy] at hno; cases hno
      | none => simp only [h2] at hx; exact hx

/-- using both a blacklist and a whitelist (also `whitelist=[None]`) is refused whatever else is configured -/
theorem both_lists_refused (c : Cfg) (hb : c.blacklist ≠ []) (hw : whitelistNonempty c.whitelist = true) : validate c = some .both := by
  have : c.blacklist.isEmpty = false := by cases h : c.blacklist <;> simp_all
  simp [validate, checkLists, this, hw, orElse']

/-- a blacklisted name that is not one of the grader's own default functions is refused -/
theorem unknown_blacklisted_refused (c : Cfg) (hw : whitelistNonempty c.whitelist = false) (f : String) (hf : f ∈ c.blacklist)
    (hu : c.defaultFuncs.contains f = false) : ∃ g, validate c = some (.unknownBlack g) ∧ g ∈ c.blacklist ∧ c.defaultFuncs.contains g = false := by
  have hfind : ∃ g, c.blacklist.find? (fun f => !c.defaultFuncs.contains f) = some g := by
    cases h : c.blacklist.find? (fun f => !c.defaultFuncs.contains f) with
    | some g => exact ⟨g, rfl⟩
    | none =>
      have := List.find?_eq_none.mp h f hf
      simp only [hu, Bool.not_false, not_true_eq_false] at this
  obtain ⟨g, hg⟩ := hfind
  refine ⟨g, ?_, List.mem_of_find?_eq_some hg, ?_⟩
  · unfold validate checkLists
    simp only [hw, Bool.and_false, Bool.false_eq_true, ↓reduceIte, hg, orElse']
  · have := List.find?_some hg
    simpa using this

/-- a declared variable that is also a (kept) user constant is refused unless an earlier rule already refused the configuration -/
theorem collision_refused (c : Cfg) (x : String) (hv : x ∈ c.variables) (hc : (x, false) ∈ c.userConstants) : validate c ≠ none := by
  intro h
  simp only [validate] at h
  cases h1 : checkLists c with
  | some e => simp [h1, orElse'] at h
  | none =>
    cases h2 : checkOverrides c with
    | some e => simp [h1, h2, orElse'] at h
    | none =>
      simp only [h1, h2, orElse'] at h
      unfold checkCollisions at h
      simp only [] at h
      have hx : x ∈ (constants' c).filter (fun e => c.variables.contains e) := by
        simp only [List.mem_filter, constants', List.mem_map]
        exact ⟨⟨(x, false), by simp [hc], rfl⟩, by simpa using hv⟩
      split at h
      · cases h
      · rename_i hemp
        have : ((constants' c).filter (fun e => c.variables.contains e)).isEmpty = true := by simpa using hemp
        rw [List.isEmpty_iff] at this
        rw [this] at hx; cases hx

example : validate ⟨["sin", "cos"], ["pi", "e"], ["cos"], .nothing, ["x"], [], [], [], true⟩ = some .both ∧
    validate ⟨["sin", "cos"], ["pi", "e"], ["tan"], .unset, ["x"], [], [], [], true⟩ = some (.unknownBlack "tan") ∧
    validate ⟨["sin", "cos"], ["pi", "e"], [], .unset, ["x", "pi"], [], [], [], false⟩ = some (.override "variables" ["pi"]) ∧
    validate ⟨["sin", "cos"], ["pi", "e"], [], .unset, ["x", "pi"], [], [("pi", true)], [], false⟩ = none ∧
    validate ⟨["sin", "cos"], ["pi", "e"], [], .unset, ["x", "y"], [], [("c", false), ("y", false)], [], true⟩ = some (.collision "user_constants" "variables" ["y"]) := by
  decide +kernel

end C20

namespace C20
open Mc

/-- construction passes the cross-option validation exactly when each of the three groups of rules passes -/
theorem validate_none_iff (c : Cfg) : validate c = none ↔ checkLists c = none ∧ checkOverrides c = none ∧ checkCollisions c = none := by
  unfold validate orElse'
  cases h1 : checkLists c <;> cases h2 : checkOverrides c <;> cases h3 : checkCollisions c <;> simp

/-- no collision error ⇔ no declared variable is also a (kept) user constant -/
theorem checkCollisions_none_iff (c : Cfg) :
    checkCollisions c = none ↔ ∀ x, (x, false) ∈ c.userConstants → x ∉ c.variables := by
  unfold checkCollisions
  simp only []
  constructor
  · intro h x hx hv
    have hmem : x ∈ (constants' c).filter (fun e => c.variables.contains e) := by
      simp only [List.mem_filter, constants', List.mem_map]
      exact ⟨⟨(x, false), by simp [hx], rfl⟩, by simpa using hv⟩
    split at h
    · cases h
    · rename_i hemp
      have : ((constants' c).filter (fun e => c.variables.contains e)).isEmpty = true := by simpa using hemp
      rw [List.isEmpty_iff] at this
      rw [this] at hmem; cases hmem
  · intro h
    have hempty : (constants' c).filter (fun e => c.variables.contains e) = [] := by
      apply List.filter_eq_nil_iff.mpr
      intro a ha
      simp only [constants', List.mem_map, List.mem_filter] at ha
      obtain ⟨⟨k, b⟩, ⟨hk, hb⟩, rfl⟩ := ha
      have hb' : b = false := by simpa using hb
      subst hb'
      have := h k hk
      simpa using this
    rw [hempty]; rfl

end C20

import Mitx.Lemmas.Optimal
import Mitx.Props.C07
import Mitx.Props.C08
import Mathlib.Algebra.Order.Field.Basic
/-! # C01 — every grader call returns a well-formed, self-consistent edX result

Model: `Gr.call` (`AbstractGrader.__call__`), on top of `Gr.itemCheck`, `Gr.processGradeList`, `Gr.listCheck`.
The leaf graders' `check_response` is a parameter with the contract `LeafWF`. -/
namespace C01
open Gr At

/-- grade in `[0,1]` and `ok` computed from the grade (an author-pinned `ok` on a grade-1 answer is the only exception the
    property allows; the contract below is the unpinned case) -/
def WF (r : IRes) : Prop := 0 ≤ r.grade ∧ r.grade ≤ 1
def OkConsistent (r : IRes) : Prop := r.ok = gradeToOk r.grade
def WFRes (r : At.Res) : Prop := 0 ≤ r.grade ∧ r.grade ≤ 1

/-! ## the combinators keep grades in range -/

theorem itemCheck_wf {ε : Type} {cr : AnsMeta → ε → String → M IRes} {w : String} {answers : List (Answer ε)} {inp : String} {out : IRes}
    (hleaf : ∀ m e r, cr m e inp = .ok r → WF r) (h : itemCheck cr w answers inp = .ok out) : WF out := by
  obtain ⟨results, chosen, hm, hcm, _, _, hout⟩ := C08.check_ok_inv cr w h
  have hf := (mapM_ok_iff _ _ _).mp hm
  obtain ⟨p, _, hp⟩ := forall2_mem_right hf chosen hcm
  have := hleaf _ _ _ hp
  rw [hout]; unfold WF at *; split <;> exact this

theorem sum_le_length (l : List ℚ) (h : ∀ x ∈ l, x ≤ 1) : l.sum ≤ l.length := by
  induction l with
  | nil => simp
  | cons x xs ih =>
    simp only [List.sum_cons, List.length_cons, Nat.cast_add, Nat.cast_one]
    have := h x (by simp); have := ih (fun y hy => h y (by simp [hy])); linarith

/-- `consolidate_grades` lands in `[0,1]` whenever the individual grades are at most 1 and something is expected -/
theorem consolidateGrades_range (l : List ℚ) (n : ℕ) (hn : 0 < n) (h1 : ∀ x ∈ l, x ≤ 1) :
    0 ≤ consolidateGrades l n ∧ consolidateGrades l n ≤ 1 := by
  rw [C07.consolidateGrades_formula]
  refine ⟨le_max_left _ _, max_le (by norm_num) ?_⟩
  have hs := sum_le_length l h1
  have hnq : (0 : ℚ) < n := by exact_mod_cast hn
  rw [div_le_one hnq]
  by_cases hc : l.length ≤ n
  · have : l.length - n = 0 := by omega
    rw [this]; simp only [Nat.cast_zero, sub_zero]
    have : (l.length : ℚ) ≤ n := by exact_mod_cast hc
    linarith
  · have : ((l.length - n : ℕ) : ℚ) = (l.length : ℚ) - n := by
      rw [Nat.cast_sub (by omega)]
    rw [this]; linarith

theorem processGradeList_wf (cfg : SLCfg) (gl : List IRes) (n : ℕ) (m : AnsMeta) (hn : 0 < n)
    (hgl : ∀ r ∈ gl, r.grade ≤ 1) (hm0 : 0 ≤ m.grade) (hm1 : m.grade ≤ 1) :
    WF (processGradeList cfg gl n m) ∧ OkConsistent (processGradeList cfg gl n m) := by
  obtain ⟨hg, hok, _, _⟩ := C07.processGradeList_spec cfg gl n m
  obtain ⟨c0, c1⟩ := consolidateGrades_range (gl.map (·.grade)) n hn (by
    intro x hx; obtain ⟨r, hr, rfl⟩ := List.mem_map.mp hx; exact hgl r hr)
  refine ⟨?_, hok⟩
  unfold WF; rw [hg]; unfold C07.credit
  split
  · simp
  · constructor
    · exact mul_nonneg hm0 c0
    · calc m.grade * _ ≤ 1 * 1 := mul_le_mul hm1 c1 c0 (by norm_num)
        _ = 1 := by norm_num

/-! ## the call wrapper -/

theorem debug_noninterference (cfg : CallCfg) (hd : cfg.debug = false) (att : Option ℤ) (log₁ log₂ : String) (inp : GInput)
    (res : M CheckOut) : call cfg att log₁ inp res = call cfg att log₂ inp res := by
  unfold call; simp only [hd]; rfl

theorem entries_formatMessages (o : At.Out) :
    (formatMessages o).entries.map (fun r => (r.ok, r.grade)) = o.entries.map (fun r => (r.ok, r.grade)) := by
  cases o <;> simp [formatMessages, At.Out.entries, List.map_map, Function.comp_def]

theorem entries_appendLog (log : String) (o : At.Out) :
    (appendLog log o).entries.map (fun r => (r.ok, r.grade)) = o.entries.map (fun r => (r.ok, r.grade)) := by
  cases o <;> simp [appendLog, At.Out.entries]

def isSingle : At.Out → Bool
  | .single _ => true
  | .list _ _ => false

theorem shape_formatMessages (o : At.Out) : isSingle (formatMessages o) = isSingle o := by cases o <;> rfl
theorem shape_appendLog (l : String) (o : At.Out) : isSingle (appendLog l o) = isSingle o := by cases o <;> rfl

theorem applyAttempt_shape {s : ℤ → ℚ} {f : Bool} {a : Option ℤ} {o o' : At.Out} (h : applyAttempt s f a o = .ok o') :
    isSingle o' = isSingle o ∧ o'.entries.length = o.entries.length := by
  cases a with
  | none => cases h
  | some n =>
    simp only [applyAttempt] at h
    generalize round4 (s (if n < 1 then 1 else n)) = c at h
    by_cases hc : c = 1
    · rw [if_pos hc] at h; simp only [Except.ok.injEq] at h; subst h; exact ⟨rfl, rfl⟩
    · rw [if_neg hc] at h
      cases o with
      | single r => simp only [Except.ok.injEq] at h; subst h; exact ⟨rfl, rfl⟩
      | list ov rs => simp only [Except.ok.injEq] at h; subst h; exact ⟨rfl, by simp [At.Out.entries]⟩

/-- the shape clause: single form for one input; list form with one entry per checked entry (all present) otherwise -/
def ShapeOK : CheckOut → At.Out → Prop
  | .single _, out => isSingle out = true ∧ out.entries.length = 1
  | .list o, out => isSingle out = false ∧ out.entries.length = o.entries.length ∧ o.entries.all Option.isSome = true

theorem shapeOK_transfer {r : CheckOut} {o1 out : At.Out} (h : ShapeOK r o1) (hs : isSingle out = isSingle o1)
    (hl : out.entries.length = o1.entries.length) : ShapeOK r out := by
  cases r with
  | single x => exact ⟨by rw [hs, h.1], by rw [hl, h.2]⟩
  | list o => exact ⟨by rw [hs, h.1], by rw [hl, h.2.1], h.2.2⟩

theorem stripKeys_shape {r : CheckOut} {o1 : At.Out} (hs : stripKeys r = some o1) : ShapeOK r o1 := by
  cases r with
  | single x => simp only [stripKeys, Option.some.injEq] at hs; subst hs; exact ⟨rfl, rfl⟩
  | list o =>
    simp only [stripKeys] at hs
    split at hs
    · rename_i hall
      simp only [Option.some.injEq] at hs; subst hs
      refine ⟨rfl, ?_, hall⟩
      simp only [At.Out.entries]
      rw [length_filterMap_of_all_some]
      intro e he
      have := List.all_eq_true.mp hall e he
      cases e with
      | none => simp at this
      | some v => simp
    · cases hs

theorem finish_shape (debug : Bool) (log : String) (o2 : At.Out) :
    isSingle (formatMessages (if debug = true then appendLog log o2 else o2)) = isSingle o2 ∧
    (formatMessages (if debug = true then appendLog log o2 else o2)).entries.length = o2.entries.length := by
  have h1 := congrArg List.length (entries_formatMessages (if debug = true then appendLog log o2 else o2))
  simp only [List.length_map] at h1
  have h2 := congrArg List.length (entries_appendLog log o2)
  simp only [List.length_map] at h2
  cases debug
  · simp only [Bool.false_eq_true, ↓reduceIte] at h1 ⊢; exact ⟨shape_formatMessages _, h1⟩
  · simp only [↓reduceIte] at h1 ⊢; exact ⟨by rw [shape_formatMessages, shape_appendLog], by rw [h1, h2]⟩

/-- **Shape.** A returned call has the single form for one input and the list form with exactly one entry per
    checked entry (in order) for a list of inputs. -/
theorem call_shape {cfg : CallCfg} {att : Option ℤ} {log : String} {inp : GInput} {res : M CheckOut} {out : At.Out}
    (h : call cfg att log inp res = .ok out) : ∃ r, res = .ok r ∧ ShapeOK r out := by
  unfold call at h
  simp only [bind, Except.bind, pure, Except.pure] at h
  cases res with
  | error e =>
    exfalso
    simp only at h
    cases hd : cfg.debug <;> simp only [hd, Bool.false_eq_true, ↓reduceIte] at h
    · cases e <;> simp [throw, throwThe, MonadExceptOf.throw] at h
    · simp [throw, throwThe, MonadExceptOf.throw] at h
  | ok r =>
    refine ⟨r, rfl, ?_⟩
    simp only at h
    cases hs : stripKeys r with
    | none => rw [hs] at h; simp [throw, throwThe, MonadExceptOf.throw] at h
    | some o1 =>
      rw [hs] at h; simp only at h
      have hshape1 := stripKeys_shape hs
      cases hsch : cfg.sched with
      | none =>
        rw [hsch] at h; simp only [Except.ok.injEq] at h
        obtain ⟨f1, f2⟩ := finish_shape cfg.debug log o1
        rw [← h]; exact shapeOK_transfer hshape1 f1 f2
      | some s =>
        rw [hsch] at h; simp only at h
        cases ha : applyAttempt s cfg.attemptMsg att o1 with
        | error e => rw [ha] at h; simp [throw, throwThe, MonadExceptOf.throw] at h
        | ok o2 =>
          rw [ha] at h; simp only [Except.ok.injEq] at h
          obtain ⟨h1, h2⟩ := applyAttempt_shape ha
          obtain ⟨f1, f2⟩ := finish_shape cfg.debug log o2
          rw [← h]; exact shapeOK_transfer hshape1 (by rw [f1, h1]) (by rw [f2, h2])

/-- **Only library errors escape with debug off** (this is also C02's control-flow clause): whatever `check` raised,
    an error leaving `__call__` belongs to the library's family, provided the result had an entry for every input. -/
theorem call_escape_classes {cfg : CallCfg} {att : Option ℤ} {log : String} {inp : GInput} {res : M CheckOut} {e : Gr.Err}
    (hd : cfg.debug = false) (hent : ∀ o, res = .ok (.list o) → o.entries.all Option.isSome = true)
    (h : call cfg att log inp res = .error e) : ∃ cls msg, e = .mitx cls msg := by
  unfold call at h
  simp only [bind, Except.bind, pure, Except.pure, hd] at h
  cases res with
  | error e0 =>
    simp only [Bool.false_eq_true, ↓reduceIte] at h
    cases e0 with
    | mitx c m => simp [throw, throwThe, MonadExceptOf.throw] at h; exact ⟨_, _, h.symm⟩
    | py c m => simp [throw, throwThe, MonadExceptOf.throw] at h; exact ⟨_, _, h.symm⟩
  | ok r =>
    simp only at h
    cases hs : stripKeys r with
    | none =>
      exfalso
      cases r with
      | single x => simp [stripKeys] at hs
      | list o =>
        have := hent o rfl
        simp [stripKeys, this] at hs
    | some o1 =>
      rw [hs] at h; simp only at h
      cases hsch : cfg.sched with
      | none => rw [hsch] at h; simp at h
      | some s =>
        rw [hsch] at h; simp only at h
        cases ha : applyAttempt s cfg.attemptMsg att o1 with
        | error e' => rw [ha] at h; simp [throw, throwThe, MonadExceptOf.throw] at h; exact ⟨_, _, h.symm⟩
        | ok o2 => rw [ha] at h; simp at h

/-- an anticipated (library) error keeps its class, with line breaks rendered as `<br/>`; an unanticipated one becomes the
    generic student-facing error naming exactly what was submitted -/
theorem call_error_mapping (cfg : CallCfg) (hd : cfg.debug = false) (att : Option ℤ) (log : String) (inp : GInput) (e0 : Gr.Err) :
    call cfg att log inp (.error e0) = .error (match e0 with
      | .mitx cls msg => .mitx cls (brMsg msg)
      | .py _ _ => .mitx "StudentFacingError" (genericMsg inp)) := by
  unfold call
  simp only [bind, Except.bind, hd, Bool.false_eq_true, ↓reduceIte]
  cases e0 <;> rfl

end C01

import Mitx.Model.Sampling
import Mitx.Lemmas.SamplingList
import Mathlib.LinearAlgebra.Matrix.Trace
import Mathlib.LinearAlgebra.Matrix.Determinant.Basic
import Mathlib.LinearAlgebra.Matrix.Symmetric
import Mathlib.LinearAlgebra.Matrix.Hermitian
import Mathlib.Algebra.Order.Ring.Abs
import Mathlib.Tactic.Linarith
import Mathlib.Tactic.FieldSimp
/-! # C12 — every random draw satisfies the constraints its sampling set declares

Samplers are modelled as deterministic functions of the random draws (`Sp.*`); the theorems hold for every draw in the
RNG's documented range (`0 ≤ u < 1`, `low ≤ k < high`). The matrix part is stated over Mathlib's `Matrix` for an arbitrary
field / star ring: it is the algebra `apply_symmetry`, the traceless projection, `normalize`, `make_det_one` and the diagonal
branch of `make_det_zero` rely on. -/
namespace C12
open Sp

/-! ### scalar samplers -/

theorem realInterval_mem (a b u : Rat) (h0 : 0 ≤ u) (h1 : u < 1) :
    min a b ≤ realInterval a b u ∧ realInterval a b u ≤ max a b := by
  unfold realInterval ordered
  by_cases h : a > b
  · simp only [h, ↓reduceIte]
    have hmin : min a b = b := min_eq_right (le_of_lt h)
    have hmax : max a b = a := max_eq_left (le_of_lt h)
    rw [hmin, hmax]
    constructor <;> nlinarith
  · simp only [h, ↓reduceIte]
    have hle : a ≤ b := not_lt.mp h
    rw [min_eq_left hle, max_eq_right hle]
    constructor <;> nlinarith

/-- the order of `start` and `stop` is irrelevant -/
theorem realInterval_symm (a b u : Rat) : realInterval a b u = realInterval b a u := by
  unfold realInterval ordered
  by_cases h : a > b
  · have : ¬ b > a := by linarith
    simp [h, this]
  · by_cases h2 : b > a
    · simp [h, h2]
    · have : a = b := le_antisymm (not_lt.mp h) (not_lt.mp h2)
      subst this; simp

theorem integerRange_mem (a b k : Int) : integerRangeValid a b k = true ↔ min a b ≤ k ∧ k ≤ max a b := by
  unfold integerRangeValid orderedI
  by_cases h : a > b
  · simp only [h, ↓reduceIte, decide_eq_true_eq]; omega
  · simp only [h, ↓reduceIte, decide_eq_true_eq]; omega

/-- both endpoints are attainable (the request to the RNG is `[start, stop + 1)`) -/
theorem integerRange_endpoints_attainable (a b : Int) :
    integerRangeValid a b (min a b) = true ∧ integerRangeValid a b (max a b) = true := by
  constructor <;> rw [integerRange_mem] <;> omega

theorem rectangle_mem (re im : Rat × Rat) (u v : Rat) (hu : 0 ≤ u ∧ u < 1) (hv : 0 ≤ v ∧ v < 1) :
    min re.1 re.2 ≤ (rectangle re im u v).re ∧ (rectangle re im u v).re ≤ max re.1 re.2 ∧
    min im.1 im.2 ≤ (rectangle re im u v).im ∧ (rectangle re im u v).im ≤ max im.1 im.2 := by
  obtain ⟨a, b⟩ := realInterval_mem re.1 re.2 u hu.1 hu.2
  obtain ⟨c, d⟩ := realInterval_mem im.1 im.2 v hv.1 hv.2
  exact ⟨a, b, c, d⟩

theorem sector_polar_mem (m ar : Rat × Rat) (u v : Rat) (hu : 0 ≤ u ∧ u < 1) (hv : 0 ≤ v ∧ v < 1) :
    min m.1 m.2 ≤ (sectorPolar m ar u v).1 ∧ (sectorPolar m ar u v).1 ≤ max m.1 m.2 ∧
    min ar.1 ar.2 ≤ (sectorPolar m ar u v).2 ∧ (sectorPolar m ar u v).2 ≤ max ar.1 ar.2 := by
  obtain ⟨a, b⟩ := realInterval_mem m.1 m.2 u hu.1 hu.2
  obtain ⟨c, d⟩ := realInterval_mem ar.1 ar.2 v hv.1 hv.2
  exact ⟨a, b, c, d⟩

/-- only listed members are ever returned -/
theorem discrete_mem {α : Type} (seq : List α) (idx : Nat) (x : α) (h : choice seq idx = some x) : x ∈ seq := by
  unfold choice at h
  exact List.mem_of_getElem? h

theorem discrete_total {α : Type} (seq : List α) (idx : Nat) (h : idx < seq.length) : ∃ x, choice seq idx = some x := by
  exact ⟨seq[idx], by simp [choice, h]⟩

/-! ### random functions -/

theorem sum_abs_le (l : List (Rat × Rat)) (h : ∀ p ∈ l, |p.1| ≤ 1 ∧ |p.2| ≤ 1) :
    |(l.map (fun p => p.1 * p.2)).foldl (· + ·) 0| ≤ (l.length : Rat) := by
  have key : ∀ (l : List (Rat × Rat)) (acc : Rat), (∀ p ∈ l, |p.1| ≤ 1 ∧ |p.2| ≤ 1) →
      |(l.map (fun p => p.1 * p.2)).foldl (· + ·) acc| ≤ |acc| + (l.length : Rat) := by
    intro l
    induction l with
    | nil => intro acc _; simp
    | cons p ps ih =>
      intro acc hp
      simp only [List.map_cons, List.foldl_cons, List.length_cons]
      have h1 := ih (acc + p.1 * p.2) (fun q hq => hp q (by simp [hq]))
      obtain ⟨ha, hs⟩ := hp p (by simp)
      have hprod : |p.1 * p.2| ≤ 1 := by
        rw [abs_mul]; nlinarith [abs_nonneg p.1, abs_nonneg p.2]
      have : |acc + p.1 * p.2| ≤ |acc| + 1 := (abs_add_le _ _).trans (by linarith)
      push_cast
      linarith
  simpa using key l 0 h

/-- **Values of a drawn random function stay within `center ± amplitude`**, for every input dimension and number of terms:
each of the `num_terms · input_dim` sinusoids has modulus ≤ 1 and the sum is divided by exactly that number -/
theorem randomFunction_bound (center amp : Rat) (T D : Nat) (terms : List (Rat × Rat))
    (hlen : terms.length = T * D) (hpos : 0 < T * D) (hamp : 0 ≤ amp)
    (h : ∀ p ∈ terms, |p.1| ≤ 1 ∧ |p.2| ≤ 1) :
    |randomFunctionValue center amp T D terms - center| ≤ amp := by
  unfold randomFunctionValue
  have hs := sum_abs_le terms h
  rw [hlen] at hs
  set S := (terms.map (fun p => p.1 * p.2)).foldl (· + ·) 0 with hS
  have hN : (0 : Rat) < ((T * D : Nat) : Rat) := by exact_mod_cast hpos
  have e : center + S * amp / ((T * D : Nat) : Rat) - center = S * amp / ((T * D : Nat) : Rat) := by ring
  rw [e]
  have hS2 := abs_le.mp hs
  rw [abs_le]
  constructor
  · rw [le_div_iff₀ hN]; nlinarith [hS2.1]
  · rw [div_le_iff₀ hN]; nlinarith [hS2.2]

theorem arity_enforced (d n : Nat) : arityOK d n = true ↔ n = d := by simp [arityOK]

/-! ### matrix algebra behind apply_symmetry / traceless / det -/

section Mat
open Matrix
variable {n : Type} [Fintype n] [DecidableEq n] {K : Type} [Field K]

theorem symmetric_is_symm (A : Matrix n n K) : (A + Aᵀ).IsSymm := by
  unfold Matrix.IsSymm; rw [transpose_add, transpose_transpose, add_comm]

theorem antisymmetric_is_antisymm (A : Matrix n n K) : (A - Aᵀ)ᵀ = -(A - Aᵀ) := by
  rw [transpose_sub, transpose_transpose]; abel

theorem diagonal_is_diag (A : Matrix n n K) (i j : n) (h : i ≠ j) : (Matrix.diagonal (fun i => A i i)) i j = 0 :=
  Matrix.diagonal_apply_ne _ h

theorem hermitian_is_herm {R : Type} [Field R] [StarRing R] (A : Matrix n n R) : (A + Aᴴ).IsHermitian := by
  unfold Matrix.IsHermitian; rw [conjTranspose_add, conjTranspose_conjTranspose, add_comm]

theorem antihermitian_is_antiherm {R : Type} [Field R] [StarRing R] (A : Matrix n n R) : (A - Aᴴ)ᴴ = -(A - Aᴴ) := by
  rw [conjTranspose_sub, conjTranspose_conjTranspose]; abel

/-- the traceless projection `W − (tr W / n)·I` has trace 0 (dimension not 0 in `K`) -/
theorem traceless_trace_zero (W : Matrix n n K) (hn : (Fintype.card n : K) ≠ 0) :
    trace (W - (trace W / (Fintype.card n : K)) • (1 : Matrix n n K)) = 0 := by
  rw [trace_sub, trace_smul, trace_one, smul_eq_mul, div_mul_cancel₀ _ hn, sub_self]

/-- … and stays symmetric when `W` is -/
theorem traceless_preserves_symm (W : Matrix n n K) (c : K) (h : W.IsSymm) : (W - c • (1 : Matrix n n K)).IsSymm := by
  unfold Matrix.IsSymm at *
  rw [transpose_sub, transpose_smul, transpose_one, h]

/-- … and antisymmetric matrices are traceless already when `2 ≠ 0` -/
theorem antisymm_trace_zero (A : Matrix n n K) (h2 : (2 : K) ≠ 0) : trace (A - Aᵀ) = 0 := by
  rw [trace_sub, trace_transpose, sub_self]

/-- rescaling preserves symmetry -/
theorem scale_preserves_symm (W : Matrix n n K) (k : K) (h : W.IsSymm) : (k • W).IsSymm := by
  unfold Matrix.IsSymm at *; rw [transpose_smul, h]

/-- `make_det_one`: dividing by an `n`-th root `c` of the determinant gives determinant 1 -/
theorem detOne_det (A : Matrix n n K) (c : K) (hc : c ^ Fintype.card n = A.det) (hdet : A.det ≠ 0) :
    (c⁻¹ • A).det = 1 := by
  have hc0 : c ^ Fintype.card n ≠ 0 := by rw [hc]; exact hdet
  rw [det_smul, inv_pow, ← hc, inv_mul_cancel₀ hc0]

/-- odd dimension, negative determinant: `-A / (-det)^(1/n)` -/
theorem detOne_det_odd (A : Matrix n n K) (c : K) (hodd : Odd (Fintype.card n)) (hc : c ^ Fintype.card n = -A.det) (hdet : A.det ≠ 0) :
    ((-c⁻¹) • A).det = 1 := by
  have hc0 : c ^ Fintype.card n ≠ 0 := by rw [hc]; exact neg_ne_zero.mpr hdet
  rw [det_smul, Odd.neg_pow hodd, inv_pow, hc]
  field_simp

/-- `make_det_zero`, diagonal branch: zeroing one diagonal entry of a diagonal matrix gives determinant 0 -/
theorem detZero_diagonal (d : n → K) (i : n) (h : d i = 0) : (Matrix.diagonal d).det = 0 := by
  rw [det_diagonal]; exact Finset.prod_eq_zero (Finset.mem_univ i) h

/-- `make_det_zero`, eigenvalue branch: by definition of an eigenvalue `λ` (a root of the characteristic polynomial) -/
theorem detZero_eigen_preserves_symm (A : Matrix n n K) (ev : K) (h : A.IsSymm) : (A - ev • (1 : Matrix n n K)).IsSymm :=
  traceless_preserves_symm A ev h

end Mat

/-! ### constructor acceptance table -/

def allSym : List Symmetry := [.none, .diagonal, .symmetric, .antisymmetric, .hermitian, .antihermitian]
def allCfg (dims : List Nat) : List SqCfg :=
  dims.flatMap fun d => allSym.flatMap fun s => [false, true].flatMap fun t => [none, some 0, some 1].flatMap fun dt =>
    [false, true].map fun c => ⟨d, s, t, dt, c⟩

/-- **Every accepted combination that asks for determinant 1 reaches a defined branch of `make_det_one`** and passes its
assertion (dimensions 2–9 by evaluation; the table depends on the dimension only through `dim = 2` and its parity) -/
theorem constructor_table_consistent :
    ∀ c ∈ allCfg [2, 3, 4, 5, 6, 7, 8, 9], accepts c = true → c.det = some 1 →
      detOneBranch c ≠ .unknown ∧ detOneAssertion c = true := by decide +kernel

/-- the rejected combinations are exactly the documented impossibilities -/
theorem constructor_rejections :
    ∀ c ∈ allCfg [2, 3, 4, 5], accepts c = false →
      (c.det = some 0 ∧ (c.traceless = true ∨ c.symmetry = .antisymmetric)) ∨
      (c.det = some 1 ∧ ((c.dim = 2 ∧ c.traceless = true) ∨ (c.dim % 2 = 1 ∧ (c.symmetry = .antisymmetric ∨ c.symmetry = .antihermitian)))) := by
  decide +kernel

open Matrix in
/-- real antisymmetric matrices in odd dimension (the accepted `determinant = 0`, antisymmetric case) have determinant 0 -/
theorem odd_antisymm_det_zero {n : Type} [Fintype n] [DecidableEq n] (A : Matrix n n Rat) (hA : Aᵀ = -A) (hodd : Odd (Fintype.card n)) :
    A.det = 0 := by
  have h1 : A.det = (-A).det := by rw [← hA, Matrix.det_transpose]
  rw [Matrix.det_neg, Odd.neg_one_pow hodd] at h1
  linarith

example : accepts ⟨3, .antisymmetric, false, some 0, false⟩ = true ∧ accepts ⟨2, .hermitian, true, some 1, false⟩ = false := by decide
example : realInterval 3 (-1) (1/2) = 1 := by decide +kernel


/-! ## the executable entry-list model of `apply_symmetry` (the function the correspondence run drives) -/

/-- **The list model establishes the requested symmetry, entry by entry**, for every dimension and every starting matrix:
    `symmetric` ⇒ `W i j = W j i`; `antisymmetric` ⇒ `W i j = −W j i`; `hermitian` ⇒ `W i j = conj (W j i)`;
    `antihermitian` ⇒ `W i j = −conj (W j i)`; `diagonal` ⇒ zero off the diagonal. (The matrix-level theorems above state the
    same for Mathlib matrices over any field; these tie them to the executable definitions.) -/
theorem applySymmetry_entries (n : ℕ) (a : List Tl.C) (i j : ℕ) (hi : i < n) (hj : j < n) :
    entry n (applySymmetryOnly .symmetric n a) i j = entry n (applySymmetryOnly .symmetric n a) j i ∧
    entry n (applySymmetryOnly .antisymmetric n a) i j = cneg (entry n (applySymmetryOnly .antisymmetric n a) j i) ∧
    entry n (applySymmetryOnly .hermitian n a) i j = conj (entry n (applySymmetryOnly .hermitian n a) j i) ∧
    entry n (applySymmetryOnly .antihermitian n a) i j = cneg (conj (entry n (applySymmetryOnly .antihermitian n a) j i)) ∧
    (i ≠ j → entry n (applySymmetryOnly .diagonal n a) i j = ⟨0, 0⟩) :=
  ⟨symmetric_entries n a i j hi hj, antisymmetric_entries n a i j hi hj, hermitian_entries n a i j hi hj,
   antihermitian_entries n a i j hi hj, diagonal_entries n a i j hi hj⟩

/-- **Traceless** on the list model: the trace is exactly zero after the traceless step, for every symmetry option and
    dimension `n > 0`; the step changes only the diagonal (by the same amount everywhere), so the symmetry relations survive. -/
theorem applySymmetry_traceless (sym : Symmetry) (n : ℕ) (hn : 0 < n) (a : List Tl.C) :
    Sp.trace n (applySymmetry sym true n a) = ⟨0, 0⟩ ∧
    ∀ i j, i < n → j < n → i ≠ j → entry n (applySymmetry sym true n a) i j = entry n (applySymmetryOnly sym n a) i j :=
  ⟨traceless_trace_zero_list sym n hn a, fun i j hi hj hne => traceless_offdiag sym n a i j hi hj hne⟩

end C12

import Mitx.Model.ParserState
import Mitx.Parser.UsageMain
import Mitx.Parser.Erase
import Mitx.Lemmas.ParserHeap
/-! # C10 — reported name usage is exact and parsing is independent of parse history -/
namespace C10
open C03 PS

/-- **Exact usage.** Whenever the side-effecting parser accepts a token list, the names it has collected in
    its scratch (never rolled back when pyparsing abandons an alternative) are exactly the names occurring in
    the resulting tree, kind by kind: none missing, none spurious, functions and variables never confused. -/
theorem usage_exact {ts : List Tok} {t : T} {sc : Sc} (h : parseUsage ts = some (t, sc)) :
    ∀ x, x ∈ sc ↔ x ∈ names t := C03.usage_exact h

/-- the side-effecting parser and the pure parser build the same tree -/
theorem usage_tree {ts : List Tok} {t : T} {sc : Sc} (h : parseUsage ts = some (t, sc)) : parseToks ts = some t :=
  C03.parseUsage_tree h

/-! ## history independence -/

/-- invariant of the parser object between calls -/
structure Inv (st : St) : Prop where
  scratch_empty : st.scratch = []
  cache_fresh : ∀ k e, st.cache.lookup k = some e → (rawParse init k).2 = some e

theorem rawParse_scratch (st : St) (k : String) : (rawParse st k).1.scratch = [] := rfl
theorem rawParse_cache (st : St) (k : String) : (rawParse st k).1.cache = st.cache := rfl

theorem rawParse_of_empty {st : St} (h : st.scratch = []) (k : String) : (rawParse st k).2 = (rawParse init k).2 := by
  unfold rawParse init
  simp only [h]

theorem inv_init : Inv init := ⟨rfl, by intro k e h; simp [init] at h⟩

theorem inv_parse {st : St} (hi : Inv st) (s : String) : Inv (parse st s).1 := by
  unfold parse
  cases hl : st.cache.lookup (stripSpaces s) with
  | some e => simpa [hl] using hi
  | none =>
    simp only [hl]
    have hr := rawParse_of_empty hi.scratch_empty (stripSpaces s)
    rcases hres : rawParse st (stripSpaces s) with ⟨st', r⟩
    have hsc : st'.scratch = [] := by have := rawParse_scratch st (stripSpaces s); rw [hres] at this; exact this
    have hca : st'.cache = st.cache := by have := rawParse_cache st (stripSpaces s); rw [hres] at this; exact this
    have hr2 : r = (rawParse init (stripSpaces s)).2 := by rw [← hr, hres]
    cases r with
    | none => exact ⟨hsc, by intro k e h; rw [hca] at h; exact hi.cache_fresh k e h⟩
    | some e =>
      refine ⟨hsc, ?_⟩
      intro k e' h
      simp only [List.lookup_cons] at h
      by_cases hk : k = stripSpaces s
      · subst hk
        simp at h
        subst h
        exact hr2.symm
      · have : (k == stripSpaces s) = false := by simpa using hk
        rw [this] at h
        rw [hca] at h
        exact hi.cache_fresh k e' h

theorem inv_history {st : St} (hi : Inv st) (h : List String) : Inv (runHistory st h) := by
  induction h generalizing st with
  | nil => exact hi
  | cons s h ih => exact ih (inv_parse hi s)

/-- what a caller can observe of one `parse` call -/
def view : Outcome → Option Expr × Option String
  | .ok e => (some e, none)
  | .unableToParse o => (none, some o)

theorem parse_outcome_of_inv {st : St} (hi : Inv st) (s : String) :
    view (parse st s).2 = view (parse init s).2 := by
  unfold parse
  have hinit : init.cache.lookup (stripSpaces s) = none := by simp [init]
  simp only [hinit]
  have hr := rawParse_of_empty hi.scratch_empty (stripSpaces s)
  cases hl : st.cache.lookup (stripSpaces s) with
  | some e =>
    have := hi.cache_fresh _ _ hl
    simp only
    rcases hres : rawParse init (stripSpaces s) with ⟨st', r⟩
    rw [hres] at this
    simp only at this
    subst this
    rfl
  | none =>
    simp only
    rcases hres : rawParse st (stripSpaces s) with ⟨st', r⟩
    rcases hres0 : rawParse init (stripSpaces s) with ⟨st0, r0⟩
    rw [hres, hres0] at hr
    simp only at hr
    subst hr
    cases r <;> rfl

/-- **History independence.** After any sequence of `parse` calls — valid or invalid strings, repeated or
    not — a `parse` call on the same parser object yields exactly what a freshly constructed parser yields:
    the same tree and reported names, or the same error naming the string as submitted. -/
theorem history_independent (h : List String) (s : String) :
    view (parse (runHistory init h) s).2 = view (parse init s).2 :=
  parse_outcome_of_inv (inv_history inv_init h) s

/-- spaces never matter: two spellings with the same space-stripped form share the cache entry and the result -/
theorem spaces_share_cache (st : St) (s s' : String) (h : stripSpaces s = stripSpaces s') :
    (view (parse st s).2).1 = (view (parse st s').2).1 := by
  unfold parse
  rw [h]
  cases hl : st.cache.lookup (stripSpaces s') with
  | some e => simp [view, hl]
  | none =>
    rcases hres : rawParse st (stripSpaces s') with ⟨st', r⟩
    cases r <;> simp [view, hl, hres]

/-- the mechanism matters: with a stale scratch the reported names are wrong (this is what a missing
    `reset_storage` would produce), so `scratch_empty` is a real obligation, not decoration -/
example : ((rawParse { cache := [], scratch := [(Kind.var, "stale")] } "x").2.map (·.2)) = some [(Kind.var, "stale"), (Kind.var, "x")] := by
  decide +kernel

/-! ## the mechanism: usage sets are shared objects, `reset_storage` rebinds -/

/-- **Object-level history independence.** In the object-identity model — parse actions mutate the set objects bound to
    the parser, a `MathExpression` holds those very objects, `reset_storage` binds fresh ones — what an observer reads
    after any history equals what a fresh parser yields. (Refinement of the value-level machine above.) -/
theorem object_history_independent (h : List String) (s : String) :
    view (PH.absOut (PH.parse .rebind (PH.runHistory .rebind PH.init h) s).1 (PH.parse .rebind (PH.runHistory .rebind PH.init h) s).2)
      = view (parse init s).2 := by
  obtain ⟨hw, ha⟩ := PH.history_refines PH.wf_init h
  obtain ⟨_, _, ho⟩ := PH.parse_refines hw s
  rw [ho, ha]
  exact history_independent h s

/-- **Cached expressions are never altered by later parses**: the names read through a cached expression stay the same
    whatever string is parsed next — because the reset *rebinds* the parser's sets instead of clearing them. -/
theorem cache_alias_safe {st : PH.HSt} (hw : PH.WF st) (k : String) (e : T × Nat) (he : (k, e) ∈ st.cache) (s : String) :
    PH.readExpr (PH.parse .rebind st s).1 e = PH.readExpr st e :=
  PH.cached_stable hw k e he s

theorem cache_alias_safe_history (h : List String) : PH.WF (PH.runHistory .rebind PH.init h) :=
  (PH.history_refines PH.wf_init h).1

/-- the rewrite `reset_storage → .clear()` is refuted by the model: the expression just cached for `"x"` loses its names
    (it aliases the cleared object), whereas with rebinding it keeps them -/
example : let st := (PH.parse .clear PH.init "x").1
    st.cache.map (fun p => (PH.readExpr st p.2).2) = [[]] := by decide +kernel
example : let st := (PH.parse .rebind PH.init "x").1
    st.cache.map (fun p => (PH.readExpr st p.2).2) = [[(Kind.var, "x")]] := by decide +kernel

end C10

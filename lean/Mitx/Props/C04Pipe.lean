import Mitx.Props.C04
import Mitx.Model.FormulaPipe
import Mitx.Lemmas.Optimal
/-! # C04 — the whole pipeline: both formulas on every sample, on the same sample

`FP.pipeline` composes the parser model, the rational evaluator and the tolerance / failure-count model into what a
`FormulaGrader` call with the default comparer does for scalar formulas. -/
namespace C04
open Tl

/-- **Same-sample pairing.** `gen_evaluations` returns one pair per sample, in sample order, and the i-th pair is the author's
    formula evaluated on sample i together with the student's formula evaluated on the *same* sample i (minus the
    instructor-only variables) — never on another sample, never a value carried over from an earlier sample. -/
theorem pipeline_same_sample {answer student : String} {hidden : List String} {samples : List EvQ.Env} {pairs : List (Val × Val)}
    (h : FP.genEvaluations answer student hidden samples = .ok pairs) :
    pairs.length = samples.length ∧
    ∀ i (h1 : i < samples.length) (h2 : i < pairs.length), FP.samplePair answer student hidden samples[i] = .ok pairs[i] := by
  have hf := (Gr.mapM_ok_iff _ _ _).mp h
  obtain ⟨hl, hg⟩ := Gr.forall2_get hf
  exact ⟨hl.symm, fun i h1 h2 => hg i h1 h2⟩

/-- **Algebraically identical rewritings earn the answer's full credit.** If on every sample the student's formula has the
    value of the author's (both evaluate), the verdict is the answer's own result, whatever the number of samples and
    `failable_evals`, for every non-negative tolerance. -/
theorem pipeline_equal_values_full_credit {answer student : String} {hidden : List String} {samples : List EvQ.Env}
    (tol : Tolerance) (ht : tol.nonneg) (ans : At.Res) (fe : Nat)
    (heq : ∀ env ∈ samples, ∃ q, FP.evalOn answer env = .val q ∧ FP.evalOn student (FP.studentEnv hidden env) = .val q) :
    FP.pipeline answer student hidden samples tol ans fe = .ok (some ans) := by
  have hpairs : ∃ pairs, FP.genEvaluations answer student hidden samples = .ok pairs ∧ ∀ p ∈ pairs, p.2 = p.1 := by
    unfold FP.genEvaluations
    induction samples with
    | nil => exact ⟨[], rfl, by simp⟩
    | cons env rest ih =>
      obtain ⟨q, ha, hs⟩ := heq env (by simp)
      obtain ⟨ps, hps, hid⟩ := ih (fun e he => heq e (by simp [he]))
      refine ⟨(.num ⟨q, 0⟩, .num ⟨q, 0⟩) :: ps, ?_, ?_⟩
      · rw [List.mapM_cons]
        simp only [FP.samplePair, ha, hs, hps, bind, Except.bind, pure, Except.pure]
      · intro p hp
        rcases List.mem_cons.mp hp with rfl | h'
        · rfl
        · exact hid p h'
  obtain ⟨pairs, hp, hid⟩ := hpairs
  unfold FP.pipeline
  rw [hp]
  simp only [Except.map]
  rw [identical_full_credit pairs tol ans fe ht hid]

/-- a formula that mentions an instructor-only variable cannot be evaluated in the student's scope: the pipeline reports the
    student-side failure whatever the values (C09's hidden-name clause, seen from the pipeline) -/
theorem pipeline_student_error {answer student : String} {hidden : List String} {env : EvQ.Env} {rest : List EvQ.Env} {q : Rat} {k : String}
    (tol : Tolerance) (ans : At.Res) (fe : Nat)
    (ha : FP.evalOn answer env = .val q) (hs : FP.evalOn student (FP.studentEnv hidden env) = .err k) :
    FP.pipeline answer student hidden (env :: rest) tol ans fe = .error ("student:" ++ k) := by
  unfold FP.pipeline FP.genEvaluations
  rw [List.mapM_cons]
  simp [FP.samplePair, ha, hs, bind, Except.bind, Except.map]

end C04

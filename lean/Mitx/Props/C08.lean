import Mitx.Lemmas.Grade
/-! # C08 — among alternative answers the student always receives the best-scoring one

Model: `Gr.itemCheck` (`ItemGrader.check`), for an arbitrary `check_response` function `cr`. -/
namespace C08
open Gr

variable {ε : Type} (cr : AnsMeta → ε → String → M IRes) (w : String)

/-- what a successful `check` computed: the per-(alternative, value) results, the chosen one -/
theorem check_ok_inv {answers : List (Answer ε)} {inp : String} {out : IRes}
    (h : itemCheck cr w answers inp = .ok out) :
    ∃ results chosen, (expand answers).mapM (fun p => cr p.1 p.2 inp) = .ok results ∧
      chosen ∈ results ∧ (∀ r ∈ results, r.grade ≤ chosen.grade) ∧
      (∀ r ∈ results, r.grade = chosen.grade → r.msg.length ≤ chosen.msg.length) ∧
      out = (if chosen.msg == "" && chosen.grade == 0 then { chosen with msg := w } else chosen) := by
  unfold itemCheck at h
  by_cases he : answers.isEmpty = true
  · simp [he, throw, throwThe, MonadExceptOf.throw] at h; cases h
  · simp only [he, Bool.false_eq_true, ↓reduceIte, bind, Except.bind, pure, Except.pure] at h
    cases hm : (expand answers).mapM (fun p => cr p.1 p.2 inp) with
    | error e => rw [hm] at h; cases h
    | ok results =>
      rw [hm] at h
      simp only at h
      cases hb : maxRat (results.map (·.grade)) with
      | none => rw [hb] at h; simp [throw, throwThe, MonadExceptOf.throw] at h
      | some best =>
        rw [hb] at h
        simp only at h
        obtain ⟨hbm, hball⟩ := maxRat_spec _ _ hb
        cases hc : firstMaxBy (fun r => r.msg.length) (results.filter (fun r => r.grade == best)) with
        | none => rw [hc] at h; simp [throw, throwThe, MonadExceptOf.throw] at h
        | some chosen =>
          rw [hc] at h
          simp only [Except.ok.injEq] at h
          obtain ⟨hcm, hcall⟩ := firstMaxBy_spec _ _ _ hc
          simp only [List.mem_filter, beq_iff_eq] at hcm
          refine ⟨results, chosen, rfl, hcm.1, ?_, ?_, ?_⟩
          · intro r hr; rw [hcm.2]; exact hball _ (List.mem_map_of_mem hr)
          · intro r hr hg
            exact hcall r (by simp only [List.mem_filter, beq_iff_eq]; exact ⟨hr, by rw [hg, hcm.2]⟩)
          · rw [← h, hcm.2]

/-- **The grade is the maximum** credit the input earns against any single value of any single alternative. -/
theorem check_grade_is_max {answers : List (Answer ε)} {inp : String} {out : IRes}
    (h : itemCheck cr w answers inp = .ok out) :
    (∀ p ∈ expand answers, ∀ r, cr p.1 p.2 inp = .ok r → r.grade ≤ out.grade) ∧
    (∃ p ∈ expand answers, ∃ r, cr p.1 p.2 inp = .ok r ∧ r.grade = out.grade) := by
  obtain ⟨results, chosen, hm, hcm, hmax, _, hout⟩ := check_ok_inv cr w h
  have hf := (mapM_ok_iff _ _ _).mp hm
  have hg : out.grade = chosen.grade := by rw [hout]; split <;> rfl
  constructor
  · intro p hp r hr
    obtain ⟨r', hr', hpr⟩ := forall2_mem_left hf p hp
    rw [hr] at hpr; cases hpr
    rw [hg]; exact hmax r hr'
  · obtain ⟨p, hp, hpr⟩ := forall2_mem_right hf chosen hcm
    exact ⟨p, hp, chosen, hpr, hg.symm⟩

theorem expand_perm {a₁ a₂ : List (Answer ε)} (hp : a₁.Perm a₂) : (expand a₁).Perm (expand a₂) := by
  unfold expand; exact hp.flatMap_right _

/-- **Order independence**: listing the alternatives in another order gives the same grade. -/
theorem check_order_independent {a₁ a₂ : List (Answer ε)} {inp : String} {o₁ o₂ : IRes} (hp : a₁.Perm a₂)
    (h₁ : itemCheck cr w a₁ inp = .ok o₁) (h₂ : itemCheck cr w a₂ inp = .ok o₂) : o₁.grade = o₂.grade := by
  obtain ⟨hle₁, p₁, hp₁, r₁, hr₁, hg₁⟩ := check_grade_is_max cr w h₁
  obtain ⟨hle₂, p₂, hp₂, r₂, hr₂, hg₂⟩ := check_grade_is_max cr w h₂
  have e := expand_perm hp
  apply le_antisymm
  · rw [← hg₁]; exact hle₂ p₁ (e.subset hp₁) r₁ hr₁
  · rw [← hg₂]; exact hle₁ p₂ (e.symm.subset hp₂) r₂ hr₂

/-- **Longest message wins ties; wrong_msg exactly when the best grade is zero and no message applies.** -/
theorem check_message {answers : List (Answer ε)} {inp : String} {out : IRes}
    (h : itemCheck cr w answers inp = .ok out) :
    ∃ p ∈ expand answers, ∃ c, cr p.1 p.2 inp = .ok c ∧ c.grade = out.grade ∧
      (∀ q ∈ expand answers, ∀ r, cr q.1 q.2 inp = .ok r → r.grade = out.grade → r.msg.length ≤ c.msg.length) ∧
      ((c.msg = "" ∧ out.grade = 0) → out.msg = w) ∧ (¬(c.msg = "" ∧ out.grade = 0) → out.msg = c.msg) := by
  obtain ⟨results, chosen, hm, hcm, _, hlen, hout⟩ := check_ok_inv cr w h
  have hf := (mapM_ok_iff _ _ _).mp hm
  have hg : out.grade = chosen.grade := by rw [hout]; split <;> rfl
  obtain ⟨p, hp, hpr⟩ := forall2_mem_right hf chosen hcm
  refine ⟨p, hp, chosen, hpr, hg.symm, ?_, ?_, ?_⟩
  · intro q hq r hr hgr
    obtain ⟨r', hr', hqr⟩ := forall2_mem_left hf q hq
    rw [hr] at hqr; cases hqr
    exact hlen r hr' (by rw [hgr, hg])
  · intro ⟨h1, h2⟩
    rw [hg] at h2
    rw [hout]; simp [h1, h2]
  · intro hn
    rw [hg] at hn
    rw [hout]
    by_cases h1 : chosen.msg = "" <;> by_cases h2 : chosen.grade = 0 <;> simp_all

/-- **Raising**: with at least one (alternative, value) pair, `check` raises iff some alternative raises. -/
theorem check_raises_iff {answers : List (Answer ε)} {inp : String} (hne : expand answers ≠ []) :
    (∃ e, itemCheck cr w answers inp = .error e) ↔ ∃ p ∈ expand answers, ∃ e, cr p.1 p.2 inp = .error e := by
  have hans : answers.isEmpty = false := by
    cases answers with
    | nil => simp [expand] at hne
    | cons _ _ => rfl
  constructor
  · intro ⟨e, h⟩
    by_contra hno
    have hall : ¬ ∃ e, (expand answers).mapM (fun p => cr p.1 p.2 inp) = .error e := by
      rw [mapM_error_iff]; exact hno
    cases hm : (expand answers).mapM (fun p => cr p.1 p.2 inp) with
    | error e' => exact hall ⟨e', hm⟩
    | ok results =>
      have hf := (mapM_ok_iff _ _ _).mp hm
      have hrne : results ≠ [] := by
        intro hr; subst hr
        generalize expand answers = l at hf hne
        cases hf; exact hne rfl
      unfold itemCheck at h
      simp only [hans, Bool.false_eq_true, ↓reduceIte, bind, Except.bind, pure, Except.pure, hm] at h
      cases hb : maxRat (results.map (·.grade)) with
      | none => exact hrne (by simpa using maxRat_none hb)
      | some best =>
        rw [hb] at h; simp only at h
        obtain ⟨hbm, _⟩ := maxRat_spec _ _ hb
        cases hc : firstMaxBy (fun r => r.msg.length) (results.filter (fun r => r.grade == best)) with
        | none =>
          have := firstMaxBy_none _ hc
          obtain ⟨r, hr, hrg⟩ := List.mem_map.mp hbm
          have : r ∈ results.filter (fun r => r.grade == best) := by simp [hr, hrg]
          simp_all
        | some c => rw [hc] at h; cases h
  · intro hex
    obtain ⟨e, he⟩ := (mapM_error_iff _ _).mpr hex
    refine ⟨e, ?_⟩
    unfold itemCheck
    simp only [hans, Bool.false_eq_true, ↓reduceIte, bind, Except.bind, he]

/-- no alternatives at all is a configuration error -/
theorem empty_answers_config_error (inp : String) :
    itemCheck cr w [] inp = .error (Err.config "There is a problem with the author's problem configuration: Expected at least one answer in answers") := rfl

end C08

/-! # Registered class defaults (`ObjectWithSchema.apply_registered_defaults`, docs/plugins.md) with object identity

Python dictionaries are association lists in insertion order living at an identity in a heap; a class either has a registered
dictionary (an identity) or `None`. The model follows the code statement by statement: a NEW dictionary is created, every
registered dictionary of the chain is copied into it from the most general class to the most specific one, then the
grader's own configuration is copied in. Values are opaque (canonical text). -/
namespace Rd

abbrev Dict := List (String × String)

def lookup (d : Dict) (k : String) : Option String := (d.find? (fun kv => kv.1 == k)).map (·.2)

/-- `d[k] = v` (insertion order: an existing key keeps its place) -/
def set (d : Dict) (k v : String) : Dict :=
  if d.any (fun kv => kv.1 == k) then d.map (fun kv => if kv.1 == k then (k, v) else kv) else d ++ [(k, v)]

/-- `d.update(u)` -/
def update (d u : Dict) : Dict := u.foldl (fun acc kv => set acc kv.1 kv.2) d

structure Heap where
  cells : List (Nat × Dict)
  next : Nat

def Heap.get (h : Heap) (i : Nat) : Dict := ((h.cells.find? (fun c => c.1 == i)).map (·.2)).getD []
def Heap.alloc (h : Heap) (d : Dict) : Heap × Nat := (⟨h.cells ++ [(h.next, d)], h.next + 1⟩, h.next)

/-- `base = {}; for entry in reversed(config_dicts): if entry is not None: base.update(entry)` -/
def classStep (h : Heap) (b : Dict) : Option Nat → Dict
  | none => b
  | some i => update b (h.get i)
def baseOf (h : Heap) (chain : List (Option Nat)) : Dict := chain.reverse.foldl (classStep h) []

/-- `chain`: the `default_values` attribute of the class itself and of each superclass up to ObjectWithSchema, most specific
first (an identity in the heap, or `None`). Returns the heap after the call and the identity of the returned configuration. -/
def applyDefaults (h : Heap) (chain : List (Option Nat)) (config : Dict) : Heap × Nat :=
  h.alloc (update (baseOf h chain) config)

/-- the specification the property needs: explicit options, else the most specific class that registers the key -/
def classLookup (h : Heap) (k : String) : Option Nat → Option String
  | none => none
  | some i => lookup (h.get i) k

def specLookup (h : Heap) (chain : List (Option Nat)) (config : Dict) (k : String) : Option String :=
  match lookup config k with
  | some v => some v
  | none => chain.findSome? (classLookup h k)

end Rd

import Mitx.Parser.Usage
import Mitx.Parser.Lex
/-! Executable interpretation of parse trees over exact rationals: the concrete instance of the operator
algebra `Alg` used by the correspondence with `evaluator(...)`. Everything the real evaluator does in
floating point that is not a rational function of its operands (non-integer powers, arrays, named numpy
functions) is `oom` (outside the model) and is never compared. Also `check_scope`. Core Lean only. -/
namespace EvQ
open C03

inductive QV
  | val (q : Rat)
  | err (k : String)      -- "divzero" | "oom" | "undef-var" | "undef-func" | "suffix" | "arity"
  deriving Repr, Inhabited

def QV.bind (x : QV) (f : Rat → QV) : QV := match x with | .val q => f q | .err k => .err k
def QV.bind2 (x y : QV) (f : Rat → Rat → QV) : QV := x.bind (fun a => y.bind (fun b => f a b))

def digitsVal (cs : List Char) : Nat := cs.foldl (fun a c => 10 * a + (c.toNat - '0'.toNat)) 0

def pow10 (e : Int) : Rat := if e ≥ 0 then ((10 ^ e.toNat : Nat) : Rat) else 1 / ((10 ^ (-e).toNat : Nat) : Rat)

/-- value of a number literal as the lexer normalises it: `ddd[.ddd][E[+-]ddd]` -/
def numVal (txt : String) : Rat :=
  let cs := txt.toList
  let (mant, ex) := (cs.takeWhile (· != 'E'), (cs.dropWhile (· != 'E')).drop 1)
  let ip := mant.takeWhile (· != '.')
  let fp := (mant.dropWhile (· != '.')).drop 1
  let m : Rat := (digitsVal ip : Rat) + (digitsVal fp : Rat) / ((10 ^ fp.length : Nat) : Rat)
  let e : Int := match ex with
    | '-' :: d => - (digitsVal d : Int)
    | '+' :: d => (digitsVal d : Int)
    | d => (digitsVal d : Int)
  m * pow10 e

def ratPow (b : Rat) (e : Int) : QV :=
  if e.natAbs > 64 then .err "oom"
  else if e ≥ 0 then .val (b ^ e.toNat)
  else if b = 0 then .err "divzero" else .val (1 / (b ^ (-e).toNat))

structure Env where
  vars : List (String × Rat)
  sufs : List (String × Rat)

/-- three fixed author functions used by the harness (registered identically on the Python side) -/
def callFn (f : String) (xs : List Rat) : QV :=
  match f, xs with
  | "f1", [x] => .val (2 * x + 1)
  | "g2", [x, y] => .val (x - 3 * y)
  | "h3", [x, y, z] => .val (x + 2 * y + 4 * z)
  | "f1", _ => .err "arity" | "g2", _ => .err "arity" | "h3", _ => .err "arity"
  | _, _ => .err "oom"

def seqQV : List QV → Except String (List Rat)
  | [] => .ok []
  | .val q :: r => (seqQV r).map (q :: ·)
  | .err k :: _ => .error k

def alg (env : Env) : Alg QV where
  num txt suf := match suf with
    | none => .val (numVal txt)
    | some s => match env.sufs.lookup s with
      | some m => .val (numVal txt * m)
      | none => .err "suffix"
  var s := match env.vars.lookup s with | some v => .val v | none => .err "undef-var"
  call f xs := match seqQV xs with | .ok l => callFn f l | .error k => .err k
  arr _ := .err "oom"
  add a b := a.bind2 b (fun x y => .val (x + y))
  sub a b := a.bind2 b (fun x y => .val (x - y))
  mul a b := a.bind2 b (fun x y => .val (x * y))
  div a b := a.bind2 b (fun x y => if y = 0 then .err "divzero" else .val (x / y))
  pow a b := a.bind2 b (fun x y => if y.den = 1 then ratPow x y.num else .err "oom")
  neg a := a.bind (fun x => .val (-x))
  par xs := match seqQV xs with
    | .error k => .err k
    | .ok l => if l.any (· == 0) then .val 0 else
        let s := (l.map (fun x => 1 / x)).foldl (· + ·) 0
        if s = 0 then .err "divzero" else .val (1 / s)

def knownFns : List String := ["f1", "g2", "h3"]

/-- `check_scope` then `eval` -/
def evalChecked (env : Env) (t : T) (sc : Sc) : QV :=
  if sc.any (fun p => p.1 == Kind.var && (env.vars.lookup p.2).isNone) then .err "undef-var"
  else if sc.any (fun p => p.1 == Kind.func && !knownFns.contains p.2) then .err "undef-func"
  else if sc.any (fun p => p.1 == Kind.suf && (env.sufs.lookup p.2).isNone) then .err "suffix"
  else evalT (alg env) t

end EvQ

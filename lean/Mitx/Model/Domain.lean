/-! Executable model of `SpecifyDomain.make_decorator` (helpers/calc/specify_domain.py) and of the arity check of
`MathExpression.eval_function` / `validate_function_call` (expressions.py). Core Lean only. -/
namespace Dm

/-- a shape specification of the decorator -/
inductive Spec
  | scalar                      -- (1,)
  | shape (s : List Nat)        -- an exact numpy shape
  | square
  deriving DecidableEq, Repr

/-- what an argument looks like to the validators -/
inductive Arg
  | number
  | array (s : List Nat)
  | other                       -- any other Python object
  deriving DecidableEq, Repr

def size (s : List Nat) : Nat := s.foldl (· * ·) 1

/-- `has_shape(shape)(arg)` succeeds? (`number_validator` for scalars, `shape_validator` otherwise) -/
def hasShape : Spec → Arg → Bool
  | .scalar, .number => true
  | .scalar, .array s => size s == 1
  | .shape s, .array s' => s == s'
  | .square, .array s' => s'.length == 2 && s'.getD 0 0 == s'.getD 1 1
  | _, _ => false

inductive DErr
  | argument (expected received : Nat) (atLeast : Bool)   -- ArgumentError: wrong number of arguments
  | argumentShape (bad : List Nat)                        -- ArgumentShapeError: 1-based positions with an error
  deriving DecidableEq, Repr

/-- the decorated `_func(*args)`: `.ok ()` = the wrapped function is called with exactly these arguments -/
def decorated (shapes : List Spec) (minLength : Option Nat) (args : List Arg) : Except DErr Unit :=
  match minLength with
  | some m =>
    if args.length < m then .error (.argument m args.length true)
    else
      let spec := shapes.headD .scalar
      let bad := (List.range args.length).filter (fun i => !hasShape spec (args.getD i .other))
      if bad.isEmpty then .ok () else .error (.argumentShape (bad.map (· + 1)))
  | none =>
    if shapes.length ≠ args.length then .error (.argument shapes.length args.length false)
    else
      let bad := (List.range args.length).filter (fun i => !hasShape (shapes.getD i .scalar) (args.getD i .other))
      if bad.isEmpty then .ok () else .error (.argumentShape (bad.map (· + 1)))

/-- `eval_function`: functions that do not validate themselves get the arity check of `validate_function_call` -/
def evalFunctionArity (validated : Bool) (expected received : Nat) : Except DErr Unit :=
  if !validated && expected ≠ received then .error (.argument expected received false) else .ok ()

end Dm

import Mitx.Parser.Usage
import Mitx.Parser.Lex
/-! Model of the `MathParser` object (expressions.py 310-343, 480-530): per-instance scratch sets that the parse
actions append to, `raw_parse` with its `finally: reset_storage()`, and the process-wide cache keyed by the
space-stripped string that stores only successful parses. Core Lean only. -/
namespace PS
open C03

/-- a cached `MathExpression`: the tree and the three usage sets (here one tagged list) -/
abbrev Expr := T × Sc

structure St where
  cache : List (String × Expr)
  scratch : Sc                 -- variables_used / functions_used / suffixes_used of the parser object

def init : St := { cache := [], scratch := [] }

inductive Outcome
  | ok (e : Expr)
  | unableToParse (original : String)     -- message names the string as submitted (with its spaces)
  deriving Inhabited

def stripSpaces (s : String) : String := String.ofList (s.toList.filter (· != ' '))

/-- `raw_parse(key)`: the grammar runs with the parser object's *current* scratch sets (parse actions only ever
    add to them); whatever happens, `finally: self.reset_storage()` rebinds fresh empty sets. -/
def rawParse (st : St) (key : String) : St × Option Expr :=
  let cs := key.toList
  let res : Option Expr :=
    match lexAux (cs.length + 1) cs with
    | none => none
    | some ts =>
      match qExpr (20 * ts.length + 20) ts st.scratch with
      | (some (t, []), sc) => some (t, sc)
      | _ => none
  ({ st with scratch := [] }, res)

/-- `MathParser.parse(expression)` -/
def parse (st : St) (s : String) : St × Outcome :=
  let key := stripSpaces s
  match st.cache.lookup key with
  | some e => (st, .ok e)
  | none =>
    match rawParse st key with
    | (st', some e) => ({ st' with cache := (key, e) :: st'.cache }, .ok e)
    | (st', none) => (st', .unableToParse s)

/-- a whole history of parse calls on one parser object -/
def runHistory (st : St) (h : List String) : St := h.foldl (fun st s => (parse st s).1) st

end PS

import Mitx.Parser.Usage
import Mitx.Parser.Lex
/-! Model of the `MathParser` object (expressions.py 310-343, 480-530): per-instance scratch sets that the parse
actions append to, `raw_parse` with its `finally: reset_storage()`, and the process-wide cache keyed by the
space-stripped string that stores only successful parses. Core Lean only. -/
namespace PS
open C03

/-- a cached `MathExpression`: the tree and the three usage sets (here one tagged list) -/
abbrev Expr := T × Sc

structure St where
  cache : List (String × Expr)
  scratch : Sc                 -- variables_used / functions_used / suffixes_used of the parser object

def init : St := { cache := [], scratch := [] }

inductive Outcome
  | ok (e : Expr)
  | unableToParse (original : String)     -- message names the string as submitted (with its spaces)
  deriving Inhabited

def stripSpaces (s : String) : String := String.ofList (s.toList.filter (· != ' '))

/-- the grammar run on `key`, starting from the scratch contents `sc0`: the tree if the whole string parses, and
    the scratch contents afterwards (parse actions only ever add; nothing is rolled back, also on failure) -/
def runOn (sc0 : Sc) (key : String) : Option T × Sc :=
  match lexAux (key.toList.length + 1) key.toList with
  | none => (none, sc0)
  | some ts =>
    match qExpr (20 * ts.length + 20) ts sc0 with
    | (some (t, []), sc) => (some t, sc)
    | (_, sc) => (none, sc)

/-- `raw_parse(key)`: the grammar runs with the parser object's *current* scratch sets (parse actions only ever
    add to them); whatever happens, `finally: self.reset_storage()` rebinds fresh empty sets. -/
def rawParse (st : St) (key : String) : St × Option Expr :=
  let run := runOn st.scratch key
  ({ st with scratch := [] }, run.1.map (fun t => (t, run.2)))

/-- `MathParser.parse(expression)` -/
def parse (st : St) (s : String) : St × Outcome :=
  let key := stripSpaces s
  match st.cache.lookup key with
  | some e => (st, .ok e)
  | none =>
    match rawParse st key with
    | (st', some e) => ({ st' with cache := (key, e) :: st'.cache }, .ok e)
    | (st', none) => (st', .unableToParse s)

/-- a whole history of parse calls on one parser object -/
def runHistory (st : St) (h : List String) : St := h.foldl (fun st s => (parse st s).1) st

end PS

import Mitx.Model.Grade
/-! Executable model for C02 (failures surface only as library errors): `BracketValidator.validate` as a stack machine
(expressions.py), `AbstractGrader.ensure_text_inputs` with the Item/List specialisations (baseclasses.py, listgrader.py),
the exception recasting of `MathExpression.eval` / `eval_function` (expressions.py) and of `MatrixGrader.check_response`
(matrixgrader.py), and the exception class tree as a parent table. Core Lean only. -/
namespace Sf

/-! ### BracketValidator -/

def opener (c : Char) : Bool := c == '(' || c == '[' || c == '{'
def closer (c : Char) : Bool := c == ')' || c == ']' || c == '}'
def partner (c : Char) : Char :=
  if c == '(' then ')' else if c == '[' then ']' else if c == '{' then '}'
  else if c == ')' then '(' else if c == ']' then '[' else if c == '}' then '{' else c

inductive BErr
  | closeWithoutOpen (idx : Nat)
  | wrongClosing (prev cur : Nat)
  | openWithoutClose (idxs : List Nat)
  deriving DecidableEq, Repr

/-- the scan loop: `stack` holds (index, opening bracket), most recent first -/
def scan : List (Nat × Char) → Nat → List Char → Except BErr Unit
  | st, _, [] => if st.isEmpty then .ok () else .error (.openWithoutClose (st.reverse.map (·.1)))
  | st, i, c :: r =>
    if closer c then
      match st with
      | [] => .error (.closeWithoutOpen i)
      | (j, o) :: st' => if partner c ≠ o then .error (.wrongClosing j i) else scan st' (i + 1) r
    else if opener c then scan ((i, c) :: st) (i + 1) r
    else scan st (i + 1) r

/-- `BracketValidator.validate(formula)`; every failure is an `UnbalancedBrackets` error -/
def validate (s : List Char) : Except BErr Unit := scan [] 0 s

/-! ### ensure_text_inputs -/

/-- the part of a Python object that `ensure_text_inputs` looks at -/
inductive PyVal
  | str (s : String)
  | list (l : List PyVal)
  | other (ty : String)
  deriving Repr

inductive TextErr
  | both (ty : String)                 -- "The student_input passed to a grader should be: ..."
  | wantList (ty : String)             -- "Expected student_input to be a list of text strings, but received <ty>"
  | badItem (pos : Nat) (ty : String)  -- "... item at position pos has <ty>"
  | wantSingle (ty : String)           -- "Expected string for student_input, received <ty>"
  | valueError                         -- neither allowed: not a configuration error (unreachable from the graders)
  deriving DecidableEq, Repr

def PyVal.ty : PyVal → String
  | .str _ => "<class 'str'>"
  | .list _ => "<class 'list'>"
  | .other t => t

def firstNonStr : List PyVal → Nat → Option (Nat × String)
  | [], _ => none
  | .str _ :: r, i => firstNonStr r (i + 1)
  | v :: _, i => some (i, v.ty)

def strs : List PyVal → List String
  | [] => []
  | .str s :: r => s :: strs r
  | _ :: r => strs r

/-- `ensure_text_inputs(student_input, allow_lists, allow_single)`; every `TextErr` but `valueError` is a ConfigError -/
def ensureText (allowLists allowSingle : Bool) (v : PyVal) : Except TextErr Gr.GInput :=
  match v with
  | .list l =>
    if allowLists then
      match firstNonStr l 0 with
      | none => .ok (.many (strs l))
      | some (pos, ty) => if allowSingle then .error (.both v.ty) else .error (.badItem pos ty)
    else if allowSingle then .error (.wantSingle v.ty) else .error .valueError
  | .str s =>
    if allowSingle then .ok (.one s)
    else if allowLists then .error (.wantList v.ty) else .error .valueError
  | .other t =>
    if allowLists && allowSingle then .error (.both t)
    else if allowLists then .error (.wantList t)
    else if allowSingle then .error (.wantSingle t) else .error .valueError

/-! ### exception recasting -/

/-- what a piece of evaluation code raised, as far as the handlers distinguish -/
inductive PyExc
  | overflow
  | zeroDiv
  | studentFacing (cls msg : String)     -- any StudentFacingError subclass
  | otherMitx (cls msg : String)         -- e.g. ConfigError
  | other (cls msg : String)
  deriving DecidableEq, Repr

/-- `eval_function`'s `try: return func(*args)` handlers -/
def evalFunctionRecast (name : String) : PyExc → Gr.Err
  | .studentFacing c m => .mitx c m
  | .zeroDiv => .mitx "CalcZeroDivisionError" ("There was an error evaluating " ++ name ++ "(...). Its input does not seem to be in its domain.")
  | .overflow => .mitx "CalcOverflowError" ("There was an error evaluating " ++ name ++ "(...). (Numerical overflow).")
  | .otherMitx _ _ => .mitx "FunctionEvalError" ("There was an error evaluating " ++ name ++ "(...). Its input does not seem to be in its domain.")
  | .other _ _ => .mitx "FunctionEvalError" ("There was an error evaluating " ++ name ++ "(...). Its input does not seem to be in its domain.")

/-- the handlers around `eval_node` in `MathExpression.eval` -/
def evalRecast : PyExc → Gr.Err
  | .overflow => .mitx "CalcOverflowError" "Numerical overflow occurred. Does your input generate very large numbers?"
  | .zeroDiv => .mitx "CalcZeroDivisionError" "Division by zero occurred. Check your input's denominators."
  | .studentFacing c m => .mitx c m
  | .otherMitx c m => .mitx c m
  | .other c m => .py c m

/-- the exception classes `MatrixGrader.check_response` distinguishes (first matching handler wins) -/
inductive MErr
  | shape          -- MathArrayShapeError
  | inputType      -- InputTypeError
  | argShape       -- ArgumentShapeError
  | mathArray      -- MathArrayError (not a shape error)
  | unrelated
  deriving DecidableEq, Repr

structure MCfg where
  suppress : Bool        -- suppress_matrix_messages
  shapeErrors : Bool     -- shape_errors
  isRaised : Bool        -- answer_shape_mismatch['is_raised']

inductive MOut
  | reraise
  | zero (msg : Bool)    -- graded incorrect, with (true) or without (false) the error's message
  deriving DecidableEq, Repr

def matrixRecast (cfg : MCfg) : MErr → MOut
  | .shape => if cfg.suppress then .zero false else if cfg.shapeErrors then .reraise else .zero true
  | .inputType => if cfg.suppress then .zero false else if cfg.isRaised then .reraise else .zero true
  | .argShape => if cfg.suppress then .zero false else .reraise
  | .mathArray => if cfg.suppress then .zero false else .reraise
  | .unrelated => .reraise

/-! ### the exception class tree (child, parent); checked against the live classes by a generated obligation -/

def classTree : List (String × String) :=
  [("ConfigError", "MITxError"), ("StudentFacingError", "MITxError"), ("InvalidInput", "StudentFacingError"),
   ("InputTypeError", "InvalidInput"), ("MissingInput", "StudentFacingError"), ("CalcError", "StudentFacingError"),
   ("UndefinedVariable", "CalcError"), ("UndefinedFunction", "CalcError"), ("UnbalancedBrackets", "CalcError"),
   ("CalcZeroDivisionError", "CalcError"), ("CalcOverflowError", "CalcError"), ("FunctionEvalError", "CalcError"),
   ("UnableToParse", "CalcError"), ("DomainError", "CalcError"), ("ArgumentError", "DomainError"),
   ("ArgumentShapeError", "DomainError"), ("MathArrayError", "CalcError"), ("MathArrayShapeError", "MathArrayError"),
   ("IntegrationError", "StudentFacingError"), ("SummationError", "StudentFacingError")]

/-- does `cls` descend from `MITxError` in the table (fuel = table length)? -/
def descends (tree : List (String × String)) : Nat → String → Bool
  | _, "MITxError" => true
  | 0, _ => false
  | f + 1, cls => match tree.lookup cls with
    | some p => descends tree f p
    | none => false

end Sf

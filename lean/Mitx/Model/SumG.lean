import Mitx.Model.Tol
/-! Executable model of the summation logic of `SumGrader` (formulagrader/integralgrader.py): `validate_input_positions`,
`structure_and_validate_input` / `transform_list_to_dict`, the blank-field rule and dummy-variable validation of
`SummationGraderBase.check`, `evaluate_sum` (dummy clash, complex / non-integer limits, factorial-dependent cutoff) and
`perform_summation` (limit sorting, infinity replacement, parity start adjustment, inclusive range, left-to-right sum),
and the per-sample loop of `gen_evaluations`. The summand is a parameter `f : Int → V`. Core Lean only. -/
namespace Sm

/-- an evaluated summation limit as `perform_summation` receives it -/
inductive Lim
  | fin (n : Int)
  | pinf
  | ninf
  deriving DecidableEq, Repr

/-- Python's `lower > upper` on floats with infinities -/
def Lim.gt : Lim → Lim → Bool
  | .fin a, .fin b => decide (a > b)
  | .pinf, .pinf => false
  | .pinf, _ => true
  | .fin _, .ninf => true
  | _, _ => false

/-- `range(lo, hi, step)` for a positive step -/
def pyRange (lo hi : Int) (step : Nat) : List Int :=
  (List.range (((hi - lo) + (step : Int) - 1) / (step : Int)).toNat).map (fun (k : Nat) => lo + (step : Int) * (k : Int))

inductive Err
  | summation (msg : String)       -- SummationError (student-facing)
  | config (msg : String)          -- ConfigError
  | missing (msg : String)         -- MissingInput
  | invalid (msg : String)         -- InvalidInput
  deriving DecidableEq, Repr

/-- the start adjustment `if abs(lower % 2) != r: lower += 1` and the step -/
def parityStart (a : Int) (evenOdd : Nat) : Int × Nat :=
  if evenOdd = 1 then (if a % 2 ≠ 1 then a + 1 else a, 2)
  else if evenOdd = 2 then (if a % 2 ≠ 0 then a + 1 else a, 2)
  else (a, 1)

/-- `perform_summation(eval_summand, lower, upper, even_odd, infty_val)` -/
def performSummation {V : Type} [Add V] [Zero V] (f : Int → V) (lower upper : Lim) (evenOdd : Nat) (infty : Int) : Except Err V :=
  let lo0 := if lower.gt upper then upper else lower
  let hi0 := if lower.gt upper then lower else upper
  let lo := if lo0 = .ninf then .fin (-infty) else lo0
  let hi := if hi0 = .pinf then .fin infty else hi0
  if hi = .ninf then .error (.summation "Cannot sum from -infty to -infty.")
  else if lo = .pinf then .error (.summation "Cannot sum from infty to infty.")
  else
    match lo, hi with
    | .fin a, .fin b =>
      let p := parityStart a evenOdd
      .ok ((pyRange p.1 (b + 1) p.2).foldl (fun acc n => acc + f n) 0)
    | _, _ => .error (.summation "unreachable")

/-- what the evaluator returned for a limit expression -/
inductive LimVal
  | real (q : Rat)
  | pinf
  | ninf
  | complex
  deriving DecidableEq, Repr

def LimVal.toLim : LimVal → Option Lim
  | .real q => if q.den = 1 then some (.fin q.num) else none
  | .pinf => some .pinf
  | .ninf => some .ninf
  | .complex => none

/-- `evaluate_sum` after the limits have been evaluated: `scope` = names defined in the variable scope,
`usesFact` = a factorial function occurs in the limits or the summand -/
def evaluateSum {V : Type} [Add V] [Zero V] (scope : List String) (sumVar : String) (lower upper : LimVal) (usesFact : Bool)
    (inftyVal inftyFact : Int) (evenOdd : Nat) (f : Int → V) : Except Err V :=
  if scope.contains sumVar then
    .error (.summation s!"Summation variable {sumVar} conflicts with another previously-defined variable.")
  else if lower = .complex ∨ upper = .complex then
    .error (.summation "Summation limits must be real but have evaluated to complex numbers.")
  else
    match lower.toLim with
    | none => .error (.summation "Lower summation limit does not evaluate to an integer.")
    | some lo =>
      match upper.toLim with
      | none => .error (.summation "Upper summation limit does not evaluate to an integer.")
      | some hi => performSummation f lo hi evenOdd (if usesFact then inftyFact else inftyVal)

/-! ### input structuring -/

structure Fields (α : Type) where
  lower : α
  upper : α
  summand : α
  var : α
  deriving Repr, DecidableEq

def Fields.toList {α : Type} (x : Fields α) : List (String × α) :=
  [("lower", x.lower), ("upper", x.upper), ("summand", x.summand), ("summation_variable", x.var)]

/-- `validate_input_positions`: positions (1-based, `none` = not entered by the student) must be distinct and be exactly 1..k -/
def validatePositions (p : Fields (Option Nat)) : Except Err (Fields (Option Nat)) :=
  let used := p.toList.filterMap (·.2)
  if used.eraseDups.length < used.length then .error (.config "Key input_positions has repeated indices.")
  else if ¬ ((List.range used.length).all (fun i => used.contains (i + 1)) ∧ used.all (fun v => 1 ≤ v ∧ v ≤ used.length)) then
    .error (.config "Key input_positions values must be consecutive positive integers starting at 1")
  else .ok ⟨p.lower.map (· - 1), p.upper.map (· - 1), p.summand.map (· - 1), p.var.map (· - 1)⟩

/-- `structure_and_validate_input` + `transform_list_to_dict`: 0-based positions, author defaults -/
def structureInput (pos : Fields (Option Nat)) (answers : Fields String) (student : List String) : Except Err (Fields String) :=
  let used := pos.toList.filterMap (·.2)
  if used.length ≠ student.length then .error (.config "wrong number of inputs")
  else
    let pick := fun (p : Option Nat) (dflt : String) => match p with
      | none => dflt
      | some i => student.getD i ""
    .ok ⟨pick pos.lower answers.lower, pick pos.upper answers.upper, pick pos.summand answers.summand, pick pos.var answers.var⟩

/-- the blank-field rule of `check`: the first empty field (in dictionary order) is reported -/
def firstBlank (x : Fields String) : Option String :=
  (x.toList.find? (fun p => p.2 == "")).map (·.1)

/-- `check` up to the numerical part: structuring, blank fields, dummy-variable validation (`hasMeaning` = the name is a
function, random function or constant of the problem; `validName` = `is_valid_variable_name`) -/
def precheck (pos : Fields (Option Nat)) (answers : Fields String) (student : List String)
    (hasMeaning validName : String → Bool) : Except Err (Fields String) := do
  let s ← structureInput pos answers student
  match firstBlank s with
  | some k => .error (.missing s!"Please enter a value for {k}, it cannot be empty.")
  | none =>
    if hasMeaning s.var then .error (.invalid "meaning")
    else if !validName s.var then .error (.invalid "name")
    else .ok s

/-! ### the per-sample loop of `gen_evaluations` and the verdict -/

/-- one sample: the author's sum in the full scope (its failure is a configuration error), then the student's sum in the
scope without the instructor-only variables -/
def sampleEvals {V : Type} (author : Except Err V) (student : Except Err V) : Except Err (V × V) :=
  match author with
  | .error e =>
    let m := match e with
      | .summation m => m | .config m => m | .missing m => m | .invalid m => m
    .error (.config s!"Summation Error with author's stored answer: {m}")
  | .ok a =>
    match student with
    | .error e => .error e
    | .ok s => .ok (a, s)

/-- verdict of `raw_check`: every sample within tolerance (up to `failable_evals`), against the all-correct answer -/
def sumVerdict (samples : List (Tl.Val × Tl.Val)) (tol : Tl.Tolerance) (failable : Nat) : Option At.Res :=
  Tl.formulaGrade samples tol { ok := .yes, grade := 1, msg := "" } failable

end Sm

import Mitx.Model.Comparers
/-! Executable model of `MathArray` arithmetic (helpers/calc/math_array.py) and of the triple-vector rule of
`MathExpression.eval_product` (expressions.py): shape decisions and exact values over Gaussian rationals.
Arrays are (shape, row-major data). Core Lean only. -/
namespace Ma
open Tl (C)
open Cm (C.mul C.add C.zero)

inductive AV
  | num (z : C)
  | arr (shape : List Nat) (data : List C)
  deriving DecidableEq, Repr

inductive AErr
  | shape (msg : String)       -- MathArrayShapeError
  | math (msg : String)        -- MathArrayError (not a shape error)
  | zeroDiv
  | outside                    -- outside the model (non-integer scalar powers ...)
  deriving DecidableEq, Repr

abbrev R := Except AErr AV

def cneg (z : C) : C := ⟨-z.re, -z.im⟩
def cinv (z : C) : C := let d := z.re * z.re + z.im * z.im; ⟨z.re / d, -z.im / d⟩
def cIsZero (z : C) : Bool := z.re == 0 && z.im == 0

def shapeName (ndim : Nat) : String :=
  match ndim with | 0 => "scalar" | 1 => "vector" | 2 => "matrix" | _ => "tensor"

def size (shape : List Nat) : Nat := shape.foldl (· * ·) 1
def numberlike (shape : List Nat) : Bool := size shape == 1

def zipC (f : C → C → C) : List C → List C → List C
  | a :: as, b :: bs => f a b :: zipC f as bs
  | _, _ => []

/-- `MathArray.__add__` (and `__radd__`) with `self` the array -/
def addArr (s : List Nat) (d : List C) (other : AV) : R :=
  match other with
  | .num z =>
    if cIsZero z then .ok (.arr s d)
    else if numberlike s then .ok (.num (C.add (d.headD C.zero) z))
    else .error (.shape s!"Cannot add/subtract scalars to a {shapeName s.length}.")
  | .arr s2 d2 =>
    if numberlike s2 && cIsZero (d2.headD C.zero) then .ok (.arr s d)
    else if s = s2 then .ok (.arr s (zipC C.add d d2))
    else if numberlike s && cIsZero (d.headD C.zero) then .ok (.arr s2 d2)
    else .error (.shape "Cannot add/subtract arrays of different shapes.")

def scale (k : C) (v : AV) : AV :=
  match v with
  | .num z => .num (C.mul k z)
  | .arr s d => .arr s (d.map (C.mul k))

/-- `a + b` as the evaluator computes it -/
def add (a b : AV) : R :=
  match a, b with
  | .num x, .num y => .ok (.num (C.add x y))
  | .arr s d, o => addArr s d o
  | .num x, .arr s d => addArr s d (.num x)

/-- `a - b`: `a.__add__(-1*b)`, resp. `(-b).__add__(a)` for a number on the left -/
def sub (a b : AV) : R := add a (scale ⟨-1, 0⟩ b)

def getD2 (d : List C) (cols i j : Nat) : C := d.getD (i * cols + j) C.zero

def sumC (l : List C) : C := l.foldl C.add C.zero

/-- `np.dot` for operands of dimension 1 or 2 with compatible shapes (the `ValueError` branch is `none`) -/
def dotShapes (s1 : List Nat) (d1 : List C) (s2 : List Nat) (d2 : List C) : Option AV :=
  match s1, s2 with
  | [n], [m] => if n = m then some (.num (sumC (zipC C.mul d1 d2))) else none
  | [r, n], [m] => if n = m then some (.arr [r] ((List.range r).map (fun i => sumC ((List.range n).map (fun l => C.mul (getD2 d1 n i l) (d2.getD l C.zero)))))) else none
  | [n], [m, c] => if n = m then some (.arr [c] ((List.range c).map (fun j => sumC ((List.range n).map (fun l => C.mul (d1.getD l C.zero) (getD2 d2 c l j)))))) else none
  | [r, n], [m, c] => if n = m then
      some (.arr [r, c] ((List.range r).flatMap (fun i => (List.range c).map (fun j => sumC ((List.range n).map (fun l => C.mul (getD2 d1 n i l) (getD2 d2 c l j)))))))
    else none
  | _, _ => none

/-- `a * b` -/
def mul (a b : AV) : R :=
  match a, b with
  | .num x, .num y => .ok (.num (C.mul x y))
  | .num x, .arr s d => .ok (scale x (.arr s d))
  | .arr s d, .num y => .ok (scale y (.arr s d))
  | .arr s1 d1, .arr s2 d2 =>
    if numberlike s1 then .ok (scale (d1.headD C.zero) (.arr s2 d2))
    else if numberlike s2 then .ok (scale (d2.headD C.zero) (.arr s1 d1))
    else if s1.length > 2 || s2.length > 2 then .error (.math "Multiplication of tensor arrays is not currently supported.")
    else match dotShapes s1 d1 s2 d2 with
      | some (.arr s d) => if numberlike s then .ok (.num (d.headD C.zero)) else .ok (.arr s d)
      | some v => .ok v
      | none => .error (.shape "Cannot multiply: incompatible shapes.")

/-- `a / b` -/
def div (a b : AV) : R :=
  match a, b with
  | .num x, .num y => if cIsZero y then .error .zeroDiv else .ok (.num (C.mul x (cinv y)))
  | .arr s d, .num y => if cIsZero y then .error .zeroDiv else .ok (scale (cinv y) (.arr s d))
  | .arr s d, .arr s2 d2 =>
    if numberlike s2 then (if cIsZero (d2.headD C.zero) then .error .zeroDiv else .ok (scale (cinv (d2.headD C.zero)) (.arr s d)))
    else .error (.shape s!"Cannot divide a {shapeName s.length} by a {shapeName s2.length}")
  | .num _, .arr s _ => .error (.shape s!"Cannot divide by a {shapeName s.length}")

/-! ### matrix powers -/

def identity (n : Nat) : List C := (List.range n).flatMap (fun i => (List.range n).map (fun j => if i = j then ⟨1, 0⟩ else C.zero))

def matMul (n : Nat) (a b : List C) : List C :=
  (List.range n).flatMap (fun i => (List.range n).map (fun j => sumC ((List.range n).map (fun l => C.mul (getD2 a n i l) (getD2 b n l j)))))

def matPow (n : Nat) (a : List C) : Nat → List C
  | 0 => identity n
  | k + 1 => matMul n (matPow n a k) a

/-- Gauss–Jordan inverse over the Gaussian rationals (`none` = singular); rows are lists -/
def rowsOf (n : Nat) (a : List C) : List (List C) := (List.range n).map (fun i => (List.range n).map (fun j => getD2 a n i j))

def elimStep (n col : Nat) (m : List (List C)) : Option (List (List C)) :=
  -- pivot: first row at or below `col` with a nonzero entry in column `col`
  match ((List.range n).filter (fun r => r ≥ col && !cIsZero ((m.getD r []).getD col C.zero))).head? with
  | none => none
  | some p =>
    let rowP := m.getD p []
    let rowC := m.getD col []
    let m1 := (List.range n).map (fun r => if r = col then rowP else if r = p then rowC else m.getD r [])
    let piv := (m1.getD col []).getD col C.zero
    let prow := (m1.getD col []).map (C.mul (cinv piv))
    some ((List.range n).map (fun r =>
      if r = col then prow
      else
        let f := (m1.getD r []).getD col C.zero
        zipC (fun x y => C.add x (cneg (C.mul f y))) (m1.getD r []) prow))

def inverse (n : Nat) (a : List C) : Option (List C) :=
  let aug := (List.range n).map (fun i => (rowsOf n a).getD i [] ++ (List.range n).map (fun j => if i = j then (⟨1, 0⟩ : C) else C.zero))
  match (List.range n).foldl (fun acc col => acc.bind (elimStep n col)) (some aug) with
  | none => none
  | some m => some (m.flatMap (fun row => row.drop n))

/-- the exponent as `__pow__` sees it: a Python int / integer-valued float, or anything else -/
inductive Expo
  | int (k : Int)
  | nonInteger
  deriving DecidableEq, Repr

def expoOf (z : C) (complexTyped : Bool) : Expo :=
  if !complexTyped && z.im == 0 && z.re.den == 1 then .int z.re.num else .nonInteger

/-- `base ^ exponent`; `negPowers` = `MathArray._negative_powers`; `complexTyped` = the exponent is a Python complex -/
def pow (negPowers : Bool) (base expo : AV) (complexTyped : Bool := false) : R :=
  match base with
  | .num x =>
    match expo with
    | .num e =>
      match expoOf e complexTyped with
      | .int k => if k ≥ 0 then .ok (.num ((List.replicate k.toNat x).foldl C.mul ⟨1, 0⟩))
                  else if cIsZero x then .error .zeroDiv else .ok (.num (cinv ((List.replicate (-k).toNat x).foldl C.mul ⟨1, 0⟩)))
      | .nonInteger => .error .outside
    | .arr s d => if numberlike s then .error .outside else .error (.shape s!"Cannot raise a scalar to power of a {shapeName s.length}.")
  | .arr s d =>
    if numberlike s then
      match expo with
      | .num _ => .error .outside
      | .arr s2 _ => if numberlike s2 then .error .outside else .error (.shape s!"Cannot raise a scalar to power of a {shapeName s2.length}.")
    else if s.length ≠ 2 then .error (.shape s!"Cannot raise a {shapeName s.length} to powers.")
    else if s.getD 0 0 ≠ s.getD 1 0 then .error (.shape "Cannot raise a non-square matrix to powers.")
    else
      let n := s.getD 0 0
      let e? : Except AErr C := match expo with
        | .num e => .ok e
        | .arr s2 d2 => if numberlike s2 then .ok (d2.headD C.zero) else .error (.shape s!"Cannot raise a matrix to {shapeName s2.length} powers.")
      match e? with
      | .error er => .error er
      | .ok e =>
        match expoOf e complexTyped with
        | .nonInteger => .error (.math "Cannot raise a matrix to non-integer powers.")
        | .int k =>
          if k < 0 && !negPowers then .error (.math "Negative matrix powers have been disabled.")
          else if k ≥ 0 then .ok (.arr s (matPow n d k.toNat))
          else match inverse n d with
            | none => .error (.math "Cannot raise singular matrix to negative powers.")
            | some inv => .ok (.arr s (matPow n inv (-k).toNat))

/-! ### eval_product: chained products of three or more vectors are refused -/

def isVector : AV → Bool
  | .arr s _ => s.length == 1
  | _ => false

inductive POp | times | over deriving DecidableEq, Repr

/-- the `while data:` loop of `eval_product`; `seen` = a vector·vector product has already occurred -/
def evalProductLoop : AV → Bool → List (POp × AV) → R
  | acc, _, [] => .ok acc
  | acc, seen, (.over, v) :: rest => do
      let r ← div acc v
      evalProductLoop r seen rest
  | acc, seen, (.times, v) :: rest =>
      if isVector v && seen then .error (.math "triple vector product")
      else do
        let seen' := seen || (isVector v && isVector acc)
        let r ← mul acc v
        evalProductLoop r seen' rest

def evalProduct (first : AV) (rest : List (POp × AV)) : R := evalProductLoop first false rest

end Ma

/-! Model of `ItemGrader.__call__` + `AbstractGrader.__call__` as a state machine over the grader object's mutable
state (`config['answers']`, `inferring_answers`, `log_created`, `debuglog`) — baseclasses.py 243-340, 720-757 as
repaired by the `fix:` commits F1/F2. The unmodelled pieces are parameters. Core Lean only. -/
namespace CS

structure P where
  Ans : Type            -- validated answers (after schema_answers and post_schema_ans_val)
  Out : Type            -- outcome of the guarded check: a result or a library error
  validate : String → Option Ans     -- infer_from_expect ∘ schema_answers ∘ post_schema_ans_val; none = it raises
  errValidate : String → Out         -- the error raised in that case
  textOK : String → Bool             -- ensure_text_inputs accepts the input
  errText : String → Out
  grade : Ans → String → Out         -- self.check(None, input) with these answers stored
  gradeNone : String → Out           -- no answers at all ("Expected at least one answer")

variable (p : P)

structure St (p : P) where
  answers : Option p.Ans
  inferring : Bool
  logCreated : Bool
  log : List String       -- what the debug log holds (student inputs / inferred expect values recorded in it)

def mkLog (s : St p) (input : String) : St p :=
  if s.logCreated then s else { s with log := ["input:" ++ input], logCreated := true }

/-- `AbstractGrader.__call__`: returns the new state, the outcome and the debug log that would be shown -/
def baseCall (s : St p) (input : String) : St p × p.Out × List String :=
  if p.textOK input then
    let s1 := mkLog p s input
    let s2 := { s1 with logCreated := false }
    (s2, (match s2.answers with | none => p.gradeNone input | some a => p.grade a input), s2.log)
  else ({ s with logCreated := false }, p.errText input, [])

/-- `ItemGrader.__call__` -/
def call (s : St p) (expect : Option String) (input : String) : St p × p.Out × List String :=
  match expect with
  | some e =>
    if s.inferring || s.answers.isNone then
      match p.validate e with
      | none => (s, p.errValidate e, [])
      | some a =>
        let s1 := mkLog p s input
        let s2 := { s1 with log := s1.log ++ ["inferred:" ++ e], answers := some a, inferring := true }
        baseCall p s2 input
    else baseCall p s input
  | none => baseCall p s input

/-- a freshly constructed grader: `cfg` = the answers given in the configuration (none = no answers configured) -/
def fresh (cfg : Option p.Ans) : St p := { answers := cfg, inferring := false, logCreated := false, log := [] }

def run (s : St p) : List (Option String × String) → St p
  | [] => s
  | (e, i) :: rest => run (call p s e i).1 rest

/-- the last successfully supplied expect value of a history (graders without configured answers) -/
def lastGood : Option String → List (Option String × String) → Option String
  | l, [] => l
  | l, (some e, _) :: rest => lastGood (if (p.validate e).isSome then some e else l) rest
  | l, (none, _) :: rest => lastGood l rest

end CS

import Mitx.Model.Attempt
/-! Executable model of the numeric comparison core: `within_tolerance` (mathfuncs.py), `EqualityComparer.__call__`
(comparers.py), `compare_evaluations` for per-sample comparers, the credit scaling of `FormulaGrader.raw_check` and
`consolidate_results` (math_helpers.py). Numbers are exact Gaussian rationals; norms are compared through their
squares (`‖d‖ ≤ τ ⟺ ‖d‖² ≤ τ²` for `τ ≥ 0`), so no square root is needed. Core Lean only. -/
namespace Tl
open At (Ok gradeToOk Res)

structure C where
  re : Rat
  im : Rat
  deriving DecidableEq, Repr

def C.sub (a b : C) : C := ⟨a.re - b.re, a.im - b.im⟩
/-- squared modulus -/
def C.sq (z : C) : Rat := z.re * z.re + z.im * z.im

/-- an evaluated expression: a finite number, an infinity, or an array (shape and row-major entries) -/
inductive Val
  | num (z : C)
  | pinf
  | ninf
  | arr (shape : List Nat) (es : List C)
  deriving DecidableEq, Repr

/-- the validated `tolerance` option: a non-negative number, or a percentage (already divided by 100, i.e. the value
`percentage_as_number` returns) -/
inductive Tolerance
  | abs (t : Rat)
  | pct (r : Rat)
  deriving DecidableEq, Repr

def sqnorm (es : List C) : Rat := (es.map C.sq).foldl (· + ·) 0

def subL : List C → List C → List C
  | a :: as, b :: bs => a.sub b :: subL as bs
  | _, _ => []

/-- `np.linalg.norm(difference) <= tolerance`, on squares; `x2` is the squared norm of the first argument -/
def leTol (d2 x2 : Rat) : Tolerance → Bool
  | .abs t => decide (0 ≤ t) && decide (d2 ≤ t * t)
  | .pct r => decide (0 ≤ r) && decide (d2 ≤ x2 * (r * r))

/-- `within_tolerance(x, y, tolerance)`; `none` = the subtraction `x - y` is refused (incompatible shapes) -/
def withinTol (x y : Val) (tol : Tolerance) : Option Bool :=
  match x, y with
  | .pinf, _ => some (decide (x = y))
  | .ninf, _ => some (decide (x = y))
  | .num _, .pinf => some false
  | .num _, .ninf => some false
  | .num a, .num b => some (leTol (a.sub b).sq a.sq tol)
  | .arr s1 e1, .arr s2 e2 => if s1 = s2 ∧ e1.length = e2.length then some (leTol (sqnorm (subL e1 e2)) (sqnorm e1) tol) else none
  | _, _ => none

/-- `standardize_cfn_return` of a boolean comparer verdict, then the scaling by the answer's credit in `raw_check` -/
def sampleResult (ansGrade : Rat) (verdict : Bool) : Res :=
  if verdict then { ok := .yes, grade := 1 * ansGrade, msg := "" }
  else { ok := gradeToOk (0 * ansGrade), grade := 0 * ansGrade, msg := "" }

/-- `consolidate_results(results, answer, failable_evals)`: the loop with its early return -/
def consolidateLoop (n : Nat) (failable : Nat) (answer : Res) : List Res → Nat → Res
  | [], _ => answer
  | r :: rs, failures =>
    if r.ok ≠ .yes then
      if n = 1 ∨ failures + 1 > failable then r else consolidateLoop n failable answer rs (failures + 1)
    else consolidateLoop n failable answer rs failures

def consolidateResults (results : List Res) (answer : Res) (failable : Nat) : Res :=
  consolidateLoop results.length failable answer results 0

/-- the default-comparer path of `FormulaGrader.raw_check`: per sample `within_tolerance(expected, student)`;
`none` when some comparison is refused -/
def formulaGrade (samples : List (Val × Val)) (tol : Tolerance) (answer : Res) (failable : Nat) : Option Res :=
  match samples.mapM (fun p => withinTol p.1 p.2 tol) with
  | none => none
  | some verdicts => some (consolidateResults (verdicts.map (sampleResult answer.grade)) answer failable)

end Tl

import Mitx.Model.Munkres
/-! # Munkres.compute with object identity for matrix rows

The value model `Mk` cannot say "the caller's matrix is left unmodified": that is a statement about which list OBJECTS the
solver writes to. Here the rows live in a heap (identity ↦ contents); the caller's matrix is a list of row identities;
`pad_matrix` builds the working matrix `self.C` from NEW row objects (`new_row = row[:]`), and everything the algorithm
writes (steps 1 and 6: `self.C[i][j] -= …`) is written through the rows of `self.C`. The hypothetical variant that reuses
the caller's row objects when no padding is needed (`new_row = row` unless padded) is a second mode, refuted in the props. -/
namespace MkH
open Mk

structure Heap where
  row : Nat → Nat → Rat     -- contents of the row object with a given identity (entries beyond its length read 0)
  len : Nat → Nat
  next : Nat

inductive PadMode | copy | reuseUnpadded
  deriving DecidableEq

/-- the caller's matrix as a value -/
def readMatrix (h : Heap) (caller : List Nat) : List (List Rat) :=
  caller.map (fun id => (List.range (h.len id)).map (h.row id))

/-- identity of row `i` of the working matrix `self.C` -/
def workId (mode : PadMode) (h : Heap) (caller : List Nat) (n : Nat) (i : Nat) : Nat :=
  match mode with
  | .copy => h.next + i
  | .reuseUnpadded => match caller[i]? with
    | some id => if h.len id = n then id else h.next + i
    | none => h.next + i

/-- which row of the working matrix (if any) an identity is: first index < `bound` whose working identity it is -/
def rowOf (ids : Nat → Nat) (bound : Nat) (id : Nat) : Option Nat := (List.range bound).find? (fun i => ids i == id)

/-- all writes of the run, net: the final contents of `self.C` are stored in the row objects of `self.C` -/
def writeBack (h : Heap) (ids : Nat → Nat) (n : Nat) (finalC : Nat → Nat → Rat) : Heap :=
  { row := fun id j => match rowOf ids n id with
      | some i => finalC i j
      | none => h.row id j
    len := fun id => match rowOf ids n id with
      | some _ => n
      | none => h.len id
    next := h.next + n }

/-- final solver state of the value model (the result list is read off `marked`) -/
def finalState (m : List (List Rat)) : Option St :=
  let (n, C) := pad m
  let s0 : St := { n, C, marked := fun _ _ => 0, rowCov := fun _ => false, colCov := fun _ => false, z0r := 0, z0c := 0 }
  run (4 * n * n + 10) .p3 (step2 (step1 s0))

def resultOf (m : List (List Rat)) (s : St) : List (Nat × Nat) :=
  let r := m.length; let c := (m.headD []).length
  (List.range r).flatMap (fun i => (List.range c).filterMap (fun j => if s.marked i j == 1 then some (i, j) else none))

/-- `Munkres.compute(cost_matrix)` on a heap: returns the heap afterwards and the index pairs -/
def computeH (mode : PadMode) (h : Heap) (caller : List Nat) : Option (Heap × List (Nat × Nat)) := do
  let m := readMatrix h caller
  let s ← finalState m
  pure (writeBack h (workId mode h caller s.n) s.n s.C, resultOf m s)

end MkH

/-! # MatrixGrader: shape validation of the student's value and the mismatch / error policy

`MatrixGrader.validate_student_input_shape` (the `validate_shape` utility handed to comparers), `MathArray.get_shape_name` /
`get_description`, and the `except` ladder of `MatrixGrader.check_response` that decides, per configuration, whether a shape /
type / array error is raised to the student, turned into a zero-credit result with the message, or suppressed. Core Lean only. -/
namespace Ms

def shapeName (ndim : Nat) : String :=
  if ndim = 0 then "scalar" else if ndim = 1 then "vector" else if ndim = 2 then "matrix" else "tensor"

/-- Python's `str(tuple)` of a shape with three or more entries -/
def tupleStr (s : List Nat) : String := "(" ++ ", ".intercalate (s.map toString) ++ ")"

def description (s : List Nat) : String :=
  match s with
  | [] => shapeName 0
  | [n] => shapeName 1 ++ " of length " ++ toString n
  | [r, c] => shapeName 2 ++ " of shape (rows: " ++ toString r ++ ", cols: " ++ toString c ++ ")"
  | _ => shapeName s.length ++ " of shape " ++ tupleStr s

inductive Detail | none | type | shape
  deriving DecidableEq, Repr

/-- `validate_student_input_shape`: `ok ()` or the message of the InputTypeError -/
def validateShape (expected input : List Nat) (d : Detail) : Except String Unit :=
  if expected = input then .ok ()
  else match d with
    | .none => .error ""
    | .shape => .error ("Expected answer to be a " ++ description expected ++ ", but input is a " ++ description input)
    | .type =>
      let e := shapeName expected.length
      let r := shapeName input.length
      if e = r then .error ("Expected answer to be a " ++ e ++ ", but input is a " ++ r ++ " of incorrect shape")
      else .error ("Expected answer to be a " ++ e ++ ", but input is a " ++ r)

/-- the kinds of error `super().check_response` can raise that the ladder handles -/
inductive ErrKind | shapeError | inputType | argShapeOrArray
  deriving DecidableEq, Repr

structure Policy where
  suppress : Bool          -- suppress_matrix_messages
  shapeErrors : Bool       -- shape_errors
  mismatchRaised : Bool    -- answer_shape_mismatch['is_raised']

inductive Outcome
  | raised (msg : String)               -- the error reaches the student as an error
  | zero (msg : String)                 -- {'ok': False, 'grade_decimal': 0, 'msg': msg}
  deriving DecidableEq, Repr

/-- the `except` ladder of `MatrixGrader.check_response` for an error of kind `k` with message `msg` -/
def ladder (p : Policy) (k : ErrKind) (msg : String) : Outcome :=
  match k with
  | .shapeError => if p.suppress then .zero "" else if p.shapeErrors then .raised msg else .zero msg
  | .inputType => if p.suppress then .zero "" else if p.mismatchRaised then .raised msg else .zero msg
  | .argShapeOrArray => if p.suppress then .zero "" else .raised msg

/-- a comparer that validates the shape first (all built-in ones do), under the ladder: `verdict` is what it would return for a
    correctly shaped value -/
def gradeShaped (p : Policy) (d : Detail) (expected input : List Nat) (verdict : Outcome) : Outcome :=
  match validateShape expected input d with
  | .ok () => verdict
  | .error msg => ladder p .inputType msg

end Ms

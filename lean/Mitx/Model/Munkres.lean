/-! Spike: literal executable model of mitxgraders/helpers/munkres.py (function representation). -/
namespace Mk

structure St where
  n : Nat
  C : Nat → Nat → Rat
  marked : Nat → Nat → Nat
  rowCov : Nat → Bool
  colCov : Nat → Bool
  z0r : Nat
  z0c : Nat

def set2 (f : Nat → Nat → α) (i j : Nat) (v : α) : Nat → Nat → α :=
  fun a b => if a = i ∧ b = j then v else f a b
def set1 (f : Nat → α) (i : Nat) (v : α) : Nat → α := fun a => if a = i then v else f a

def rangeMin (n : Nat) (f : Nat → Rat) : Rat :=   -- min over 0..n-1, n ≥ 1
  (List.range n).foldl (fun m j => if f j < m then f j else m) (f 0)

/-- step 1: subtract row minimum -/
def step1 (s : St) : St :=
  { s with C := fun i j => if i < s.n then s.C i j - rangeMin s.n (s.C i) else s.C i j }

/-- step 2: greedy starring, then clear covers -/
def step2 (s : St) : St :=
  let body := fun (acc : (Nat → Nat → Nat) × (Nat → Bool)) (i : Nat) =>
    -- row i is uncovered on entry; find first j with zero and col uncovered
    match (List.range s.n).find? (fun j => s.C i j == 0 && !acc.2 j) with
    | some j => (set2 acc.1 i j 1, set1 acc.2 j true)
    | none => acc
  let (mk, _) := (List.range s.n).foldl body (s.marked, s.colCov)
  { s with marked := mk, rowCov := fun _ => false, colCov := fun _ => false }

/-- step 3: cover starred columns; returns (state, done?) -/
def step3 (s : St) : St × Bool :=
  let cc := fun j => s.colCov j || (List.range s.n).any (fun i => s.marked i j == 1)
  let count := ((List.range s.n).filter (fun j => !s.colCov j && (List.range s.n).any (fun i => s.marked i j == 1))).length
  ({ s with colCov := cc }, count ≥ s.n)

/-- find_a_zero(i0,j0): first row (cyclic from i0) having an uncovered zero; in it the LAST hit in cyclic column order from j0 -/
def findAZero (s : St) (i0 j0 : Nat) : Option (Nat × Nat) :=
  let rows := (List.range s.n).map (fun k => (i0 + k) % s.n)
  let cols := (List.range s.n).map (fun k => (j0 + k) % s.n)
  rows.findSome? (fun i =>
    let hits := cols.filter (fun j => s.C i j == 0 && !s.rowCov i && !s.colCov j)
    hits.getLast?.map (fun j => (i, j)))

def findStarInRow (s : St) (r : Nat) : Option Nat := (List.range s.n).find? (fun j => s.marked r j == 1)
def findStarInCol (s : St) (c : Nat) : Option Nat := (List.range s.n).find? (fun i => s.marked i c == 1)
def findPrimeInRow (s : St) (r : Nat) : Option Nat := (List.range s.n).find? (fun j => s.marked r j == 2)

inductive Next | s5 | s6
/-- step 4 loop with fuel -/
def step4 : Nat → St → Nat → Nat → Option (St × Next)
  | 0, _, _, _ => none
  | f+1, s, row, col =>
    match findAZero s row col with
    | none => some (s, .s6)
    | some (r, c) =>
      let s := { s with marked := set2 s.marked r c 2 }
      match findStarInRow s r with
      | some sc => step4 f { s with rowCov := set1 s.rowCov r true, colCov := set1 s.colCov sc false } r sc
      | none => some ({ s with z0r := r, z0c := c }, .s5)

/-- step 5: build path, flip, clear covers, erase primes -/
def buildPath : Nat → St → List (Nat × Nat) → Option (List (Nat × Nat))
  | 0, _, _ => none
  | f+1, s, path =>
    match path with
    | [] => none
    | (_, c) :: _ =>
      match findStarInCol s c with
      | none => some path
      | some r =>
        match findPrimeInRow s r with
        | none => none   -- python would index with -1; invariant says unreachable
        | some c2 => buildPath f s ((r, c2) :: (r, c) :: path)

def step5 (s : St) : Option St := do
  let path ← buildPath (2 * s.n + 2) s [(s.z0r, s.z0c)]
  let mk := path.foldl (fun m (p : Nat × Nat) => if m p.1 p.2 == 1 then set2 m p.1 p.2 0 else set2 m p.1 p.2 1) s.marked
  let mk2 := fun i j => if mk i j == 2 then 0 else mk i j
  pure { s with marked := mk2, rowCov := fun _ => false, colCov := fun _ => false }

def findSmallest (s : St) : Option Rat :=
  let cells := (List.range s.n).flatMap (fun i => (List.range s.n).filterMap (fun j =>
    if !s.rowCov i && !s.colCov j then some (s.C i j) else none))
  cells.foldl (fun m x => match m with | none => some x | some y => some (if x < y then x else y)) none

def step6 (s : St) : Option St := do
  let m ← findSmallest s
  pure { s with C := fun i j =>
    let a := if s.rowCov i then s.C i j + m else s.C i j
    if !s.colCov j then a - m else a }

inductive Pc | p3 | p4 | p5 | p6
def run : Nat → Pc → St → Option St
  | 0, _, _ => none
  | f+1, .p3, s => let (s, d) := step3 s; if d then some s else run f .p4 s
  | f+1, .p4, s => match step4 (s.n * s.n + 2) s 0 0 with
      | none => none
      | some (s, .s5) => run f .p5 s
      | some (s, .s6) => run f .p6 s
  | f+1, .p5, s => match step5 s with | none => none | some s => run f .p3 s
  | f+1, .p6, s => match step6 s with | none => none | some s => run f .p4 s

def pad (m : List (List Rat)) : Nat × (Nat → Nat → Rat) :=
  let n := max m.length ((m.map List.length).foldl max 0)
  (n, fun i j => ((m.getD i []).getD j 0))

def compute (m : List (List Rat)) : Option (List (Nat × Nat)) := do
  let (n, C) := pad m
  let s0 : St := { n, C, marked := fun _ _ => 0, rowCov := fun _ => false, colCov := fun _ => false, z0r := 0, z0c := 0 }
  let s ← run (4 * n * n + 10) .p3 (step2 (step1 s0))
  let r := m.length; let c := (m.headD []).length
  pure ((List.range r).flatMap (fun i => (List.range c).filterMap (fun j => if s.marked i j == 1 then some (i, j) else none)))

end Mk


namespace Mk
/-- `Munkres.compute` called on a solver object in an arbitrary earlier state `s`: every working field is
    re-assigned before step 1 (`self.C, n, row_covered, col_covered, Z0_r, Z0_c, marked`), as in the code. -/
def computeOn (s : St) (m : List (List Rat)) : Option (List (Nat × Nat)) := do
  let (n, C) := pad m
  let s0 : St := { s with n := n, C := C, marked := fun _ _ => 0, rowCov := fun _ => false,
                          colCov := fun _ => false, z0r := 0, z0c := 0 }
  let s ← run (4 * n * n + 10) .p3 (step2 (step1 s0))
  let r := m.length; let c := (m.headD []).length
  pure ((List.range r).flatMap (fun i => (List.range c).filterMap (fun j => if s.marked i j == 1 then some (i, j) else none)))
end Mk

import Mitx.Model.Grade
/-! Grader *trees*: the recursive composition of the grading combinators of `Mitx/Model/Grade.lean` — table-driven leaf
graders (the harness's `TableGrader(ItemGrader)`), SingleListGraders over an item grader, ListGraders over item graders and
nested ListGraders — as one structurally recursive interpreter, so that statements about "any validly configured grader"
are inductions over this type. Core Lean only. -/
namespace Gr

/-- universal `expect` entry: a text (leaf graders) or a list of item-answer tuples (SingleListGrader) -/
inductive UExp
  | str (s : String)
  | items (l : List (List (Answer UExp)))
  deriving Inhabited

/-- universal answer argument of a subgrader's `check`: item answers, or (for a nested ListGrader) a tuple of lists -/
inductive UAny
  | item (l : List (Answer UExp))
  | lists (ls : List (List UAny))
  deriving Inhabited

structure TabEntry where
  key : String × String
  credit : Rat
  msg : String
  raises : Option (Bool × String × String)     -- (is MITx class, class, message)

/-- the harness-defined table-driven leaf: `check_response(answer, input)` -/
def tableCR (tab : List TabEntry) (m : AnsMeta) (e : UExp) (inp : String) : M IRes :=
  match e with
  | .items _ => throw (.py "TypeError" "table grader got a list expect")
  | .str k =>
    match tab.find? (fun t => t.key == (k, inp)) with
    | none => pure { ok := .no, grade := 0, msg := "" }
    | some t =>
      match t.raises with
      | some (true, cls, msg) => throw (.mitx cls msg)
      | some (false, cls, msg) => throw (.py cls msg)
      | none =>
        let g := t.credit * m.grade
        pure { ok := (if t.credit == 1 then m.ok else At.gradeToOk g), grade := g, msg := (if t.credit > 0 && t.msg == "" then m.msg else t.msg) }

/-- item graders: a table leaf, or a SingleListGrader over an item grader -/
inductive ITree
  | table (tab : List TabEntry) (wrong : String)
  | singlelist (cfg : SLCfg) (wrong : String) (sub : ITree)

/-- `check_response` of a SingleListGrader node, given its subgrader's `check` -/
def slCR (cfg : SLCfg) (sub : List (Answer UExp) → String → M IRes) (m : AnsMeta) (e : UExp) (inp : String) : M IRes :=
  match e with
  | .items l => slCheckResponse cfg sub m l inp
  | .str _ => throw (.py "TypeError" "singlelist grader got a text expect")

/-- `grader.check(answers, input)` of an item grader tree -/
def ITree.check : ITree → List (Answer UExp) → String → M IRes
  | .table tab w => itemCheck (tableCR tab) w
  | .singlelist cfg w sub => itemCheck (slCR cfg sub.check) w

mutual
/-- list graders: options and subgraders (one for all positions, or one per position) -/
inductive LTree
  | list (cfg : LCfg) (subs : List STree)
/-- a subgrader of a ListGrader: an item grader, or a nested ListGrader (grouped inputs) -/
inductive STree
  | item (t : ITree)
  | nested (t : LTree)
end

def itemAsSub (f : List (Answer UExp) → String → M IRes) (a : UAny) (g : GInput) : M SubRes :=
  match a, g with
  | .item l, .one s => (f l s).map SubRes.single
  | _, _ => throw (.py "TypeError" "item subgrader needs one text and item answers")

def listAsSub (f : List (List UAny) → List String → M LOut) (a : UAny) (g : GInput) : M SubRes :=
  match a, g with
  | .lists ls, .many l => (f ls l).map (fun o => SubRes.multi (o.entries.filterMap id))
  | _, _ => throw (.py "TypeError" "list subgrader needs grouped inputs and list answers")

mutual
/-- `grader.check(answers, input_list)` of a list grader tree -/
def LTree.check : LTree → List (List UAny) → List String → M LOut
  | .list cfg subs => listCheck cfg (fun k => runAt subs (if subs.length == 1 then 0 else k))
def STree.run : STree → UAny → GInput → M SubRes
  | .item t => itemAsSub t.check
  | .nested t => listAsSub t.check
def runAt : List STree → Nat → UAny → GInput → M SubRes
  | [], _ => fun _ _ => throw (.py "IndexError" "no such subgrader")
  | s :: _, 0 => s.run
  | _ :: rest, k + 1 => runAt rest k
end

end Gr

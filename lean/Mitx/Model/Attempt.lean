/-! Executable model of `mitxgraders/attemptcredit.py` (the three built-in schedules) and of
`AbstractGrader.apply_attempt_based_credit` / `grade_decimal_to_ok` (baseclasses.py). Core Lean only.

Numbers are exact rationals. Python's `round(x, 4)` is modelled as round-half-even on the exact value. -/
namespace At

/-- round half to even, to an integer -/
def rnd (y : Rat) : Int :=
  let f := y.floor
  if y - f < 1/2 then f else if y - f > 1/2 then f + 1 else (if f % 2 = 0 then f else f + 1)

/-- Python `round(x, 4)` on the exact value -/
def round4 (x : Rat) : Rat := (rnd (x * 10000) : Rat) / 10000

/-- Python's `max(a, b)` on numbers -/
def rmax (a b : Rat) : Rat := if a ≤ b then b else a

/-- `LinearCredit.__call__` (after fix F14: the rounded credit is not allowed to drop below `minimum_credit`) -/
def linearCredit (after steps : Nat) (minc : Rat) (attempt : Int) : Rat :=
  if attempt = 1 then 1 else
  if attempt - after ≤ 0 then 1 else
  if attempt - after ≥ steps then rmax (round4 minc) minc
  else rmax (round4 (1 + (minc - 1) * ((attempt - after : Int) : Rat) / steps)) minc

/-- `GeometricCredit.__call__` for attempts ≥ 1 (`factor ** (attempt-1)`; below 1 the exponent is negative:
    outside the modelled domain, the grader never calls it there, see `C17.schedule_arg_ge_one`). -/
def geometricCredit (factor : Rat) (attempt : Int) : Rat :=
  if attempt = 1 then 1 else round4 (factor ^ (attempt - 1).toNat)

/-- `ReciprocalCredit.__call__` -/
def reciprocalCredit (attempt : Int) : Rat :=
  if attempt = 1 then 1 else round4 (1 / (attempt : Rat))

inductive Ok | yes | no | part
  deriving DecidableEq, Repr

/-- `grade_decimal_to_ok`: `{0: False, 1: True}.get(grade, 'partial')` -/
def gradeToOk (g : Rat) : Ok := if g = 0 then .no else if g = 1 then .yes else .part

structure Res where
  ok : Ok
  grade : Rat
  msg : String
  deriving DecidableEq, Repr

inductive Out
  | single (r : Res)
  | list (overall : String) (rs : List Res)
  deriving DecidableEq, Repr

inductive Err | configMissingAttempt
  deriving DecidableEq, Repr

def scaleRes (credit : Rat) (r : Res) : Res :=
  if r.grade > 0 then { r with grade := r.grade * credit, ok := gradeToOk (r.grade * credit) } else r

def Out.entries : Out → List Res
  | .single r => [r]
  | .list _ rs => rs

/-- the percentage text: `Decimal(credit*100).quantize(Decimal('.1'))`, with a trailing `.0` dropped -/
def pctText (credit : Rat) : String :=
  let t := rnd (credit * 1000)          -- tenths of a percent
  let s := if t < 0 then "-" else ""
  let a := t.natAbs
  if a % 10 = 0 then s ++ toString (a / 10) else s ++ toString (a / 10) ++ "." ++ toString (a % 10)

def note (attempt : Int) (credit : Rat) : String :=
  "Maximum credit for attempt #" ++ toString attempt ++ " is " ++ pctText credit ++ "%."

def addNote (s n : String) : String := if s = "" then n else s ++ "\n\n" ++ n

/-- `apply_attempt_based_credit(result, attempt_number)`; `sched` is the configured schedule object. -/
def applyAttempt (sched : Int → Rat) (msgFlag : Bool) (attempt : Option Int) (out : Out) : Except Err Out :=
  match attempt with
  | none => .error .configMissingAttempt
  | some n =>
    let n := if n < 1 then 1 else n
    let credit := round4 (sched n)
    if credit = 1 then .ok out else
    let changed := out.entries.any (fun r => decide (r.grade > 0))
    let withNote := msgFlag && changed
    match out with
    | .single r =>
        let r' := scaleRes credit r
        .ok (.single (if withNote then { r' with msg := addNote r'.msg (note n credit) } else r'))
    | .list ov rs =>
        .ok (.list (if withNote then addNote ov (note n credit) else ov) (rs.map (scaleRes credit)))

end At

import Mitx.Model.Restrict
/-! # Cross-option validation of the math graders (`MathMixin.validate_math_config`, helpers/math_helpers.py)

`validate_blacklist_whitelist_config`, removal of deleted default constants, the four `warn_if_override` calls and
`validate_no_collisions`, in the order the code runs them. The first failure is what the author sees (a ConfigError with the
modelled message). Core Lean only. -/
namespace Mc
open Rs

structure Cfg where
  defaultFuncs : List String
  defaultVars : List String
  blacklist : List String
  whitelist : Whitelist
  variables : List String
  numberedVars : List String
  userConstants : List (String × Bool)       -- (name, value is None)
  userFunctions : List String
  suppress : Bool

inductive Err
  | both
  | unknownBlack (f : String)
  | unknownWhite (f : String)
  | override (key : String) (dups : List String)
  | collision (k1 k2 : String) (dups : List String)
  deriving DecidableEq, Repr

def whitelistNonempty : Whitelist → Bool
  | .unset => false
  | .nothing => true
  | .only l => !l.isEmpty

def checkLists (c : Cfg) : Option Err :=
  if !c.blacklist.isEmpty && whitelistNonempty c.whitelist then some .both
  else match c.blacklist.find? (fun f => !c.defaultFuncs.contains f) with
    | some f => some (.unknownBlack f)
    | none => match c.whitelist with
      | .only l => (l.find? (fun f => !c.defaultFuncs.contains f)).map .unknownWhite
      | _ => none

/-- default variables after the author's deletions (`user_constants={'pi': None}`) -/
def defaultVars' (c : Cfg) : List String :=
  c.defaultVars.filter (fun v => !(c.userConstants.any (fun kc => kc.1 == v && kc.2)))
/-- user constants that remain -/
def constants' (c : Cfg) : List String := (c.userConstants.filter (fun kc => !kc.2)).map (·.1)

/-- `warn_if_override(config, key, defaults)` -/
def warn (suppress : Bool) (key : String) (entries defaults : List String) : Option Err :=
  let dups := entries.filter (fun e => defaults.contains e)
  if !dups.isEmpty && !suppress then some (.override key (Dp.sortedSet dups)) else none

def orElse' (a : Option Err) (b : Option Err) : Option Err := match a with | some e => some e | none => b

def checkOverrides (c : Cfg) : Option Err :=
  orElse' (warn c.suppress "variables" c.variables (defaultVars' c))
    (orElse' (warn c.suppress "numbered_vars" c.numberedVars (defaultVars' c))
      (orElse' (warn c.suppress "user_constants" (constants' c) (defaultVars' c))
        (warn c.suppress "user_functions" c.userFunctions c.defaultFuncs)))

/-- `validate_no_collisions(config, keys=['variables', 'user_constants'])` -/
def checkCollisions (c : Cfg) : Option Err :=
  let dups := (constants' c).filter (fun e => c.variables.contains e)
  if !dups.isEmpty then some (.collision "user_constants" "variables" (Dp.sortedSet dups)) else none

def validate (c : Cfg) : Option Err := orElse' (checkLists c) (orElse' (checkOverrides c) (checkCollisions c))

def pyList (l : List String) : String := "[" ++ ", ".intercalate (l.map (fun s => "'" ++ s ++ "'")) ++ "]"

def Err.message : Err → String
  | .both => "Cannot whitelist and blacklist at the same time"
  | .unknownBlack f => "Unknown function in blacklist: " ++ f
  | .unknownWhite f => "Unknown function in whitelist: " ++ f
  | .override key dups => "Warning: '" ++ key ++ "' contains entries " ++ ", ".intercalate (dups.map (fun s => "'" ++ s ++ "'")) ++
      " which will override default values. If you intend to override defaults, you may suppress this warning by adding 'suppress_warnings=True' to the grader configuration."
  | .collision k1 k2 dups => "'" ++ k1 ++ "' and '" ++ k2 ++ "' contain duplicate entries: " ++ pyList dups

end Mc

/-! Executable model of the fragment of (vendored) voluptuous that the library's `schema_config`s use, as an acceptance
predicate plus default filling: Python values `PyVal`, schema language `Spec` (types, literals with Python equality, Any,
All, Range, Length, NotIn, homogeneous lists, dictionaries with Required/Optional keys, defaults and the extra-keys
policy, named validator functions as `prim`), `accepts`, and `validateDict` = `Schema({...})(config)` without coercion.
Core Lean only. -/
namespace Sc

inductive PyVal
  | none
  | bool (b : Bool)
  | int (n : Int)
  | num (q : Rat)                       -- a float
  | str (s : String)
  | list (l : List PyVal)
  | tuple (l : List PyVal)
  | dict (l : List (String × PyVal))
  | obj (tags : List String)            -- any other object: its class name followed by the names of its base classes
  deriving Repr, Inhabited

/-- the number a value is for `==` / ordering purposes (bools are ints in Python) -/
def PyVal.asNum : PyVal → Option Rat
  | .bool b => some (if b then 1 else 0)
  | .int n => some n
  | .num q => some q
  | _ => Option.none

mutual
/-- Python `==` on the modelled values -/
def pyEq : PyVal → PyVal → Bool
  | .none, .none => true
  | .str a, .str b => a == b
  | .list a, .list b => pyEqL a b
  | .tuple a, .tuple b => pyEqL a b
  | .dict a, .dict b => pyEqD a b
  | .obj a, .obj b => a == b
  | a, b => match a.asNum, b.asNum with
    | some x, some y => x == y
    | _, _ => false
def pyEqL : List PyVal → List PyVal → Bool
  | [], [] => true
  | a :: as, b :: bs => pyEq a b && pyEqL as bs
  | _, _ => false
def pyEqD : List (String × PyVal) → List (String × PyVal) → Bool
  | [], [] => true
  | (k, a) :: as, (k', b) :: bs => k == k' && pyEq a b && pyEqD as bs
  | _, _ => false
end

mutual
inductive Spec
  | ty (name : String)
  | lit (v : PyVal)
  | any (l : List Spec)
  | all (l : List Spec)
  | range (lo hi : Option Rat) (loIncl hiIncl : Bool)
  | len (lo hi : Option Nat)
  | notIn (l : List PyVal)
  | listOf (l : List Spec)
  | dict (fields : List Field) (extra : Bool)
  | prim (name : String)
inductive Field
  | mk (name : String) (required : Bool) (default : Option PyVal) (spec : Spec)
end

def Field.name : Field → String | .mk n _ _ _ => n
def Field.required : Field → Bool | .mk _ r _ _ => r
def Field.default : Field → Option PyVal | .mk _ _ d _ => d
def Field.spec : Field → Spec | .mk _ _ _ s => s

def typeAccepts (name : String) : PyVal → Bool
  | .str _ => name == "str" || name == "object"
  | .bool _ => name == "bool" || name == "int" || name == "Number" || name == "object"
  | .int _ => name == "int" || name == "Number" || name == "object"
  | .num _ => name == "float" || name == "Number" || name == "object"
  | .list _ => name == "list" || name == "object"
  | .tuple _ => name == "tuple" || name == "object"
  | .dict _ => name == "dict" || name == "object"
  | .none => name == "object"
  | .obj t => name == "object" || t.contains name || (t.contains "complex" && name == "Number")

def lenOf : PyVal → Option Nat
  | .str s => some s.length
  | .list l => some l.length
  | .tuple l => some l.length
  | .dict l => some l.length
  | _ => Option.none

def fieldNames : List Field → List String
  | [] => []
  | .mk n _ _ _ :: fs => n :: fieldNames fs

variable (prims : String → PyVal → Bool)

mutual
/-- does the validator accept the value? (coercions are not modelled: an accepted value is kept as it is) -/
def accepts : Spec → PyVal → Bool
  | .ty n, v => typeAccepts n v
  | .lit x, v => pyEq v x
  | .any l, v => acceptsAny l v
  | .all l, v => acceptsAll l v
  | .range lo hi li hi', v =>
    match v.asNum with
    | Option.none => false
    | some x =>
      (match lo with | Option.none => true | some a => if li then a ≤ x else a < x) &&
      (match hi with | Option.none => true | some b => if hi' then x ≤ b else x < b)
  | .len lo hi, v =>
    match lenOf v with
    | Option.none => false
    | some n => (match lo with | Option.none => true | some a => a ≤ n) && (match hi with | Option.none => true | some b => n ≤ b)
  | .notIn l, v => !(l.any (fun x => pyEq v x))
  | .listOf l, v =>
    match v with
    | .list items => items.all (fun x => acceptsAny l x)
    | _ => false
  | .dict fields extra, v =>
    match v with
    | .dict kvs => (extra || (kvs.map (·.1)).all (fun k => fieldNames fields |>.contains k)) && dictOK fields extra kvs kvs
    | _ => false
  | .prim n, v => prims n v
def acceptsAny : List Spec → PyVal → Bool
  | [], _ => false
  | s :: ss, v => accepts s v || acceptsAny ss v
def acceptsAll : List Spec → PyVal → Bool
  | [], _ => true
  | s :: ss, v => accepts s v && acceptsAll ss v
/-- every supplied key is known (or extras are allowed) and its value accepted; every required key without default is supplied -/
def dictOK : List Field → Bool → List (String × PyVal) → List (String × PyVal) → Bool
  | [], _, _, _ => true
  | .mk n r d sp :: fs, extra, all, kvs =>
    (match all.lookup n with
      | some v => accepts sp v
      | Option.none => !(r && d.isNone)) && dictOK fs extra all kvs
end

/-- keys of the supplied dictionary that the schema does not know -/
def unknownKeys (fields : List Field) (cfg : List (String × PyVal)) : List String :=
  (cfg.map (·.1)).filter (fun k => !(fields.any (fun f => f.name == k)))

inductive SchemaErr
  | unknownKey (k : String)
  | missing (k : String)
  | invalid (k : String)
  deriving DecidableEq, Repr

/-- `Schema({...})(config)`: the validated configuration in schema order, defaults filled in -/
def validateFields : List Field → List (String × PyVal) → Except SchemaErr (List (String × PyVal))
  | [], _ => .ok []
  | f :: fs, cfg =>
    match cfg.lookup f.name with
    | some v =>
      if accepts prims f.spec v then (validateFields fs cfg).map (fun r => (f.name, v) :: r) else .error (.invalid f.name)
    | Option.none =>
      match f.default with
      | some d => (validateFields fs cfg).map (fun r => (f.name, d) :: r)
      | Option.none => if f.required then .error (.missing f.name) else validateFields fs cfg

def validateDict (fields : List Field) (extra : Bool) (cfg : List (String × PyVal)) : Except SchemaErr (List (String × PyVal)) :=
  match unknownKeys fields cfg with
  | k :: _ => if extra then validateFields prims fields cfg else .error (.unknownKey k)
  | [] => validateFields prims fields cfg

/-- every default value lies in the domain of its own option (`prim` validators cannot be decided and count as satisfied) -/
def defaultsOK (fields : List Field) : Bool :=
  fields.all (fun f => match f.default with
    | some d => accepts (fun _ _ => true) f.spec d
    | Option.none => true)

end Sc

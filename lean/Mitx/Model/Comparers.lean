import Mitx.Model.Tol
/-! Executable model of the decision logic of the built-in comparers (comparers/comparers.py, comparers/linear_comparer.py)
over exact Gaussian rationals, norms through their squares. `np.linalg.lstsq` is not modelled: the squared least-squares
residual of `vector_span_comparer` is an input. Core Lean only. -/
namespace Cm
open Tl (C Tolerance)
open At (Ok Res gradeToOk)

def C.mul (a b : C) : C := ⟨a.re * b.re - a.im * b.im, a.re * b.im + a.im * b.re⟩
def C.add (a b : C) : C := ⟨a.re + b.re, a.im + b.im⟩
def C.zero : C := ⟨0, 0⟩

/-! ### between_comparer -/

inductive CmpErr
  | inputType (msg : String)
  | config (msg : String)
  deriving DecidableEq, Repr

/-- `start <= student_eval <= stop`, real inputs only; the tolerance is not used -/
def between (start stop : Rat) (x : C) : Except CmpErr Bool :=
  if x.im ≠ 0 then .error (.inputType "Input must be real.") else .ok (decide (start ≤ x.re ∧ x.re ≤ stop))

/-! ### congruence_comparer (real values) -/

/-- Python's `x % m` on reals: the result has the sign of `m` -/
def pymod (x m : Rat) : Rat := x - m * ((x / m).floor : Rat)

/-- `|x − y| ≤ tol` for reals, tolerance relative to the first argument when it is a percentage -/
def withinReal (x y : Rat) : Tolerance → Bool
  | .abs t => decide (0 ≤ t) && decide ((x - y) * (x - y) ≤ t * t)
  | .pct r => decide (0 ≤ r) && decide ((x - y) * (x - y) ≤ (x * x) * (r * r))

def congruence (expected modulus student : Rat) (tol : Tolerance) : Bool :=
  let er := pymod expected modulus
  let d := pymod (student - expected) modulus
  let am := if modulus < 0 then -modulus else modulus
  let d' := if am - d < d then am - d else d
  withinReal er (er + d') tol

/-! ### eigenvector_comparer -/

def dot : List C → List C → C
  | a :: as, b :: bs => C.add (C.mul a b) (dot as bs)
  | _, _ => C.zero

def mulVec (m : List (List C)) (v : List C) : List C := m.map (fun row => dot row v)
def smul (k : C) (v : List C) : List C := v.map (C.mul k)

/-- `within_tolerance(0, norm)` for a norm given by its square: `norm ≤ t` (absolute) resp. `norm ≤ 0` (a percentage of 0) -/
def normNearlyZero (n2 : Rat) : Tolerance → Bool
  | .abs t => decide (0 ≤ t) && decide (n2 ≤ t * t)
  | .pct r => decide (0 ≤ r) && decide (n2 ≤ 0)

inductive Verdict
  | accept
  | reject (msg : String)
  deriving DecidableEq, Repr

/-- `eigenvector_comparer` after shape validation (`v.length = m.length`) -/
def eigenvector (m : List (List C)) (ev : C) (v : List C) (tol : Tolerance) : Verdict :=
  if normNearlyZero (Tl.sqnorm v) tol then .reject "Eigenvectors must be nonzero."
  else
    let actual := mulVec m v
    let expected := smul ev v
    if Tl.leTol (Tl.sqnorm (Tl.subL actual expected)) (Tl.sqnorm actual) tol then .accept else .reject ""

/-! ### vector_span_comparer / vector_phase_comparer -/

/-- `is_nearly_zero(error, tolerance, reference)` on squares -/
def nearlyZero (err2 ref2 : Rat) : Tolerance → Bool
  | .abs t => decide (0 ≤ t) && decide (err2 ≤ t * t)
  | .pct r => decide (0 ≤ r) && decide (err2 ≤ ref2 * (r * r))

/-- `vector_span_comparer` after validation; `res2` = squared norm of the least-squares residual of `v` against the given vectors -/
def vectorSpan (v : List C) (res2 : Rat) (tol : Tolerance) : Verdict :=
  if normNearlyZero (Tl.sqnorm v) tol then .reject "Input should be a nonzero vector."
  else if nearlyZero res2 (Tl.sqnorm v) tol then .accept else .reject ""

/-- `|√p − √q| ≤ τ` decided on squares (`p, q` squared norms, `t2 = τ²`) -/
def magClose (p q t2 : Rat) : Bool :=
  if p + q - t2 ≤ 0 then true else decide ((p + q - t2) * (p + q - t2) ≤ 4 * p * q)

/-- `within_tolerance(expected_mag, student_mag)` -/
def sameMagnitude (p q : Rat) : Tolerance → Bool
  | .abs t => decide (0 ≤ t) && magClose p q (t * t)
  | .pct r => decide (0 ≤ r) && magClose p q (p * (r * r))

/-- `vector_phase_comparer`: in the span of the target and of the same magnitude -/
def vectorPhase (target v : List C) (res2 : Rat) (tol : Tolerance) : Bool :=
  (vectorSpan v res2 tol == .accept) && sameMagnitude (Tl.sqnorm target) (Tl.sqnorm v) tol

/-! ### MatrixEntryComparer -/

inductive Partial
  | flat (q : Rat)
  | proportional
  deriving DecidableEq, Repr

def entryOK (e s : C) (tol : Tolerance) : Bool := Tl.leTol (e.sub s).sq e.sq tol

/-- per entry: correct at every sample? (`np.all(comparisons_by_eval, axis=0)`); samples are (expected entries, student entries) -/
def entrySummary (samples : List (List C × List C)) (tol : Tolerance) (n : Nat) : List Bool :=
  (List.range n).map (fun j => samples.all (fun p => entryOK (p.1.getD j C.zero) (p.2.getD j C.zero) tol))

inductive EntryResult
  | full
  | zero
  | partialCredit (g : Rat)
  deriving DecidableEq, Repr

def matrixEntry (samples : List (List C × List C)) (tol : Tolerance) (n : Nat) (pc : Partial) : EntryResult :=
  let summary := entrySummary samples tol n
  let good := (summary.filter id).length
  if good = n then .full
  else if good = 0 then .zero
  else match pc with
    | .proportional => .partialCredit ((good : Rat) / (n : Rat))
    | .flat q => .partialCredit q

/-! ### LinearComparer (real samples) -/

def sumL (l : List Rat) : Rat := l.foldl (· + ·) 0
def zipW (f : Rat → Rat → Rat) : List Rat → List Rat → List Rat
  | a :: as, b :: bs => f a b :: zipW f as bs
  | _, _ => []

/-- squared fit errors; `x` = student samples, `y` = expected samples (the argument order of the code) -/
def equalsErr2 (x y : List Rat) : Rat := sumL (zipW (fun a b => (a - b) * (a - b)) x y)
def offsetErr2 (x y : List Rat) : Rat :=
  let mean := sumL (zipW (fun a b => b - a) x y) / (x.length : Rat)
  sumL (zipW (fun a b => (a + mean - b) * (a + mean - b)) x y)
def propErr2 (x y : List Rat) : Rat :=
  let sxx := sumL (x.map (fun a => a * a))
  let sxy := sumL (zipW (· * ·) x y)
  let syy := sumL (y.map (fun b => b * b))
  if sxx = 0 then syy else syy - sxy * sxy / sxx
def linearErr2 (x y : List Rat) : Rat :=
  let n : Rat := x.length
  let mx := sumL x / n
  let my := sumL y / n
  let sxx := sumL (x.map (fun a => (a - mx) * (a - mx)))
  let sxy := sumL (zipW (fun a b => (a - mx) * (b - my)) x y)
  let syy := sumL (y.map (fun b => (b - my) * (b - my)))
  if sxx = 0 then offsetErr2 x y else syy - sxy * sxy / sxx

inductive Mode | equals | proportional | offset | linear deriving DecidableEq, Repr

structure LinCfg where
  equals : Option Rat
  proportional : Option Rat
  offset : Option Rat
  linear : Option Rat
  equalsMsg : String
  proportionalMsg : String
  offsetMsg : String
  linearMsg : String

def LinCfg.credit (c : LinCfg) : Mode → Option Rat
  | .equals => c.equals | .proportional => c.proportional | .offset => c.offset | .linear => c.linear
def LinCfg.msg (c : LinCfg) : Mode → String
  | .equals => c.equalsMsg | .proportional => c.proportionalMsg | .offset => c.offsetMsg | .linear => c.linearMsg

def allModes : List Mode := [.equals, .proportional, .offset, .linear]
def zeroCompatible : Mode → Bool
  | .equals => true | .offset => true | _ => false

def err2 : Mode → List Rat → List Rat → Rat
  | .equals => equalsErr2 | .proportional => propErr2 | .offset => offsetErr2 | .linear => linearErr2

/-- `check_comparing_zero`: every student sample nearly zero (relative to the expected sample), or every expected sample exactly zero -/
def comparingZero (x y : List Rat) (tol : Tolerance) : Bool :=
  (zipW (fun a b => if nearlyZero (a * a) (b * b) tol then 1 else 0) x y).all (· == 1) || y.all (· == 0)

/-- Python's `max(results, key=(grade, msg))`: first maximal element, tuples compared lexicographically -/
def better (a b : Rat × String) : Bool := a.1 < b.1 || (a.1 == b.1 && a.2 < b.2)
def maxRes : List (Rat × String) → Option (Rat × String)
  | [] => none
  | r :: rs => match maxRes rs with
    | none => some r
    | some m => if better r m then some m else some r

/-- `LinearComparer.__call__` on real scalar samples (after shape validation) -/
def linearComparer (cfg : LinCfg) (x y : List Rat) (tol : Tolerance) : Except CmpErr (Rat × String) :=
  if x.length < 3 then .error (.config "Cannot perform linear comparison with less than 3 samples")
  else
    let modes := allModes.filter (fun m => (cfg.credit m).isSome)
    let modes := if comparingZero x y tol then modes.filter zeroCompatible else modes
    let ref2 := sumL (y.map (fun b => b * b))      -- the norm of the EXPECTED samples (fix F12)
    let results := modes.map (fun m =>
      if nearlyZero (err2 m x y) ref2 tol then ((cfg.credit m).getD 0, cfg.msg m) else (0, ""))
    match maxRes results with
    | some r => .ok r
    | none => .error (.config "max() arg is an empty sequence")

end Cm

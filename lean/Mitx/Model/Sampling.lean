import Mitx.Model.MathArray
/-! Executable model of the sampling sets (sampling.py, matrixsampling.py) as deterministic functions of the random draws:
`RealInterval`, `IntegerRange`, `ComplexRectangle`, `ComplexSector` (polar pair), `DiscreteSet`/`SpecificFunctions`,
`RandomFunction` (value as a function of the drawn amplitudes and the sine values), `SquareMatrices.apply_symmetry`
on explicit entry lists, and the `SquareMatrices` constructor acceptance table with the `make_det_one` branch choice.
Core Lean only. -/
namespace Sp
open Tl (C)

/-- `RealInterval.__init__` swaps reversed bounds -/
def ordered (a b : Rat) : Rat × Rat := if a > b then (b, a) else (a, b)

/-- `RealInterval.gen_sample` with `u = np.random.random_sample()` -/
def realInterval (start stop u : Rat) : Rat :=
  let p := ordered start stop
  p.1 + (p.2 - p.1) * u

def orderedI (a b : Int) : Int × Int := if a > b then (b, a) else (a, b)

/-- what `np.random.randint(low, high)` may return: `low ≤ k < high`; `IntegerRange.gen_sample` asks for `[start, stop+1)` -/
def integerRangeValid (start stop k : Int) : Bool :=
  let p := orderedI start stop
  decide (p.1 ≤ k ∧ k < p.2 + 1)

/-- `ComplexRectangle.gen_sample` -/
def rectangle (re im : Rat × Rat) (u v : Rat) : C := ⟨realInterval re.1 re.2 u, realInterval im.1 im.2 v⟩

/-- `ComplexSector.gen_sample` before the exponential: (modulus, argument) -/
def sectorPolar (modulus argument : Rat × Rat) (u v : Rat) : Rat × Rat :=
  (realInterval modulus.1 modulus.2 u, realInterval argument.1 argument.2 v)

/-- `random.choice(seq)` with the drawn index -/
def choice {α : Type} (seq : List α) (idx : Nat) : Option α := seq[idx]?

/-- `RandomFunction`: the value returned for one output component, given the drawn amplitudes `A` and the values `s` of the
sines at the evaluation point, one pair per (term, input) -/
def randomFunctionValue (center amplitude : Rat) (numTerms inputDim : Nat) (terms : List (Rat × Rat)) : Rat :=
  center + (terms.map (fun p => p.1 * p.2)).foldl (· + ·) 0 * amplitude / ((numTerms * inputDim : Nat) : Rat)

/-- the arity check of a drawn random function -/
def arityOK (inputDim nargs : Nat) : Bool := nargs == inputDim

/-! ### SquareMatrices.apply_symmetry on entry lists (row-major, dimension n) -/

inductive Symmetry | none | diagonal | symmetric | antisymmetric | hermitian | antihermitian
  deriving DecidableEq, Repr

def conj (z : C) : C := ⟨z.re, -z.im⟩
def csub (a b : C) : C := ⟨a.re - b.re, a.im - b.im⟩
def cadd (a b : C) : C := ⟨a.re + b.re, a.im + b.im⟩

def entry (n : Nat) (a : List C) (i j : Nat) : C := a.getD (i * n + j) ⟨0, 0⟩
def build (n : Nat) (f : Nat → Nat → C) : List C := (List.range n).flatMap (fun i => (List.range n).map (fun j => f i j))

def applySymmetryOnly (sym : Symmetry) (n : Nat) (a : List C) : List C :=
  match sym with
  | .none => build n (entry n a)
  | .diagonal => build n (fun i j => if i = j then entry n a i j else ⟨0, 0⟩)
  | .symmetric => build n (fun i j => cadd (entry n a i j) (entry n a j i))
  | .antisymmetric => build n (fun i j => csub (entry n a i j) (entry n a j i))
  | .hermitian => build n (fun i j => cadd (entry n a i j) (conj (entry n a j i)))
  | .antihermitian => build n (fun i j => csub (entry n a i j) (conj (entry n a j i)))

def trace (n : Nat) (a : List C) : C := (List.range n).foldl (fun acc i => cadd acc (entry n a i i)) ⟨0, 0⟩

/-- `apply_symmetry`: symmetry first, then `working - trace/dim * eye(dim)` when traceless -/
def applySymmetry (sym : Symmetry) (traceless : Bool) (n : Nat) (a : List C) : List C :=
  let w := applySymmetryOnly sym n a
  if traceless then
    let t := trace n w
    let t' : C := ⟨t.re / n, t.im / n⟩
    build n (fun i j => if i = j then csub (entry n w i j) t' else entry n w i j)
  else w

/-! ### constructor acceptance and the `make_det_one` branch -/

structure SqCfg where
  dim : Nat
  symmetry : Symmetry
  traceless : Bool
  det : Option Nat          -- none | some 0 | some 1
  complex : Bool
  deriving DecidableEq, Repr

/-- `config['complex']` after `__init__` -/
def effComplex (c : SqCfg) : Bool := c.complex || c.symmetry == .hermitian || c.symmetry == .antihermitian

/-- does `SquareMatrices.__init__` accept the combination? (the exclusions of the constructor, in order) -/
def accepts (c : SqCfg) : Bool :=
  let cx := effComplex c
  if c.det == some 0 then
    if c.traceless then false
    else if c.symmetry == .antisymmetric then (if cx then false else if c.dim % 2 == 0 then false else true)
    else true
  else if c.det == some 1 then
    if c.dim == 2 && c.traceless && ((c.symmetry == .diagonal && !cx) || (c.symmetry == .symmetric && !cx) || c.symmetry == .hermitian) then false
    else if c.dim % 2 == 1 && (c.symmetry == .antisymmetric || c.symmetry == .antihermitian) then false
    else true
  else true

inductive DetOneBranch
  | realScale        -- determinant guaranteed real: scale by det^(1/n), or by (-det)^(1/n) with a sign flip in odd dimension, else retry
  | complexScale     -- complex matrices of the transpose-type symmetries: divide by det^(1/n)
  | unknown          -- 'Unknown class configuration'
  deriving DecidableEq, Repr

def detOneBranch (c : SqCfg) : DetOneBranch :=
  let cx := effComplex c
  if !cx || c.symmetry == .hermitian || c.symmetry == .antihermitian then .realScale
  else if cx && (c.symmetry == .none || c.symmetry == .diagonal || c.symmetry == .symmetric || c.symmetry == .antisymmetric) then .complexScale
  else .unknown

/-- the assertion at the top of `make_det_one` -/
def detOneAssertion (c : SqCfg) : Bool :=
  !((c.symmetry == .antisymmetric || c.symmetry == .antihermitian) && c.dim % 2 == 1)

end Sp

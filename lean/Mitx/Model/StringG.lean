import Mitx.Model.Grade
/-! Executable model of `StringGrader` (stringgrader.py 91-215): `clean_input`, `construct_message`, `check_response`.
The regular-expression engine is a parameter (`fullmatch` results are supplied), case folding is a parameter
`lower` (executable instance: ASCII + Latin-1). Core Lean only. -/
namespace SG
open Gr (M IRes AnsMeta Err pyIsSpace)

/-- `str.replace(old, ' ')` for a 1- or 2-character `old`, left to right, non-overlapping -/
def replace2 (a b : Char) : List Char → List Char
  | x :: y :: r => if x == a && y == b then ' ' :: replace2 a b r else x :: replace2 a b (y :: r)
  | l => l
def replace1 (a : Char) (l : List Char) : List Char := l.map (fun c => if c == a then ' ' else c)

/-- tabs and line breaks become spaces: `\t`, then `\r\n`, `\n\r`, `\r`, `\n`, in the code's order -/
def controlsToSpaces (l : List Char) : List Char :=
  replace1 '\n' (replace1 '\r' (replace2 '\n' '\r' (replace2 '\r' '\n' (replace1 '\t' l))))

def stripL (l : List Char) : List Char := l.dropWhile pyIsSpace
def strip (l : List Char) : List Char := (stripL (stripL l).reverse).reverse

/-- `re.sub(r' +', ' ', s)` -/
def collapse : List Char → List Char
  | ' ' :: ' ' :: r => collapse (' ' :: r)
  | c :: r => c :: collapse r
  | [] => []

structure Flags where
  caseSensitive : Bool
  strip : Bool
  stripAll : Bool
  cleanSpaces : Bool
  deriving Repr

/-- `clean_input` -/
def clean (lower : List Char → List Char) (f : Flags) (s : List Char) : List Char :=
  let c := controlsToSpaces s
  let c := if f.caseSensitive then c else lower c
  let c := if f.strip then strip c else c
  let c := if f.stripAll then c.filter (· != ' ') else c
  if f.cleanSpaces then collapse c else c

/-- ASCII + Latin-1 lower-casing (the executable stand-in for `str.lower` on the harness alphabet) -/
def lowerChar (c : Char) : Char :=
  let n := c.toNat
  if 65 ≤ n ∧ n ≤ 90 then Char.ofNat (n + 32)
  else if 0xC0 ≤ n ∧ n ≤ 0xDE ∧ n ≠ 0xD7 then Char.ofNat (n + 32) else c
def lowerL (l : List Char) : List Char := l.map lowerChar

/-- `len(student.split())` -/
def wordCount : List Char → Nat
  | [] => 0
  | c :: r => if pyIsSpace c then wordCount r else
      match r with
      | [] => 1
      | d :: _ => if pyIsSpace d then 1 + wordCount r else wordCount r

inductive Explain | err | msg | none deriving Repr, DecidableEq

structure Cfg where
  flags : Flags
  acceptAny : Bool
  acceptNonempty : Bool
  minLength : Nat
  minWords : Nat
  explainMinimums : Explain
  hasPattern : Bool
  pattern : String                 -- only for the ConfigError text
  explainValidation : Explain
  invalidMsg : String
  debug : Bool
  deriving Repr

/-- `construct_message(msg, msg_type)` -/
def constructMessage (cfg : Cfg) (msg : String) (t : Explain) : M IRes :=
  match t with
  | .err => throw (.mitx "InvalidInput" msg)
  | .msg => pure { ok := .no, grade := 0, msg := msg }
  | .none => pure { ok := .no, grade := 0, msg := if cfg.debug then msg else "" }

/-- `check_response(answer, student_input)`; `fmExpect`/`fmStudent` are `re.fullmatch(pattern, ·) is not None` on the
    cleaned author answer / cleaned submission -/
def checkResponse (lower : List Char → List Char) (cfg : Cfg) (fmExpect fmStudent : Bool) (m : AnsMeta) (expectRaw : String)
    (studentRaw : String) : M IRes :=
  let expect := clean lower cfg.flags expectRaw.toList
  let student := clean lower cfg.flags studentRaw.toList
  let acceptAny := cfg.acceptAny || cfg.acceptNonempty
  let minLength := if cfg.acceptNonempty && cfg.minLength == 0 then 1 else cfg.minLength
  let correct : IRes := { ok := m.ok, grade := m.grade, msg := m.msg }
  let afterPattern : M IRes :=
    if !acceptAny then
      if student != expect then pure { ok := .no, grade := 0, msg := "" } else pure correct
    else
      let chars := student.length
      let msg1 : Option String := if chars < minLength then
        some ("Your response is too short (" ++ toString chars ++ "/" ++ toString minLength ++ " characters)") else none
      let words := wordCount student
      let msg2 : Option String := if words < cfg.minWords then
        some ("Your response is too short (" ++ toString words ++ "/" ++ toString cfg.minWords ++ " words)") else msg1
      match msg2 with
      | some msg => constructMessage cfg msg cfg.explainMinimums
      | none => pure correct
  if cfg.hasPattern then
    if !acceptAny && !fmExpect then
      throw (Err.config ("The provided answer '" ++ expectRaw ++ "' does not match the validation pattern '" ++ cfg.pattern ++ "'"))
    else if !fmStudent then constructMessage cfg cfg.invalidMsg cfg.explainValidation
    else afterPattern
  else afterPattern

end SG

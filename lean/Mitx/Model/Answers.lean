import Mitx.Model.Grade
/-! Model of `ItemGrader.schema_answers` / `validate_single_answer` / `schema_answer` / `validate_expect_tuple`
(baseclasses.py 521-598): the normalisation of the author's `answers` option to the canonical tuple of dictionaries
`{expect: tuple, grade_decimal, msg, ok}`. The leaf-specific `validate_expect` is a parameter. Core Lean only. -/
namespace Av
open At (Ok gradeToOk)

/-- the `ok` key as the author may give it -/
inductive OkIn | computed | yes | no | part
  deriving DecidableEq, Repr

/-- an `expect` value: a single entry or a tuple of alternatives -/
inductive Exp (ε : Type)
  | one (e : ε)
  | tuple (l : List ε)
  deriving Repr

/-- one element of the author's `answers`: a bare expect value, or a dictionary (fields absent = `none`; `unknown` = it has a
    key the schema does not know; a present `grade_decimal` that is not a number is not modelled here — the generic schema
    model of C20 covers types) -/
inductive Raw (ε : Type)
  | bare (x : Exp ε)
  | dict (expect : Option (Exp ε)) (grade : Option Rat) (msg : Option String) (ok : Option OkIn) (unknown : Bool)
  deriving Repr

/-- canonical answer dictionary -/
structure Canon (ε : Type) where
  expect : List ε
  grade : Rat
  msg : String
  ok : Ok
  deriving Repr, DecidableEq

/-- `validate_expect_tuple`: coerce to a tuple, validate every entry -/
def validateExpectTuple {ε δ : Type} (vExp : ε → Option δ) : Exp ε → Option (List δ)
  | .one e => (vExp e).map (fun x => [x])
  | .tuple l => l.mapM vExp

def okOfIn : OkIn → Rat → Ok
  | .computed, g => gradeToOk g
  | .yes, _ => .yes
  | .no, _ => .no
  | .part, _ => .part

/-- `schema_answer(dict)` followed by the `ok` computation of `validate_single_answer` -/
def schemaAnswer {ε δ : Type} (vExp : ε → Option δ) (expect : Option (Exp ε)) (grade : Option Rat) (msg : Option String)
    (ok : Option OkIn) (unknown : Bool) : Option (Canon δ) :=
  if unknown then none else
  match expect with
  | none => none
  | some x =>
    match validateExpectTuple vExp x with
    | none => none
    | some es =>
      let g := grade.getD 1
      if g < 0 ∨ 1 < g then none else
      let okIn := ok.getD .computed
      -- "If the 'ok' value is 'computed' or the grade decimal is not 1, then compute what it should be"
      let okOut := if okIn = .computed ∨ g ≠ 1 then gradeToOk g else okOfIn okIn g
      some { expect := es, grade := g, msg := msg.getD "", ok := okOut }

/-- `validate_single_answer`; `dictAsExpect` = what `validate_expect_tuple` makes of the whole dictionary when it is not a valid
    answer dictionary (for graders whose expect values are never dictionaries: `none`) -/
def validateSingle {ε δ : Type} (vExp : ε → Option δ) (dictAsExpect : Option (List δ)) : Raw ε → Option (Canon δ)
  | .bare x => schemaAnswer vExp (some x) none none (some .yes) false
  | .dict e g m o u =>
    match schemaAnswer vExp e g m o u with
    | some c => some c
    | none => dictAsExpect.map (fun es => { expect := es, grade := 1, msg := "", ok := .yes })

/-- `schema_answers`: a non-tuple is wrapped into a one-element tuple; every element is validated -/
def schemaAnswers {ε δ : Type} (vExp : ε → Option δ) (dictAsExpect : Option (List δ)) (answers : List (Raw ε)) : Option (List (Canon δ)) :=
  answers.mapM (validateSingle vExp dictAsExpect)

/-- the canonical dictionary read back as an author-given dictionary (what `Cls(obj.config)` passes in) -/
def Canon.toRaw {δ : Type} (c : Canon δ) : Raw δ :=
  .dict (some (.tuple c.expect)) (some c.grade) (some c.msg)
    (some (match c.ok with | .yes => .yes | .no => .no | .part => .part)) false

end Av

/-! Executable model of sample generation (sampling.py `gen_symbols_samples`, math_helpers.py
`numbered_vars_regexp` / `generate_variable_list` / the sibling extension of `gen_var_and_func_samples`,
sampling.py `construct_constants`). Dictionaries are insertion-ordered association lists (Python dict
semantics); values are an abstract type `V`; a dependent sampler's `compute_sample` is the parameter `eval`.
Core Lean only. -/
namespace Dp

variable {V : Type}

/-- a Python dict with string keys: insertion-ordered association list without duplicate keys -/
abbrev Dict (V : Type) := List (String × V)

def Dict.get (d : Dict V) (k : String) : Option V := d.lookup k

/-- `d[k] = v`: overwrite in place, or append at the end -/
def Dict.set : Dict V → String → V → Dict V
  | [], k, v => [(k, v)]
  | (a, b) :: r, k, v => if a = k then (a, v) :: r else (a, b) :: Dict.set r k v

def Dict.has (d : Dict V) (k : String) : Bool := (d.get k).isSome

/-- a DependentSampler entry of `sample_from`: its name, `config['depends']`, and `compute_sample` -/
structure Dep (V : Type) where
  name : String
  deps : List String
  eval : Dict V → V

/-- `is_subset(dependencies, sample_dict)` -/
def ready (env : Dict V) (d : Dep V) : Bool := d.deps.all (fun x => env.has x)

/-- one pass of `for symbol, dependencies in list(unevaluated_dependents.items())`: the sample dictionary is
updated inside the pass, so later entries see earlier results. Returns (sample_dict, still unevaluated). -/
def sweep : List (Dep V) → Dict V → Dict V × List (Dep V)
  | [], env => (env, [])
  | d :: ds, env =>
    if ready env d then sweep ds (env.set d.name (d.eval env))
    else
      let r := sweep ds env
      (r.1, d :: r.2)

/-- the `while unevaluated_dependents:` loop. The Python loop has no counter; `fuel` is the structural recursion
argument and `resolve_fuel_irrelevant` shows that `ds.length` is always enough. `Sum.inr (env, stuck)` is the
`if not progress_made:` branch. -/
def resolve : Nat → List (Dep V) → Dict V → Dict V ⊕ (Dict V × List (Dep V))
  | _, [], env => .inl env
  | 0, d :: ds, env => .inr (env, d :: ds)
  | f+1, d :: ds, env =>
    let r := sweep (d :: ds) env
    if r.2.length < (d :: ds).length then resolve f r.2 r.1 else .inr (r.1, r.2)

/-! ### diagnosis when no progress is made -/

def insertSorted (x : String) : List String → List String
  | [] => [x]
  | y :: ys => if x < y then x :: y :: ys else if x = y then y :: ys else y :: insertSorted x ys

/-- `sorted(set(l))` -/
def sortedSet (l : List String) : List String := l.foldr insertSorted []

inductive Failure
  | undefined (names : List String)     -- "DependentSamplers depend on undefined quantities: " + ", ".join(names)
  | circular (names : List String)      -- "Circularly dependent DependentSamplers detected: " + ", ".join(names)
  deriving Repr, DecidableEq

def badItems (env : Dict V) (stuck : List (Dep V)) : List String :=
  (stuck.flatMap (·.deps)).filter (fun x => !(stuck.any (fun d => d.name == x)) && !env.has x)

def diagnose (env : Dict V) (stuck : List (Dep V)) : Failure :=
  let bad := badItems env stuck
  if bad.isEmpty then .circular (sortedSet (stuck.map (·.name))) else .undefined (sortedSet bad)

/-! ### one sample -/

/-- `pruned_constants`: constants not shadowed by a symbol -/
def prune (constants : Dict V) (symbols : List String) : Dict V :=
  constants.filter (fun p => !symbols.contains p.1)

/-- `sample_dict = pruned_constants.copy(); sample_dict.update({symbol: draw ...})` -/
def baseDict (constants : Dict V) (symbols : List String) (draws : List (String × V)) : Dict V :=
  draws.foldl (fun d p => d.set p.1 p.2) (prune constants symbols)

/-- one iteration of `for _ in range(samples)`: `draws` are the values handed out by the independent
sampling sets (in symbol order), `deps` the dependent entries in symbol order -/
def genSample (constants : Dict V) (symbols : List String) (draws : List (String × V)) (deps : List (Dep V)) :
    Except Failure (Dict V) :=
  match resolve deps.length deps (baseDict constants symbols draws) with
  | .inl env => .ok env
  | .inr (env, stuck) => .error (diagnose env stuck)

/-! ### numbered variables -/

def isDigit (c : Char) : Bool := '0' ≤ c && c ≤ '9'

/-- the number pattern `(?:[-]?[1-9]\d*|0)` -/
def canonicalInt (cs : List Char) : Bool :=
  match cs with
  | ['0'] => true
  | '-' :: c :: r => isDigit c && c != '0' && r.all isDigit
  | c :: r => isDigit c && c != '0' && r.all isDigit
  | [] => false

def stripPrefix : List Char → List Char → Option (List Char)
  | [], s => some s
  | _ :: _, [] => none
  | a :: as, b :: bs => if a = b then stripPrefix as bs else none

/-- does `s` read `head_{n}` with `n` a canonical integer? -/
def matchHead (head s : List Char) : Bool :=
  match stripPrefix head s with
  | none => false
  | some r =>
    match r with
    | '_' :: '{' :: r' =>
      match r'.reverse with
      | '}' :: nrev => canonicalInt nrev.reverse
      | _ => false
    | _ => false

/-- `numbered_vars_regexp(heads).match(s)`: the head of the first alternative under which the whole string matches -/
def numberedMatch (heads : List String) (s : String) : Option String :=
  heads.find? (fun h => matchHead h.toList s.toList)

/-- `generate_variable_list`: (variable_list, for every added instance the head whose sampler it shares) -/
def generateVariableList (variables numbered : List String) (varsUsed : List String) :
    List String × List (String × String) :=
  let bad := varsUsed.filter (fun v => !variables.contains v)
  let inst := bad.filterMap (fun v => (numberedMatch numbered v).map (fun h => (v, h)))
  (variables ++ inst.map (·.1), inst)

/-- `construct_constants(default_variables, user_consts)` -/
def constructConstants (defaults user : Dict V) : Dict V :=
  user.foldl (fun d p => d.set p.1 p.2) defaults

end Dp

namespace Dp
variable {V : Type}

/-- outcome of one sample when values may be error values (`compute_sample` raising ConfigError for a formula that
cannot be evaluated): the error is raised as soon as it is produced, i.e. before any later diagnosis -/
inductive Outcome (V : Type)
  | ok (d : Dict V)
  | formulaError (name : String)
  | fail (f : Failure)

def genSampleE (isErr : V → Bool) (constants : Dict V) (symbols : List String) (draws : List (String × V))
    (deps : List (Dep V)) : Outcome V :=
  let r := resolve deps.length deps (baseDict constants symbols draws)
  let env := match r with
    | .inl e => e
    | .inr (e, _) => e
  match env.find? (fun p => isErr p.2 && deps.any (fun d => d.name == p.1)) with
  | some p => .formulaError p.1
  | none =>
    match r with
    | .inl e => .ok e
    | .inr (e, stuck) => .fail (diagnose e stuck)

end Dp

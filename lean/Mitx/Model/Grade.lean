import Mitx.Model.Attempt
import Mitx.Model.Munkres
/-! Executable model of the grading core: `ItemGrader.check` (baseclasses.py), `SingleListGrader.check_response /
process_grade_list`, `find_optimal_order`, `consolidate_grades`, `consolidate_single_return`, `ListGrader.check /
perform_check / get_best_result / groupify / ungroupify` (listgrader.py) and the `AbstractGrader.__call__` wrapper.
Leaf graders are parameters (`check_response` functions). Core Lean only; grades are exact rationals. -/
namespace Gr
open At (Ok gradeToOk)

/-- an exception: a class of the library's own family (`MITxError` subclass) or any other Python exception -/
inductive Err
  | mitx (cls msg : String)
  | py (cls msg : String)
  deriving DecidableEq, Repr, Inhabited

def Err.config (msg : String) : Err := .mitx "ConfigError" msg
def Err.missingInput (msg : String) : Err := .mitx "MissingInput" msg
def Err.other (cls msg : String) : Err := .py cls msg

abbrev M := Except Err

instance : Inhabited Ok := ⟨.no⟩

/-- short-form result of an item-level check; `allAwarded` is the extra key SingleListGrader attaches -/
structure IRes where
  ok : Ok
  grade : Rat
  msg : String
  allAwarded : Bool := false
  deriving DecidableEq, Repr, Inhabited

/-- the part of an answer dictionary that `check_response` sees besides the `expect` entry -/
structure AnsMeta where
  grade : Rat
  msg : String
  ok : Ok
  deriving DecidableEq, Repr, Inhabited

structure Answer (ε : Type) where
  expect : List ε             -- the expect tuple
  am : AnsMeta
  deriving Repr

/-! ### Python helpers -/

/-- first element with maximal key: Python's `max(iterable, key=f)` -/
def firstMaxBy (f : α → Nat) : List α → Option α
  | [] => none
  | x :: xs => match firstMaxBy f xs with
    | none => some x
    | some y => if f y > f x then some y else some x

def maxRat : List Rat → Option Rat
  | [] => none
  | x :: xs => match maxRat xs with
    | none => some x
    | some y => some (if y > x then y else x)

def isPrefixChars : List Char → List Char → Bool
  | [], _ => true
  | _ :: _, [] => false
  | a :: as, b :: bs => a == b && isPrefixChars as bs

/-- Python `str.split(sep)` for a non-empty separator, on character lists -/
def splitChars (sep : List Char) (fuel : Nat) (s : List Char) (cur : List Char) : List (List Char) :=
  match fuel with
  | 0 => [cur.reverse ++ s]
  | fuel + 1 =>
    match s with
    | [] => [cur.reverse]
    | c :: r =>
      if isPrefixChars sep (c :: r) then cur.reverse :: splitChars sep fuel ((c :: r).drop sep.length) []
      else splitChars sep fuel r (c :: cur)

def pySplit (s sep : String) : List String :=
  if sep.isEmpty then [s] else (splitChars sep.toList (s.length + 1) s.toList []).map String.ofList

/-- code points for which Python's `str.isspace()` is true -/
def pyIsSpace (c : Char) : Bool :=
  let n := c.toNat
  (9 ≤ n && n ≤ 13) || (28 ≤ n && n ≤ 32) || n == 0x85 || n == 0xa0 || n == 0x1680 ||
  (0x2000 ≤ n && n ≤ 0x200a) || n == 0x2028 || n == 0x2029 || n == 0x202f || n == 0x205f || n == 0x3000

def pyStrip (s : String) : String :=
  String.ofList ((s.toList.dropWhile pyIsSpace).reverse.dropWhile pyIsSpace).reverse

def joinNonEmpty (sep : String) (l : List String) : String := sep.intercalate (l.filter (· != ""))

/-! ### ItemGrader.check -/

/-- all (answer, entry) pairs in listing order -/
def expand (answers : List (Answer ε)) : List (AnsMeta × ε) :=
  answers.flatMap (fun a => a.expect.map (fun e => (a.am, e)))

/-- `ItemGrader.check(answers, student_input)`; `cr` is the grader's `check_response` -/
def itemCheck (cr : AnsMeta → ε → String → M IRes) (wrongMsg : String) (answers : List (Answer ε)) (inp : String) : M IRes := do
  if answers.isEmpty then
    throw (.config "There is a problem with the author's problem configuration: Expected at least one answer in answers")
  let results ← (expand answers).mapM (fun p => cr p.1 p.2 inp)
  match maxRat (results.map (·.grade)) with
  | none => throw (.other "ValueError" "max() arg is an empty sequence")     -- an answer with an empty expect tuple
  | some best =>
    match firstMaxBy (fun r => r.msg.length) (results.filter (fun r => r.grade == best)) with
    | none => throw (.other "ValueError" "unreachable")
    | some r => pure (if r.msg == "" && best == 0 then { r with msg := wrongMsg } else r)

/-! ### list helpers -/

/-- `consolidate_grades(grade_decimals, n_expect)` -/
def consolidateGrades (grades : List Rat) (nExpect : Nat) : Rat :=
  let n := grades.length
  let total := grades.foldl (· + ·) 0
  let total := if n > nExpect then total - ((n - nExpect : Nat) : Rat) else total
  let avg := total / (nExpect : Rat)
  if avg < 0 then 0 else avg

/-- `consolidate_single_return(input_list, n_expect, partial_credit)` -/
def consolidateSingleReturn (l : List IRes) (nExpect : Nat) (partialCredit : Bool) : IRes :=
  let g := consolidateGrades (l.map (·.grade)) nExpect
  let g := if !partialCredit && g < 1 then 0 else g
  { ok := gradeToOk g, grade := g, msg := joinNonEmpty "\n" (l.map (·.msg)) }

/-- `find_optimal_order(check, answers, student_list)`: the credit matrix has one row per input; Munkres on
    `1 - grade`; the results are read back in the order of the returned index pairs (row order). -/
def findOptimalOrder (check : α → β → M ρ) (grade : ρ → Rat) (answers : List α) (inputs : List β) : M (List ρ) := do
  let mat ← inputs.mapM (fun i => answers.mapM (fun a => check a i))
  let cost := mat.map (fun row => row.map (fun r => 1 - grade r))
  match Mk.compute cost with
  | none => throw (.other "Internal" "munkres did not terminate")
  | some idx => pure (idx.filterMap (fun p => (mat[p.1]?).bind (fun row => row[p.2]?)))

/-! ### SingleListGrader -/

structure SLCfg where
  ordered : Bool
  lengthError : Bool
  missingError : Bool
  partialCredit : Bool
  delimiter : String
  subIsSingleList : Bool        -- isinstance(subgrader, SingleListGrader)
  deriving Repr

def autoFail : IRes := { ok := .no, grade := 0, msg := "", allAwarded := false }

/-- `padded_check(check)` on the padded lists (`none` = `_AutomaticFailure`) -/
def paddedCheck (sub : α → String → M IRes) : Option α → Option String → M IRes
  | some a, some i => sub a i
  | _, _ => pure autoFail

def padTo (n : Nat) (l : List α) : List (Option α) := l.map some ++ List.replicate (n - l.length) none

def natList (l : List Nat) : String := ", ".intercalate (l.map toString)

/-- `process_grade_list` -/
def processGradeList (cfg : SLCfg) (gradeList : List IRes) (numAnswers : Nat) (m : AnsMeta) : IRes :=
  let r := consolidateSingleReturn gradeList numAnswers cfg.partialCredit
  let allAwarded := if cfg.subIsSingleList then gradeList.all (·.allAwarded) else gradeList.all (fun i => decide (i.grade > 0))
  let msg := if allAwarded && m.msg != "" then (if r.msg == "" then m.msg else r.msg ++ "\n" ++ m.msg) else r.msg
  let g := r.grade * m.grade
  { ok := gradeToOk g, grade := g, msg := msg, allAwarded := allAwarded }

/-- `SingleListGrader.check_response(answer, student_input)`; `items` is the expect entry (a list of answer
    tuples for the subgrader), `sub` the subgrader's `check`. -/
def slCheckResponse (cfg : SLCfg) (sub : α → String → M IRes) (m : AnsMeta) (items : List α) (inp : String) : M IRes := do
  let studentList := pySplit inp cfg.delimiter
  if cfg.lengthError && items.length != studentList.length then
    throw (.missingInput ("List length error: Expected " ++ toString items.length ++ " terms in the list, but received " ++
      toString studentList.length ++ ". Separate items with character \"" ++ cfg.delimiter ++ "\""))
  if cfg.missingError then
    let bad := (studentList.zipIdx.filter (fun p => pyStrip p.1 == "")).map (fun p => p.2 + 1)
    if !bad.isEmpty then
      throw (.missingInput ((if bad.length == 1 then "List error: Empty entry detected in position "
        else "List error: Empty entries detected in positions ") ++ natList bad))
  let n := max items.length studentList.length
  let pa := padTo n items
  let ps := padTo n studentList
  let gradeList ← if cfg.ordered then (pa.zip ps).mapM (fun p => paddedCheck sub p.1 p.2)
                  else findOptimalOrder (paddedCheck sub) (·.grade) pa ps
  pure (processGradeList cfg gradeList items.length m)

/-! ### ListGrader -/

/-- what a ListGrader hands to a subgrader: one text, or a group of texts (nested ListGrader) -/
inductive GInput
  | one (s : String)
  | many (l : List String)
  deriving Repr, Inhabited

/-- what a subgrader's `check` returns: short form, or long form (`input_list`) -/
inductive SubRes
  | single (r : IRes)
  | multi (l : List IRes)
  deriving Repr, Inhabited

def SubRes.flat : SubRes → List IRes
  | .single r => [r]
  | .multi l => l

/-- the grade `find_optimal_order.calculate_cost` uses -/
def SubRes.grade : SubRes → Rat
  | .single r => r.grade
  | .multi l => consolidateGrades (l.map (·.grade)) l.length

/-- `create_grouping_map`; `none` = ConfigError (not contiguous 1..k) -/
def createGroupingMap (grouping : List Nat) : Option (List (List Nat)) :=
  match grouping.foldl max 0 with
  | 0 => none
  | k =>
    let groups := (List.range k).map (fun g => (grouping.zipIdx.filter (fun p => p.1 == g + 1)).map (·.2))
    if groups.all (fun g => !g.isEmpty) && grouping.all (fun g => decide (1 ≤ g)) then some groups else none

/-- `groupify_list(grouping, thelist)` -/
def groupify (grouping : Option (List (List Nat))) (l : List String) : List GInput :=
  match grouping with
  | none => l.map .one
  | some gs => gs.map (fun g => match g with
      | [i] => .one (l.getD i "")
      | _ => .many (g.map (fun i => l.getD i "")))

/-- the entries a group's result contributes: a one-input group holds one short-form result, a larger group the
    `input_list` of a nested grader -/
def groupItems (g : List Nat) (r : SubRes) : List IRes :=
  match g, r with
  | [_], .single x => [x]
  | [_], .multi l => l.take 1 |>.drop 1   -- `[items]` holding a list: not an entry (never produced by valid configs)
  | _, .single _ => []
  | _, .multi l => l

/-- the assignments `output[idx] = item` performed by `ungroupify_list`, in execution order -/
def groupWrites (gs : List (List Nat)) (nested : List SubRes) : List (Nat × IRes) :=
  (gs.zip nested).flatMap (fun p => p.1.zip (groupItems p.1 p.2))

/-- `ungroupify_list(grouping, grouped_list)`; positions never written hold `none` -/
def ungroupify (grouping : Option (List (List Nat))) (nested : List SubRes) : List (Option IRes) :=
  match grouping with
  | none => nested.flatMap (fun r => match r with
      | .single x => [some x]
      | .multi _ => [none])       -- a long-form result without grouping cannot be placed (Python stores the list itself)
  | some gs =>
    let len := (gs.flatten.foldl max 0) + 1
    let writes := groupWrites gs nested
    (List.range len).map (fun i => (writes.reverse.find? (fun w => w.1 == i)).map (·.2))

/-- number of groups of a (validated) grouping -/
def nGroups (grouping : List Nat) : Nat := ((createGroupingMap grouping).map List.length).getD 0
/-- `len(answers) == len(self.grouping)`: one answer per group -/
def groupsMatch (grouping : List Nat) (nAnswers : Nat) : Bool :=
  match createGroupingMap grouping with
  | some gs => nAnswers == gs.length
  | none => true

structure LCfg where
  ordered : Bool
  partialCredit : Bool
  grouping : List Nat                  -- config['grouping'] ([] = none)
  deriving Repr

structure LOut where
  overall : String
  entries : List (Option IRes)
  deriving Repr, Inhabited

/-- `perform_check(answers, student_list)`; `sub k` is the `check` of the k-th subgrader (all equal when a single
    subgrader is configured) -/
def performCheck (cfg : LCfg) (sub : Nat → α → GInput → M SubRes) (answers : List α) (student : List String) : M LOut := do
  if !cfg.grouping.isEmpty then
    if cfg.grouping.length != student.length then
      throw (.config ("Grouping indicates " ++ toString cfg.grouping.length ++ " inputs are expected, but only " ++
        toString student.length ++ " inputs exist."))
    if !groupsMatch cfg.grouping answers.length then
      throw (.config ("Grouping indicates " ++ toString (nGroups cfg.grouping) ++ " groups of inputs, but " ++
        toString answers.length ++ " answers were provided."))
  else if answers.length != student.length then
    throw (.config ("The number of answers (" ++ toString answers.length ++ ") and the number of inputs (" ++
      toString student.length ++ ") are different"))
  let gmap := if cfg.grouping.isEmpty then none else createGroupingMap cfg.grouping
  let grouped := groupify gmap student
  let inputList ← if cfg.ordered then ((answers.zip grouped).zipIdx).mapM (fun p => sub p.2 p.1.1 p.1.2)
                  else findOptimalOrder (sub 0) SubRes.grade answers grouped
  pure { overall := "", entries := ungroupify gmap inputList }

def total (o : LOut) : Rat := (o.entries.map (fun e => match e with | some r => r.grade | none => 0)).foldl (· + ·) 0

def gradeAt (o : LOut) (q : Nat) : Rat := match o.entries.getD q none with | some r => r.grade | none => 0

/-- the tie-break loop of `get_best_result`: candidates still in the running, culled question by question on
    the *truthiness* of the grade -/
def cullLoop (cands : List LOut) : List Nat → List Bool → List Bool
  | [], run => run
  | q :: qs, run =>
    let test := (run.zip cands).map (fun p => p.1 && decide (gradeAt p.2 q ≠ 0))
    if test.all (· == false) then cullLoop cands qs run
    else if (test.filter id).length == 1 then test
    else cullLoop cands qs test

/-- `get_best_result(results)` -/
def getBestResult (results : List LOut) : Option LOut :=
  match results with
  | [] => none
  | [r] => some r
  | r0 :: _ =>
    match maxRat (results.map total) with
    | none => none
    | some best =>
      let culled := results.filter (fun r => total r == best)
      match culled with
      | [r] => some r
      | _ =>
        let run := cullLoop culled (List.range r0.entries.length) (culled.map (fun _ => true))
        ((culled.zip run).find? (·.2)).map (·.1)

/-- `ListGrader.check(answers, student_input)` -/
def listCheck (cfg : LCfg) (sub : Nat → α → GInput → M SubRes) (answers : List (List α)) (student : List String) : M LOut := do
  if answers.isEmpty then throw (.config "Expected at least one answer in answers")
  let results ← answers.mapM (fun al => performCheck cfg sub al student)
  match getBestResult results with
  | none => throw (.other "Internal" "no result")
  | some best =>
    if !cfg.partialCredit && !(best.entries.all (fun e => match e with | some r => r.ok == .yes | none => false)) then
      pure { best with entries := best.entries.map (fun e => e.map (fun r => { r with ok := .no, grade := 0 })) }
    else pure best

/-! ### AbstractGrader.__call__ -/

inductive CheckOut
  | single (r : IRes)
  | list (o : LOut)
  deriving Repr, Inhabited

def brMsg (s : String) : String := s.replace "\n" "<br/>"
def fmtMsg (s : String) : String := s.replace "\n" "<br/>\n"

/-- the generic message for an unanticipated failure names exactly what was submitted -/
def genericMsg : GInput → String
  | .one s => "Invalid Input: Could not check input '" ++ s ++ "'"
  | .many l => "Invalid Input: Could not check inputs '" ++ "', '".intercalate l ++ "'"

def stripKeys : CheckOut → Option At.Out
  | .single r => some (.single { ok := r.ok, grade := r.grade, msg := r.msg })
  | .list o =>
    if o.entries.all Option.isSome then
      some (.list o.overall (o.entries.filterMap (fun e => e.map (fun r => ({ ok := r.ok, grade := r.grade, msg := r.msg } : At.Res)))))
    else none

def appendLog (log : String) : At.Out → At.Out
  | .single r => .single { r with msg := if r.msg == "" then log else r.msg ++ "\n\n" ++ log }
  | .list ov rs => .list (if ov == "" then log else ov ++ "\n\n" ++ log) rs

def formatMessages : At.Out → At.Out
  | .single r => .single { r with msg := fmtMsg r.msg }
  | .list ov rs => .list (fmtMsg ov) (rs.map (fun r => { r with msg := fmtMsg r.msg }))

structure CallCfg where
  debug : Bool
  sched : Option (Int → Rat)       -- config['attempt_based_credit']
  attemptMsg : Bool

/-- `AbstractGrader.__call__` after `ensure_text_inputs`: `res` is what `self.check(None, student_input)` did,
    `log` the debug-log text (`log_output()`), `attempt` the keyword argument. -/
def call (cfg : CallCfg) (attempt : Option Int) (log : String) (inp : GInput) (res : M CheckOut) : M At.Out := do
  let r ← match res with
    | .ok r => pure r
    | .error e =>
      if cfg.debug then throw e
      else match e with
        | .mitx cls msg => throw (.mitx cls (brMsg msg))
        | .py _ _ => throw (.mitx "StudentFacingError" (genericMsg inp))
  let out ← match stripKeys r with
    | some o => pure o
    | none => throw (.py "AttributeError" "'NoneType' object has no attribute 'items'")
  let out ← match cfg.sched with
    | none => pure out
    | some s => match At.applyAttempt s cfg.attemptMsg attempt out with
      | .ok o => pure o
      | .error _ => throw (Err.config ("Attempt number not passed to grader as keyword argument 'attempt'. " ++
          "The attribute <code>cfn_extra_args=\"attempt\"</code> may need to be set in the <code>customresponse</code> tag."))
  let out := if cfg.debug then appendLog log out else out
  pure (formatMessages out)

end Gr

import Mitx.Model.Grade
/-! Model of `IntervalGrader.check_response` / `grade_bracket` (formulagrader/intervalgrader.py 192-259) on top of the
SingleListGrader machinery (`ordered`, `length_error`, `missing_error` are hard-wired to True by its schema). The subgrader
that grades the two bounds is a parameter. Core Lean only. -/
namespace Gr
open At (gradeToOk)

/-- `SingleListGrader.check_response` up to (not including) `process_grade_list`: the per-item grade list
    (what subclasses read from `result['individual']`) -/
def slGradeList (cfg : SLCfg) (sub : α → String → M IRes) (items : List α) (inp : String) : M (List IRes) := do
  let studentList := pySplit inp cfg.delimiter
  if cfg.lengthError && items.length != studentList.length then
    throw (.missingInput ("List length error: Expected " ++ toString items.length ++ " terms in the list, but received " ++
      toString studentList.length ++ ". Separate items with character \"" ++ cfg.delimiter ++ "\""))
  if cfg.missingError then
    let bad := (studentList.zipIdx.filter (fun p => pyStrip p.1 == "")).map (fun p => p.2 + 1)
    if !bad.isEmpty then
      throw (.missingInput ((if bad.length == 1 then "List error: Empty entry detected in position "
        else "List error: Empty entries detected in positions ") ++ natList bad))
  let n := max items.length studentList.length
  let pa := padTo n items
  let ps := padTo n studentList
  if cfg.ordered then (pa.zip ps).mapM (fun p => paddedCheck sub p.1 p.2)
  else findOptimalOrder (paddedCheck sub) (·.grade) pa ps

/-- one validated bracket answer: the characters it accepts, its credit and message -/
structure BrAns where
  expect : List String
  grade : Rat
  msg : String
  deriving Repr

/-- one iteration of the loop of `grade_bracket` -/
def brStep (student : String) (best : Option BrAns) (b : BrAns) : Option BrAns :=
  if b.expect.contains student then
    match best with
    | none => some b
    | some x => if b.grade > x.grade then some b else some x
  else best

/-- the loop of `grade_bracket`: the first answer of maximal credit among those that list the student's bracket -/
def bestBracket (answers : List BrAns) (student : String) : Option BrAns := answers.foldl (brStep student) none

/-- `grade_bracket(answers, student_answer, grade_entry)` -/
def gradeBracket (answers : List BrAns) (student : String) (e : IRes) : IRes :=
  if e.grade == 0 then e else
  match bestBracket answers student with
  | none => { e with grade := 0, ok := .no }
  | some b =>
    let g := e.grade * b.grade
    let msg := if b.msg != "" then (if e.msg != "" then e.msg ++ "\n" ++ b.msg else b.msg) else e.msg
    { e with grade := g, msg := msg, ok := gradeToOk g }

structure IvCfg where
  opening : String
  closing : String
  delimiter : String
  partialCredit : Bool
  deriving Repr

def IvCfg.sl (c : IvCfg) : SLCfg := ⟨true, true, true, c.partialCredit, c.delimiter, false⟩

def quoteList (s : String) : String := "', '".intercalate (s.toList.map (fun c => String.singleton c))

/-- `IntervalGrader.check_response(answer, student_input)`: `opn`/`cls` the validated bracket answers, `lo`/`hi` the answers for
    the two bounds (handed to the subgrader's `check`) -/
def intervalCheckResponse (cfg : IvCfg) (sub : α → String → M IRes) (m : AnsMeta) (opn : List BrAns) (lo hi : α) (cls : List BrAns)
    (inp : String) : M IRes := do
  let s := pyStrip inp
  if s.length < 5 then throw (.config ("Unable to read interval from answer: \"" ++ s ++ "\""))
  let cs := s.toList
  let o := String.singleton (cs.headD ' ')
  let c := String.singleton (cs.getLastD ' ')
  let mid := String.ofList ((cs.drop 1).dropLast)
  if !(cfg.opening.toList.contains (cs.headD ' ')) then
    throw (.mitx "InvalidInput" ("Invalid opening bracket: '" ++ o ++ "'. Valid options are: '" ++ quoteList cfg.opening ++ "'."))
  if !(cfg.closing.toList.contains (cs.getLastD ' ')) then
    throw (.mitx "InvalidInput" ("Invalid closing bracket: '" ++ c ++ "'. Valid options are: '" ++ quoteList cfg.closing ++ "'."))
  let gl ← slGradeList cfg.sl sub [lo, hi] mid
  match gl with
  | [g0, g1] => pure (processGradeList cfg.sl [gradeBracket opn o g0, gradeBracket cls c g1] 2 m)
  | _ => throw (.py "IndexError" "list index out of range")

end Gr

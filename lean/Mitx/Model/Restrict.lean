import Mitx.Model.Depend
import Mitx.Model.Attempt
import Mitx.Parser.Usage
/-! Executable model of the restrictions on student formulas (helpers/math_helpers.py): `validate_forbidden_strings_not_used`,
`validate_required_functions_used`, `validate_only_permitted_functions_used`, `get_permitted_functions`,
`check_math_response` / `post_eval_validation`, the student scope of `gen_evaluations`, and `MathExpression.check_scope`
(expressions.py). Names used by a formula are the usage sets of the C10 parser. Core Lean only. -/
namespace Rs
open C03 (Kind Sc)

/-- `s.replace(' ', '')` -/
def stripSpaces (s : List Char) : List Char := s.filter (· != ' ')

def isPrefix : List Char → List Char → Bool
  | [], _ => true
  | _ :: _, [] => false
  | a :: as, b :: bs => a == b && isPrefix as bs

/-- Python `needle in hay` for strings -/
def isSubstr (needle : List Char) : List Char → Bool
  | [] => needle.isEmpty
  | c :: r => isPrefix needle (c :: r) || isSubstr needle r

/-- does some expression contain some forbidden string, both compared without spaces? -/
def forbiddenUsed (exprs forbidden : List String) : Bool :=
  exprs.any (fun e => forbidden.any (fun f => isSubstr (stripSpaces f.toList) (stripSpaces e.toList)))

/-- the `whitelist` option: `[]`, `[None]`, or a list of names -/
inductive Whitelist
  | unset
  | nothing
  | only (l : List String)
  deriving Repr

/-- membership in `get_permitted_functions(default_funcs, whitelist, blacklist, always_allowed)` -/
def isPermitted (defaults : List String) (wl : Whitelist) (blacklist always : List String) (f : String) : Bool :=
  match wl with
  | .unset => (always.contains f || defaults.contains f) && !blacklist.contains f
  | .nothing => always.contains f
  | .only l => always.contains f || l.contains f

inductive Refusal
  | forbidden                                  -- InvalidInput(forbidden_message)
  | missingRequired (f : String)               -- InvalidInput "Answer must contain the function f"
  | notPermitted (fs : List String)            -- InvalidInput "function(s) ... not permitted in answer" (sorted)
  deriving DecidableEq, Repr

structure Cfg where
  defaults : List String
  whitelist : Whitelist
  blacklist : List String
  userFuncs : List String
  forbidden : List String
  required : List String

/-- `post_eval_validation(expr, used_funcs)`: forbidden strings, then required functions, then permitted functions -/
def postEval (cfg : Cfg) (exprs : List String) (used : List String) : Option Refusal :=
  if forbiddenUsed exprs cfg.forbidden then some .forbidden
  else match cfg.required.find? (fun f => !used.contains f) with
    | some f => some (.missingRequired f)
    | none =>
      let bad := used.filter (fun f => !isPermitted cfg.defaults cfg.whitelist cfg.blacklist cfg.userFuncs f)
      if bad.isEmpty then none else some (.notPermitted (Dp.sortedSet bad))

/-- `check_math_response`: validation runs whenever credit is awarded -/
def checkMath (cfg : Cfg) (raw : At.Res) (exprs : List String) (used : List String) : Except Refusal At.Res :=
  if raw.ok = .yes ∨ raw.ok = .part ∨ raw.grade > 0 then
    match postEval cfg exprs used with
    | some r => .error r
    | none => .ok raw
  else .ok raw

inductive ScopeErr
  | undefinedVariable (names : List String)
  | undefinedFunction (names : List String)
  | undefinedSuffix (names : List String)       -- raised as UndefinedFunction "not permitted directly after a number"
  deriving DecidableEq, Repr

def pick (k : Kind) (sc : Sc) : List String := (sc.filter (fun p => p.1 == k)).map (·.2)

/-- `MathExpression.check_scope`: variables, then functions, then suffixes -/
def checkScope (vars funcs sufs : String → Bool) (sc : Sc) : Option ScopeErr :=
  let bv := (pick .var sc).filter (fun v => !vars v)
  if !bv.isEmpty then some (.undefinedVariable (Dp.sortedSet bv))
  else
    let bf := (pick .func sc).filter (fun v => !funcs v)
    if !bf.isEmpty then some (.undefinedFunction (Dp.sortedSet bf))
    else
      let bs := (pick .suf sc).filter (fun v => !sufs v)
      if !bs.isEmpty then some (.undefinedSuffix (Dp.sortedSet bs)) else none

/-- the variable scope the student's formula is evaluated in: the sample's names (variables, numbered instances,
dependents, unshadowed constants) minus instructor-only variables and sibling variables -/
def studentScope (sampleNames instructor siblings : List String) (v : String) : Bool :=
  sampleNames.contains v && !(instructor.contains v && sampleNames.contains v) && !siblings.contains v

end Rs

namespace Rs
open C03
/-! ### SumGrader / IntegralGrader: which scope each entry of the student's evaluation sees (fix F13) -/

/-- the entries of a summation / integration problem that are formulas -/
inductive Entry | lower | upper | body
  deriving DecidableEq, Repr

/-- the scope an entry is evaluated in during the STUDENT's evaluation: entries the student types (`input_positions[key]` set) see the
sample with the instructor variables scrubbed; entries taken from the author's answer see the whole sample -/
def entryScope (sample instr : List String) (asked : Entry → Bool) (e : Entry) (v : String) : Bool :=
  if asked e then studentScope sample instr [] v else sample.contains v

/-- the dummy (summation / integration) variable is bound while the body is evaluated -/
def bodyScope (sample instr : List String) (asked : Entry → Bool) (dummy : String) (v : String) : Bool :=
  v == dummy || entryScope sample instr asked .body v

/-- `get_limits_and_funcs` (lower, then upper) followed by the evaluation of the summand / integrand: the first scope error, with its entry -/
def sumScopeCheck (sample instr : List String) (funcs sufs : String → Bool) (asked : Entry → Bool) (dummy : String)
    (scLower scUpper scBody : Sc) : Option (Entry × ScopeErr) :=
  match checkScope (entryScope sample instr asked .lower) funcs sufs scLower with
  | some e => some (.lower, e)
  | none =>
    match checkScope (entryScope sample instr asked .upper) funcs sufs scUpper with
    | some e => some (.upper, e)
    | none => (checkScope (bodyScope sample instr asked dummy) funcs sufs scBody).map (fun e => (.body, e))

end Rs

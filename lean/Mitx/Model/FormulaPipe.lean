import Mitx.Model.EvalQ
import Mitx.Model.Tol
/-! The whole default-comparer pipeline of `FormulaGrader` for scalar formulas over exact rationals (formulagrader.py
`gen_evaluations` + `raw_check` + `consolidate_results`): parse the author's and the student's strings, evaluate BOTH on EVERY
sample — the same sample for the two, the student's scope without the instructor-only variables — compare each pair within
tolerance and consolidate. Composition of the parser model (C03/C10), the rational evaluator and the tolerance model (C04). -/
namespace FP
open C03 EvQ Tl

/-- `evaluator(formula, variables=sample, ...)[0]` with `check_scope` -/
def evalOn (s : String) (env : Env) : QV :=
  match lex s with
  | none => .err "parse"
  | some ts =>
    match parseUsage ts with
    | none => .err "parse"
    | some (t, sc) => evalChecked env t sc

/-- the student's scope: the sample without the instructor-only variables -/
def studentEnv (hidden : List String) (env : Env) : Env := { env with vars := env.vars.filter (fun p => !hidden.contains p.1) }

/-- one sample: the author's value in the full scope, the student's value in the restricted scope — on the SAME sample -/
def samplePair (answer student : String) (hidden : List String) (env : Env) : Except String (Val × Val) :=
  match evalOn answer env with
  | .err k => .error ("author:" ++ k)
  | .val a =>
    match evalOn student (studentEnv hidden env) with
    | .err k => .error ("student:" ++ k)
    | .val s => .ok (.num ⟨a, 0⟩, .num ⟨s, 0⟩)

/-- `gen_evaluations`: one pair per sample, in sample order -/
def genEvaluations (answer student : String) (hidden : List String) (samples : List Env) : Except String (List (Val × Val)) :=
  samples.mapM (samplePair answer student hidden)

/-- the verdict of a FormulaGrader call with the default comparer -/
def pipeline (answer student : String) (hidden : List String) (samples : List Env) (tol : Tolerance) (ans : At.Res) (failable : Nat) :
    Except String (Option At.Res) :=
  (genEvaluations answer student hidden samples).map (fun pairs => formulaGrade pairs tol ans failable)

end FP

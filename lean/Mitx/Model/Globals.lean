/-! Process-wide switch `MathArray._negative_powers` and the context manager `MathArray.enable_negative_powers`
(math_array.py 338-375) as used by `MatrixGrader.check_response` (matrixgrader.py 118-121); and the object-identity
model of `ObjectWithSchema.coerce2unicode` (baseclasses.py), the defensive deep copy that separates a grader's
configuration from the author's objects. Core Lean only. -/
namespace Gl

/-! ### the negative-power switch -/

def defaultNP : Bool := true

/-- outcome of a `with` body -/
inductive Beh (α : Type)
  | ret (a : α)
  | raise (e : String)
  deriving Repr

/-- `with MathArray.enable_negative_powers(v): body` — `body` runs with the switch as it finds it and may itself change it
    (e.g. a nested grader call); the `finally` clause restores the *default*, whether the body returns or raises -/
def withNP {α : Type} (v : Bool) (body : Bool → Bool × Beh α) (_flag : Bool) : Bool × Beh α :=
  let r := body v
  (defaultNP, r.2)

/-- the tempting rewrite without `try/finally`: the teardown is skipped when the body raises -/
def withNP_noFinally {α : Type} (v : Bool) (body : Bool → Bool × Beh α) (_flag : Bool) : Bool × Beh α :=
  let r := body v
  match r.2 with
  | .ret a => (defaultNP, .ret a)
  | .raise e => (r.1, .raise e)

/-- one MatrixGrader call in a history: its configured switch value and what its checking does -/
structure MCall (α : Type) where
  cfg : Bool
  body : Bool → Bool × Beh α

def runCalls {α : Type} (flag : Bool) : List (MCall α) → Bool
  | [] => flag
  | c :: cs => runCalls (withNP c.cfg c.body flag).1 cs

/-! ### configuration objects with identity -/

/-- Python values as the constructor sees them: lists and dicts are mutable objects with an identity; strings, numbers
    and tuples are immutable (a tuple still *holds* references); anything else (grader objects, functions, sampling
    sets) is opaque and shared by reference -/
inductive PV
  | atom (s : String)
  | list (id : Nat) (items : List PV)
  | dict (id : Nat) (items : List (String × PV))
  | tuple (items : List PV)
  | opaque (id : Nat)
  deriving Repr, Inhabited

mutual
/-- `coerce2unicode(obj)`: rebuilds every dict, list and tuple — fresh objects for the mutable ones -/
def coerce (n : Nat) : PV → Nat × PV
  | .atom s => (n, .atom s)
  | .list _ items => let r := coerceL (n + 1) items; (r.1, .list n r.2)
  | .dict _ items => let r := coerceD (n + 1) items; (r.1, .dict n r.2)
  | .tuple items => let r := coerceL n items; (r.1, .tuple r.2)
  | .opaque i => (n, .opaque i)
def coerceL (n : Nat) : List PV → Nat × List PV
  | [] => (n, [])
  | x :: xs => let a := coerce n x; let b := coerceL a.1 xs; (b.1, a.2 :: b.2)
def coerceD (n : Nat) : List (String × PV) → Nat × List (String × PV)
  | [] => (n, [])
  | (k, x) :: xs => let a := coerce n x; let b := coerceD a.1 xs; (b.1, (k, a.2) :: b.2)
end

/-- the variant that returns tuples (and strings) as they are: lists inside a tuple stay shared -/
def coerceKeepTuples (n : Nat) : PV → Nat × PV
  | .tuple items => (n, .tuple items)
  | v => coerce n v

mutual
/-- identities of the mutable containers reachable from a value -/
def mutIds : PV → List Nat
  | .atom _ => []
  | .list i items => i :: mutIdsL items
  | .dict i items => i :: mutIdsD items
  | .tuple items => mutIdsL items
  | .opaque _ => []
def mutIdsL : List PV → List Nat
  | [] => []
  | x :: xs => mutIds x ++ mutIdsL xs
def mutIdsD : List (String × PV) → List Nat
  | [] => []
  | (_, x) :: xs => mutIds x ++ mutIdsD xs
end

mutual
/-- the value with identities erased (what `==` compares) -/
def shape : PV → PV
  | .atom s => .atom s
  | .list _ items => .list 0 (shapeL items)
  | .dict _ items => .dict 0 (shapeD items)
  | .tuple items => .tuple (shapeL items)
  | .opaque i => .opaque i
def shapeL : List PV → List PV
  | [] => []
  | x :: xs => shape x :: shapeL xs
def shapeD : List (String × PV) → List (String × PV)
  | [] => []
  | (k, x) :: xs => (k, shape x) :: shapeD xs
end

end Gl

import Mitx.Model.ParserState
/-! Object-identity model of the `MathParser` mechanism (expressions.py `raw_parse` / `reset_storage`): the three usage
sets are *objects*; parse actions mutate the objects currently bound to the parser; a successful parse builds a
`MathExpression` holding **the same objects**; `finally: reset_storage()` either rebinds the parser's attributes to fresh
empty sets (what the code does) or — the tempting rewrite — clears the objects in place. Core Lean only. -/
namespace PH
open C03 PS

inductive ResetMode | rebind | clear
  deriving DecidableEq, Repr

structure HSt where
  heap : List (Nat × Sc)              -- object store (first binding wins)
  next : Nat                          -- next fresh object id
  scratch : Nat                       -- object currently bound to parser.variables_used / functions_used / suffixes_used
  cache : List (String × (T × Nat))   -- cached expressions: tree + id of the set object they hold

def hget (h : List (Nat × Sc)) (i : Nat) : Sc := (h.lookup i).getD []
def hset (h : List (Nat × Sc)) (i : Nat) (v : Sc) : List (Nat × Sc) := (i, v) :: h

def init : HSt := { heap := [(0, [])], next := 1, scratch := 0, cache := [] }

/-- what an observer reads through an expression -/
def readExpr (st : HSt) (e : T × Nat) : Expr := (e.1, hget st.heap e.2)

/-- `raw_parse(key)`: the grammar mutates the scratch object; the expression aliases it; then `reset_storage` -/
def rawParse (mode : ResetMode) (st : HSt) (key : String) : HSt × Option (T × Nat) :=
  let run := runOn (hget st.heap st.scratch) key
  let heap1 := hset st.heap st.scratch run.2
  let res := run.1.map (fun t => (t, st.scratch))
  match mode with
  | .rebind => ({ st with heap := hset heap1 st.next [], next := st.next + 1, scratch := st.next }, res)
  | .clear => ({ st with heap := hset heap1 st.scratch [] }, res)

inductive HOutcome
  | ok (e : T × Nat)
  | unableToParse (original : String)
  deriving Inhabited

def parse (mode : ResetMode) (st : HSt) (s : String) : HSt × HOutcome :=
  let key := stripSpaces s
  match st.cache.lookup key with
  | some e => (st, .ok e)
  | none =>
    match rawParse mode st key with
    | (st', some e) => ({ st' with cache := (key, e) :: st'.cache }, .ok e)
    | (st', none) => (st', .unableToParse s)

def runHistory (mode : ResetMode) (st : HSt) (h : List String) : HSt := h.foldl (fun st s => (parse mode st s).1) st

/-- the value-level state an observer can reconstruct (the model of `Mitx/Model/ParserState.lean`) -/
def abs (st : HSt) : PS.St :=
  { cache := st.cache.map (fun p => (p.1, readExpr st p.2)), scratch := hget st.heap st.scratch }

def absOut (st : HSt) : HOutcome → PS.Outcome
  | .ok e => .ok (readExpr st e)
  | .unableToParse o => .unableToParse o

end PH

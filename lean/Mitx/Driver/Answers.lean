import Mitx.Driver.Proto
import Mitx.Driver.Attempt
import Mitx.Model.Answers
namespace Drv
open Lean Proto Av

def expOfJson (j : Json) : Except String (Exp (Option String)) := do
  let ent := fun (e : Json) => match e with
    | .str s => pure (some s)
    | _ => pure (none : Option String)
  match j.getObjVal? "one" with
  | .ok e => do pure (.one (← ent e))
  | .error _ => do pure (.tuple (← (← getArr (← field j "tuple")).mapM ent))

def okInOfJson (j : Json) : Except String OkIn :=
  match j with
  | .str "computed" => pure .computed
  | .str "partial" => pure .part
  | .bool true => pure .yes
  | .bool false => pure .no
  | _ => throw "bad ok"

def optJ {α : Type} (f : Json → Except String α) (j : Json) : Except String (Option α) :=
  match j with
  | .null => pure none
  | x => do pure (some (← f x))

/-- op `validate_answers`: `ItemGrader.schema_answers` for a grader whose expect entries are texts (StringGrader) -/
def validateAnswers (j : Json) : Except String Json := do
  let raws ← getList (fun a => do
    match a.getObjVal? "bare" with
    | .ok e => do pure (Raw.bare (← expOfJson e))
    | .error _ => do
      let d ← field a "dict"
      pure (Raw.dict (← optJ expOfJson (fieldD d "expect" Json.null)) (← optJ getRat (fieldD d "grade" Json.null))
        (← optJ getStr (fieldD d "msg" Json.null)) (← optJ okInOfJson (fieldD d "ok" Json.null)) (← getBool (fieldD d "unknown" (Json.bool false))))) (← field j "answers")
  match schemaAnswers (fun (e : Option String) => e) none raws with
  | none => pure (Json.mkObj [("out", Json.null)])
  | some cs => pure (Json.mkObj [("out", jList (fun c => Json.mkObj [("expect", jList Json.str c.expect), ("grade_decimal", jRat c.grade),
      ("msg", Json.str c.msg), ("ok", okToJson c.ok)]) cs)])

end Drv

import Mitx.Driver.Tol
import Mitx.Driver.Parser
import Mitx.Model.SumG
namespace Drv
open Lean Proto C03 Sm

/-- a rational with an "evaluation failed" flag, so that a failing summand is visible after the pure summation -/
structure QE where
  v : Rat
  bad : Bool
instance : Add QE := ⟨fun a b => ⟨a.v + b.v, a.bad || b.bad⟩⟩
instance : Zero QE := ⟨⟨0, false⟩⟩

def limValOfJson (j : Json) : Except String LimVal :=
  match j with
  | .str "inf" => pure .pinf
  | .str "-inf" => pure .ninf
  | .str "complex" => pure .complex
  | x => do pure (.real (← getRat x))

def errJson : Sm.Err → Json
  | .summation m => Json.mkObj [("err", Json.arr #[Json.str "SummationError", Json.str m])]
  | .config m => Json.mkObj [("err", Json.arr #[Json.str "ConfigError", Json.str m])]
  | .missing m => Json.mkObj [("err", Json.arr #[Json.str "MissingInput", Json.str m])]
  | .invalid m => Json.mkObj [("err", Json.arr #[Json.str "InvalidInput", Json.str m])]

/-- `evaluate_sum` with the summand given as a formula in the summation variable -/
def sumOp (j : Json) : Except String Json := do
  let formula ← getStr (← field j "summand")
  let var ← getStr (← field j "var")
  let vars ← pairs (← field j "vars")
  let lo ← limValOfJson (← field j "lower")
  let hi ← limValOfJson (← field j "upper")
  let eo ← getNat (← field j "even_odd")
  let c1 ← getInt (← field j "infty")
  let c2 ← getInt (fieldD j "infty_fact" (Json.num 80))
  let uf ← getBool (fieldD j "uses_fact" (Json.bool false))
  match lex formula with
  | none => pure (Json.mkObj [("err", Json.arr #[Json.str "parse"])])
  | some ts =>
    match parseUsage ts with
    | none => pure (Json.mkObj [("err", Json.arr #[Json.str "parse"])])
    | some (t, sc) =>
      let f : Int → QE := fun n =>
        match EvQ.evalChecked { vars := (var, (n : Rat)) :: vars, sufs := [] } t sc with
        | .val q => ⟨q, false⟩
        | .err _ => ⟨0, true⟩
      match evaluateSum (vars.map (·.1)) var lo hi uf c1 c2 eo f with
      | .ok r => if r.bad then pure (Json.mkObj [("err", Json.arr #[Json.str "summand"])]) else pure (Json.mkObj [("out", jRat r.v)])
      | .error e => pure (errJson e)

def optNat (j : Json) : Except String (Option Nat) :=
  match j with
  | .null => pure none
  | x => do pure (some (← getNat x))

def fieldsOf {α : Type} (g : Json → Except String α) (j : Json) : Except String (Fields α) := do
  pure ⟨← g (← field j "lower"), ← g (← field j "upper"), ← g (← field j "summand"), ← g (← field j "summation_variable")⟩

def fieldsJson {α : Type} (g : α → Json) (x : Fields α) : Json :=
  Json.mkObj [("lower", g x.lower), ("upper", g x.upper), ("summand", g x.summand), ("summation_variable", g x.var)]

def sumPositions (j : Json) : Except String Json := do
  let p ← fieldsOf optNat (← field j "positions")
  match validatePositions p with
  | .ok q => pure (Json.mkObj [("out", fieldsJson (fun o => match o with | none => Json.null | some n => jNat n) q)])
  | .error e => pure (errJson e)

def sumPrecheck (j : Json) : Except String Json := do
  let p ← fieldsOf optNat (← field j "positions")
  let a ← fieldsOf getStr (← field j "answers")
  let st ← getList getStr (← field j "student")
  let meaning ← getList getStr (← field j "meaning")
  let invalid ← getList getStr (← field j "invalid")
  match precheck p a st (fun v => meaning.contains v) (fun v => !invalid.contains v) with
  | .ok s => pure (Json.mkObj [("out", fieldsJson Json.str s)])
  | .error e => pure (errJson e)

end Drv

import Mitx.Driver.Proto
import Mitx.Model.CallState
namespace Drv
open Lean Proto CS

def mkP (valid : List (String × Bool)) (errV : List (String × String)) (textOK : List (String × Bool))
    (errT : List (String × String)) (grade : List ((String × String) × String)) (gradeNone : List (String × String)) : P where
  Ans := String
  Out := String
  validate := fun e => if (valid.lookup e).getD false then some e else none
  errValidate := fun e => (errV.lookup e).getD "?"
  textOK := fun i => (textOK.lookup i).getD true
  errText := fun i => (errT.lookup i).getD "?"
  grade := fun a i => (grade.lookup (a, i)).getD "?"
  gradeNone := fun i => (gradeNone.lookup i).getD "?"

/-- op `call_hist`: the call state machine instantiated with outcome tables measured on fresh graders -/
def callHist (j : Json) : Except String Json := do
  let valid ← getList (fun e => do
    match (← getArr e) with
    | [a, b] => do pure ((← getStr a), (← getBool b))
    | _ => throw "pair") (← field j "valid")
  let errV ← getList (fun e => do
    match (← getArr e) with
    | [a, b] => do pure ((← getStr a), (← getStr b))
    | _ => throw "pair") (← field j "err_validate")
  let textOK ← getList (fun e => do
    match (← getArr e) with
    | [a, b] => do pure ((← getStr a), (← getBool b))
    | _ => throw "pair") (← field j "text_ok")
  let errT ← getList (fun e => do
    match (← getArr e) with
    | [a, b] => do pure ((← getStr a), (← getStr b))
    | _ => throw "pair") (← field j "err_text")
  let grade ← getList (fun e => do
    match (← getArr e) with
    | [a, b, c] => do pure (((← getStr a), (← getStr b)), (← getStr c))
    | _ => throw "triple") (← field j "grade")
  let gradeNone ← getList (fun e => do
    match (← getArr e) with
    | [a, b] => do pure ((← getStr a), (← getStr b))
    | _ => throw "pair") (← field j "grade_none")
  let cfgAns : Option String ← match fieldD j "configured" Json.null with
    | .null => pure none
    | x => do pure (some (← getStr x))
  let p : P := mkP valid errV textOK errT grade gradeNone
  let calls ← getList (fun e => do
    match (← getArr e) with
    | [a, b] => do
        let ex : Option String ← match a with | .null => pure none | x => do pure (some (← getStr x))
        pure (ex, (← getStr b))
    | _ => throw "pair") (← field j "calls")
  let step := fun (acc : St p × List Json) (c : Option String × String) =>
    let r := call p acc.1 c.1 c.2
    (r.1, acc.2 ++ [Json.mkObj [("out", Json.str r.2.1), ("log", jList Json.str r.2.2)]])
  let (_, outs) := calls.foldl step (fresh p cfgAns, [])
  pure (Json.mkObj [("out", Json.arr outs.toArray)])

end Drv

import Mitx.Driver.Tol
import Mitx.Model.MathArray
namespace Drv
open Lean Proto Tl Ma

def avOfJson (j : Json) : Except String AV :=
  match j.getObjVal? "num" with
  | .ok n => do pure (.num (← cOfJson n))
  | .error _ => do
      let a ← field j "arr"
      pure (.arr (← getList getNat (← field a "shape")) (← getList cOfJson (← field a "data")))

def cToJson (z : C) : Json := Json.arr #[jRat z.re, jRat z.im]

def avToJson : AV → Json
  | .num z => Json.mkObj [("num", cToJson z)]
  | .arr s d => Json.mkObj [("arr", Json.mkObj [("shape", jList jNat s), ("data", jList cToJson d)])]

def rToJson : R → Json
  | .ok v => Json.mkObj [("out", avToJson v)]
  | .error (.shape m) => Json.mkObj [("err", Json.arr #[Json.str "shape", Json.str m])]
  | .error (.math m) => Json.mkObj [("err", Json.arr #[Json.str "math", Json.str m])]
  | .error .zeroDiv => Json.mkObj [("err", Json.arr #[Json.str "zeroDiv"])]
  | .error .outside => Json.mkObj [("err", Json.arr #[Json.str "outside"])]

def marr (j : Json) : Except String Json := do
  let a ← avOfJson (← field j "a")
  let b ← avOfJson (← field j "b")
  let np ← getBool (fieldD j "neg_powers" (Json.bool true))
  let ct ← getBool (fieldD j "complex_exp" (Json.bool false))
  match (← getStr (← field j "o")) with
  | "add" => pure (rToJson (add a b))
  | "sub" => pure (rToJson (sub a b))
  | "mul" => pure (rToJson (mul a b))
  | "div" => pure (rToJson (div a b))
  | "pow" => pure (rToJson (pow np a b ct))
  | o => .error s!"unknown operator {o}"

def mprod (j : Json) : Except String Json := do
  let first ← avOfJson (← field j "first")
  let rest ← getList (fun e => do
    match (← getArr e) with
    | [o, v] => do
        let op ← match (← getStr o) with | "*" => pure POp.times | "/" => pure POp.over | _ => .error "op"
        pure (op, ← avOfJson v)
    | _ => .error "pair expected") (← field j "rest")
  pure (rToJson (evalProduct first rest))

end Drv

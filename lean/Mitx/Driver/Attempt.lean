import Mitx.Driver.Proto
import Mitx.Model.Attempt
namespace Drv
open Lean Proto At

def okToJson : Ok → Json
  | .yes => Json.bool true
  | .no => Json.bool false
  | .part => Json.str "partial"

def okOfJson (j : Json) : Except String Ok :=
  match j with
  | .bool true => .ok .yes
  | .bool false => .ok .no
  | .str "partial" => .ok .part
  | _ => .error "bad ok"

def resOfJson (j : Json) : Except String Res := do
  pure { ok := ← okOfJson (← field j "ok"), grade := ← getRat (← field j "grade_decimal"), msg := ← getStr (← field j "msg") }

def resToJson (r : Res) : Json :=
  Json.mkObj [("ok", okToJson r.ok), ("grade_decimal", jRat r.grade), ("msg", Json.str r.msg)]

def outOfJson (j : Json) : Except String Out :=
  match j.getObjVal? "input_list" with
  | .ok l => do pure (.list (← getStr (← field j "overall_message")) (← getList resOfJson l))
  | .error _ => do pure (.single (← resOfJson j))

def outToJson : Out → Json
  | .single r => resToJson r
  | .list ov rs => Json.mkObj [("overall_message", Json.str ov), ("input_list", jList resToJson rs)]

/-- a schedule description: built-in with parameters, or an explicit table (author-defined schedule) -/
def schedOfJson (j : Json) : Except String (Int → Option Rat) := do
  let kind ← getStr (← field j "kind")
  match kind with
  | "linear" => do
      let a ← getNat (← field j "after"); let s ← getNat (← field j "steps"); let m ← getRat (← field j "min")
      pure (fun n => some (linearCredit a s m n))
  | "geometric" => do
      let f ← getRat (← field j "factor")
      pure (fun n => if n < 1 then none else some (geometricCredit f n))
  | "reciprocal" => pure (fun n => if n < 1 then none else some (reciprocalCredit n))
  | "table" => do
      let tab ← getList (fun e => do
        let l ← getArr e
        match l with
        | [a, b] => do pure ((← getInt a), (← getRat b))
        | _ => .error "pair expected") (← field j "tab")
      pure (fun n => (tab.find? (fun p => p.1 == n)).map (·.2))
  | _ => .error "unknown schedule kind"

def sched (j : Json) : Except String Json := do
  let s ← schedOfJson (← field j "sched")
  let n ← getInt (← field j "attempt")
  match s n with
  | some v => pure (Json.mkObj [("out", jRat v)])
  | none => pure (Json.mkObj [("out", Json.null)])

def applyAtt (j : Json) : Except String Json := do
  let s ← schedOfJson (← field j "sched")
  let flag ← getBool (← field j "flag")
  let att : Option Int ← match (← field j "attempt") with
    | .null => pure none
    | a => do pure (some (← getInt a))
  let out ← outOfJson (← field j "result")
  -- the schedule must be defined at the (clamped) attempt the model asks for
  let n' : Int := match att with | some n => if n < 1 then 1 else n | none => 1
  match att, s n' with
  | some _, none => pure (Json.mkObj [("out", Json.null), ("undefined_at", jInt n')])
  | _, _ =>
    match applyAttempt (fun n => (s n).getD 0) flag att out with
    | .ok o => pure (Json.mkObj [("out", outToJson o)])
    | .error .configMissingAttempt => pure (Json.mkObj [("err", Json.str "ConfigError:missing-attempt")])

end Drv

import Mitx.Driver.Proto
import Mitx.Model.Defaults
namespace Drv
open Lean Proto Rd

def dictOfJson (j : Json) : Except String Dict :=
  getList (fun kv => do
    match (← getArr kv) with
    | [k, v] => do pure ((← getStr k), (← getStr v))
    | _ => throw "kv expected") j

def dictToJson (d : Dict) : Json := Json.arr (d.map (fun kv => Json.arr #[Json.str kv.1, Json.str kv.2])).toArray

/-- op `defaults_hist`: `cells` = the registered dictionaries [[id, dict]..]; `calls` = constructions [chain, config] where chain lists an id or
null per class (most specific first). Returns, per call, the identity and contents of the configuration, and the registered dictionaries at the end. -/
def defaultsHist (j : Json) : Except String Json := do
  let cells ← getList (fun c => do
    match (← getArr c) with
    | [i, d] => do pure ((← getNat i), (← dictOfJson d))
    | _ => throw "cell expected") (← field j "cells")
  let next ← getNat (← field j "next")
  let calls ← getList (fun c => do
    match (← getArr c) with
    | [ch, cfg] => do
      let chain ← getList (fun e => match e with
        | .null => pure none
        | x => do pure (some (← getNat x))) ch
      pure (chain, (← dictOfJson cfg))
    | _ => throw "call expected") (← field j "calls")
  let step := fun (acc : Heap × List Json) (c : List (Option Nat) × Dict) =>
    let r := applyDefaults acc.1 c.1 c.2
    (r.1, acc.2 ++ [Json.arr #[jNat r.2, dictToJson (r.1.get r.2)]])
  let (h', outs) := calls.foldl step (⟨cells, next⟩, [])
  pure (Json.mkObj [("out", Json.arr outs.toArray),
    ("cells", Json.arr (cells.map (fun c => Json.arr #[jNat c.1, dictToJson (h'.get c.1)])).toArray)])

end Drv

import Mitx.Driver.Proto
import Mitx.Model.Domain
namespace Drv
open Lean Proto Dm

def specOfJson (j : Json) : Except String Spec :=
  match j with
  | .str "scalar" => pure .scalar
  | .str "square" => pure .square
  | x => do pure (.shape (← getList getNat x))

def argOfJson (j : Json) : Except String Arg :=
  match j with
  | .str "number" => pure .number
  | .str "other" => pure .other
  | x => do pure (.array (← getList getNat x))

def domainOp (j : Json) : Except String Json := do
  let shapes ← getList specOfJson (← field j "shapes")
  let ml ← match (← field j "min_length") with
    | .null => pure none
    | x => do pure (some (← getNat x))
  let args ← getList argOfJson (← field j "args")
  match decorated shapes ml args with
  | .ok _ => pure (Json.mkObj [("out", Json.str "called")])
  | .error (.argument e r al) => pure (Json.mkObj [("err", Json.arr #[Json.str "ArgumentError", jNat e, jNat r, Json.bool al])])
  | .error (.argumentShape bad) => pure (Json.mkObj [("err", Json.arr #[Json.str "ArgumentShapeError", jList jNat bad])])

end Drv

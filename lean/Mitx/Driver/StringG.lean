import Mitx.Driver.Grade
import Mitx.Model.StringG
namespace Drv
open Lean Proto SG

def explainOfJson (j : Json) : Except String Explain :=
  match j with
  | .str "err" => pure .err
  | .str "msg" => pure .msg
  | .null => pure .none
  | _ => throw "bad explain"

def flagsOfJson (c : Json) : Except String Flags := do
  let a ← getBool (← field c "case_sensitive")
  let b ← getBool (← field c "strip")
  let d ← getBool (← field c "strip_all")
  let e ← getBool (← field c "clean_spaces")
  pure ⟨a, b, d, e⟩

def stringClean (j : Json) : Except String Json := do
  let f ← flagsOfJson (← field j "cfg")
  let s ← getStr (← field j "s")
  pure (Json.mkObj [("out", Json.str (String.ofList (clean lowerL f s.toList)))])

def stringCheck (j : Json) : Except String Json := do
  let c ← field j "cfg"
  let f ← flagsOfJson c
  let aa ← getBool (← field c "accept_any")
  let an ← getBool (← field c "accept_nonempty")
  let ml ← getNat (← field c "min_length")
  let mw ← getNat (← field c "min_words")
  let em ← explainOfJson (← field c "explain_minimums")
  let pat := fieldD c "validation_pattern" Json.null
  let ev ← explainOfJson (← field c "explain_validation")
  let im ← getStr (← field c "invalid_msg")
  let dbg ← getBool (← field c "debug")
  let (hasP, p) ← match pat with
    | .null => pure (false, "")
    | x => do pure (true, ← getStr x)
  let cfg : Cfg := ⟨f, aa, an, ml, mw, em, hasP, p, ev, im, dbg⟩
  let fe ← getBool (fieldD j "fm_expect" (Json.bool true))
  let fs ← getBool (fieldD j "fm_student" (Json.bool true))
  let g ← getRat (← field j "grade_decimal")
  let m ← getStr (← field j "msg")
  let o ← okOfJson (← field j "ok")
  let ex ← getStr (← field j "expect")
  let st ← getStr (← field j "student")
  match checkResponse lowerL cfg fe fs ⟨g, m, o⟩ ex st with
  | .ok r => pure (Json.mkObj [("out", iresToJson r)])
  | .error e => pure (errToJson e)

end Drv

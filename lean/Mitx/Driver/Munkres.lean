import Mitx.Driver.Proto
import Mitx.Model.Munkres
namespace Drv
open Lean Proto

def munkres (j : Json) : Except String Json := do
  let m ← getList (getList getRat) (← field j "m")
  match Mk.compute m with
  | none => pure (Json.mkObj [("out", Json.null)])
  | some ps => pure (Json.mkObj [("out", jList (fun (p : Nat × Nat) => Json.arr #[jNat p.1, jNat p.2]) ps)])

end Drv

import Mitx.Driver.Proto
import Mitx.Model.Munkres
import Mitx.Model.MunkresHeap
namespace Drv
open Lean Proto

def munkres (j : Json) : Except String Json := do
  let m ← getList (getList getRat) (← field j "m")
  match Mk.compute m with
  | none => pure (Json.mkObj [("out", Json.null)])
  | some ps => pure (Json.mkObj [("out", jList (fun (p : Nat × Nat) => Json.arr #[jNat p.1, jNat p.2]) ps)])

/-- op `munkres_heap`: the object-identity model: caller rows get identities 0..r-1; returns the pairs, the final contents of `self.C`,
    the identities of its rows, and the caller's matrix as read back from the heap afterwards -/
def munkresHeap (j : Json) : Except String Json := do
  let m ← getList (getList getRat) (← field j "m")
  let r := m.length
  let h : MkH.Heap := ⟨fun id k => (m.getD id []).getD k 0, fun id => (m.getD id []).length, r⟩
  let caller := List.range r
  match MkH.finalState (MkH.readMatrix h caller), MkH.computeH .copy h caller with
  | some s, some (h', out) =>
    let ids := (List.range s.n).map (MkH.workId .copy h caller s.n)
    pure (Json.mkObj [("out", jList (fun (p : Nat × Nat) => Json.arr #[jNat p.1, jNat p.2]) out),
      ("finalC", jList (fun id => jList (fun k => jRat (h'.row id k)) (List.range s.n)) ids),
      ("fresh", Json.bool (ids.all (fun id => decide (r ≤ id)))),
      ("caller", jList (fun row => jList jRat row) (MkH.readMatrix h' caller))])
  | _, _ => pure (Json.mkObj [("out", Json.null)])

end Drv
